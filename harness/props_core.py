"""Properties C01, C03, C04, C05, C07, C08: case generation, protocol lines, verdict per case."""
import random, itertools
import gen, oracles
from oracles import F
from spec import Spec, elems


def hist_case(directed, removal, ops, ids="int", **extra):
    c = {"cls": 1 if directed else 0, "rem": 1 if removal else 0, "ops": ops, "ids": ids}
    c.update(extra)
    return c


def base_lines(case, per_op_dump=False, tail=True):
    L = [gen.header(0, case["cls"], case["rem"])]
    lo, hi = gen.window(case["ops"], 3)
    for op in case["ops"]:
        L.append(gen.op_line(0, op))
        if per_op_dump:
            L.append("dump 0")
    if tail:
        L += ["dump 0", "pres 0 %d %d" % (lo, hi), "q4 0 %d %d" % (lo, hi)]
    return L


def split_outs(case, outs, per_op_dump=False):
    n = len(case["ops"])
    i = 1
    outcomes, dumps = [], []
    for _ in range(n):
        outcomes.append(outs[i]); i += 1
        if per_op_dump:
            dumps.append(outs[i]); i += 1
    return outcomes, dumps, outs[i:]


def history_stream(tier, rng, removal, classes=(0, 1), exhaustive_len=None, n_random=None, id_schemes=("int", "str", "mix")):
    """corpus first, then exhaustive small scope, then seeded random; yields cases"""
    for d in classes:
        for h in gen.corpus_histories():
            yield hist_case(d, removal, h, src="corpus")
    ex_len = exhaustive_len if exhaustive_len is not None else (2 if tier == "quick" else 3)
    for d in classes:
        for h in gen.exhaustive_single_pair(ex_len, tmax=3 if tier == "quick" else 4, both_orders=(d == 0)):
            yield hist_case(d, removal, h, src="exh1")
        for h in gen.exhaustive_multi_pair(2 if tier == "quick" else 2, tmax=2 if tier == "quick" else 3):
            yield hist_case(d, removal, h, src="exhN")
        if d == 1:
            for h in gen.exhaustive_reciprocal(3, tmax=1 if tier == "quick" else 2):
                yield hist_case(d, removal, h, src="exhR")
    # one bulk call with a vanishing time (every pair gets the same span), then one of its pairs is prolonged or re-added:
    # the other pairs of the bunch must not move (spans of one pair never affect another pair)
    for i in range(24 if tier == "quick" else 400):
        d = classes[i % len(classes)]
        k = rng.choice([2, 3, 4])
        prs = [[2 * j + 1, 2 * j + 2] for j in range(k)]
        if i % 3 == 0:
            prs[-1] = [prs[0][1], prs[0][0]]        # the reverse orientation of the first pair
        t0 = rng.randint(-2, 4); e0 = t0 + rng.choice([1, 2, 4])
        kind = ("addfrom", "fpath", "fstar", "fcycle")[i % 4]
        first = ["addfrom", prs, t0, e0] if kind == "addfrom" else [kind, [1, 2, 3, 4][:k + 1], t0, e0]
        u, v = (prs[i % k] if kind == "addfrom" else (1, 2))
        t1 = rng.choice([e0 - 1, e0, e0, t0])       # overlapping, adjacent, same start
        h = [first, ["add", u, v, t1, rng.choice([None, t1 + 2, e0 + 3])]]
        if i % 2:
            h.append(["add", u, v, e0 + 6, None])
        yield hist_case(d, removal, h, src="bulk-then-extend")
    n = n_random if n_random is not None else (3000 if tier == "quick" else 40000)
    for i in range(n):
        d = rng.choice(classes)
        ids = id_schemes[(i // 3) % len(id_schemes)] if i % 3 == 0 else "int"
        h = gen.random_history(rng)
        if i % 29 == 7:
            h = gen.shift_times(h, 2 ** 55 + 3)       # timestamps no float can tell apart
        elif i % 29 == 11:
            h = gen.shift_times(h, -1000)             # an all-negative time axis
        yield hist_case(d, removal, h, ids=ids, src="rand")
    if tier != "quick":
        # length-3/4 single-pair sample beyond the exhaustive bound
        ops = gen.single_pair_ops(tmax=5, lens=(1, 2, 3, 4), empty=True)
        for i in range(20000):
            d = rng.choice(classes)
            yield hist_case(d, removal, [list(rng.choice(ops)) for _ in range(rng.choice([3, 4, 4, 5]))], src="rand1")


# ------------------------------------------------------------------------------------------- C01
class C01:
    id = "C01"

    @staticmethod
    def cases(tier, rng):
        return history_stream(tier, rng, True)

    @staticmethod
    def lines(case):
        L = [gen.header(0, case["cls"], 1)]
        lo, hi = gen.window(case["ops"], 2)
        L += [gen.op_line(0, op) for op in case["ops"]]
        L.append("pres 0 %d %d" % (lo, hi))
        return L

    @staticmethod
    def judge(case, outs):
        lo, hi = gen.window(case["ops"], 2)
        n = len(case["ops"])
        return oracles.c01(bool(case["cls"]), case["ops"], outs[1:1 + n], outs[1 + n], lo, hi)

    @staticmethod
    def nontrivial(case, outs):
        return sum(1 for o in outs[1:1 + len(case["ops"])] if o == "ok") >= 2


def views_lines():
    return ["tls 0"]


class C03:
    id = "C03"

    @staticmethod
    def cases(tier, rng):
        for c in history_stream(tier, rng, True):
            yield c
            # derived constructors on the same history
            if c["src"] in ("corpus", "rand") or rng.random() < 0.02:
                lo, hi = gen.window(c["ops"], 1)
                a = rng.randint(lo, hi); b = rng.randint(a, hi)
                d = dict(c); d["derive"] = [a, b]; d["src"] = c["src"] + "+derived"
                if d.get("ids") == "mix":
                    d["ids"] = "str"      # files and JSON need ids that survive str() / json
                yield d

    @staticmethod
    def lines(case):
        L = [gen.header(0, case["cls"], 1)]
        lo, hi = gen.window(case["ops"], 2)
        L += [gen.op_line(0, op) for op in case["ops"]]
        L += ["dump 0", "pres 0 %d %d" % (lo, hi), "tls 0"]
        if "derive" in case:
            a, b = case["derive"]
            L.append("slice 0 1 %d %d" % (a, b))
            L.append("toundir 0 2 0" if case["cls"] else "todir 0 2")
            L.append("snaprt 0 3"); L.append("intrt 0 4"); L.append("nlrt 0 5 0 1")
            if case["cls"]:
                L.append("toundir 0 6 1")
            for s in ([1, 2, 3, 4, 5] + ([6] if case["cls"] else [])):
                L += ["dump %d" % s, "pres %d %d %d" % (s, lo, hi), "tls %d" % s]
            # the same history on a graph created with edge_removal=False: what the library derives from it (a slice, a
            # conversion) is again a graph it produced, with canonical timelines that equal its own presence
            L.append(gen.header(7, case["cls"], 0))
            L += [gen.op_line(7, op) for op in case["ops"]]
            L.append("slice 7 8 %d %d" % (a, b))
            L.append("toundir 7 9 0" if case["cls"] else "todir 7 9")
            for s in (8, 9):
                L += ["dump %d" % s, "pres %d %d %d" % (s, lo, hi), "tls %d" % s]
        return L

    @staticmethod
    def judge(case, outs):
        lo, hi = gen.window(case["ops"], 2)
        n = len(case["ops"])
        i = 1 + n
        fails = []
        if any(o not in ("ok", "E:VE", "E:NXE") for o in outs[1:1 + n]):
            return []      # an unexpected exception is C01's business; the state is not an accepted history
        fails += oracles.c03(bool(case["cls"]), outs[i], outs[i + 1], lo, hi, outs[i + 2], "history")
        if "derive" in case:
            names = ["time_slice", "to_undirected" if case["cls"] else "to_directed", "read_snapshots", "read_interactions",
                     "node_link_graph"] + (["to_undirected(reciprocal)"] if case["cls"] else [])
            j = i + 3
            ctor = outs[j:j + len(names)]
            j += len(names)
            for nm, ok in zip(names, ctor):
                d, p, v = outs[j], outs[j + 1], outs[j + 2]; j += 3
                if ok != "ok" or oracles.is_err(d):
                    fails.append(F("C03.derived_raised", where=nm, got=ok if ok != "ok" else d))
                    continue
                fails += oracles.c03(bool(d["cls"]), d, p, lo, hi, v, nm)
            # derived from the accumulative twin: header + ops + the two constructors, then three lines per derived graph
            j += 1 + n
            ctor = outs[j:j + 2]; j += 2
            for nm, ok in zip(("time_slice of an accumulative graph", "conversion of an accumulative graph"), ctor):
                d, p, v = outs[j], outs[j + 1], outs[j + 2]; j += 3
                if ok != "ok" or oracles.is_err(d):
                    if ok not in ("E:VE",):          # an invalid window is rejected in every mode
                        fails.append(F("C03.derived_raised", where=nm, got=ok if ok != "ok" else d))
                    continue
                fails += oracles.c03(bool(d["cls"]), d, p, lo, hi, v, nm)      # whatever mode the derived graph is in
        return fails

    @staticmethod
    def nontrivial(case, outs):
        d = outs[1 + len(case["ops"])]
        return isinstance(d, dict) and any(len(tl) >= 2 or tl[0][0] != tl[0][1] for _, _, tl in d["tl"])


def reader_rows(rng):
    """rows 'u v op t' of an interaction list as a user may write it: a '-' row closes the pair's latest run at ANY later
    instant (not only right after its end), pairs reappear after a gap.  Returns (rows, lo, hi)."""
    rows, open_, t = [], {}, rng.randint(-2, 3)
    for _ in range(rng.choice([2, 4, 6, 9])):
        t += rng.choice([0, 1, 2, 3])
        u, v = rng.randint(1, 4), rng.randint(1, 4)
        k = (u, v)
        if k in open_ and open_[k] < t and rng.random() < 0.6:
            rows.append([u, v, 0, t]); open_.pop(k); open_.pop((v, u), None)
        elif k not in open_ and (v, u) not in open_:
            rows.append([u, v, 1, t]); open_[k] = t
    ts = [r[3] for r in rows] or [0]
    return rows, min(ts) - 2, max(ts) + 2


def with_reader_rows(it, rng):
    """one case in eight also carries an interaction list: the property holds for the graph read from it as well"""
    for i, c in enumerate(it):
        if i % 8 == 3 and c.get("ids", "int") == "int":
            c["rrows"] = reader_rows(rng)
        yield c


def rint_line(dst, cls, rows):
    return ("rint %d %d %d %s" % (dst, cls, len(rows), " ".join("%d %d %d %d" % tuple(r) for r in rows))).rstrip()


class C04:
    id = "C04"

    @staticmethod
    def cases(tier, rng):
        return with_reader_rows(history_stream(tier, rng, True), rng)

    @staticmethod
    def lines(case):
        L = [gen.header(0, case["cls"], 1)]
        lo, hi = gen.window(case["ops"], 2)
        L += [gen.op_line(0, op) for op in case["ops"]]
        L += ["pres 0 %d %d" % (lo, hi), "q4 0 %d %d" % (lo, hi)]
        if case.get("rrows"):
            rows, lo2, hi2 = case["rrows"]
            L += [rint_line(1, case["cls"], rows), "pres 1 %d %d" % (lo2, hi2), "q4 1 %d %d" % (lo2, hi2)]
        return L

    @staticmethod
    def judge(case, outs):
        lo, hi = gen.window(case["ops"], 2)
        n = len(case["ops"])
        fails = []
        if case.get("rrows") and outs[3 + n] == "ok" and not oracles.is_err(outs[4 + n]):
            # the graph read from an interaction list is a removal-enabled graph like any other
            rows, lo2, hi2 = case["rrows"]
            if oracles.is_err(outs[5 + n]):
                fails.append(F("C04.raised", where="graph read from an interaction list", got=outs[5 + n]))
            else:
                fails += [dict(f, clause=f["clause"] + "~read_interactions") for f in oracles.c04(bool(case["cls"]), outs[5 + n], outs[4 + n], lo2, hi2)]
        if any(o not in ("ok", "E:VE", "E:NXE") for o in outs[1:1 + n]):
            return fails
        if oracles.is_err(outs[2 + n]):
            return fails + [F("C04.raised", got=outs[2 + n])]
        return fails + oracles.c04(bool(case["cls"]), outs[2 + n], outs[1 + n], lo, hi)

    @staticmethod
    def nontrivial(case, outs):
        q = outs[2 + len(case["ops"])]
        return isinstance(q, dict) and len(q["ids"]) >= 2


class C05:
    id = "C05"

    @staticmethod
    def cases(tier, rng):
        return with_reader_rows(history_stream(tier, rng, True), rng)

    @staticmethod
    def lines(case):
        L = [gen.header(0, case["cls"], 1)]
        lo, hi = gen.window(case["ops"], 3)
        L += [gen.op_line(0, op) for op in case["ops"]]
        L += ["dump 0", "pres 0 %d %d" % (lo, hi), "fstream 0"]
        if case.get("rrows"):
            rows, lo2, hi2 = case["rrows"]
            L += [rint_line(1, case["cls"], rows), "dump 1", "pres 1 %d %d" % (lo2 - 1, hi2 + 1)]
        return L

    @staticmethod
    def judge(case, outs):
        lo, hi = gen.window(case["ops"], 3)
        n = len(case["ops"])
        extra = []
        if case.get("rrows") and outs[4 + n] == "ok" and not oracles.is_err(outs[5 + n]) and not oracles.is_err(outs[6 + n]):
            rows, lo2, hi2 = case["rrows"]
            extra = [dict(f, clause=f["clause"] + "~read_interactions") for f in oracles.c05(bool(case["cls"]), outs[5 + n], outs[6 + n], lo2 - 1, hi2 + 1)]
        if any(o not in ("ok", "E:VE", "E:NXE") for o in outs[1:1 + n]):
            return extra
        fails = extra + oracles.c05(bool(case["cls"]), outs[1 + n], outs[2 + n], lo, hi)
        d = outs[1 + n]
        if outs[3 + n] != {"ev": d["ev"], "chrono": d["chrono"]}:
            fails.append(F("C05.functional_form", method={"ev": d["ev"], "chrono": d["chrono"]}, function=outs[3 + n]))
        return fails

    @staticmethod
    def nontrivial(case, outs):
        d = outs[1 + len(case["ops"])]
        return isinstance(d, dict) and len(d["ev"]) >= 2


class C07:
    id = "C07"
    no_warm = True      # its lines already carry a dump after every operation

    @staticmethod
    def cases(tier, rng):
        for removal in (True, False):
            for c in history_stream(tier, rng, removal, n_random=(1500 if tier == "quick" else 20000),
                                    exhaustive_len=(2 if tier == "quick" else 3)):
                yield c
        # forced rejections: ~every third op is a deliberately early / untimed call
        n = 1500 if tier == "quick" else 20000
        for i in range(n):
            ops = gen.random_history(rng, p_reject=0.35, p_none=0.08, monotone_bias=0.8)
            yield hist_case(rng.choice([0, 1]), rng.random() < 0.7, ops, src="rand-reject")

    @staticmethod
    def lines(case):
        return base_lines(case, per_op_dump=True, tail=False)

    @staticmethod
    def variants(case, outs):
        """follow-up cases: the history without the rejected calls / with failing bulk ops truncated"""
        outcomes, dumps, _ = split_outs(case, outs, True)
        sp = Spec(bool(case["cls"]), bool(case["rem"]))
        clean = []
        changed = False
        for op, got in zip(case["ops"], outcomes):
            exp, napplied = sp.apply(op, got)
            if got in ("E:VE", "E:NXE"):
                changed = True
                el = elems(op)
                if op[0] != "add" and el is not None and napplied > 0:
                    pairs, t, e = el
                    clean.append(["addfrom", [list(p) for p in pairs[:napplied]], t, e])
            else:
                clean.append(op)
        if not changed:
            return None
        d = dict(case); d["ops"] = clean
        return d

    @staticmethod
    def judge(case, outs, variant_outs=None, variant_case=None):
        outcomes, dumps, _ = split_outs(case, outs, True)
        fails = []
        prev = None
        empty = {"cls": case["cls"], "rem": case["rem"], "g": 0, "nodes": [], "tl": [], "ev": [], "chrono": 1, "ids": [], "cnt": []}
        prev = empty
        for i, (op, got, d) in enumerate(zip(case["ops"], outcomes, dumps)):
            if got in ("E:VE", "E:NXE") and op[0] == "add":
                if d != prev:
                    fails.append(F("C07.trace", op_index=i, op=op, raised=got, before=prev, after=d))
            prev = d
        if variant_outs is not None:
            vo, vd, _ = split_outs(variant_case, variant_outs, True)
            final = dumps[-1] if dumps else empty
            vfinal = vd[-1] if vd else empty
            if any(o != "ok" for o in vo):
                pass   # the cleaned history is not itself accepted: nothing to compare
            elif final != vfinal:
                fails.append(F("C07.continuation", with_rejected=final, without=vfinal))
        return fails

    @staticmethod
    def nontrivial(case, outs):
        return any(o in ("E:VE", "E:NXE") for o in outs)


class C08:
    id = "C08"

    @staticmethod
    def cases(tier, rng):
        for c in history_stream(tier, rng, False):
            lo, hi = gen.window(c["ops"], 2)
            ts = gen.times_of(c["ops"]) or [0]
            c["qts"] = [rng.randint(lo, hi), rng.choice(ts) + rng.choice([-1, 0, 1])]
            yield c

    @staticmethod
    def lines(case):
        L = [gen.header(0, case["cls"], 0)]
        lo, hi = gen.window(case["ops"], 2)
        L += [gen.op_line(0, op) for op in case["ops"]]
        L += ["dump 0", "pres 0 %d %d" % (lo, hi)]
        L += ["q2 0 %d" % t for t in case.get("qts", [])]
        return L

    @staticmethod
    def judge(case, outs):
        lo, hi = gen.window(case["ops"], 2)
        n = len(case["ops"])
        if oracles.is_err(outs[1 + n]) or oracles.is_err(outs[2 + n]):
            return [F("C08.raised", got=[outs[1 + n] if oracles.is_err(outs[1 + n]) else None, outs[2 + n] if oracles.is_err(outs[2 + n]) else None])]
        fails = oracles.c08(bool(case["cls"]), case["ops"], outs[1:1 + n], outs[2 + n], outs[1 + n], lo, hi)
        # the snapshot queries of C02 follow the accumulative presence
        dump, pres = outs[1 + n], outs[2 + n]
        nodes = {x for x, _ in dump["nodes"]}
        attrs = dict((x, a) for x, a in dump["nodes"])
        for j, t in enumerate(case.get("qts", [])):
            q = outs[3 + n + j]
            if oracles.is_err(q):
                fails.append(F("C08.query_raised", t=t, got=q)); continue
            for f in oracles.c02(bool(case["cls"]), q, pres, t, nodes, attrs, None, dump["ids"]):
                f["clause"] = "C08.query:" + f["clause"]
                fails.append(f)
        return fails

    @staticmethod
    def nontrivial(case, outs):
        return sum(1 for o in outs[1:1 + len(case["ops"])] if o == "ok") >= 2
