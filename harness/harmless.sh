#!/bin/bash
# dev helper: apply each behaviour-preserving rewrite under /verif/harmless/<id>/patch.diff to /repo, run all
# twenty quick checks, revert; any VIOLATION line is a false alarm of the machinery (or the rewrite is not harmless)
cd "$(dirname "$0")/.."
out=${OUT:-/verif/harmless/RESULTS.txt}
for d in ${@:-harmless/H*}; do
  id=$(basename $d)
  git -C /repo checkout -- . ; git -C /repo apply $PWD/$d/patch.diff || { echo "$id APPLY-FAILED" >> $out; continue; }
  s=$(date +%s)
  res=$(seq -w 1 20 | VERIF_NPROC=${NPROC:-6} xargs -P ${PAR:-3} -I{} sh -c './check.sh C{} quick 2>&1 | grep -E "VIOLATION|INTERNAL|^C[0-9]+ tier" | cut -c1-260 | sed "s/^/C{}: /"' )
  git -C /repo checkout -- .
  nv=$(echo "$res" | grep -c VIOLATION)
  echo "== $id violations=$nv wall=$(( $(date +%s) - s ))s" >> $out
  echo "$res" | grep -E "VIOLATION|INTERNAL" >> $out
  echo "$res" | grep -oE "C[0-9]+ tier=quick.*escalated[^ ]*" | head -0
done
git -C /verif checkout -- lean/DynetxModel/Generated/ApiTable.lean 2>/dev/null
echo ALLDONE >> $out
