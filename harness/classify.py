"""Known findings: a failure is attributed to a listed finding only if the finding's signature
matches the failing clause and case *and* (when the model ran) the implementation agreed with the
model on that case.  Anything else is a violation.  The file is never written at run time."""
import json, os
HERE = os.path.dirname(os.path.abspath(__file__))
PATH = os.path.join(os.path.dirname(HERE), "known_findings.json")


def load():
    try:
        d = json.load(open(PATH))
    except FileNotFoundError:
        return []
    return [k for k in d["findings"] if k.get("status") == "known"]


def known(pid, case, failure, kf):
    if failure.get("agrees_with_model") is False:
        return None
    for k in kf:
        if pid not in k["properties"]:
            continue
        sig = SIGNATURES.get(k["signature"])
        if sig is None:
            continue
        try:
            if sig(pid, case, failure):
                return k
        except Exception:
            continue
    return None


SIGNATURES = {}


def signature(fn):
    SIGNATURES[fn.__name__] = fn
    return fn
