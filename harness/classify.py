"""Known findings: a failure is attributed to a listed finding only if the finding's signature
matches the failing clause and case *and* (when the model ran) the implementation agreed with the
model on that case.  Anything else is a violation.  The file is never written at run time."""
import json, os
HERE = os.path.dirname(os.path.abspath(__file__))
PATH = os.path.join(os.path.dirname(HERE), "known_findings.json")


def load():
    try:
        d = json.load(open(PATH))
    except FileNotFoundError:
        return []
    return [k for k in d["findings"] if k.get("status") == "known"]


def known(pid, case, failure, kf):
    if failure.get("agrees_with_model") is False:
        return None
    for k in kf:
        if pid not in k["properties"]:
            continue
        sig = SIGNATURES.get(k["signature"])
        if sig is None:
            continue
        try:
            if sig(pid, case, failure):
                return k
        except Exception:
            continue
    return None


SIGNATURES = {}


def signature(fn):
    SIGNATURES[fn.__name__] = fn
    return fn


def _base(clause):
    return clause.split(":")[-1].split("~")[0].split("@")[0]


def _has_loop_op(case):
    for op in case.get("ops", []):
        if op[0] == "add" and op[1] == op[2]:
            return True
        if op[0] == "addfrom" and any(p[0] == p[1] for p in op[1]):
            return True
        if op[0] in ("path", "fpath", "star", "fstar", "cycle", "fcycle"):
            ns = op[1]
            if op[0] in ("cycle", "fcycle") and len(ns) == 1:
                return True
            if any(a == b for a, b in zip(ns, ns[1:])) or (op[0] in ("star", "fstar") and ns and ns[0] in ns[1:]) \
                    or (op[0] in ("cycle", "fcycle") and ns and ns[0] == ns[-1]):
                return True
    return False


@signature
def d5_unclosed_two_instant_run(pid, case, f):
    c, d = _base(f["clause"]), f["detail"]
    if c == "C05.unclosed":
        return d["run"][1] == d["run"][0] + 1
    if c == "C05.replay":
        P, R = set(d["presence"]), set(d["replayed"])
        from spec import runs
        lost = P - R
        ok_lost = {b for (a, b) in runs(P) if b == a + 1}
        return R <= P and lost and lost <= ok_lost
    if c == "C10.roundtrip_presence":
        from spec import runs
        for k, P, Q in d["pairs"]:
            P, Q = set(P), set(Q)
            if not (Q <= P and (P - Q) and (P - Q) <= {b for (a, b) in runs(P) if b == a + 1}):
                return False
        return True
    return False


@signature
def d10_directed_interactions_dedup(pid, case, f):
    c, d = _base(f["clause"]), f["detail"]
    if c not in ("C02.inter", "C02.inter_iter", "C02.f_inter", "C02.inter_once", "C02.inter_tuple"):
        return False
    if not case.get("cls") and d.get("on") not in ("to_directed",):
        return False
    exp, got = d["expected"], d["got"]
    if not isinstance(got, dict) or got["n"] != len(got["set"]):
        return False
    es, gs = {tuple(x) for x in exp["set"]}, {tuple(x) for x in got["set"]}
    if not gs <= es or len(gs) != got["n"]:
        return False
    nb = d.get("nbunch")
    for (u, v) in es - gs:
        if u == v or (nb is not None and v not in nb):
            return False
    return True


@signature
def d12_to_directed_single_orientation(pid, case, f):
    return _base(f["clause"]) == "C16.to_directed_one_orientation"


@signature
def d14_undirected_loop_degree(pid, case, f):
    c, d = _base(f["clause"]), f["detail"]
    if c not in ("C02.deg", "C02.deg_iter", "C02.f_deg", "C02.deg1", "C02.deg_once", "C02.deg_set", "C02.size", "C02.nint", "C02.f_nint", "C02.density", "C02.deghist"):
        return False
    undirected = (not case.get("cls")) if d.get("on") in (None, "slice") else d.get("on", "").startswith("to_undirected")
    if not undirected or not _has_loop_op(case):
        return False
    if c == "C02.density" and d.get("t") is not None:
        return False
    return True


@signature
def d15_density_at_t(pid, case, f):
    c, d = _base(f["clause"]), f["detail"]
    return c == "C02.density" and d.get("t") is not None and isinstance(d["got"], list) and d["got"][0] in ("f", "q") and d["got"][1] == 0


@signature
def d21_root_self_loop(pid, case, f):
    c, d = _base(f["clause"]), f["detail"]
    if c == "C15.acyclic":
        return bool(d.get("loop_at_root"))
    if c in ("C13.paths", "C13.all_paths"):
        if d["unexpected"] or not d["missing"]:
            return False
        return bool(d.get("all_missing_start_with_root_loop"))
    return False


@signature
def d23_timed_mutators_not_frozen(pid, case, f):
    c, d = _base(f["clause"]), f["detail"]
    return c == "C19.frozen_mutable" and d.get("call") in ("add_interaction", "add_interactions_from", "add_path", "add_star", "add_cycle")


@signature
def d27_attribute_named_like_id_key(pid, case, f):
    c, d = _base(f["clause"]), f["detail"]
    return c == "C11.attribute_named_like_id_key" and d.get("got") == "attribute-lost"
