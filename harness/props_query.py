"""C02: every snapshot / flattened query projects the one presence relation."""
import gen, oracles
from oracles import F
from props_core import hist_case, history_stream


class C02:
    id = "C02"
    chunk = 100

    @staticmethod
    def cases(tier, rng):
        n = 1200 if tier == "quick" else 15000
        for removal in (True, False):
            for d in (0, 1):
                for h in gen.corpus_histories():
                    yield C02.mk(rng, hist_case(d, removal, h, src="corpus"))
        for d in (0, 1):
            for h in gen.exhaustive_multi_pair(2, tmax=1 if tier == "quick" else 2):
                yield C02.mk(rng, hist_case(d, True, h, src="exhN"))
        for i in range(n):
            removal = rng.random() < 0.75
            ops = gen.random_history(rng, p_node=0.12, p_reject=0.03, p_none=0.01, p_empty=0.0)
            yield C02.mk(rng, hist_case(rng.choice([0, 1]), removal, ops, ids=("int", "str", "mix")[i % 3] if i % 4 == 0 else "int", src="rand"))

    @staticmethod
    def mk(rng, c):
        lo, hi = gen.window(c["ops"], 2)
        ts = gen.times_of(c["ops"]) or [0]
        qs = [None, rng.choice(ts), rng.randint(lo, hi)]
        if rng.random() < 0.5:
            qs.append(rng.choice(ts) + rng.choice([-1, 1]))
        c["qts"] = qs
        nodes = gen.nodes_of(c["ops"])
        nb = []
        for _ in range(2):
            k = rng.choice([0, 1, 1, 2, 3]); k = min(k, len(nodes))
            s = rng.sample(nodes, k) if nodes else []
            if rng.random() < 0.4:
                s.append(77)
            nb.append(s)
        c["nbunches"] = nb
        return c

    @staticmethod
    def lines(case):
        L = [gen.header(0, case["cls"], case["rem"])]
        lo, hi = gen.window(case["ops"], 2)
        L += [gen.op_line(0, op) for op in case["ops"]]
        L += ["dump 0", "pres 0 %d %d" % (lo, hi)]
        for t in case["qts"]:
            L.append("q2 0 %s" % gen.T(t))
            for nb in case["nbunches"]:
                L.append(("q2 0 %s %d %s" % (gen.T(t), len(nb), " ".join(map(str, nb)))).rstrip())
        return L

    @staticmethod
    def judge(case, outs):
        n = len(case["ops"])
        if any(o not in ("ok", "E:VE", "E:NXE") for o in outs[1:1 + n]):
            return []
        dump, pres = outs[1 + n], outs[2 + n]
        if oracles.is_err(dump) or oracles.is_err(pres):
            return [F("C02.raised", got=[dump if oracles.is_err(dump) else None, pres if oracles.is_err(pres) else None])]
        nodes = [x for x, _ in dump["nodes"]]
        attrs = dict((x, a) for x, a in dump["nodes"])
        fails = []
        i = 3 + n
        for t in case["qts"]:
            for nb in [None] + case["nbunches"]:
                q = outs[i]; i += 1
                if oracles.is_err(q):
                    fails.append(F("C02.raised", t=t, nbunch=nb, got=q)); continue
                fails += oracles.c02(bool(case["cls"]), q, pres, t, set(nodes), attrs, nb, dump["ids"])
        return fails

    @staticmethod
    def nontrivial(case, outs):
        d = outs[1 + len(case["ops"])]
        return isinstance(d, dict) and len(d["tl"]) >= 2
