"""property id -> checker class"""
import props_core

_ALL = {}
for mod in (props_core,):
    for name in dir(mod):
        o = getattr(mod, name)
        if isinstance(o, type) and getattr(o, "id", None) == name:
            _ALL[name] = o


def register(mod):
    for name in dir(mod):
        o = getattr(mod, name)
        if isinstance(o, type) and getattr(o, "id", None) == name:
            _ALL[name] = o


def get(pid):
    if pid not in _ALL:
        for m in ("props_query", "props_derive", "props_io", "props_paths", "props_misc", "props_api"):
            try:
                register(__import__(m))
            except ImportError:
                pass
    return _ALL[pid]
