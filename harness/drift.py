"""Source-drift trigger (a scheduler, not a tie): when the normalised AST of a file a property is anchored in
differs from the recorded baseline (harness/source_baseline.json, regenerated with `drift.py --record` whenever
/repo is committed), the quick tier of that property runs the thorough generators.  Nothing is concluded
from the hash itself."""
import ast, hashlib, json, os, sys
HERE = os.path.dirname(os.path.abspath(__file__))
REPO = os.environ.get("DYNETX_REPO", "/repo")
BASE = os.path.join(HERE, "source_baseline.json")
ALWAYS = ["dynetx/classes/dyngraph.py", "dynetx/classes/dyndigraph.py", "dynetx/classes/function.py", "dynetx/utils/decorators.py"]


def file_hash(path):
    try:
        src = open(path).read()
        tree = ast.parse(src)
        for node in ast.walk(tree):      # drop docstrings
            if isinstance(node, (ast.FunctionDef, ast.ClassDef, ast.Module, ast.AsyncFunctionDef)) and node.body and \
                    isinstance(node.body[0], ast.Expr) and isinstance(getattr(node.body[0], "value", None), ast.Constant) and \
                    isinstance(node.body[0].value.value, str):
                node.body = node.body[1:] or [ast.Pass()]
        return hashlib.sha1(ast.dump(tree).encode()).hexdigest()
    except Exception as ex:  # noqa
        return "unparsable:%s" % type(ex).__name__


def all_files():
    out = []
    for root, _, files in os.walk(os.path.join(REPO, "dynetx")):
        if "/test" in root:
            continue
        for f in files:
            if f.endswith(".py"):
                out.append(os.path.relpath(os.path.join(root, f), REPO))
    return sorted(out)


def current():
    return {f: file_hash(os.path.join(REPO, f)) for f in all_files()}


def anchors(pid):
    files = set(ALWAYS)
    for l in open(os.path.join(os.path.dirname(HERE), "properties.jsonl")):
        p = json.loads(l)
        if p["id"] == pid:
            files.update(p["anchors"]["files"])
    return files


def drifted(pid):
    """files anchored for `pid` whose AST differs from the baseline (or that appeared / disappeared)"""
    try:
        base = json.load(open(BASE))
    except FileNotFoundError:
        return []
    cur = current()
    rel = anchors(pid)
    return sorted(f for f in set(base) | set(cur) if (f in rel or f not in base or f not in cur) and base.get(f) != cur.get(f))


if __name__ == "__main__":
    if "--record" in sys.argv:
        json.dump(current(), open(BASE, "w"), indent=1, sort_keys=True)
        print("recorded", len(current()), "files")
    else:
        print(drifted(sys.argv[1] if len(sys.argv) > 1 else "C01"))
