#!/usr/bin/env python3
"""Regenerate the proof-status table of DESIGN.md section 11.3 from lean/DynetxProofs/PROPERTIES.json."""
import json, os, re, sys
ROOT = os.path.dirname(os.path.dirname(os.path.abspath(__file__)))
P = json.load(open(os.path.join(ROOT, "lean/DynetxProofs/PROPERTIES.json")))
rows = ["| property | theorems (Dynetx.*) | partial / not proved |", "|---|---|---|"]
for k in sorted(P):
    th = ", ".join(t.replace("Dynetx.", "", 1) for t in P[k]["theorems"])
    pa = "; ".join(P[k]["partial"] + ["assumes: " + a for a in P[k].get("assumptions", [])]) or "—"
    rows.append("| %s | %s | %s |" % (k, th, pa.replace("|", "\\|")))
table = "\n".join(rows)
path = os.path.join(ROOT, "DESIGN.md")
s = open(path).read()
new = re.sub(r"\| property \| theorems \(Dynetx\.\*\) \| partial / not proved \|\n(\|.*\n)+", table + "\n", s, count=1)
if "--check" in sys.argv:
    sys.exit(0 if new == s else 1)
open(path, "w").write(new)
print("rows:", len(rows) - 2)
