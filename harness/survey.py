"""dev tool: distinct failing clauses with a smallest example each"""
import sys, os, json
sys.path.insert(0, os.path.dirname(os.path.abspath(__file__)))
import check, classify
pid = sys.argv[1]; tier = sys.argv[2] if len(sys.argv) > 2 else "quick"
tot = check.explore(pid, tier, 0, os.environ.get("VERIF_NO_MODEL") != "1")
kf = classify.load()
by = {}
for fc in tot["fails"]:
    for f in fc["fails"]:
        k = classify.known(pid, fc["case"], f, kf)
        key = (f["clause"].split("@")[0], k["id"] if k else None)
        cur = by.get(key)
        if cur is None or len(check.jd(fc["case"])) < len(check.jd(cur[0])):
            by[key] = (fc["case"], f)
print("cases", tot["n"], "failing cases", len(tot["fails"]), "disagree", len(tot["disagree"]), "internal", len(tot["internal"]))
for i in tot["internal"][:2]: print(i["trace"][-1500:], check.jd(i["case"])[:500])
for (cl, kid), (case, f) in sorted(by.items(), key=lambda x: str(x[0])):
    print(cl, "known=%s" % kid, check.jd({k: v for k, v in case.items() if k in ("cls", "rem", "ops", "ids", "derive", "extra")})[:400])
    print("     ", check.jd(f["detail"])[:400])
for d in tot["disagree"][:5]:
    print("DISAGREE", check.jd(d)[:1500])
for d in tot["model_fails"][:3]:
    print("MODELFAIL", check.jd(d)[:800])
