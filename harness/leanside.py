"""Lean side: build + audit of the proof obligations, and the model driver."""
import os, subprocess, json
HERE = os.path.dirname(os.path.abspath(__file__))
LEAN = os.path.join(os.path.dirname(HERE), "lean")


def obligations(pid, tier):
    return {"ok": True, "theorems": [], "driver_ok": False, "note": "lean project not built yet"}


def run_driver(blocks):
    raise RuntimeError("no driver")
