"""Lean side: build + audit of the proof obligations, and the model driver."""
import os, re, subprocess, json, time, hashlib
HERE = os.path.dirname(os.path.abspath(__file__))
VERIF = os.path.dirname(HERE)
LEAN = os.path.join(VERIF, "lean")
DRIVER = os.path.join(LEAN, ".lake", "build", "bin", "driver")
ALLOWED_AXIOMS = {"propext", "Classical.choice", "Quot.sound"}
FORBIDDEN = re.compile(r"\b(sorry|admit|native_decide|bv_decide|implemented_by|unsafe)\b|^\s*axiom\s|maxHeartbeats\s+0\b", re.M)


def strip_comments(src):
    src = re.sub(r"/-.*?-/", "", src, flags=re.S)
    return re.sub(r"--.*", "", src)


def lake(*args, timeout=3000):
    env = dict(os.environ)
    p = subprocess.run(["lake"] + list(args), cwd=LEAN, capture_output=True, text=True, timeout=timeout, env=env)
    return p.returncode, (p.stdout + p.stderr)


_BUILD_LOCK = os.path.join(LEAN, ".build.lock")


def build(targets):
    import fcntl
    os.makedirs(LEAN, exist_ok=True)
    with open(_BUILD_LOCK, "w") as lk:
        fcntl.flock(lk, fcntl.LOCK_EX)
        return lake("build", *targets)


def theorem_map():
    """property id -> theorems serving it, from lean/DynetxProofs/PROPERTIES.json"""
    p = os.path.join(LEAN, "DynetxProofs", "PROPERTIES.json")
    if not os.path.exists(p):
        return {}
    return json.load(open(p))


def audit_sources():
    bad = []
    for root, _, files in os.walk(LEAN):
        if ".lake" in root:
            continue
        for f in files:
            if f.endswith(".lean"):
                src = strip_comments(open(os.path.join(root, f)).read())
                for m in FORBIDDEN.finditer(src):
                    bad.append("%s: %s" % (os.path.relpath(os.path.join(root, f), LEAN), m.group(0).strip()))
    return bad


def print_axioms(theorems):
    """runs `#print axioms` for the given fully qualified names; returns {name: [axioms]} or raises"""
    if not theorems:
        return {}
    src = "import DynetxProofs\n" + "".join("#print axioms %s\n" % t for t in theorems)
    h = hashlib.sha1(src.encode()).hexdigest()[:10]
    path = os.path.join(LEAN, ".lake", "axioms_%s_%d.lean" % (h, os.getpid()))
    with open(path, "w") as f:
        f.write(src)
    try:
        rc, out = lake("env", "lean", path)
    finally:
        try:
            os.remove(path)
        except OSError:
            pass
    res = {}
    for m in re.finditer(r"'([^']+)' depends on axioms: \[([^\]]*)\]", out, flags=re.S):
        res[m.group(1)] = [a.strip() for a in m.group(2).replace("\n", " ").split(",") if a.strip()]
    for m in re.finditer(r"'([^']+)' does not depend on any axioms", out):
        res[m.group(1)] = []
    missing = [t for t in theorems if t not in res]
    return res, missing, (out if (rc != 0 or missing) else "")


TRUSTED = [
    "Lean 4.33.0 kernel (lake build; thorough tier re-checks the .olean files with leanchecker)",
    "axioms: at most propext, Classical.choice, Quot.sound (audited by #print axioms on every run); no native_decide, no bv_decide, no sorry/admit, no axioms of our own",
    "the hand-written model lean/DynetxModel/*.lean and the reading of the property into the statements of lean/DynetxProofs/Properties.lean",
    "the correspondence check: harness generators, canonicalisation and the compiled driver (Lean compiler + runtime, not the kernel)",
    "modelled, not verified: CPython dict/list/range/sorted/int semantics, networkx nbunch_iter/has_edge/add_nodes_from/all_simple_paths/density, str.strip/split/find/int, json, gzip/bz2/open, copy.deepcopy, IEEE-754 floats (the model computes exact rationals; comparison tolerance 1e-9)",
]


def obligations(pid, tier):
    t0 = time.time()
    res = {"ok": True, "theorems": [], "driver_ok": True, "trusted_base": TRUSTED, "assumptions": [],
           "checker_cmd": "cd /verif/lean && lake build DynetxModel DynetxProofs driver && lake env lean <#print axioms file>"}
    targets = ["DynetxModel", "driver"]
    tm = theorem_map()
    mine = tm.get(pid, {})
    if tm:
        targets.append("DynetxProofs")
    rc, out = build(targets)
    if rc != 0:
        # model/driver build and proof build are separated so that a broken proof does not hide the driver
        rc2, out2 = build(["DynetxModel", "driver"])
        res["driver_ok"] = rc2 == 0 and os.path.exists(DRIVER)
        res["ok"] = False
        res["error"] = out[-4000:]
        res["failed"] = sorted(set(re.findall(r"error: ([^\n]*)", out)))[:20]
        res["theorems"] = []
        return res
    bad = audit_sources()
    if bad:
        res["ok"] = False
        res["error"] = "forbidden keyword in Lean sources: " + "; ".join(bad[:10])
        res["failed"] = bad[:10]
        return res
    ths = mine.get("theorems", [])
    if ths:
        ax, missing, err = print_axioms(ths)
        res["axioms"] = ax
        offending = {t: a for t, a in ax.items() if not set(a) <= ALLOWED_AXIOMS}
        if missing or offending:
            res["ok"] = False
            res["error"] = "axiom audit: missing=%s offending=%s\n%s" % (missing, offending, err[-2000:])
            res["failed"] = missing + list(offending)
            return res
    res["theorems"] = ths
    res["partial"] = mine.get("partial", [])
    res["assumptions"] = mine.get("assumptions", [])
    if tier == "thorough" and ths and os.environ.get("VERIF_SKIP_LEANCHECKER") != "1":
        rc, out = lake("env", "leanchecker", *mine.get("modules", ["DynetxProofs"]), timeout=3000)
        res["leanchecker"] = "ok" if rc == 0 else out[-1500:]
        if rc != 0:
            res["ok"] = False
            res["error"] = "leanchecker: " + out[-2000:]
            res["failed"] = ["leanchecker"]
    res["build_s"] = round(time.time() - t0, 1)
    return res


def run_driver(blocks):
    """blocks: list of line lists; returns list of parsed output lists (same shape)"""
    if not os.path.exists(DRIVER):
        raise RuntimeError("driver not built")
    lines = []
    for b in blocks:
        lines.append("reset")
        lines += b
    p = subprocess.run([DRIVER], input="\n".join(lines) + "\n", capture_output=True, text=True, timeout=1200)
    if p.returncode != 0:
        raise RuntimeError("driver exit %d: %s" % (p.returncode, p.stderr[-500:]))
    outs = p.stdout.split("\n")
    if outs and outs[-1] == "":
        outs.pop()
    if len(outs) != len(lines):
        raise RuntimeError("driver produced %d lines for %d ops" % (len(outs), len(lines)))
    res, i = [], 0
    for b in blocks:
        i += 1
        res.append([json.loads(x) for x in outs[i:i + len(b)]])
        i += len(b)
    return res
