"""Case generators and the line protocol.

op forms (node codes are naturals, None is written '-'):
  ["add",u,v,t,e] ["addfrom",[[u,v]..],t,e] ["path"|"star"|"cycle"|"fpath"|"fstar"|"fcycle",[n..],t]
  ["node",n] ["attr",n,a]
"""
import itertools, random


def T(x):
    return "-" if x is None else str(x)


def op_line(slot, op):
    k = op[0]
    if k == "add":
        return "add %d %d %d %s %s" % (slot, op[1], op[2], T(op[3]), T(op[4]))
    if k == "addfrom":
        flat = " ".join("%d %d" % tuple(p) for p in op[1])
        return ("addfrom %d %s %s %d %s" % (slot, T(op[2]), T(op[3]), len(op[1]), flat)).rstrip()
    if k in ("path", "star", "cycle", "fpath", "fstar", "fcycle"):
        # the module-level wrappers take the vanishing time through **attr: ["fpath", nodes, t, e]
        extra = (" %d" % op[3]) if len(op) > 3 and op[3] is not None else ""
        return ("%s %d %s %d %s" % (k, slot, T(op[2]), len(op[1]), " ".join(map(str, op[1])))).rstrip() + extra
    if k == "node":
        return "node %d %d" % (slot, op[1])
    if k == "attr":
        return "attr %d %d %d" % (slot, op[1], op[2])
    if k == "clear":
        return "clear %d" % slot
    if k == "clearedges":
        return "clearedges %d" % slot
    raise ValueError(op)


def times_of(ops):
    ts = []
    for op in ops:
        if op[0] == "add":
            ts += [x for x in (op[3], op[4]) if x is not None]
        elif op[0] == "addfrom":
            ts += [x for x in (op[2], op[3]) if x is not None]
        elif op[0] in ("path", "star", "cycle", "fpath", "fstar", "fcycle"):
            if op[2] is not None:
                ts.append(op[2])
            if len(op) > 3 and op[3] is not None:
                ts.append(op[3])
    return ts


def nodes_of(ops):
    out = set()
    for op in ops:
        k = op[0]
        if k == "add":
            out.update([op[1], op[2]])
        elif k in ("node", "attr"):
            out.add(op[1])
        elif k == "addfrom":
            out.update(y for p in op[1] for y in p)
        elif k in ("path", "star", "cycle", "fpath", "fstar", "fcycle"):
            out.update(op[1])
    return sorted(out)


def window(ops, pad=2):
    ts = times_of(ops)
    if not ts:
        return (-1, 2)
    return (min(ts) - pad, max(ts) + pad)


# ------------------------------------------------------------------ exhaustive small scope
def single_pair_ops(tmax=4, lens=(1, 2, 3), both_orders=True, empty=False):
    out = []
    for t in range(0, tmax + 1):
        es = [None] + [t + d for d in lens]
        if empty:
            es += [t, t - 1]
        for e in es:
            out.append(["add", 1, 2, t, e])
            if both_orders:
                out.append(["add", 2, 1, t, e])
    return out


def exhaustive_single_pair(n, **kw):
    ops = single_pair_ops(**kw)
    for L in range(1, n + 1):
        for seq in itertools.product(ops, repeat=L):
            yield [list(o) for o in seq]


def multi_pair_ops(tmax=3):
    pairs = [(1, 2), (2, 1), (2, 3), (1, 1), (3, 1)]
    out = []
    for (u, v) in pairs:
        for t in range(0, tmax + 1):
            for e in (None, t + 2):
                out.append(["add", u, v, t, e])
    return out


def exhaustive_reciprocal(n=3, tmax=2):
    """two reciprocal arcs (one pair on DynGraph), spans that close at shared instants"""
    ops = []
    for (u, v) in [(1, 2), (2, 1)]:
        for t in range(0, tmax + 1):
            for e in (None, t + 1, t + 2):
                ops.append(["add", u, v, t, e])
    for L in range(2, n + 1):
        for seq in itertools.product(ops, repeat=L):
            yield [list(o) for o in seq]


def exhaustive_multi_pair(n, tmax=3):
    ops = multi_pair_ops(tmax)
    for L in range(1, n + 1):
        for seq in itertools.product(ops, repeat=L):
            yield [list(o) for o in seq]


# ------------------------------------------------------------------ seeded random
def random_history(rng, n_ops=None, n_nodes=None, tlo=-3, thi=12, p_reject=0.08, p_none=0.02, p_empty=0.03,
                   p_bulk=0.15, p_node=0.05, loops=True, monotone_bias=0.6, p_clear=0.02):
    n_nodes = n_nodes or rng.choice([2, 3, 3, 4, 5, 6])
    n_ops = n_ops or rng.choice([1, 2, 3, 4, 5, 6, 8, 10, 12, 16, 24])
    nodes = list(range(0, n_nodes))      # 0 is a falsy node label
    ops = []
    last = {}
    clock = rng.randint(tlo, tlo + 4)
    for _ in range(n_ops):
        r = rng.random()
        if rng.random() < p_clear:
            ops.append([rng.choice(["clear", "clearedges"])])
            last = {}
            clock = rng.randint(tlo, tlo + 4)
            continue
        if r < p_node:
            n = rng.choice(nodes + [n_nodes])
            ops.append(["node", n])
            if rng.random() < 0.6:
                ops.append(["attr", n, rng.randint(1, 9)])
            continue
        u = rng.choice(nodes)
        v = rng.choice(nodes)
        if not loops or rng.random() < 0.85:
            while v == u and len(nodes) > 1:
                v = rng.choice(nodes)
        if rng.random() < monotone_bias:
            clock = min(thi, clock + rng.choice([0, 0, 1, 1, 2, 3]))
            t = clock
        else:
            t = rng.randint(tlo, thi)
        kk = (u, v)
        r2 = rng.random()
        if r2 < p_reject and kk in last:
            t = last[kk] - rng.randint(1, 3)
        if r2 > 1 - p_none:
            t = None
        e = None
        if t is not None and rng.random() < 0.45:
            e = t + rng.choice([1, 1, 2, 2, 3, 4, 6])
            if rng.random() < p_empty:
                e = t - rng.choice([0, 1])
        if rng.random() < p_bulk:
            kind = rng.choice(["addfrom", "path", "star", "cycle", "fpath", "fstar", "fcycle"])
            if kind == "addfrom":
                k = rng.randint(0, 3)
                ps = [[rng.choice(nodes), rng.choice(nodes)] for _ in range(k)]
                ops.append(["addfrom", ps, t, e])
            else:
                k = rng.choice([0, 1, 2, 3, 3, 4])
                ns = [rng.choice(nodes) for _ in range(k)]
                ops.append([kind, ns, t] + ([e] if kind[0] == "f" and e is not None else []))
        else:
            ops.append(["add", u, v, t, e])
            if t is not None:
                last[kk] = max(last.get(kk, t), t)
                last[(v, u)] = last[kk]
    return ops


def header(slot, directed, removal):
    return "new %d %d %d" % (slot, 1 if directed else 0, 1 if removal else 0)


def corpus_histories():
    """histories used by the repository's own tests plus the witnesses of section 6 of DESIGN.md"""
    A = lambda u, v, t, e=None: ["add", u, v, t, e]
    return [
        [A(1, 2, 2), A(1, 2, 2, 6), A(1, 2, 7, 11), A(1, 2, 8, 15), A(1, 2, 18), A(1, 2, 19)],
        [A(1, 2, 2, 10), A(1, 2, 4, 6)],
        [A(1, 2, 5), A(1, 2, 5)],
        [A(1, 2, 5), A(2, 1, 5)],
        [A(1, 2, 2), A(3, 4, 3), A(1, 2, 2, 8)],
        [A(1, 2, 2, 5), A(2, 1, 3, 8)],
        [A(1, 2, 2, 5), A(1, 2, 2, 8)],
        [A(1, 2, 2), A(1, 2, 3), A(1, 2, 3, 8)],
        [A(1, 2, 5, 6), A(1, 2, 6)],
        [A(1, 2, 18), A(1, 2, 19)],
        [A(1, 2, 5), A(1, 2, 3)],
        [A(1, 2, 3, 6)],
        [A(1, 2, 3, 3)], [A(1, 2, 3, 2), A(1, 2, 4)],
        [A(0, 1, 5), A(2, 0, 5)],
        [A(0, 1, 5, 9), A(1, 0, 2, 4)],
        [A(0, 1, 0), A(0, 2, 0), A(0, 0, 0), A(1, 1, 0), A(2, 2, 0), A(2, 2, 2)],
        [["path", [0, 1, 2, 3], 0], A(3, 4, 1), ["cycle", [1, 2, 3, 4], 30], ["fpath", [4, 6, 7, 8], 40], ["fstar", [1, 2, 3, 4], 50]],
        [["cycle", [], 1]], [["star", [], 1]], [["fstar", [], 1]], [["path", [], 1]], [["fcycle", [], 1]],
        [A(3, 1, 4, 6)], [A(2, 2, 3, 4)],
        [A(1, 2, 0), A(1, 2, 1), A(1, 2, 2), A(2, 3, 1, 4), A(3, 3, 2)],
        # long histories: a pair with 20 separated runs (thresholds such as "more than 8 / 16 runs"), another pair interleaved
        [A(1, 2, 5 * i, 5 * i + 2) for i in range(20)],
        [x for i in range(18) for x in ([A(2, 1, 4 * i, 4 * i + 2)] + ([A(3, 1, 4 * i + 1)] if i % 3 == 0 else []))],
        # instants first inserted out of chronological order across pairs
        [A(5, 6, 10, 13), A(7, 8, 2, 4), A(5, 6, 14), A(7, 8, 6, 8)],
        # reciprocal directed arcs closing at the same instant, one of them prolonged
        [A(1, 2, 0, 3), A(2, 1, 1, 3), A(1, 2, 3, 5)], [A(2, 1, 0, 2), A(1, 2, 0, 2), A(2, 1, 2, 4), A(1, 2, 2)],
    ]


def shift_times(ops, k):
    """the same history with every timestamp moved by k (far beyond 2**53, or below zero)"""
    out = []
    sh = lambda x: None if x is None else x + k
    for op in ops:
        o = list(op)
        if o[0] == "add":
            o[3], o[4] = sh(o[3]), sh(o[4])
        elif o[0] == "addfrom":
            o[2], o[3] = sh(o[2]), sh(o[3])
        elif o[0] in ("path", "star", "cycle", "fpath", "fstar", "fcycle"):
            o[2] = sh(o[2])
            if len(o) > 3:
                o[3] = sh(o[3])
        out.append(o)
    return out
