#!/bin/bash
# runs the repository's own suite with the verification guard off and compares with BASELINE.json
cd /repo && env -u DYNETX_VERIF /venv/bin/python -m pytest -q -p no:cacheprovider --timeout=900 --continue-on-collection-errors --junitxml=/tmp/dx_baseline_junit.xml >/tmp/dx_baseline.log 2>&1
/venv/bin/python - <<'PY'
import json, xml.etree.ElementTree as ET, sys
b = json.load(open('/root/.vp/BASELINE.json'))
t = ET.parse('/tmp/dx_baseline_junit.xml')
passed = set()
for tc in t.iter('testcase'):
    if not any(c.tag in ('failure', 'error', 'skipped') for c in tc):
        passed.add(tc.get('classname') + '::' + tc.get('name'))
miss = [x for x in b['stable_pass'] if x not in passed]
print("baseline: %d/%d stable tests pass; %d tests pass in total" % (len(b['stable_pass']) - len(miss), len(b['stable_pass']), len(passed)))
for m in miss: print("  MISSING", m)
sys.exit(1 if miss else 0)
PY
