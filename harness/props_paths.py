"""C12, C13 (time-respecting paths), C14 (annotate_paths), C15 (temporal_dag)."""
import itertools
import gen, oracles
from oracles import F, pres_map
from props_core import hist_case


def temporal_graph(rng, n_nodes, tmax, directed, p=0.35, loops=False, spans=True):
    ops = []
    pairs = [(u, v) for u in range(1, n_nodes + 1) for v in range(1, n_nodes + 1) if (u != v or loops) and (directed or u <= v)]
    for (u, v) in pairs:
        t = 0
        while t <= tmax:
            if rng.random() < p:
                L = rng.choice([1, 1, 1, 2, 3]) if spans else 1
                L = min(L, tmax - t + 1)
                ops.append(["add", u, v, t, None if L == 1 else t + L])
                t += L + 1
            else:
                t += 1
    ops.sort(key=lambda o: o[3])
    return ops


def nbr_table(directed, pres):
    """{(node, t): sorted nbrs}  (successors on directed graphs)"""
    tab = {}
    for (u, v), (_, ts) in pres_map(pres).items():
        for t in ts:
            tab.setdefault((u, t), set()).add(v)
    return {k: sorted(v) for k, v in tab.items()}


def brute_paths(tab, ids, u, v, start, end):
    """every hop sequence satisfying the clauses of C12 (written from the property text)"""
    if not ids:
        return []
    if start is None:
        start = ids[0]
    if end is None:
        end = ids[-1]
    W = [t for t in ids if start <= t <= end]
    out = []

    def ext(path):
        a, b, t = path[-1]
        if v is None or b == v:
            out.append(tuple(path))
        for t2 in W:
            if t2 <= t:
                continue
            ns = tab.get((b, t2), [])
            if not ns:
                break            # b must interact at every snapshot id between arrival and departure
            for m in ns:
                if m == a:
                    continue     # immediate reversal
                if len(path) > 60:
                    return
                ext(path + [(b, m, t2)])
    for t in W:
        for n in tab.get((u, t), []):
            ext([(u, n, t)])
    return out


def group(paths):
    g = {}
    for p in paths:
        g.setdefault("%d,%d" % (p[0][0], p[-1][1]), []).append([list(h) for h in p])
    return {k: sorted(v) for k, v in g.items()}


def path_cases(tier, rng):
    n = 700 if tier == "quick" else 10000
    A = lambda u, v, t, e=None: ["add", u, v, t, e]
    corpus = [
        [A(1, 2, 1), A(2, 3, 2), A(3, 1, 3), A(1, 4, 4)],
        [A(0, 1, 0, 4), A(1, 2, 1), A(2, 0, 2), A(0, 3, 3)],
        [A(1, 2, 0), A(2, 1, 1), A(1, 2, 2)],
        [A(1, 2, 0), A(3, 4, 1), A(2, 3, 2)],
        [A(1, 2, 0, 3), A(2, 3, 1, 4), A(3, 1, 2, 5)],
        [A(1, 2, 1), A(2, 3, 2), A(3, 1, 3), A(1, 2, 4)],                      # a walk with more hops than nodes
        [A(1, 2, 8), A(2, 3, 9), A(3, 4, 10), A(4, 1, 11)], [A(1, 2, -3), A(2, 3, -2), A(3, 4, -1), A(4, 5, 0)],
        [A(1, 2, 1), A(3, 2, 2), A(2, 4, 3)],                                # directed: node 2 only receives at 2
        [A(2, 3, 5, 8), A(1, 2, 1, 8)],                                      # ids first inserted out of order
    ]
    for d in (0, 1):
        for h in corpus:
            yield hist_case(d, True, h, src="corpus")
        # nodes but no snapshot: nodes added with add_node only, interactions forgotten by clear_edges / clear
        for h in ([["node", 1], ["node", 2]], [A(1, 2, 1), A(2, 3, 2), ["clearedges"]], [A(1, 2, 1, 4), ["clear"], ["node", 1], ["node", 3]],
                  [["node", 2], A(1, 2, 3), ["clearedges"], ["node", 4]]):
            yield hist_case(d, True, h, src="corpus-no-snapshots")
    # a query, then a change of the graph that keeps the snapshot ids, the number of pairs and the total volume, then
    # the same query again (warm-up queries are forced right before the change): clear() + relabelled refill, and a
    # further run of an existing pair on existing ids
    for i in range(12 if tier == "quick" else 120):
        d = i % 2
        nn = rng.choice([3, 4])
        ops = temporal_graph(rng, nn, rng.choice([2, 3]), bool(d), p=0.4, spans=False)
        if len(ops) < 2:
            continue
        perm = list(range(1, nn + 1)); rng.shuffle(perm)
        if perm == sorted(perm):
            perm = perm[1:] + perm[:1]
        ops2 = [[o[0], perm[o[1] - 1], perm[o[2] - 1], o[3], o[4]] for o in ops]
        c = hist_case(d, True, ops + [["clear"]] + ops2, src="stale-memo")
        c["warm"] = len(ops)
        yield c
        # same ids, same pairs: move one interaction to another existing instant of an existing pair
        ts = sorted({o[3] for o in ops})
        o = rng.choice(ops)
        later = [t for t in ts if t > o[3] + 1]
        if later:
            c = hist_case(d, True, ops + [["add", o[1], o[2], rng.choice(later), None]], src="stale-memo")
            c["warm"] = len(ops)
            yield c
    # node ids that contain the '_' of the occurrence names "node_time" (1 -> "a", 2 -> "a_1": "a"@1 reads like node 2)
    for d in (0, 1):
        for h in ([A(2, 3, 1), A(3, 5, 2)], [A(1, 3, 1), A(1, 2, 1), A(2, 5, 2), A(3, 4, 2)], [A(1, 2, 1), A(2, 8, 2), A(8, 5, 3)]):
            yield hist_case(d, True, h, ids="ustr", src="corpus-underscore")
    # exhaustive: <=3 nodes, <=3 instants (each pair x instant present or not) -- thorough only in full
    import itertools as it
    slots = [(u, v, t) for (u, v) in [(1, 2), (2, 3), (1, 3)] for t in (0, 1, 2)]
    masks = range(1, 2 ** len(slots)) if tier != "quick" else [rng.randrange(1, 2 ** len(slots)) for _ in range(150)]
    for m in masks:
        ops = [A(u, v, t) for i, (u, v, t) in enumerate(slots) if m >> i & 1]
        ops.sort(key=lambda o: o[3])
        yield hist_case(0, True, ops, src="exh3x3")
        if tier != "quick" or rng.random() < 0.3:
            ops2 = [A(v, u, t) if (i * 7 + m) % 3 == 0 else A(u, v, t) for i, (u, v, t) in enumerate(slots) if m >> i & 1]
            yield hist_case(1, True, ops2, src="exh3x3")
    for i in range(n):
        d = rng.choice([0, 1])
        nn = rng.choice([3, 3, 4, 4, 5])
        tm = rng.choice([2, 3, 3, 4]) if tier == "quick" else rng.choice([2, 3, 4, 5])
        ops = temporal_graph(rng, nn, tm, bool(d), p=rng.choice([0.15, 0.25, 0.35]), loops=(rng.random() < 0.15))
        if rng.random() < 0.3:
            ops = [[o[0], o[1], o[2], o[3] * 2 + 3, None if o[4] is None else o[4] * 2 + 3] for o in ops]   # gaps between ids
        sh = rng.choice([0, 0, 0, 8, 97, -3, -11, -1000, 2 ** 55])      # ids whose decimal strings have mixed lengths / signs, beyond float precision
        if sh:
            ops = [[o[0], o[1], o[2], o[3] + sh, None if o[4] is None else o[4] + sh] for o in ops]
        # one case in seven on a graph created with edge_removal=False: presence is then the accumulative one (C08) and the
        # path functions must follow it (they go through neighbors(node, t) / the snapshot ids, never through raw spans)
        yield hist_case(d, i % 7 != 3, ops, ids=("str", "ustr", "int", "int", "int")[i % 5], src="rand" if i % 7 != 3 else "rand-accumulative")


def queries(case, rng):
    ts = gen.times_of(case["ops"]) or [0]
    lo, hi = min(ts), max(ts)
    ops = case["ops"]
    if any(op[0] == "clear" for op in ops):      # roots are nodes of the graph as it is when the query runs
        ops = ops[max(i for i, op in enumerate(ops) if op[0] == "clear") + 1:]
    nodes = sorted({x for op in ops if op[0] == "add" for x in (op[1], op[2])}) or [1]
    qs = []
    for _ in range(3):
        u = rng.choice(nodes)
        v = rng.choice([None, None, u, rng.choice(nodes), rng.choice(nodes)])
        r = rng.random()
        if r < 0.3:
            s, e = None, None
        elif r < 0.85:
            s = rng.randint(lo, hi); e = rng.choice([None, rng.randint(s, hi), rng.randint(s, hi)])
            if rng.random() < 0.3:
                s = None
        else:
            s = rng.randint(lo - 2, hi + 2); e = rng.randint(lo - 2, hi + 2)
            # one-sided windows too: a bound left out defaults to the first / last id, the other may lie outside
            k = rng.random()
            if k < 0.2:
                s = None
            elif k < 0.4:
                e = None
        qs.append([u, v, s, e])
    return qs


class PathsBase:
    chunk = 20
    case_timeout = 4

    @staticmethod
    def model_nocompare(line):
        """`trps` (sample < 1 with an injected draw): WHICH pairs a given draw selects depends on the order of the
        sources/targets lists, which no property fixes, so the sampled result is not compared with the model's line by
        line; it is judged by the oracle (a sub-result of the full result, C13_sample_subset) instead."""
        return line.startswith("trps ")

    @staticmethod
    def warm_ok(prefix, line):
        """warm-up queries only for roots that already exist (the properties quantify over roots in the graph)"""
        w = line.split()
        if w[0] == "occrt":
            return False
        if w[0] in ("dag", "trp", "trps", "trpsub"):
            return int(w[2]) in gen.nodes_of(prefix["ops"])
        return True

    @classmethod
    def cases(cls, tier, rng):
        for c in path_cases(tier, rng):
            c["q"] = queries(c, rng)
            ts = gen.times_of(c["ops"]) or [0]
            c["all"] = [rng.choice([None, min(ts)]), rng.choice([None, max(ts)]), rng.choice([None, rng.choice(ts)])]
            # sample < 1: numpy's draw is injected as a permutation of 0..199 (restricted to the existing pair indices)
            perm = list(range(200)); rng.shuffle(perm)
            c["samp"] = [rng.choice([[1, 2], [1, 4], [3, 4], [1, 2]]), perm, rng.randrange(10 ** 6)]
            # a DAG node name: any characters, '_' and digits included
            nm = "".join(rng.choice("ab_7-_") for _ in range(rng.choice([0, 1, 2, 3, 5])))
            c["occ"] = [rng.choice([0, 3, -12, 1700000000]), [ord(ch) for ch in (nm if nm != "x" else "y")]]
            yield c

    @staticmethod
    def lines(case):
        L = [gen.header(0, case["cls"], case.get("rem", 1))]
        lo, hi = gen.window(case["ops"], 1)
        L += [gen.op_line(0, op) for op in case["ops"]]
        L += ["dump 0", "pres 0 %d %d" % (lo, hi)]
        (num, den), perm, seed = case["samp"]
        for (u, v, s, e) in case["q"]:
            L.append("dag 0 %d %s %s %s" % (u, gen.T(v), gen.T(s), gen.T(e)))
            L.append("trp 0 %d %s %s %s" % (u, gen.T(v), gen.T(s), gen.T(e)))
            L.append("trps 0 %d %s %s %s %d %d %s" % (u, gen.T(v), gen.T(s), gen.T(e), num, den, " ".join(map(str, perm))))
            L.append("trpsub 0 %d %s %s %s %d %d %d" % (u, gen.T(v), gen.T(s), gen.T(e), num, den, seed))
        a, b, m = case["all"]
        L.append("atrp 0 %s %s %s" % (gen.T(a), gen.T(b), gen.T(m)))
        t, codes = case["occ"]
        L.append(("occrt %d %s" % (t, " ".join(map(str, codes)))).rstrip())
        return L

    @staticmethod
    def parts(case, outs):
        n = len(case["ops"])
        if any(o != "ok" for o in outs[1:1 + n]):
            return None
        dump, pres = outs[1 + n], outs[2 + n]
        if oracles.is_err(dump) or oracles.is_err(pres):
            return None
        qs = []
        i = 3 + n
        for q in case["q"]:
            qs.append((q, outs[i], outs[i + 1], outs[i + 2], outs[i + 3])); i += 4
        return dump, pres, qs, outs[i], outs[i + 1]

    @staticmethod
    def nontrivial(case, outs):
        n = len(case["ops"])
        return any(isinstance(o, dict) and any(isinstance(v, dict) and v.get("n", 0) >= 1 for v in o.values()) for o in outs[3 + n:])


def window_valid(ids, s, e):
    if not ids:
        return True
    s2 = ids[0] if s is None else s
    e2 = ids[-1] if e is None else e
    return ids[0] <= s2 <= e2 <= ids[-1]


def check_path(tab, ids, p, u, v, s, e, directed):
    """the clauses of C12 on one returned path; returns a reason or None"""
    if len(p) == 0:
        return "empty path"
    s2 = ids[0] if s is None else s
    e2 = ids[-1] if e is None else e
    if p[0][0] != u:
        return "first hop does not leave u"
    for i, (a, b, t) in enumerate(p):
        if not (s2 <= t <= e2):
            return "hop time outside the window"
        if b not in tab.get((a, t), []):
            return "hop is not an interaction present at its time"
        if i > 0:
            pa, pb, pt = p[i - 1]
            if pb != a:
                return "hops do not chain"
            if not pt < t:
                return "times do not strictly increase"
            if b == pa:
                return "hop immediately reverses the previous one"
            for x in ids:
                if pt < x < t and not tab.get((a, x)):
                    return "intermediate node inactive at snapshot %d between arrival and departure" % x
    if v is not None and p[-1][1] != v:
        return "last hop does not reach v"
    return None


class C12(PathsBase):
    id = "C12"

    @staticmethod
    def judge(case, outs):
        pr = PathsBase.parts(case, outs)
        if pr is None:
            return []
        dump, pres, qs, allp, occ = pr
        directed = bool(case["cls"])
        tab = nbr_table(directed, pres)
        ids = dump["ids"]
        fails = []
        t_occ, codes = case["occ"]
        if occ != [codes, [120], t_occ]:
            fails.append(F("C12.occurrence_name_decoding", name="".join(map(chr, codes)), time=t_occ, got=occ))
        for (u, v, s, e), dag, trp0, trps, trpsub in qs:
          for trp in (trp0, trps):
            if trp == "skip":
                continue
            if oracles.is_err(trp):
                if not (trp == "E:VE" and not window_valid(ids, s, e)):
                    fails.append(F("C12.raised", query=[u, v, s, e], got=trp))
                continue
            for k, g in trp.items():
                if not g["tuple"]:
                    fails.append(F("C12.not_tuples", query=[u, v, s, e], key=k))
                if len({oracles_json(p) for p in g["paths"]}) != g["n"]:
                    fails.append(F("C12.duplicates", query=[u, v, s, e], key=k))
                for p in g["paths"]:
                    why = check_path(tab, ids, p, u, v, s, e, directed)
                    if why is None and k != "%d,%d" % (p[0][0], p[-1][1]):
                        why = "grouped under the wrong key %s" % k
                    if why:
                        fails.append(F("C12.path", query=[u, v, s, e], path=p, why=why))
        if isinstance(allp, dict):
            a, b, m = case["all"]
            for k, g in allp.items():
                for p in g["paths"]:
                    why = check_path(tab, ids, p, p[0][0] if p else None, None, a, b, directed)
                    if why is None and k != "%d,%d" % (p[0][0], p[-1][1]):
                        why = "grouped under the wrong key %s" % k
                    if why:
                        fails.append(F("C12.path_all", window=[a, b], path=p, why=why))
        return fails


def oracles_json(x):
    import json
    return json.dumps(x)


class C13(PathsBase):
    id = "C13"

    @staticmethod
    def judge(case, outs):
        pr = PathsBase.parts(case, outs)
        if pr is None:
            return []
        dump, pres, qs, allp, _occ = pr
        directed = bool(case["cls"])
        tab = nbr_table(directed, pres)
        ids = dump["ids"]
        nodes = [x for x, _ in dump["nodes"]]
        fails = []

        def has_node(u, t):
            return bool(tab.get((u, t))) or any(u in vs for (a, tt), vs in tab.items() if tt == t)
        for (u, v, s, e), dag, trp, trps, trpsub in qs:
            if not window_valid(ids, s, e) or not ids:
                continue
            # sample < 1: a subset of the full result (with the injected draw and with numpy's own)
            if trpsub != 1 and not oracles.is_err(trp):
                fails.append(F("C13.sample_not_subset", query=[u, v, s, e], sample=case["samp"][0], seed=case["samp"][2], got=trpsub))
            if isinstance(trps, dict) and isinstance(trp, dict):
                extra = [p for k, g in trps.items() for p in g["paths"] if p not in trp.get(k, {"paths": []})["paths"]]
                if extra:
                    fails.append(F("C13.sample_not_subset", query=[u, v, s, e], sample=case["samp"][0], unexpected=extra[:3]))
            elif trps != "skip" and oracles.is_err(trps) != oracles.is_err(trp):
                fails.append(F("C13.sample_raised", query=[u, v, s, e], got=trps))
            if oracles.is_err(trp):
                fails.append(F("C13.raised", query=[u, v, s, e], got=trp)); continue
            got = {k: g["paths"] for k, g in trp.items() if g["n"]}
            if s is not None and not has_node(u, s):
                exp = {}
            else:
                exp = group(brute_paths(tab, ids, u, v, s, e))
            if got != exp:
                miss = [p for k in exp for p in exp[k] if p not in got.get(k, [])][:3]
                extra = [p for k in got for p in got[k] if p not in exp.get(k, [])][:3]
                allm = [p for k in exp for p in exp[k] if p not in got.get(k, [])]
                fails.append(F("C13.paths", query=[u, v, s, e], missing=miss, unexpected=extra,
                               all_missing_start_with_root_loop=bool(allm) and all(p[0][0] == p[0][1] for p in allm)))
        a, b, m = case["all"]
        if window_valid(ids, a, b) and ids:
            if oracles.is_err(allp):
                fails.append(F("C13.raised", query=["all", a, b, m], got=allp))
            else:
                exp = {}
                roots = nodes if m is None else [x for x in nodes if has_node(x, m)]
                for u in roots:
                    if a is not None and not has_node(u, a):
                        continue
                    for k, ps in group(brute_paths(tab, ids, u, None, a, b)).items():
                        exp[k] = ps
                got = {k: g["paths"] for k, g in allp.items() if g["n"]}
                if got != exp:
                    miss = [p for k in exp for p in exp[k] if p not in got.get(k, [])][:3]
                    extra = [p for k in got for p in got[k] if p not in exp.get(k, [])][:3]
                    allm = [p for k in exp for p in exp[k] if p not in got.get(k, [])]
                    fails.append(F("C13.all_paths", query=[a, b, m], missing=miss, unexpected=extra,
                                   all_missing_start_with_root_loop=bool(allm) and all(p[0][0] == p[0][1] for p in allm)))
        return fails


class C15(PathsBase):
    id = "C15"

    @staticmethod
    def judge(case, outs):
        n = len(case["ops"])
        if any(o != "ok" for o in outs[1:1 + n]):
            return []
        dump, pres = outs[1 + n], outs[2 + n]
        if oracles.is_err(dump) or oracles.is_err(pres):
            return []
        directed = bool(case["cls"])
        tab = nbr_table(directed, pres)
        ids = dump["ids"]
        fails = []
        i = 3 + n
        for (u, v, s, e) in case["q"]:
            dag = outs[i]; i += 4
            if not ids:
                if oracles.is_err(dag) or dag["edges"] or dag["src"] or dag["tgt"]:
                    fails.append(F("C15.no_snapshots", query=[u, v, s, e], got=dag))
                continue
            if not window_valid(ids, s, e):
                if dag != "E:VE":
                    fails.append(F("C15.invalid_window", query=[u, v, s, e], ids=[ids[0], ids[-1]], got=dag if oracles.is_err(dag) else "no error"))
                continue
            if oracles.is_err(dag):
                fails.append(F("C15.raised", query=[u, v, s, e], got=dag)); continue
            if isinstance(dag, str):
                # the impl-side cross check of op_dag: bounds that are not ids / not integers
                fails.append(F("C15.window_bounds", query=[u, v, s, e], got=dag)); continue
            s2 = ids[0] if s is None else s
            e2 = ids[-1] if e is None else e
            W = [t for t in ids if s2 <= t <= e2]
            src = {tuple(x) for x in dag["src"]}
            exp_src = {(u, t) for t in W if tab.get((u, t))}
            if src != exp_src:
                fails.append(F("C15.sources", query=[u, v, s, e], expected=sorted(exp_src), got=sorted(src)))
            nodes = {tuple(x) for x in dag["nodes"] if x[1] is not None}
            for (x, sx, y, ty) in dag["edges"]:
                if not (s2 <= ty <= e2):
                    fails.append(F("C15.edge_window", query=[u, v, s, e], edge=[x, sx, y, ty]))
                if y not in tab.get((x, ty), []):
                    fails.append(F("C15.edge_sound", query=[u, v, s, e], edge=[x, sx, y, ty]))
                if not (sx < ty or ((x, sx) in src and sx == ty)):
                    fails.append(F("C15.edge_time", query=[u, v, s, e], edge=[x, sx, y, ty]))
            for tg in dag["tgt"]:
                if v is not None and tg[0] != v:
                    fails.append(F("C15.targets", query=[u, v, s, e], target=tg))
                if tuple(tg) not in nodes:
                    fails.append(F("C15.targets_not_nodes", query=[u, v, s, e], target=tg))
            for sc in src:
                if sc not in nodes:
                    fails.append(F("C15.sources_not_nodes", query=[u, v, s, e], source=list(sc)))
            if not dag["acyclic"]:
                fails.append(F("C15.acyclic", query=[u, v, s, e], loop_at_root=[t for t in W if u in tab.get((u, t), [])]))
        return fails


# ------------------------------------------------------------------------------------------- C14
def random_paths(rng):
    k = rng.choice([1, 1, 2, 3, 4, 5, 7])
    paths = []
    # epoch-scale timestamps (seconds, milliseconds, nanoseconds, beyond 2**53) must not create ties
    base = rng.choice([0, 0, 0, 1700000000, 3 * 10 ** 12, 1700000000 * 10 ** 9, 2 ** 62])
    if rng.random() < 0.25:
        # several distinct paths sharing their first and last hop
        a, z, t0 = 1, 9, base + rng.randint(0, 3)
        last_t = t0 + rng.choice([4, 5, 6])
        for _ in range(rng.choice([2, 3])):
            mids = rng.sample([3, 4, 5, 6, 7], rng.choice([1, 2, 3]))
            p = [[a, 2, t0]]
            cur, tt = 2, t0
            for m in mids:
                tt += 1
                p.append([cur, m, tt]); cur = m
            p.append([cur, z, max(last_t, tt + 1)])
            paths.append(p)
        return paths
    for _ in range(k):
        if paths and rng.random() < 0.15:
            paths.append(list(rng.choice(paths))); continue
        L = rng.choice([1, 1, 2, 2, 3, 4])
        t = base + rng.randint(0, 3)
        p = []
        a = 1
        # the statement is about any list of hops: one path in seven has instants that are not increasing
        steps = [1, 1, 2, 3] if rng.random() < 0.85 else [-3, -2, -1, 0, 1, 2]
        for j in range(L):
            b = rng.randint(1, 5)
            p.append([a, b, t]); a = b
            t += rng.choice(steps)
        paths.append(p)
    return paths


class C14:
    id = "C14"
    chunk = 300

    @staticmethod
    def cases(tier, rng):
        n = 6000 if tier == "quick" else 80000
        # exhaustive tiny: up to 3 paths from a pool of 6 distinct paths (ties in every criterion)
        pool = [[[1, 2, 0]], [[1, 2, 1]], [[1, 3, 0], [3, 2, 1]], [[1, 3, 0], [3, 2, 2]], [[1, 3, 1], [3, 2, 2]], [[1, 4, 0], [4, 3, 1], [3, 2, 2]]]
        for k in (1, 2, 3):
            for combo in itertools.product(pool, repeat=k):
                yield {"paths": [list(p) for p in combo], "src": "exh-pool"}
        # (hops, duration, arrival) combinations with waiting gaps: the fastest paths need not contain a shortest one,
        # and the shortest need not contain a fastest one
        def mk(h, d, t0):
            """h hops from 1 to 2 lasting d (d >= h - 1), starting at t0"""
            mids = [10 + h * 10 + j for j in range(h - 1)]
            ns = [1] + mids + [2]
            ts = [t0 + j for j in range(h - 1)] + [t0 + d]
            return [[ns[j], ns[j + 1], ts[j]] for j in range(h)] if h > 1 else [[1, 2, t0]]
        pool2 = [mk(h, d, t0) for (h, d, t0) in ((1, 0, 9), (2, 8, 0), (2, 1, 5), (3, 3, 0), (3, 3, 2), (4, 3, 1), (4, 5, 0), (3, 8, 0), (2, 3, 4), (5, 4, 0))]
        reps = 3 if tier == "quick" else 4
        for k in range(1, reps + 1):
            for combo in itertools.combinations(pool2, k):
                for order in ([combo] if k == 1 else [combo, combo[::-1]]):
                    yield {"paths": [list(p) for p in order], "src": "exh-pool2"}
        for _ in range(n):
            yield {"paths": random_paths(rng), "src": "rand"}

    @staticmethod
    def lines(case):
        ps = case["paths"]
        flat = " ".join("%d %s" % (len(p), " ".join("%d %d %d" % tuple(h) for h in p)) for p in ps)
        return ["annot %d %s" % (len(ps), flat)]

    @staticmethod
    def judge(case, outs):
        r = outs[0]
        ps = case["paths"]
        if oracles.is_err(r):
            return [F("C14.raised", paths=ps, got=r)]
        if isinstance(r, str):
            # impl-side cross check of op_annot (fractional instants)
            return [F("C14.fractional_instants", paths=ps, got=r)]
        fails = []
        ln = [len(p) for p in ps]
        du = [p[-1][2] - p[0][2] for p in ps]
        ar = [p[-1][2] for p in ps]
        if r["len"] != ln or r["dur"] != du:
            fails.append(F("C14.length_duration", paths=ps, got=[r["len"], r["dur"]]))

        def argmin(vals, among=None):
            idx = range(len(ps)) if among is None else among
            m = min(vals[i] for i in idx)
            return [i for i in idx if vals[i] == m]
        sh, fa, fo = argmin(ln), argmin(du), argmin(ar)
        exp = {"shortest": [ps[i] for i in sh], "fastest": [ps[i] for i in fa], "foremost": [ps[i] for i in fo]}
        for k in exp:
            if sorted(r[k]) != sorted(exp[k]):
                fails.append(F("C14." + k, paths=ps, expected=exp[k], got=r[k]))

        def dedup(l):
            out = []
            for p in l:
                if p not in out:
                    out.append(p)
            return out
        e_fs = dedup([ps[i] for i in argmin(du, sh)])
        e_sf = dedup([ps[i] for i in argmin(ln, fa)])
        if sorted(dedup(r["fastest_shortest"])) != sorted(e_fs) or len(r["fastest_shortest"]) != len(dedup(r["fastest_shortest"])):
            fails.append(F("C14.fastest_shortest", paths=ps, expected=e_fs, got=r["fastest_shortest"]))
        if sorted(dedup(r["shortest_fastest"])) != sorted(e_sf) or len(r["shortest_fastest"]) != len(dedup(r["shortest_fastest"])):
            fails.append(F("C14.shortest_fastest", paths=ps, expected=e_sf, got=r["shortest_fastest"]))
        for k in ("shortest", "fastest", "foremost", "fastest_shortest", "shortest_fastest"):
            for p in r[k]:
                if p not in ps:
                    fails.append(F("C14.not_in_input", key=k, path=p))
        return fails

    @staticmethod
    def nontrivial(case, outs):
        return len(case["paths"]) >= 2
