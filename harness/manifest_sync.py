#!/usr/bin/env python3
"""Rewrites the level_note of every check in MANIFEST.json from lean/DynetxProofs/PROPERTIES.json (partial clauses and
assumptions), so that the manifest, the proof table of DESIGN.md and the audited theorem lists cannot drift apart."""
import json, os
ROOT = os.path.dirname(os.path.dirname(os.path.abspath(__file__)))
P = json.load(open(os.path.join(ROOT, "lean/DynetxProofs/PROPERTIES.json")))
mp = os.path.join(ROOT, "MANIFEST.json")
m = json.load(open(mp))
PREFIX = ("Lean kernel; axioms propext/Classical.choice/Quot.sound only (audited each run); hand-written model tied to /repo by "
          "differential correspondence (harness + compiled driver)")
for c in m["checks"]:
    p = P[c["property_id"]]
    note = PREFIX
    note += "; partial: " + " | ".join(p["partial"]) if p["partial"] else "; no partial clauses"
    if p.get("assumptions"):
        note += "; assumes: " + " | ".join(p["assumptions"])
    c["level_note"] = note
    c["level_claimed"]["text"] = c["level_claimed"]["text"].split("  [theorems: ")[0] + "  [theorems: %d audited on every run]" % len(p["theorems"])
json.dump(m, open(mp, "w"), indent=1)
print("synced", len(m["checks"]))
