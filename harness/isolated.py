#!/venv/bin/python
"""isolated.py <repo_dir> [--props C01,C02,...] [--tier quick] [--nproc N] [--label L]
Development tool: runs the checks against ANOTHER checkout of the repository (a scratch worktree with a seeded
change or a harmless rewrite applied) from a scratch copy of /verif, so that /repo, the evidence files and the
generated API table of the real /verif are left alone and several such runs can go in parallel.
Prints one line per check and a final summary line; exit 0 always (it decides nothing)."""
import argparse, os, shutil, subprocess, sys, tempfile, time
HERE = os.path.dirname(os.path.abspath(__file__))
VERIF = os.path.dirname(HERE)
ap = argparse.ArgumentParser()
ap.add_argument("repo"); ap.add_argument("--props"); ap.add_argument("--tier", default="quick"); ap.add_argument("--nproc", default="6"); ap.add_argument("--label", default="")
a = ap.parse_args()
props = a.props.split(",") if a.props else ["C%02d" % i for i in range(1, 21)]
work = tempfile.mkdtemp(prefix="dxiso")
v2 = os.path.join(work, "verif")
t0 = time.time()
try:
    shutil.copytree(VERIF, v2, ignore=shutil.ignore_patterns(".git", "__pycache__", "replays", "seeded", "harmless"))
    env = dict(os.environ, DYNETX_REPO=os.path.abspath(a.repo), PYTHONPATH=os.path.abspath(a.repo), PYTHONDONTWRITEBYTECODE="1", VERIF_NPROC=a.nproc)
    vio = []
    for p in props:
        t1 = time.time()
        try:
            r = subprocess.run(["./check.sh", p, a.tier], cwd=v2, env=env, capture_output=True, text=True, timeout=3000)
            out, rc = r.stdout + r.stderr, r.returncode
        except subprocess.TimeoutExpired:
            out, rc = "timeout", 124
        lines = [l for l in out.split("\n") if l.startswith(("VIOLATION", "  clause", "INTERNAL")) or "Traceback" in l]
        if any(l.startswith("VIOLATION") for l in lines):
            vio.append(p)
        print("%s %s rc=%d %ds violation=%s %s" % (a.label, p, rc, time.time() - t1, "yes" if p in vio else "no", " | ".join(l[:300] for l in lines[:3])), flush=True)
    print("== %s violations=%s wall=%ds" % (a.label, ",".join(vio) or "0", time.time() - t0), flush=True)
finally:
    shutil.rmtree(work, ignore_errors=True)
