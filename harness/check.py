#!/venv/bin/python
"""check.py Cxx [--tier quick|thorough] [--replay FILE]

One run = proof obligations (Lean build + audit) -> correspondence (model vs implementation on the
same protocol lines) -> search (the property's oracle on the implementation's observables)
-> verdict.  Exit 0: held on everything explored; exit 1 + `VIOLATION property=.. replay=..`;
exit 2: internal error of the machinery (never a verdict about dynetx).
"""
import sys, os, json, time, random, hashlib, argparse, traceback, multiprocessing as mp
sys.dont_write_bytecode = True
HERE = os.path.dirname(os.path.abspath(__file__))
VERIF = os.path.dirname(HERE)
sys.path.insert(0, HERE)
os.environ.setdefault("DYNETX_VERIF", "1")

import registry, leanside, classify  # noqa: E402

NPROC = int(os.environ.get("VERIF_NPROC", "16"))


def jd(x):
    return json.dumps(x, separators=(",", ":"), sort_keys=True)


class CaseTimeout(BaseException):
    pass


def _alarm(signum, frame):
    raise CaseTimeout()


def _np_default(o):
    try:
        import numpy as np
        if isinstance(o, np.integer):
            return int(o)
        if isinstance(o, np.floating):
            return float(o)
    except Exception:
        pass
    raise TypeError(repr(o))


def norm(x):
    return json.loads(json.dumps(x, default=_np_default))


_SLOT_OPS = {"slice": (1, 2), "fslice": (1, 2), "todir": (1, 2), "toundir": (1, 2), "snaprt": (1, 2), "intrt": (1, 2),
             "nlrt": (1, 2), "nlrt2": (1, 2), "nlidattr": (1,), "nlrecs": (), "nlimp": (), "filert": (2, 3), "textrt": (2, 3), "textrtn": (2, 3), "confp": (1,), "confh": (1,), "confw": (1,), "sconfh": (1,), "trps": (1,), "trpsub": (1,), "occrt": (), "rsnap": (1,), "rint": (1,), "rkeys": (2,), "ptxt": (2,), "ptxts": (2,)}
_WARM_OFF = 20


def _shift_slots(line):
    """warm-up copies of derived-graph queries use their own slots (k -> k+20 for k >= 1)"""
    w = line.split()
    op = w[0]
    idx = _SLOT_OPS.get(op)
    if idx is None:
        idx = (1,) if len(w) > 1 and w[1].lstrip("-").isdigit() and op not in ("annot", "compact", "new") else ()
    for i in idx:
        if i < len(w) and w[i].isdigit() and int(w[i]) >= 1:
            w[i] = str(int(w[i]) + _WARM_OFF)
    return " ".join(w)


def build_lines(prop, case):
    """protocol lines of a case; with case['warm'] = k the property's own queries are also issued after the
    first k operations (on separate slots), so that caches, memos and aliasing between a graph and a graph
    derived from it have a chance to go stale before the judged queries run.  Returns (lines, keep, redump)
    where keep = indices of the lines the judge sees and redump = [(warm dump index, final redump index)]."""
    lines = prop.lines(case)
    k = case.get("warm")
    if not k or "ops" not in case or k >= len(case["ops"]):
        pre = ["pollute %d" % case["pollute"]] if case.get("pollute") else []
        return pre + lines, list(range(len(pre), len(pre) + len(lines))), []
    prefix = dict(case); prefix["ops"] = case["ops"][:k]; prefix.pop("warm", None)
    pl = prop.lines(prefix)
    ok = getattr(prop, "warm_ok", None)
    warm = [_shift_slots(l) for l in pl[1 + k:] if ok is None or ok(prefix, l)]
    if pl and pl[0].startswith("new 0 ") and (k + len(case["ops"])) % 3 == 0:
        warm.append("reads 0")       # every read-only entry point once: a query must never change the graph
    pre = ["pollute %d" % case["pollute"]] if case.get("pollute") else []
    full = pre + lines[:1 + k] + warm + lines[1 + k:]
    n0 = len(pre)
    keep = list(range(n0, n0 + 1 + k)) + list(range(n0 + 1 + k + len(warm), len(full)))
    redump = []
    for j, l in enumerate(warm):
        w = l.split()
        if w[0] == "dump" and int(w[1]) >= _WARM_OFF:
            redump.append((n0 + 1 + k + j, len(full)))
            full.append(l)
    return full, keep, redump


def run_impl(prop, case):
    import impl, signal
    full, keep, redump = build_lines(prop, case)
    signal.signal(signal.SIGALRM, _alarm)
    signal.alarm(int(os.environ.get("VERIF_CASE_TIMEOUT", str(getattr(prop, "case_timeout", 20)))))
    try:
        allouts = norm(impl.run_case(full, case.get("ids", "int"), case.get("tnp", False)))
    finally:
        signal.alarm(0)
    outs = [allouts[i] for i in keep]
    lines = [full[i] for i in keep]
    var = None
    if hasattr(prop, "variants"):
        vc = prop.variants(case, outs)
        if vc is not None:
            vl = prop.lines(vc)
            var = (vc, vl, norm(impl.run_case(vl, case.get("ids", "int"))))
    extra = []
    for (a, b) in redump:
        if jd(allouts[a]) != jd(allouts[b]):
            extra.append({"clause": prop.id + ".derived_graph_changed_later", "detail": {"line": full[a], "then": allouts[a], "later": allouts[b]}})
    case_full = {"full": full, "allouts": allouts, "extra": extra, "keep": keep}
    return lines, outs, var, case_full


def judge(prop, case, outs, var, cf=None):
    if var is not None:
        fails = prop.judge(case, outs, var[2], var[0])
    else:
        fails = prop.judge(case, outs)
    if cf is not None:
        fails = list(fails) + cf["extra"]
    return fails


def safe_judge(prop, case, outs, var, cf=None):
    """judge() for the reporting path (shrinking, replay): an answer of an unexpected shape the oracle cannot read is the
    failure `<pid>.unexpected_output`, not a crash of the check"""
    try:
        return judge(prop, case, outs, var, cf)
    except Exception:
        return [{"clause": prop.id + ".unexpected_output", "detail": {"oracle_trace": traceback.format_exc()[-700:],
                                                                         "outputs": [o for o in outs if isinstance(o, str) and not o.startswith(("ok", "E:"))][:3]}}]


def num_of(x):
    if isinstance(x, list) and len(x) >= 2 and x[0] == "f":
        return float(x[1])
    if isinstance(x, list) and len(x) == 3 and x[0] == "q" and x[2] != 0:
        return x[1] / x[2]
    return None


def same(a, b):
    """structural equality; an implementation float ["f",x] equals a model rational ["q",n,d] within 1e-9"""
    na, nb = num_of(a), num_of(b)
    if na is not None and nb is not None:
        return abs(na - nb) <= 1e-9 * max(1.0, abs(na), abs(nb))
    if isinstance(a, dict) and isinstance(b, dict):
        return a.keys() == b.keys() and all(same(a[k], b[k]) for k in a)
    if isinstance(a, list) and isinstance(b, list):
        return len(a) == len(b) and all(same(x, y) for x, y in zip(a, b))
    if isinstance(a, (int, float)) and isinstance(b, (int, float)) and not isinstance(a, bool) and not isinstance(b, bool):
        return a == b
    return a == b and type(a) == type(b)


def case_hash(case):
    c = {k: v for k, v in case.items() if k not in ("src",)}
    return hashlib.sha1(jd(c).encode()).hexdigest()[:16]


def work(args):
    pid, chunk, use_model = args
    prop = registry.get(pid)
    res = {"n": 0, "nontrivial": set(), "fails": [], "disagree": [], "model_fails": [], "hist": {}, "samples": [],
           "internal": []}
    batch = []
    for case in chunk:
        try:
            lines, outs, var, cf = run_impl(prop, case)
        except CaseTimeout:
            res["hist"]["skipped:case-timeout"] = res["hist"].get("skipped:case-timeout", 0) + 1
            continue
        except Exception:
            res["internal"].append({"case": case, "trace": traceback.format_exc()})
            continue
        try:
            fails = judge(prop, case, outs, var, cf)
        except Exception:
            # the oracle could not even read the implementation's answers: an answer of an unexpected shape.  It is a failure
            # of the implementation if the oracle reads the MODEL's answers to the same lines without trouble (decided below);
            # if it trips over those too, the oracle is at fault (internal error, never a verdict)
            fails = [{"clause": pid + ".unexpected_output", "detail": {"oracle_trace": traceback.format_exc()[-700:]}}]
            if not use_model:
                res["internal"].append({"case": case, "trace": traceback.format_exc()})
                continue
        res["n"] += 1
        src = case.get("src", "?")
        res["hist"][src] = res["hist"].get(src, 0) + 1
        if case.get("warm"):
            res["hist"]["with-warm-up-queries"] = res["hist"].get("with-warm-up-queries", 0) + 1
        if isinstance(case, dict) and "ops" in case:
            try:
                import spec as _spec
                for b in _spec.merge_branches(case):
                    res["hist"]["merge-branch:" + b] = res["hist"].get("merge-branch:" + b, 0) + 1
                res["hist"]["ids:" + str(case.get("ids", "int"))] = res["hist"].get("ids:" + str(case.get("ids", "int")), 0) + 1
            except Exception:  # noqa
                pass
        for o in outs:
            if isinstance(o, str) and o.startswith("E:"):
                res["hist"]["out:" + o] = res["hist"].get("out:" + o, 0) + 1
        try:
            if prop.nontrivial(case, outs):
                res["nontrivial"].add(case_hash(case))
        except Exception:
            pass
        if len(res["samples"]) < 2:
            res["samples"].append({"case": case, "lines": lines[:12]})
        batch.append((case, lines, outs, var, fails, cf))
    if use_model and batch:
        blocks = []
        for case, lines, outs, var, fails, cf in batch:
            blocks.append(cf["full"])
            if var is not None:
                blocks.append(var[1])
        try:
            mres = leanside.run_driver(blocks)
        except Exception:
            res["internal"].append({"case": None, "trace": "driver: " + traceback.format_exc()})
            mres = None
        if mres is not None:
            k = 0
            for case, lines, outs, var, fails, cf in batch:
                mo_full = mres[k]; k += 1
                mvar = None
                if var is not None:
                    mvar = (var[0], var[1], mres[k]); k += 1
                skip = getattr(prop, "model_skip", None)
                full, allouts = cf["full"], cf["allouts"]

                nocmp = getattr(prop, "model_nocompare", None)

                def skipped(l):
                    return l.startswith("pollute") or (skip and skip(l))

                def not_compared(l):
                    # model_skip: the model cannot compute the line; model_nocompare: it can, but the property leaves
                    # the exact answer open (the oracle judges both sides instead)
                    return skipped(l) or (nocmp and nocmp(l))
                dis = [i for i, (a, b) in enumerate(zip(allouts, mo_full)) if not not_compared(full[i]) and not same(a, b)]
                if len(allouts) != len(mo_full):
                    dis.append(min(len(allouts), len(mo_full)))
                if dis:
                    i = dis[0]
                    res["disagree"].append({"case": case, "line_index": i, "line": full[i] if i < len(full) else None,
                                            "impl": allouts[i] if i < len(allouts) else None, "model": mo_full[i] if i < len(mo_full) else None,
                                            "impl_fails": fails[:3]})
                mo = [mo_full[i] for i in cf["keep"]] if len(mo_full) == len(full) else mo_full
                try:
                    mf = [] if any(skipped(l) for l in lines) else judge(prop, case, mo, mvar)
                except Exception:
                    mf = [{"clause": "model-judge-crash", "detail": traceback.format_exc()[-400:]}]
                if any(f["clause"].endswith(".unexpected_output") for f in fails) and any(f.get("clause") == "model-judge-crash" for f in mf):
                    res["internal"].append({"case": case, "trace": "oracle crashed on implementation AND model outputs: " + str(fails[0]["detail"])})
                    continue
                fails_tagged = []
                for f in fails:
                    f = dict(f); f["agrees_with_model"] = not dis
                    fails_tagged.append(f)
                if fails:
                    res["fails"].append({"case": case, "fails": fails_tagged, "lines": lines})
                if mf:
                    res["model_fails"].append({"case": case, "fails": mf[:3]})
    else:
        for case, lines, outs, var, fails, cf in batch:
            if fails:
                res["fails"].append({"case": case, "fails": [dict(f, agrees_with_model=None) for f in fails], "lines": lines})
    res["nontrivial"] = list(res["nontrivial"])
    return res


def chunks(it, size):
    buf = []
    for x in it:
        buf.append(x)
        if len(buf) >= size:
            yield buf; buf = []
    if buf:
        yield buf


def decorate(prop, it, rng2):
    """call-history variations applied uniformly to the cases of every property: the property's own queries
    issued once in the middle of the history (warm), a prelude that exercises unrelated graphs / readers /
    writers in the same process (pollute: process-level state must not leak), numpy integer timestamps"""
    no_warm = getattr(prop, "no_warm", False)
    p_pol = getattr(prop, "pollute_rate", 0.03)
    for case in it:
        if isinstance(case, dict) and "ops" in case and case.get("src") not in ("corpus-long",):
            n = len(case["ops"])
            if not no_warm and n >= 2 and "warm" not in case and rng2.random() < 0.3:
                case["warm"] = rng2.randint(1, n - 1)
            if rng2.random() < 0.04 and case.get("ids", "int") == "int":
                # numpy int64 timestamps; or unsigned ones (a `u4`/`u8` column of an event table) when every instant of the
                # history is positive, so that nothing the caller passes is out of the type's range
                import gen as _gen
                ts_ = _gen.times_of(case["ops"])
                case["tnp"] = 2 if (ts_ and min(ts_) >= 1 and rng2.random() < 0.4) else 1
        if isinstance(case, dict) and rng2.random() < p_pol:
            case["pollute"] = rng2.randint(1, 3)
        yield case


def explore(pid, tier, seed, use_model, case_iter=None, pool=None):
    prop = registry.get(pid)
    if hasattr(prop, "custom_run") and case_iter is None:
        return prop.custom_run(tier, seed)
    rng = random.Random(("%s-%s-%d" % (pid, tier, seed)))
    it = case_iter if case_iter is not None else decorate(prop, prop.cases(tier, rng), random.Random("deco-%s-%s-%d" % (pid, tier, seed)))
    size = getattr(prop, "chunk", 200)
    tot = {"n": 0, "nontrivial": set(), "fails": [], "disagree": [], "model_fails": [], "hist": {}, "samples": [], "internal": []}
    jobs = ((pid, ch, use_model) for ch in chunks(it, size))
    own = pool is None
    if own:
        pool = mp.Pool(NPROC)
    try:
        # a call into the implementation that never returns from C code (e.g. `numpy_int in range(huge)`) cannot be interrupted
        # by the per-case alarm: the other workers finish the remaining chunks, and when no result has arrived for
        # VERIF_STALL seconds the hung workers are given up (their chunks are lost; see `stalled` in main)
        results = pool.imap_unordered(work, jobs)
        stall = int(os.environ.get("VERIF_STALL", "300"))
        while True:
            try:
                r = results.next(timeout=stall)
            except StopIteration:
                break
            except mp.TimeoutError:
                tot["stalled"] = stall
                tot["hist"]["stalled:chunks-lost-to-hung-workers"] = 1
                break
            tot["n"] += r["n"]
            tot["nontrivial"].update(r["nontrivial"])
            for k in ("fails", "disagree", "model_fails", "internal"):
                if len(tot[k]) < 400:
                    tot[k] += r[k]
            for k, v in r["hist"].items():
                tot["hist"][k] = tot["hist"].get(k, 0) + v
            if len(tot["samples"]) < 4:
                tot["samples"] += r["samples"][:1]
    finally:
        if own:
            if os.environ.get("VERIF_POOL_JOIN") == "1":      # dev: let coverage.py flush its data in the workers
                pool.close(); pool.join()
            else:
                pool.terminate()
    return tot


def still_fails(prop, case, clause, kf):
    try:
        lines, outs, var, cf = run_impl(prop, case)
        fails = safe_judge(prop, case, outs, var, cf)
    except Exception:
        return False
    for f in fails:
        if f["clause"] == clause and classify.known(prop.id, case, f, kf) is None:
            return True
    return False


def shrink(prop, case, clause, kf):
    """greedy delta debugging on the op list (drop ops; then pull bulk ops apart)"""
    if "ops" not in case:
        return case
    cur = dict(case)
    changed = True
    budget = 300
    while changed and budget > 0:
        changed = False
        for i in range(len(cur["ops"])):
            budget -= 1
            cand = dict(cur); cand["ops"] = cur["ops"][:i] + cur["ops"][i + 1:]
            if cur.get("warm"):
                cand["warm"] = cur["warm"] - 1 if i < cur["warm"] else cur["warm"]
                if cand["warm"] <= 0 or cand["warm"] >= len(cand["ops"]):
                    cand.pop("warm")
            if still_fails(prop, cand, clause, kf):
                cur = cand; changed = True
                break
    return cur


def write_replay(pid, payload):
    d = os.path.join(VERIF, "replays")
    os.makedirs(d, exist_ok=True)
    h = hashlib.sha1(jd(payload).encode()).hexdigest()[:10]
    p = os.path.join(d, "%s-%s.json" % (pid, h))
    with open(p, "w") as f:
        json.dump(payload, f, indent=1, sort_keys=True)
    return p


def replay(pid, path):
    prop = registry.get(pid)
    r = json.load(open(path))
    if r.get("kind") == "no-failing-input-found":
        print("replay names a broken obligation/correspondence, not an input:")
        print(json.dumps(r, indent=1)[:3000])
        return 0
    case = r["case"]
    lines, outs, var, cf = run_impl(prop, case)
    fails = judge(prop, case, outs, var, cf)
    print("case:", jd(case))
    for l, o in zip(lines, outs):
        print("  > %s\n  < %s" % (l, jd(o)[:600]))
    if fails:
        for f in fails[:6]:
            print("FAIL", f["clause"], jd(f["detail"])[:800])
        print("VIOLATION property=%s replay=%s" % (pid, path))
        return 1
    print("no failure on the current tree")
    return 0


def main():
    ap = argparse.ArgumentParser()
    ap.add_argument("pid")
    ap.add_argument("--tier", default=os.environ.get("VERIF_TIER", "quick"))
    ap.add_argument("--replay")
    a = ap.parse_args()
    pid = a.pid
    tier = a.tier if a.tier in ("quick", "thorough") else "quick"
    seed = int(os.environ.get("VERIF_SEED", "0") or 0)
    if a.replay:
        sys.exit(replay(pid, a.replay))
    t0 = time.time()
    prop = registry.get(pid)
    kf = classify.load()
    use_model = os.environ.get("VERIF_NO_MODEL") != "1"

    # 1. proof obligations
    if hasattr(prop, "pre_obligations"):
        prop.pre_obligations(tier, seed)
    obl = leanside.obligations(pid, tier) if use_model else {"ok": True, "theorems": [], "note": "skipped (VERIF_NO_MODEL)"}
    # extra static obligations of the property (e.g. the regenerated API table of C19)
    # 2+3. correspondence and search
    import drift
    drifted = drift.drifted(pid) if tier == "quick" and os.environ.get("VERIF_NO_ESCALATE") != "1" else []
    run_tier = "thorough" if drifted else tier      # source drift: the quick tier runs the thorough generators
    tot = explore(pid, run_tier, seed, use_model and obl.get("driver_ok", True))
    if tot["internal"]:
        print("INTERNAL ERROR in the machinery (not a verdict):", file=sys.stderr)
        print(tot["internal"][0]["trace"], file=sys.stderr)
        print(jd(tot["internal"][0]["case"])[:2000], file=sys.stderr)
        sys.exit(2)
    if tot.get("stalled") and not tot["fails"] and not tot["disagree"]:
        print("INTERNAL ERROR (not a verdict): no worker delivered a result for %d s - a call into the implementation does not return; "
              "nothing that was explored failed" % tot["stalled"], file=sys.stderr)
        sys.exit(2)
    if tot["model_fails"]:
        # the model itself violates the oracle outside the known classes -> my model/theorem is wrong
        unknown = [m for m in tot["model_fails"] if any(classify.known(pid, m["case"], f, kf) is None for f in m["fails"])]
        if unknown and not tot["disagree"] and not tot["fails"]:
            print("INTERNAL ERROR: model violates the oracle where the implementation does not:", jd(unknown[0])[:2000], file=sys.stderr)
            sys.exit(2)

    violations, known_hits = [], {}
    for fc in tot["fails"]:
        for f in fc["fails"]:
            k = classify.known(pid, fc["case"], f, kf)
            if k is None:
                violations.append((fc["case"], f))
            else:
                known_hits.setdefault(k["id"], (k, fc["case"], f))
    # corpus witnesses of the known findings are always run; print them
    out_lines = []
    for kid, (k, case, f) in sorted(known_hits.items()):
        out_lines.append("KNOWN-FINDING: property=%s %s: %s" % (pid, kid, k["what"]))
    broken = []
    if not obl["ok"]:
        broken.append({"what": "proof obligation", "detail": obl.get("error", "")[-3000:], "theorems": obl.get("failed", [])})
    if tot["disagree"]:
        broken.append({"what": "correspondence model/implementation", "first": tot["disagree"][0], "count": len(tot["disagree"])})

    rc = 0
    replay_path = None
    if violations:
        case, f = min(violations, key=lambda cf: len(jd(cf[0])))
        small = shrink(prop, case, f["clause"], kf)
        lines, outs, var, cf = run_impl(prop, small)
        fs = [x for x in safe_judge(prop, small, outs, var, cf) if classify.known(pid, small, x, kf) is None]
        if not fs:      # shrinking lost the failure (e.g. it depends on process state): keep the original case
            small = case
            lines, outs, var, cf = run_impl(prop, small)
            fs = [x for x in safe_judge(prop, small, outs, var, cf) if classify.known(pid, small, x, kf) is None] or [f]
        replay_path = write_replay(pid, {"property": pid, "kind": "failing-input", "case": small, "lines": cf["full"],
                                         "failures": fs[:5], "observed": cf["allouts"], "broken": broken})
        rc = 1
    elif broken:
        # extended search before giving up on a failing input
        ext = None
        if tier == "quick" and not os.environ.get("VERIF_NO_EXTEND"):
            for s2 in range(1, 4):
                ext = explore(pid, "thorough" if s2 == 1 else "quick", seed * 1000 + s2, False)
                v2 = [(fc["case"], f) for fc in ext["fails"] for f in fc["fails"] if classify.known(pid, fc["case"], dict(f, agrees_with_model=False), kf) is None]
                if v2:
                    case, f = min(v2, key=lambda cf: len(jd(cf[0])))
                    small = shrink(prop, case, f["clause"], kf)
                    lines, outs, var, cf = run_impl(prop, small)
                    fs = safe_judge(prop, small, outs, var, cf)
                    replay_path = write_replay(pid, {"property": pid, "kind": "failing-input", "case": small, "lines": lines,
                                                     "failures": fs[:5], "observed": outs, "broken": broken})
                    break
        if replay_path is None:
            replay_path = write_replay(pid, {"property": pid, "kind": "no-failing-input-found", "broken": broken})
        rc = 1

    for l in out_lines:
        print(l)
    if rc == 1:
        payload = json.load(open(replay_path))
        if payload["kind"] == "failing-input":
            print("failing input:", jd(payload["case"])[:1500])
            for f in payload["failures"][:3]:
                print("  clause %s: %s" % (f["clause"], jd(f["detail"])[:600]))
            print("VIOLATION property=%s replay=%s" % (pid, replay_path))
        else:
            print("broken:", jd(broken)[:1500])
            print("VIOLATION property=%s replay=%s no-failing-input-found" % (pid, replay_path))

    # evidence
    wall = time.time() - t0
    proved = bool(obl["ok"] and obl.get("theorems"))
    ev = {
        "property_id": pid, "tier": tier, "seed": seed, "level": "proof" if proved else "other",
        "coverage": {
            "explanation": ("theorems %s about the Lean model, kernel-checked on this run; model tied to /repo by the correspondence run counted below" % obl.get("theorems"))
            if proved else ("no theorem discharged on this run (%s); this run is a model/implementation correspondence plus an oracle search only"
                            % ("proof obligations BROKEN" if not obl["ok"] else "none registered for this property")),
            "obligations": max(1, len(obl.get("theorems", []))) if obl["ok"] else max(1, len(obl.get("theorems", [])) + len(obl.get("failed", [])) or 1),
            "discharged": len(obl.get("theorems", [])) if obl["ok"] else 0,
            "checker_cmd": obl.get("checker_cmd", "cd /verif/lean && lake build"),
            "trusted_base": obl.get("trusted_base", []),
            "theorems": obl.get("theorems", []),
            "axioms": obl.get("axioms", {}),
            "partial": obl.get("partial", []),
            "evaluations": tot["n"],
            "distinct_nontrivial": len(tot["nontrivial"]),
            "rule": getattr(prop, "rule", "cases = corpus + exhaustive small scope + seeded random (see DESIGN.md section 4); "
                            "a case is non-trivial when the property's `nontrivial` predicate holds (e.g. >= 2 accepted calls); "
                            "distinct = distinct canonical case (sha1 of the case)"),
            "traces_validated_against_impl": tot["n"] if (use_model and obl.get("driver_ok", True)) else 0,
            "correspondence_disagreements": len(tot["disagree"]),
            "escalated_because_sources_differ_from_recorded_baseline": drifted,
            "exhaustive": False,
            "exhaustive_note": "small-scope enumerations inside the run are complete (see histogram keys exh*); the whole space is unbounded",
            "histogram": tot["hist"],
            "known_findings_seen": sorted(known_hits),
            "samples": tot["samples"][:3],
        },
        "assumptions": obl.get("assumptions", []),
        "wall_s": round(wall, 2),
        "violations": 1 if rc == 1 else 0,
    }
    os.makedirs(os.path.join(VERIF, "evidence"), exist_ok=True)
    with open(os.path.join(VERIF, "evidence", pid + ".json"), "w") as f:
        json.dump(ev, f, indent=1, sort_keys=True)
    print("%s tier=%s seed=%d cases=%d nontrivial=%d disagreements=%d known=%s obligations=%s wall=%.1fs"
          % (pid, tier, seed, tot["n"], len(tot["nontrivial"]), len(tot["disagree"]), sorted(known_hits),
             "ok" if obl["ok"] else "BROKEN", wall))
    sys.exit(rc)


if __name__ == "__main__":
    try:
        main()
    except SystemExit:
        raise
    except Exception:
        traceback.print_exc()
        sys.exit(2)
