"""Runs the real dynetx (imported from /repo's working tree) on a line-protocol case.

Every input line yields exactly one canonical JSON value (see PROTOCOL in protocol.md).
Node ids in a case are natural-number codes; `ids` selects how a code becomes a Python
object ('int', 'str', 'mix').  Python-equal ids map to the same code.
"""
import sys, os, io, json, itertools
from functools import partial as _partial
sys.dont_write_bytecode = True
REPO = os.environ.get("DYNETX_REPO", "/repo")
if REPO not in sys.path:
    sys.path.insert(0, REPO)
os.environ.setdefault("DYNETX_VERIF", "1")
import networkx as nx
import dynetx as dn
from dynetx.readwrite import edgelist as _el
from dynetx.readwrite.json_graph import node_link_data, node_link_graph
from dynetx.algorithms import paths as _paths
import dynetx.algorithms as _alg

assert os.path.realpath(dn.__file__).startswith(os.path.realpath(REPO)), dn.__file__

_MIX = {}


# string ids: a precomposed accent, and labels that are NOT in Unicode normal form C (decomposed accent, OHM SIGN, ANGSTROM SIGN):
# text is data, nothing may normalise it
# (codes 4 and 5 also carry characters whose UTF-16 code units contain the bytes 0x0A / 0x0D: U+4E0A, U+010A, U+4E0D)
_STR_NAMES = ["a", "C:\\d", '"q"', "\u00e9", "e\u0301\u4e0a", "\u2126\u010a\u4e0d", "\u212b", "o'k", "b", "c", "k", "l", "m", "n", "o", "p", "q", "r", "s", "t", "u", "v",
              "w", "x", "y", "z"]


def mk_id(code, scheme):
    if scheme == "int":
        return code
    if scheme == "jstr":      # JSON-native ids including the falsy empty string
        return "" if code == 2 else _STR_NAMES[code] if code < 26 else "n%d" % code
    if scheme == "jmix":      # JSON-native ids of two types that print alike: 3 and "3"
        return code // 2 if code % 2 == 0 else str(code // 2)
    if scheme == "dstr":
        return str(code)
    if scheme == "sepstr":    # strings with characters str.splitlines() / str.split() treat as separators, inside the name
        names = ["p\u2028q", "a\x85b", "c\x1dd", "e\rf", "k\u2029l", "m\x1cn", "o\x1ep", "g\x0bh", "i\x0cj"]
        return names[code] if code < len(names) else "n\x85%d" % code
    if scheme == "flt":       # float ids that need all 17 significant digits, tiny and huge ones: files are read with nodetype=float
        vals = [0.1 + 0.2, 0.3, 1 / 3, 2 / 3, 2.5, 1e-7, 123456789.12345679, -0.5, 1e22, 0.1]
        return vals[code] if code < len(vals) else code + 0.1 + 0.2
    if scheme == "hstr":      # hashtag-like strings: the default comment marker inside the name (files are then read with comments='%')
        names = ["#a", "#b7", "c#", "#", "##d", "e", "#f#", "g#h", "#1"]
        return names[code] if code < len(names) else "#n%d" % code
    if scheme == "ustr":      # strings containing the separator of temporal_dag's occurrence names
        names = ["z_0", "a", "a_1", "b", "b_2", "c_x", "_d", "e_", "a_1_2", "f__g"]
        return names[code] if code < len(names) else "u_%d" % code
    if scheme == "str":
        return "n%d" % code if code >= 26 else _STR_NAMES[code]
    # mixed hashables; Python-equal ids must stay distinct per code
    k = code % 4
    if k == 0:
        return code
    if k == 1:
        return "s%d" % code
    if k == 2:
        return (code, "x")
    return frozenset([code, -1])


def fresh(o):
    """an object equal to `o` but (whenever Python allows) not identical to it or to any earlier one: ids are compared with ==,
    never with `is` (CPython caches small ints and interned strings, so literals would hide an identity test)"""
    if isinstance(o, bool):
        return o
    if isinstance(o, int):
        return int(str(o)) if abs(o) > 256 else o
    if isinstance(o, str):
        return "".join(list(o)) if len(o) > 1 else o
    if isinstance(o, tuple):
        return tuple(fresh(x) for x in o)
    if isinstance(o, frozenset):
        return frozenset(list(o))
    return o


def _strict(conv, exc):
    """`conv`, except that a failed conversion raises `exc` instead of ValueError"""
    def f(x):
        try:
            return conv(x)
        except ValueError:
            raise exc(x)
    return f


def err_kind(ex):
    if isinstance(ex, nx.NetworkXNotImplemented):
        return "E:NXNI"
    if isinstance(ex, nx.NetworkXError):
        return "E:NXE"
    for cls, k in ((ValueError, "E:VE"), (KeyError, "E:KeyError"), (IndexError, "E:IndexError"),
                   (TypeError, "E:TypeError"), (ZeroDivisionError, "E:ZeroDiv")):
        if isinstance(ex, cls):
            return k
    return "E:other:" + type(ex).__name__


_TNP = False


def tok(x):
    if x == "-":
        return None
    if _TNP:
        import numpy as np
        v = int(x)
        if _TNP == 2 and 0 <= v < 2 ** 31:
            return np.uint32(v) if v % 2 else np.uint64(v)       # ids taken from an unsigned column of an event table
        return np.int64(v)
    return int(x)


class Impl:
    def __init__(self, ids="int"):
        self.ids = ids
        self.slots = {}
        self.rev = {}

    # ---- id mapping
    def I(self, code):
        o = mk_id(code, self.ids)
        self.rev[o] = code
        return fresh(o)

    def C(self, obj):
        if obj in self.rev:
            return self.rev[obj]
        # ids created by the library itself (readers): ints or strings of the scheme
        if isinstance(obj, int):
            return obj
        for c in range(0, 200):
            if mk_id(c, self.ids) == obj:
                self.rev[obj] = c
                return c
        raise KeyError(obj)

    def ukey(self, G, u, v):
        return (u, v) if G.is_directed() else (min(u, v), max(u, v))

    # ---- canonical observables
    def dump(self, G):
        C = self.C
        nodes = sorted([C(n), self.attr_tok(d)] for n, d in G._node.items())
        tls = {}
        it = G.out_interactions_iter() if G.is_directed() else G.interactions_iter()
        for u, v, d in it:
            tls[self.ukey(G, C(u), C(v))] = [list(x) for x in d['t']]
        ev = []
        for (u, v, op, t) in G.stream_interactions():
            a, b = self.ukey(G, C(u), C(v))
            ev.append([t, a, b, 1 if op == '+' else 0])
        ev_sorted = sorted(ev)
        chrono = all(ev[i][0] <= ev[i + 1][0] for i in range(len(ev) - 1))
        ids = list(G.temporal_snapshots_ids())
        ips = G.interactions_per_snapshots()
        cnt = sorted([t, self.num2(c)] for t, c in ips.items())
        return {"cls": 1 if G.is_directed() else 0, "rem": 1 if G.edge_removal else 0, "g": self.attr_tok(G.graph),
                "nodes": nodes, "tl": sorted([k[0], k[1], v] for k, v in tls.items()),
                "ev": ev_sorted, "chrono": 1 if chrono else 0, "ids": ids, "cnt": cnt}

    @staticmethod
    def num2(c):
        x = 2 * c
        return int(x) if float(x).is_integer() else x

    @staticmethod
    def attr_tok(d):
        if not d:
            return 0
        if set(d.keys()) == {"a"} and isinstance(d["a"], int):
            return d["a"]
        return -1

    def pres(self, G, lo, hi):
        C = self.C

        def qt(t):
            # query instants are integers of any kind: numpy integers when the history used them
            if _TNP and t % 3 == 0:
                import numpy as np
                return np.uint32(t) if (_TNP == 2 and 0 <= t < 2 ** 31) else np.int64(t)
            return t
        univ = sorted(C(n) for n in G._node) + [99]
        out = []
        for a in univ:
            for b in univ:
                u, v = self.I(a), self.I(b)
                flat = 1 if G.has_interaction(u, v) else 0
                ts = [t for t in range(lo, hi + 1) if (G.has_interaction(u, v, qt(t)) if t % 2 else G.has_interaction(u, v, t=qt(t)))]
                if flat or ts:
                    out.append([a, b, flat, ts])
                # a run is a set of snapshot ids: an instant between two ids is not in it (removal-enabled graphs; impl-only probe,
                # reported as an extra row that the model never produces)
                if flat and G.edge_removal:
                    fr = [t + 0.5 for t in range(lo, hi) if abs(t) < 2 ** 40 and G.has_interaction(u, v, t + 0.5)]       # t + 0.5 is exact there
                    if fr:
                        out.append(["frac", a, b, fr])
        return out

    # ---- the interpreter
    def run(self, lines):
        out = []
        for ln in lines:
            ln = ln.strip()
            if not ln:
                continue
            try:
                r = self.exec(ln.split())
            except Exception as ex:  # noqa
                r = err_kind(ex)
            out.append(r)
        return out

    def exec(self, w):
        op = w[0]
        f = getattr(self, "op_" + op)
        return f(*w[1:])

    def G(self, s):
        return self.slots[int(s)]

    def op_new(self, s, cls, rem):
        K = dn.DynDiGraph if int(cls) else dn.DynGraph
        flag = bool(int(rem))
        if _TNP:
            import numpy as np
            flag = np.bool_(flag)        # histories with numpy instants: the flag comes from a numpy table as well (a bool too)
        self.slots[int(s)] = K(edge_removal=flag)
        return "ok"

    def op_add(self, s, u, v, t, e):
        # keyword and positional spellings of the same call (the signature is (u, v, t=None, e=None))
        if (int(u) + int(v)) % 2:
            self.G(s).add_interaction(self.I(int(u)), self.I(int(v)), t=tok(t), e=tok(e))
        elif tok(e) is None and int(u) % 3 == 0:
            self.G(s).add_interaction(self.I(int(u)), self.I(int(v)), tok(t))
        else:
            self.G(s).add_interaction(self.I(int(u)), self.I(int(v)), tok(t), tok(e))
        return "ok"

    def _pairs(self, k, rest):
        k = int(k)
        return [(self.I(int(rest[2 * i])), self.I(int(rest[2 * i + 1]))) for i in range(k)]

    def op_addfrom(self, s, t, e, k, *rest):
        # the documented element forms: 2-tuples (u, v) and 3-tuples (u, v, d) with a data dictionary, in any container
        prs = self._pairs(k, rest)
        # (the dictionaries are data: what interactions() of another graph yields, {'t': [[a, b]]}, included)
        shaped = [((u, v, ({"w": i} if i % 2 else {"t": [[-7, -7 + i]]})) if i % 3 == 1 or (i % 3 == 0 and len(prs) % 4 == 1) else (u, v))
                  for i, (u, v) in enumerate(prs)]
        bunch = shaped if len(prs) % 2 == 0 else iter(shaped)
        if len(prs) % 3 == 0:
            self.G(s).add_interactions_from(bunch, tok(t), tok(e))
        else:
            self.G(s).add_interactions_from(bunch, t=tok(t), e=tok(e))
        return "ok"

    def _nodes(self, k, rest):
        # "nodes : iterable container": the same node sequence as a list, a tuple, a one-shot iterator or a generator
        ns = [self.I(int(x)) for x in rest[:int(k)]]
        self._nform = getattr(self, "_nform", 0) + 1
        form = (self._nform + len(ns)) % 4
        if form == 1:
            return tuple(ns)
        if form == 2:
            return iter(ns)
        if form == 3:
            return (n for n in ns)
        return ns

    def op_path(self, s, t, k, *rest):
        self.G(s).add_path(self._nodes(k, rest), t=tok(t)); return "ok"

    def op_star(self, s, t, k, *rest):
        G = self.G(s)
        (G.add_star if hasattr(G, "add_star") else (lambda n, t: dn.add_star(G, n, t)))(self._nodes(k, rest), t=tok(t))
        return "ok"

    def op_cycle(self, s, t, k, *rest):
        G = self.G(s)
        (G.add_cycle if hasattr(G, "add_cycle") else (lambda n, t: dn.add_cycle(G, n, t)))(self._nodes(k, rest), t=tok(t))
        return "ok"

    @staticmethod
    def _ekw(k, rest):
        """the vanishing time of the module-level wrappers travels in **attr"""
        return {"e": int(rest[int(k)])} if len(rest) > int(k) else {}

    def op_fpath(self, s, t, k, *rest):
        dn.add_path(self.G(s), self._nodes(k, rest), tok(t), **self._ekw(k, rest)); return "ok"

    def op_fstar(self, s, t, k, *rest):
        dn.add_star(self.G(s), self._nodes(k, rest), tok(t), **self._ekw(k, rest)); return "ok"

    def op_fcycle(self, s, t, k, *rest):
        dn.add_cycle(self.G(s), self._nodes(k, rest), tok(t), **self._ekw(k, rest)); return "ok"

    def op_node(self, s, n):
        self.G(s).add_node(self.I(int(n))); return "ok"

    def op_attr(self, s, n, a):
        # both spellings of the same update: update_node_attr(n, ...) and update_node_attr_from([n], ...)
        if int(a) % 2:
            self.G(s).update_node_attr(self.I(int(n)), a=int(a))
        else:
            self.G(s).update_node_attr_from([self.I(int(n))], a=int(a))
        return "ok"

    def op_pollute(self, kind):
        """exercise unrelated graphs, readers and writers in this process with legal but unusual arguments;
        nothing here may influence the case that follows (process-level state must not leak)"""
        import tempfile, shutil
        kind = int(kind)
        A = dn.DynGraph(); B = dn.DynDiGraph(edge_removal=False)
        ids = [1.0, 2.0, 3.0] if kind == 1 else (["1", "2", "3"] if kind == 2 else [True, 2, (3, "x")])
        for G in (A, B):
            G.add_interaction(ids[0], ids[1], 100, 103); G.add_interaction(ids[1], ids[2], 200); G.add_node(ids[0], name="nm", w=[1])
            list(G.stream_interactions()); G.temporal_snapshots_ids(); G.interactions_per_snapshots(150); G.interactions_per_snapshots()
            G.degree(t=100); G.nodes(t=101); list(G.interactions(t=100)); G.has_interaction(ids[0], ids[1], 101)
            list(_el.generate_snapshots(G, ",")); list(_el.generate_interactions(G, ";"))
            try:
                d = node_link_data(G, attrs=dict(id="name", source="source", target="target"))
                node_link_graph(d, attrs=dict(id="name", source="source", target="target"))
            except Exception:
                pass
            try:
                _paths.time_respecting_paths(G, ids[0]); _paths.temporal_dag(G, ids[0])
            except Exception:
                pass
        try:
            A.time_slice(100, 101); A.to_directed(); B.to_undirected(); B.to_undirected(reciprocal=True)
        except Exception:
            pass
        tmp = tempfile.mkdtemp(prefix="dxverif")
        try:
            p = os.path.join(tmp, "p.txt")
            with open(p, "w") as fh:
                fh.write("1 2 700\n2 3 900 950\n# c\n3 1 800\n")
            _el.read_snapshots(p, nodetype=str if kind == 2 else int, timestamptype=int, keys=True)
            _el.read_snapshots(p, nodetype=str, timestamptype=int)
            with open(p, "w") as fh:
                fh.write("1 2 + 700\n1 2 - 900\n7 8 + 910\n")
            _el.read_interactions(p, nodetype=int if kind != 2 else str, timestamptype=int, keys=True)
            _el.read_interactions(p, nodetype=str, timestamptype=int, directed=True)
        except Exception:
            pass
        finally:
            shutil.rmtree(tmp, ignore_errors=True)
        try:
            _paths.annotate_paths([((1, 2, 5),), ((1, 3, 4), (3, 2, 6))])
        except Exception:
            pass
        return "ok"

    def op_reads(self, s):
        """a barrage of read-only calls (every query, statistic and exporter, method and dn.* forms, also the rarely
        used argument forms): none of them may change the graph, which the later dumps and queries would show"""
        G = self.G(s)
        nodes = list(G._node)[:3]
        ts = list(G.snapshots)[:2] + [None]

        def quiet(fn):
            try:
                r = fn()
                if hasattr(r, "__next__"):
                    for _ in zip(range(200), r):
                        pass
            except Exception:  # noqa
                pass
        for t in ts:
            quiet(lambda: G.nodes(t)); quiet(lambda: G.interactions(t=t)); quiet(lambda: G.degree(t=t)); quiet(lambda: G.size(t))
            quiet(lambda: G.number_of_nodes(t)); quiet(lambda: G.number_of_interactions(t=t)); quiet(lambda: dn.density(G, t))
            quiet(lambda: dn.degree_histogram(G, t)); quiet(lambda: list(dn.non_interactions(G, t)))
            for n in nodes:
                quiet(lambda: G.neighbors(n, t)); quiet(lambda: G.degree(n, t)); quiet(lambda: G.has_node(n, t))
                quiet(lambda: list(dn.all_neighbors(G, n, t))); quiet(lambda: list(dn.non_neighbors(G, n, t)))
                if G.is_directed():
                    quiet(lambda: G.successors(n, t)); quiet(lambda: G.predecessors(n, t)); quiet(lambda: G.in_degree(n, t)); quiet(lambda: G.out_degree(n, t))
                    quiet(lambda: G.in_interactions([n], t)); quiet(lambda: G.out_interactions([n], t))
                for m in nodes:
                    quiet(lambda: G.has_interaction(n, m, t)); quiet(lambda: G.number_of_interactions(n, m, t))
        quiet(lambda: list(G.stream_interactions())); quiet(lambda: G.temporal_snapshots_ids()); quiet(lambda: G.interactions_per_snapshots())
        quiet(lambda: G.avg_number_of_nodes()); quiet(lambda: G.inter_event_time_distribution())
        for n in nodes:
            quiet(lambda: G.get_node_snapshots(n)); quiet(lambda: G.inter_event_time_distribution(n))
            if G.is_directed():
                quiet(lambda: G.inter_in_event_time_distribution(n)); quiet(lambda: G.inter_out_event_time_distribution(n))
            for m in nodes:
                quiet(lambda: G.inter_event_time_distribution(n, m))
                if G.is_directed():
                    quiet(lambda: G.inter_in_event_time_distribution(n, m)); quiet(lambda: G.inter_out_event_time_distribution(n, m))
        if not G.is_directed():
            for name in ("coverage", "uniformity", "density"):
                quiet(lambda: getattr(G, name)())
            for n in nodes:
                quiet(lambda: G.node_contribution(n)); quiet(lambda: G.node_density(n)); quiet(lambda: G.node_presence(n))
                for m in nodes:
                    quiet(lambda: G.node_pair_uniformity(n, m)); quiet(lambda: G.pair_density(n, m)); quiet(lambda: G.edge_contribution(n, m))
            for t in ts[:-1]:
                quiet(lambda: G.snapshot_density(t))
        for t in ts[:1]:
            quiet(lambda: G.time_slice(t)); quiet(lambda: dn.time_slice(G, t, t + 2))
        quiet(lambda: G.to_undirected() if G.is_directed() else G.to_directed())
        quiet(lambda: list(_el.generate_snapshots(G))); quiet(lambda: list(_el.generate_interactions(G)))
        quiet(lambda: __import__("dynetx.readwrite.json_graph.node_link", fromlist=["node_link_data"]).node_link_data(G))

        # graphs DERIVED from G are the caller's to change: every stored pair of a slice, of a conversion and of a copy has its
        # latest run prolonged and a further run added; G must not notice (its timelines are its own lists)
        def grow(H):
            it = H.out_interactions_iter() if H.is_directed() else H.interactions_iter()
            for u, v, d in list(it):
                end = d['t'][-1][1]
                H.add_interaction(u, v, end + 1)
                H.add_interaction(u, v, end + 2, e=end + 5)
                H.add_interaction(u, v, end + 9)
        import copy
        for t in ts[:1]:
            quiet(lambda: grow(G.time_slice(t, t + 3)))
        quiet(lambda: grow(G.to_undirected() if G.is_directed() else G.to_directed()))
        quiet(lambda: grow(copy.deepcopy(G)))
        return "ok"

    def op_clear(self, s):
        self.G(s).clear(); return "ok"

    def op_clearedges(self, s):
        self.G(s).clear_edges(); return "ok"

    def op_gattr(self, s, a):
        self.G(s).graph["a"] = int(a); return "ok"

    def op_dump(self, s):
        return self.dump(self.G(s))

    def op_pres(self, s, lo, hi):
        return self.pres(self.G(s), int(lo), int(hi))

    def op_tls(self, s):
        G = self.G(s)
        C = self.C
        out = []
        for n in list(G._node):
            if G.is_directed():
                for u, v, d in G.out_interactions([n]):
                    out.append(["out", C(u), C(v), [list(x) for x in d['t']]])
                for u, v, d in G.in_interactions([n]):
                    out.append(["in", C(u), C(v), [list(x) for x in d['t']]])
            else:
                for u, v, d in G.interactions([n]):
                    out.append(["inter", C(u), C(v), [list(x) for x in d['t']]])
        return sorted(out)

    def op_fstream(self, s):
        G = self.G(s)
        ev = []
        for (u, v, op, t) in dn.stream_interactions(G):
            a, b = self.ukey(G, self.C(u), self.C(v))
            ev.append([t, a, b, 1 if op == '+' else 0])
        chrono = all(ev[i][0] <= ev[i + 1][0] for i in range(len(ev) - 1))
        return {"ev": sorted(ev), "chrono": 1 if chrono else 0}

    def op_snaprt(self, src, dst):
        G = self.G(src)
        rows = list(_el.generate_snapshots(G, " "))
        nt = int if self.ids == "int" else (str if self.ids == "dstr" else None)
        self.slots[int(dst)] = _el.parse_snapshots(rows, directed=G.is_directed(), nodetype=nt, timestamptype=int)
        return "ok"

    def op_intrt(self, src, dst):
        G = self.G(src)
        rows = list(_el.generate_interactions(G, " "))
        nt = int if self.ids == "int" else (str if self.ids == "dstr" else None)
        self.slots[int(dst)] = _el.parse_interactions(rows, directed=G.is_directed(), nodetype=nt, timestamptype=int)
        return "ok"

    def op_has(self, s, u, v, t):
        return 1 if self.G(s).has_interaction(self.I(int(u)), self.I(int(v)), tok(t)) else 0

    # ---- derived graphs
    def op_slice(self, src, dst, a, b):
        G = self.G(src)
        if b == "-":
            H = G.time_slice(int(a)) if int(a) % 2 else G.time_slice(t_from=int(a))
        else:
            H = G.time_slice(int(a), int(b)) if (int(a) + int(b)) % 2 else G.time_slice(t_from=int(a), t_to=int(b))
        assert H is not G
        self.slots[int(dst)] = H
        # node attributes are carried whatever their NAMES are (any hashable: a year, a tuple), impl-only cross check
        import copy
        G2 = copy.deepcopy(G)
        for n in G2._node:
            G2._node[n][2020] = "y"; G2._node[n][("k", 1)] = 2
        H2 = G2.time_slice(int(a)) if b == "-" else G2.time_slice(int(a), int(b))
        if any(H2._node[n].get(2020) != "y" or H2._node[n].get(("k", 1)) != 2 for n in H2._node) or set(H2._node) != set(H._node):
            return "attributes-with-non-string-names-not-carried"
        return "ok"

    def op_fslice(self, src, dst, a, b):
        G = self.G(src)
        if b == "-":
            H = dn.time_slice(G, int(a))
        else:
            H = dn.time_slice(G, int(a), int(b)) if (int(a) + int(b)) % 2 else dn.time_slice(G, t_from=int(a), t_to=int(b))
        self.slots[int(dst)] = H
        return "ok"

    def op_todir(self, src, dst):
        self.slots[int(dst)] = self.G(src).to_directed(); return "ok"

    def op_toundir(self, src, dst, recip):
        # the signature is to_undirected(reciprocal=False): the flag is given by keyword, positionally, or left out
        G = self.G(src)
        if int(recip):
            H = G.to_undirected(reciprocal=True) if len(G._node) % 2 else G.to_undirected(True)
        else:
            H = G.to_undirected() if len(G._node) % 2 else G.to_undirected(False)
        self.slots[int(dst)] = H; return "ok"

    def op_isol(self, src, kind):
        """isolation of a conversion result: nested mutable attributes are set on G (graph and node
        level), the result is mutated everywhere, G must not change (impl only; not modelled)."""
        import copy
        G0 = self.G(src)
        G = copy.deepcopy(G0)
        G.graph["k"] = {"deep": [1, [2, 3]]}
        # graph attributes are data: keys that happen to be constructor parameter names, or are not strings, are carried like any other
        G.graph.update([{"edge_removal": False}, {"data": [1]}, {7: "x"}, {"name": "g"}][len(G._node) % 4])
        for n in G._node:
            G._node[n]["nest"] = {"l": [n if isinstance(n, int) else 0, [7]]}
        before = (copy.deepcopy(G.graph), copy.deepcopy(G._node), self.dump(G)["tl"], self.dump(G)["ev"])
        H = G.to_directed() if kind == "d" else G.to_undirected(reciprocal=(kind == "u1"))
        if H is G:
            return "same-object"
        if H.graph != G.graph:
            return "graph-attrs-lost"
        H0 = G0.to_directed() if kind == "d" else G0.to_undirected(reciprocal=(kind == "u1"))
        if self.dump(H)["tl"] != self.dump(H0)["tl"] or self.dump(H)["ev"] != self.dump(H0)["ev"]:
            return "attributes-change-the-conversion"
        for n in H._node:
            if H._node[n] != G._node[n]:
                return "node-attrs-lost"
        H.graph["k"]["deep"][1].append(99); H.graph["new"] = 1
        for n in H._node:
            H._node[n]["nest"]["l"][1].append(99); H._node[n]["x"] = 1
        for u, v, d in (H.out_interactions_iter() if H.is_directed() else H.interactions_iter()):
            for iv in d["t"]:
                iv[0] -= 1000
        H.add_interaction(self.I(50), self.I(51), t=1000)
        after = (G.graph, G._node, self.dump(G)["tl"], self.dump(G)["ev"])
        return "isolated" if before == after else "leak"

    # ---- row level I/O (the text layer proper is exercised by the C09/C10/C18 oracles)
    def op_wsnap(self, s):
        rows = []
        G = self.G(s)
        for line in _el.generate_snapshots(G, " "):
            u, v, t = line.split(" ")
            rows.append(self.row_uv(G, u, v) + [int(t)])
        return sorted(rows)

    def row_uv(self, G, u, v):
        # ids were rendered with str(); only the int / str schemes reach the writers
        conv = (lambda x: int(x)) if self.ids == "int" else (lambda x: self.C(x))
        return [conv(u), conv(v)]

    def _txt(self, code):
        return str(self.I(int(code)))

    def op_rsnap(self, dst, cls, k, *rest):
        lines, i = [], 0
        for _ in range(int(k)):
            n = int(rest[i]); f = rest[i + 1:i + 1 + n]; i += 1 + n
            lines.append(" ".join([self._txt(f[0]), self._txt(f[1])] + list(f[2:])))
        nt = int if self.ids == "int" else (str if self.ids == "dstr" else None)
        self.slots[int(dst)] = _el.parse_snapshots(lines, directed=bool(int(cls)), nodetype=nt, timestamptype=int)
        return "ok"

    def op_wint(self, s):
        G = self.G(s)
        rows = []
        for line in _el.generate_interactions(G, " "):
            u, v, op, t = line.split(" ")
            a, b = self.row_uv(G, u, v)
            a, b = self.ukey(G, a, b)
            rows.append([int(t), a, b, 1 if op == "+" else 0])
        chrono = all(rows[i][0] <= rows[i + 1][0] for i in range(len(rows) - 1))
        return {"rows": sorted(rows), "chrono": 1 if chrono else 0}

    def op_rint(self, dst, cls, k, *rest):
        lines = []
        for i in range(int(k)):
            u, v, op, t = rest[4 * i:4 * i + 4]
            lines.append(" ".join([self._txt(u), self._txt(v), "+" if op == "1" else "-", t]))
        nt = int if self.ids == "int" else (str if self.ids == "dstr" else None)
        self.slots[int(dst)] = _el.parse_interactions(lines, directed=bool(int(cls)), nodetype=nt, timestamptype=int)
        return "ok"

    DELIMS = [" ", ",", "\t", ";"]
    # delimiters of the file round trips only: also characters that are special in regular expressions, and a two-character one
    FILE_DELIMS = DELIMS + ["|", ".", "$", "::", "*", "?", "(", "\\"]
    ENCS = ["utf-8", "latin-1", "utf-16", "utf-8-sig"]     # the last two start the stream with a byte order mark

    def op_filert(self, kind, src, dst, target, delim, enc, cm="35"):
        """write_snapshots/write_interactions to a real target, read back with matching arguments"""
        cmk = {} if cm == "35" else {"comments": chr(int(cm))}
        # the defaults match each other: what is written with ' ' (the writers' default) is also read back with the readers'
        # default delimiter (None: any run of blanks), every other time
        rdk = {} if (int(delim) == 0 and len(self.G(src)._node) % 2 == 0 and self.ids != "sepstr") else None
        import tempfile, shutil, gzip, bz2
        G = self.G(src)
        kind, target = int(kind), int(target)
        d, en = self.FILE_DELIMS[int(delim)], self.ENCS[int(enc)]
        if any(d in str(n) for n in G._node):
            d = "," if not any("," in str(n) for n in G._node) else ";"       # a delimiter must not occur inside a label
        wr = _el.write_interactions if kind else _el.write_snapshots
        rd = _el.read_interactions if kind else _el.read_snapshots
        nt = int if self.ids == "int" else (str if self.ids == "dstr" else (float if self.ids == "flt" else None))
        tmp = tempfile.mkdtemp(prefix="dxverif")
        try:
            p = os.path.join(tmp, "g.txt" + ["", ".gz", ".bz2", ""][target])
            if target == 3:
                # an open binary file is written from its current position: every other time the caller has already
                # written a comment header to it
                head = ("%s %d nodes\n" % (chr(int(cm)), len(G._node))).encode(en) if (len(G._node) + int(delim)) % 2 and int(enc) < 2 else b""
                with open(p, "wb") as fh:
                    fh.write(head)
                    wr(G, fh, delimiter=d, encoding=en)
                    if fh.closed:
                        return "closed-caller-file"
                raw = open(p, "rb").read()
                if not raw.startswith(head):
                    return "caller-header-overwritten"
                raw = raw[len(head):]
                with open(p, "rb") as fh:
                    H = rd(fh, directed=G.is_directed(), nodetype=nt, timestamptype=int, encoding=en, **(rdk if rdk is not None else {"delimiter": d}), **cmk)
            else:
                # positional and keyword spellings of (G, path)
                if len(G._node) % 3 == 0:
                    wr(G=G, path=p, delimiter=d, encoding=en)
                elif len(G._node) % 3 == 1:
                    wr(G, path=p, delimiter=d, encoding=en)
                else:
                    wr(G, p, delimiter=d, encoding=en)
                raw = {0: lambda: open(p, "rb").read(), 1: lambda: gzip.open(p).read(), 2: lambda: bz2.open(p).read()}[target]()
                H = rd(p, directed=G.is_directed(), nodetype=nt, timestamptype=int, encoding=en, **(rdk if rdk is not None else {"delimiter": d}), **cmk)
        finally:
            shutil.rmtree(tmp, ignore_errors=True)
        self.slots[int(dst)] = H
        rows = []
        txt = raw.decode(en)
        if txt and not txt.endswith("\n"):
            return "no-trailing-newline"
        order_ok = 1
        lastt = None
        for line in txt.split("\n")[:-1]:
            f = line.split(d)
            if len(f) != (4 if kind else 3):
                return "bad-row:" + line
            conv = (lambda x: int(x)) if self.ids == "int" else ((lambda x: self.C(float(x))) if self.ids == "flt" else (lambda x: self.C(x)))
            a, b = conv(f[0]), conv(f[1])
            if kind:
                if f[2] not in "+-":
                    return "bad-row:" + line
                a, b = self.ukey(G, a, b)
                rows.append([int(f[3]), a, b, 1 if f[2] == "+" else 0])
                if lastt is not None and int(f[3]) < lastt:
                    order_ok = 0
                lastt = int(f[3])
            else:
                a, b = self.ukey(G, a, b)
                rows.append([a, b, int(f[2])])
        return {"rows": sorted(rows), "chrono": order_ok}

    def op_textrt(self, kind, src, dst, delim):
        """the exact text write_snapshots / write_interactions produce (int ids only), parsed back from the lines"""
        import io
        G = self.G(src)
        kind, d = int(kind), self.DELIMS[int(delim)]
        buf = io.BytesIO()
        (_el.write_interactions if kind else _el.write_snapshots)(G, buf, delimiter=d)
        txt = buf.getvalue().decode("utf-8")
        if txt and not txt.endswith("\n"):
            return "no-trailing-newline"
        lines = txt.split("\n")[:-1]
        H = (_el.parse_interactions if kind else _el.parse_snapshots)(
            lines, directed=G.is_directed(), delimiter=d, nodetype=int, timestamptype=int)
        self.slots[int(dst)] = H
        return {"lines": sorted([ord(c) for c in l] for l in lines)}

    def op_textrtn(self, kind, src, dst, delim, k, *rest):
        """like textrt, for any node type whose str() is given by the table on the line: the text is parsed back
        with nodetype=str (the library's own converter for such ids)"""
        import io
        G = self.G(src)
        kind, d = int(kind), self.DELIMS[int(delim)]
        buf = io.BytesIO()
        (_el.write_interactions if kind else _el.write_snapshots)(G, buf, delimiter=d)
        txt = buf.getvalue().decode("utf-8")
        if txt and not txt.endswith("\n"):
            return "no-trailing-newline"
        lines = txt.split("\n")[:-1]
        H = (_el.parse_interactions if kind else _el.parse_snapshots)(
            lines, directed=G.is_directed(), delimiter=d, nodetype=str, timestamptype=int)
        self.slots[int(dst)] = H
        return {"lines": sorted([ord(c) for c in l] for l in lines)}

    def op_rkeys(self, kind, dst, cls, k, *rest):
        """read_snapshots / read_interactions with keys=True on a real file (rows given as token lists)"""
        import tempfile, shutil
        lines, i = [], 0
        for _ in range(int(k)):
            n = int(rest[i]); f = list(rest[i + 1:i + 1 + n]); i += 1 + n
            if int(kind) and len(f) == 4 and f[0] != "#":
                f[2] = "+" if f[2] == "1" else "-"
            lines.append(" ".join(f))
        tmp = tempfile.mkdtemp(prefix="dxverif")
        try:
            p = os.path.join(tmp, "k.txt")
            with open(p, "w") as fh:
                fh.write("".join(l + "\n" for l in lines))
            rd = _el.read_interactions if int(kind) else _el.read_snapshots
            main_exc = None
            try:
                H = rd(p, directed=bool(int(cls)), nodetype=int, timestamptype=int, keys=True)
            except Exception as ex:  # noqa
                main_exc = ex
            for nt, tt in ((_strict(int, KeyError), _strict(int, ZeroDivisionError)), (_partial(int), _partial(int, base=10))):
                try:
                    rd(p, directed=bool(int(cls)), nodetype=nt, timestamptype=tt, keys=True)
                    other = None
                except Exception as ex:  # noqa
                    other = ex
                if (other is None) != (main_exc is None) or (other is not None and err_kind(other) != err_kind(main_exc)):
                    return "converter-exception-leaks:%s-instead-of-%s" % (type(other).__name__, type(main_exc).__name__)
            if main_exc is not None:
                raise main_exc
            # the same rows in a file whose last row has no line terminator, and with CRLF terminators (impl-only cross check)
            if lines:
                for nm, txt in (("no-final-newline", "\n".join(lines)), ("crlf", "".join(l + "\r\n" for l in lines))):
                    p2 = os.path.join(tmp, "k2.txt")
                    with open(p2, "w", newline="") as fh:
                        fh.write(txt)
                    H2 = rd(p2, directed=bool(int(cls)), nodetype=int, timestamptype=int, keys=True)
                    if self.dump(H2)["tl"] != self.dump(H)["tl"] or self.dump(H2)["ev"] != self.dump(H)["ev"]:
                        return "file-read-differently:" + nm
        finally:
            shutil.rmtree(tmp, ignore_errors=True)
        self.slots[int(dst)] = H
        for n in H._node:
            self.rev.setdefault(n, n)
        return "ok"

    def op_nlrt2(self, src, dst):
        """custom attrs['id'] (impl only)"""
        G = self.G(src)
        # the documented attrs argument, same dictionary on both sides: only the id key, all three keys, only the end points
        at = (dict(id="name", source="source", target="target"), dict(id="key", source="from", target="to"),
              dict(id="id", source="s", target="t"))[(len(G._node) + int(dst)) % 3]
        d = json.loads(json.dumps(node_link_data(G, attrs=at)))
        if any((at["id"] != "id" and "id" in n) or at["id"] not in n for n in d["nodes"]):
            return "custom-id-ignored"
        # attribute names are data: blanks around a name, an empty name, non-ASCII names come back as they were
        import copy
        G2 = copy.deepcopy(G)
        odd = {"weight ": 0.5, " group": "x", "": 1, "\u00e9t\u00e9": [1, 2], "a": 3, "source": "survey", "target": 3, "time": 4, "links": []}
        for n in list(G2._node)[:2]:
            G2._node[n].update(odd)
        G2.graph["note "] = "kept"
        H2 = node_link_graph(json.loads(json.dumps(node_link_data(G2))))
        for n in list(G2._node)[:2]:
            if H2._node[n] != G2._node[n]:
                return "attribute-names-changed"
        if H2.graph != G2.graph:
            return "graph-attribute-names-changed"
        self.slots[int(dst)] = node_link_graph(d, attrs=at)
        return "ok"

    def op_nlidattr(self, src):
        """a node attribute whose NAME is the id key of the node-link format ('id' by default) - impl only"""
        import copy
        G2 = copy.deepcopy(self.G(src))
        if not G2._node:
            return "ok"
        n0 = next(iter(G2._node))
        G2._node[n0]["id"] = "five"
        d = json.loads(json.dumps(node_link_data(G2)))
        H = node_link_graph(d)
        back = [n for n in H._node if n == n0 and type(n) is type(n0)]
        if len(back) != 1 or len(H._node) != len(G2._node):
            return "node-lost"
        return "ok" if H._node[back[0]] == G2._node[n0] else "attribute-lost"

    # attribute names of the record-level node-link ops (token = position)
    _REC_NAMES = ["id", "name", "key", "a", "weight ", "", "\u00e9t\u00e9", "source", "time", "target", "label", "ID"]

    def _rec_at(self, id_key):
        nm = self._REC_NAMES[int(id_key)]
        return dict(id=nm, source="source", target="target")

    def _rec_val(self, v):
        # attribute values are strings "v<k>", node ids are integers
        if isinstance(v, bool) or not isinstance(v, (int, str)):
            return [9, repr(v)[:40]]
        return [1, v] if isinstance(v, int) else [0, int(v[1:])] if v[:1] == "v" and v[1:].isdigit() else [9, v[:40]]

    def _rec_items(self, d):
        tok = {n: i for i, n in enumerate(self._REC_NAMES)}
        return [[tok.get(k, repr(k)[:40])] + self._rec_val(v) for k, v in d.items()]

    def _rec_table(self, H):
        return [self._rec_val(n) + [self._rec_items(a)] for n, a in H._node.items()]

    def op_nlrecs(self, id_key, m, *rest):
        """node records written by node_link_data for nodes with NAMED attributes, and the node table node_link_graph
        rebuilds from them (through a real JSON encoder)"""
        at = self._rec_at(id_key)
        rest = [int(x) for x in rest]
        nodes, i = [], 0
        for _ in range(int(m)):
            n, k = rest[i], rest[i + 1]
            body = rest[i + 2:i + 2 + 2 * k]
            nodes.append((n, {self._REC_NAMES[body[2 * j]]: "v%d" % body[2 * j + 1] for j in range(k)}))
            i += 2 + 2 * k
        G = (dn.DynDiGraph if (len(rest) + int(id_key)) % 2 else dn.DynGraph)()
        for j, (n, a) in enumerate(nodes):
            if j % 2:
                G.add_node(n, **a)
            else:
                G.add_node(n)
                for k, v in a.items():
                    G._node[n][k] = v
        d = node_link_data(G, attrs=at)
        recs = [self._rec_items(r) for r in d["nodes"]]
        d2 = json.loads(json.dumps(d))
        if [self._rec_items(r) for r in d2["nodes"]] != recs:
            return "json-changes-records"
        H = node_link_graph(d2, attrs=at)
        if H.is_directed() != G.is_directed():
            return "class-changed"
        return {"recs": recs, "back": self._rec_table(H)}

    def op_nlimp(self, id_key, m, *rest):
        """node_link_graph on hand-written records: missing ids, repeated ids"""
        at = self._rec_at(id_key)
        rest = [int(x) for x in rest]
        recs, i = [], 0
        for _ in range(int(m)):
            k = rest[i]
            body = rest[i + 1:i + 1 + 3 * k]
            recs.append({self._REC_NAMES[body[3 * j]]: (body[3 * j + 2] if body[3 * j + 1] else "v%d" % body[3 * j + 2]) for j in range(k)})
            i += 1 + 3 * k
        data = {"directed": bool((len(rest) + int(id_key)) % 2), "graph": {}, "nodes": recs, "links": []}
        H = node_link_graph(json.loads(json.dumps(data)), attrs=at)
        return self._rec_table(H)

    def op_nld(self, s):
        G = self.G(s)
        d = node_link_data(G)
        links = sorted([list(self.ukey(G, self.C(l["source"]), self.C(l["target"]))) + [l["time"]] for l in d["links"]])
        nodes = sorted([self.C(n["id"]), self.attr_tok({k: v for k, v in n.items() if k != "id"})] for n in d["nodes"])
        try:
            json.dumps(d)
            ser = 1
        except Exception:
            ser = 0
        return {"directed": 1 if d["directed"] else 0, "nodes": nodes, "links": links, "g": self.attr_tok(d["graph"]), "json": ser}

    def op_nlrt(self, src, dst, dflt, keepflag):
        G = self.G(src)
        d = json.loads(json.dumps(node_link_data(G)))
        if not int(keepflag):
            # the class must then come from the argument; links are dropped so that reading directed
            # data as an undirected graph cannot trip over the start-order rule
            del d["directed"]
            d["links"] = []
        self.slots[int(dst)] = node_link_graph(d, directed=bool(int(dflt)))
        return "ok"

    # ---- C02 queries
    def op_q2(self, s, t, k=None, *rest):
        G = self.G(s)
        t = tok(t)
        C = self.C
        nb = None if k is None else [self.I(int(x)) for x in rest[:int(k)]]
        D = G.is_directed()
        r = {}

        def uk(u, v):
            return list(self.ukey(G, C(u), C(v)))

        def guard(fn):
            try:
                return fn()
            except Exception as ex:  # noqa
                return err_kind(ex)

        def inter(lst):
            lst = list(lst)
            return {"n": len(lst), "set": sorted(uk(x[0], x[1]) for x in lst)}

        r["inter"] = guard(lambda: inter(G.interactions(nb, t) if (t or 0) % 2 else G.interactions(nbunch=nb, t=t)))
        r["inter_iter"] = guard(lambda: inter(G.interactions_iter(nb, t)))
        r["f_inter"] = guard(lambda: inter(dn.interactions(G, nb, t)))
        if D:
            r["in_inter"] = guard(lambda: inter(G.in_interactions(nb, t)))
            r["out_inter"] = guard(lambda: inter(G.out_interactions(nb, t)))
            r["in_inter_iter"] = guard(lambda: inter(G.in_interactions_iter(nb, t)))
            r["out_inter_iter"] = guard(lambda: inter(G.out_interactions_iter(nb, t)))
        dd = lambda d: sorted([C(n), v] for n, v in d.items()) if isinstance(d, dict) else d
        r["deg"] = guard(lambda: dd(G.degree(nb, t) if (t or 0) % 2 else G.degree(nbunch=nb, t=t)))
        r["deg_iter"] = guard(lambda: dd(dict(G.degree_iter(nb, t))))
        r["f_deg"] = guard(lambda: dd(dn.degree(G, nb, t)))
        if nb is not None:
            # nbunch is documented as "iterated through once": a one-shot iterator is legal
            r["deg_once"] = guard(lambda: dd(G.degree(iter(list(nb)), t)))
            r["deg_set"] = guard(lambda: dd(G.degree(set(nb), t)))         # any container of nodes is an nbunch
            r["inter_tuple"] = guard(lambda: inter(G.interactions(tuple(nb), t)) if tuple(nb) not in G._node else inter(G.interactions(list(nb), t)))
            r["inter_once"] = guard(lambda: inter(G.interactions(iter(list(nb)), t)))
        if D:
            r["indeg"] = guard(lambda: dd(G.in_degree(nb, t)))
            r["outdeg"] = guard(lambda: dd(G.out_degree(nb, t)))
            r["indeg_iter"] = guard(lambda: dd(dict(G.in_degree_iter(nb, t))))
            r["outdeg_iter"] = guard(lambda: dd(dict(G.out_degree_iter(nb, t))))
        if nb is None:
            sl = lambda x: sorted(C(n) for n in x)
            r["nodes"] = guard(lambda: sl(G.nodes(t)))
            r["nodes_iter"] = guard(lambda: sl(G.nodes_iter(t)))
            r["f_nodes"] = guard(lambda: sl(dn.nodes(G, t)))
            r["nodes_data"] = guard(lambda: sorted([C(n), self.attr_tok(d)] for n, d in G.nodes(t, data=True)))
            r["nnodes"] = guard(lambda: G.number_of_nodes(t))
            r["f_nnodes"] = guard(lambda: dn.number_of_nodes(G, t))
            if not D:
                r["order"] = guard(lambda: G.order(t))
            r["size"] = guard(lambda: G.size(t))
            r["nint"] = guard(lambda: G.number_of_interactions(t=t))
            r["f_nint"] = guard(lambda: dn.number_of_interactions(G, t=t))
            r["density"] = guard(lambda: self.fl(dn.density(G, t)))
            r["deghist"] = guard(lambda: list(dn.degree_histogram(G, t)))
            r["isempty"] = guard(lambda: 1 if dn.is_empty(G) else 0)
            r["nonint"] = guard(lambda: (lambda l: {"n": len(l), "set": sorted(sorted([C(a), C(b)]) for a, b in l)})(list(dn.non_interactions(G, t))))
            per = {}
            for n in [self.I(C(k)) for k in G._node] + [self.I(99)]:    # fresh equal objects, not the stored keys
                c = C(n)
                e = {}
                if c == 99:
                    # an unknown node, and (flattened view) something that cannot even be a node
                    per[str(c)] = {"hasnode": guard(lambda: 1 if G.has_node(n, t) else 0),
                                   "hasnode_unhashable": guard(lambda: 1 if G.has_node([n], None) else 0)}
                    continue
                e["nbrs"] = guard(lambda: sl(G.neighbors(n, t)))
                e["nbrs_iter"] = guard(lambda: sl(G.neighbors_iter(n, t)))
                e["f_nbrs"] = guard(lambda: sl(dn.neighbors(G, n, t)))
                if D:
                    e["succ"] = guard(lambda: sl(G.successors(n, t)))
                    e["pred"] = guard(lambda: sl(G.predecessors(n, t)))
                    e["succ_iter"] = guard(lambda: sl(G.successors_iter(n, t)))
                    e["pred_iter"] = guard(lambda: sl(G.predecessors_iter(n, t)))
                    e["indeg1"] = guard(lambda: dd(G.in_degree(n, t)))       # single-node forms
                    e["outdeg1"] = guard(lambda: dd(G.out_degree(n, t)))
                e["hasnode"] = guard(lambda: 1 if G.has_node(n, t) else 0)
                e["deg1"] = guard(lambda: dd(G.degree(n, t)))
                # the functional forms with a single node as nbunch answer like the methods (impl-only cross check; the key is
                # only there when they differ)
                f1 = guard(lambda: dd(dn.degree(G, n, t)))
                if f1 != e["deg1"]:
                    e["f_deg1_differs"] = [repr(f1)[:80], repr(e["deg1"])[:80]]
                i1 = guard(lambda: inter(dn.interactions(G, n, t))); i2 = guard(lambda: inter(G.interactions(n, t)))
                if i1 != i2:
                    e["f_inter1_differs"] = [repr(i1)[:120], repr(i2)[:120]]
                if c != 99:
                    e["allnbrs"] = guard(lambda: sl(dn.all_neighbors(G, n, t)))
                    e["nonnbrs"] = guard(lambda: sl(dn.non_neighbors(G, n, t)))
                    if t is None:
                        e["snaps"] = guard(lambda: (lambda x: list(x) if isinstance(x, list) else ["notalist", x])(G.get_node_snapshots(n)))
                per[str(c)] = e
            r["per"] = per
            pairs = {}
            for a in G._node:
                for b in G._node:
                    v = guard(lambda: G.number_of_interactions(a, b, t))
                    fv = guard(lambda: dn.number_of_interactions(G, a, b, t))
                    ent = [v, fv]
                    if D:
                        # has_successor(a, b, t): a -> b present; has_predecessor(b, a, t): the same arc seen from b
                        ent += [guard(lambda: 1 if G.has_successor(a, b, t) else 0), guard(lambda: 1 if G.has_predecessor(b, a, t) else 0)]
                    if any(x != 0 for x in ent):
                        pairs["%d,%d" % (C(a), C(b))] = ent
            r["nint2"] = pairs
        return r

    @staticmethod
    def fl(x):
        return ["f", float(x)]

    # ---- C04
    def op_q4(self, s, lo, hi):
        return self.op_q4_obj(self.G(s), lo, hi)

    def op_q4_obj(self, G, lo, hi):
        ipsd = G.interactions_per_snapshots()
        # the functional form without t is the method's answer: same ids, same count for each id (impl-only cross check)
        fd = dn.interactions_per_snapshots(G)
        if not isinstance(fd, dict) or dict(fd) != dict(ipsd):
            return "functional-interactions_per_snapshots-without-t-differs-from-the-method"
        return {"ids": list(G.temporal_snapshots_ids()), "f_ids": list(dn.temporal_snapshots_ids(G)),
                "ips": [[t, self.num2(G.interactions_per_snapshots(t))] for t in range(int(lo), int(hi) + 1)],
                "f_ips": [[t, self.num2(dn.interactions_per_snapshots(G, t))] for t in range(int(lo), int(hi) + 1)],
                "ipsall": sorted([t, self.num2(c)] for t, c in ipsd.items()),
                "nn": [[t, G.number_of_nodes(t)] for t in G.temporal_snapshots_ids()],
                "avg": self.guardf(lambda: self.fl(G.avg_number_of_nodes()))}

    def guardf(self, fn):
        try:
            return fn()
        except Exception as ex:  # noqa
            return err_kind(ex)

    # ---- C17
    def op_stats(self, s):
        G = self.G(s)
        C = self.C
        g = self.guardf
        r = {}
        nodes = list(G._node)
        if not G.is_directed():
            for name in ("coverage", "uniformity", "density"):
                r[name] = g(lambda: self.fl(getattr(G, name)()))
            r["avg_nodes"] = g(lambda: self.fl(G.avg_number_of_nodes()))
            pn = {}
            for n in nodes:
                c = str(C(n))
                pn[c] = {"contrib": g(lambda: self.fl(G.node_contribution(n))),
                         "ndens": g(lambda: self.fl(G.node_density(n))),
                         "npres": g(lambda: sorted(G.node_presence(n)))}
            r["node"] = pn
            pp = {}
            for a, b in itertools.combinations(nodes, 2):
                k = "%d,%d" % tuple(sorted((C(a), C(b))))
                d = {"puni": g(lambda: self.fl(G.node_pair_uniformity(a, b))),
                     "pdens": g(lambda: self.fl(G.pair_density(a, b)))}
                if G.has_interaction(a, b):
                    d["econtrib"] = g(lambda: self.fl(G.edge_contribution(a, b)))
                pp[k] = d
            r["pair"] = pp
            r["sdens"] = [[t, g(lambda: self.fl(G.snapshot_density(t)))] for t in G.temporal_snapshots_ids()]
        hist = lambda d: sorted([k, v] for k, v in d.items())
        r["iet"] = g(lambda: hist(G.inter_event_time_distribution()))
        r["f_iet"] = g(lambda: hist(dn.inter_event_time_distribution(G)))
        pn = {}
        for n in nodes:
            e = {"iet": g(lambda: hist(G.inter_event_time_distribution(n)))}
            if G.is_directed():
                e["in"] = g(lambda: hist(G.inter_in_event_time_distribution(n)))
                e["out"] = g(lambda: hist(G.inter_out_event_time_distribution(n)))
            pn[str(C(n))] = e
        r["niet"] = pn
        if G.is_directed():
            r["iet_in"] = g(lambda: hist(G.inter_in_event_time_distribution()))
            r["iet_out"] = g(lambda: hist(G.inter_out_event_time_distribution()))
        pp = {}
        for a in nodes:
            for b in nodes:
                e = {"both": g(lambda: hist(G.inter_event_time_distribution(a, b)))}
                if G.is_directed():
                    e["in"] = g(lambda: hist(G.inter_in_event_time_distribution(a, b)))
                    e["out"] = g(lambda: hist(G.inter_out_event_time_distribution(a, b)))
                pp["%d,%d" % (C(a), C(b))] = e
        r["piet"] = pp
        return r

    # ---- paths
    def occ(self, s):
        a, b = s.rsplit("_", 1)
        return [self.C(self._unstr(a)), int(b)]

    def _unstr(self, a):
        if self.ids == "int":
            return int(a)
        return a

    def op_dag(self, s, u, v, a, b):
        G = self.G(s)
        v = tok(v)
        DG, src, tgt, _, _ = _paths.temporal_dag(G, self.I(int(u)), None if v is None else self.I(v), tok(a), tok(b))
        root = self.I(int(u))
        edges = []
        for x, y in DG.edges():
            edges.append(self.occ(x) + self.occ(y))
        nodes = []
        for n in DG.nodes():
            if self.ids == "ustr":
                # the bare root may read like an occurrence name: it is the bare root when it equals the root id
                # (always added by DG.add_node(u)); it is also an occurrence when it has DAG edges
                if n == root:
                    nodes.append([self.C(n), None])
                    if DG.degree(n) > 0:
                        nodes.append(self.occ(n))
                else:
                    nodes.append(self.occ(n))
                continue
            nodes.append([self.C(n), None] if n == root and not (isinstance(n, str) and "_" in n) else self.occ(n))
        acyc = 1 if nx.is_directed_acyclic_graph(DG) else 0
        # window bounds are compared with the ids, they need not be ids nor integers: a bound half a unit further out selects the same
        # instants (same DAG) as long as it stays inside [first id, last id], and raises ValueError as soon as it leaves that range
        if v is not None and self.ids == "int":
            # an id that is equal to the stored one but of another type (3.0 for 3): whatever is returned as targets / sources
            # must be nodes of the returned DAG
            try:
                DG3, src3, tgt3, _, _ = _paths.temporal_dag(G, self.I(int(u)), float(self.I(v)), tok(a), tok(b))
                if any(x not in DG3 for x in list(tgt3) + list(src3)):
                    return "targets-or-sources-not-in-the-dag"
            except ValueError:
                pass
        ids = G.temporal_snapshots_ids()
        a0, b0 = tok(a), tok(b)
        if ids and a0 is not None and b0 is not None and max(abs(a0), abs(b0)) < 2 ** 40:
            a2 = a0 - 0.5 if a0 - 0.5 >= ids[0] else a0
            b2 = b0 + 0.5 if b0 + 0.5 <= ids[-1] else b0
            DG2, src2, tgt2, _, _ = _paths.temporal_dag(G, self.I(int(u)), None if v is None else self.I(v), a2, b2)
            if sorted(map(str, DG2.edges())) != sorted(map(str, DG.edges())) or sorted(map(str, src2)) != sorted(map(str, src)) \
                    or sorted(map(str, tgt2)) != sorted(map(str, tgt)):
                return "fractional-window-bounds-change-the-dag"
            for a3, b3 in ((ids[0] - 0.5, b0), (a0, ids[-1] + 0.5)):
                try:
                    _paths.temporal_dag(G, self.I(int(u)), None if v is None else self.I(v), a3, b3)
                    return "window-outside-the-ids-accepted"
                except ValueError:
                    pass
        res = {"edges": sorted(edges), "src": sorted(self.occ(x) for x in src), "tgt": sorted(self.occ(x) for x in tgt),
               "nodes": sorted(nodes, key=lambda z: (z[0], -10**9 if z[1] is None else z[1])), "acyclic": acyc}
        # what a call returns belongs to the caller: whatever the caller does with it must not show in a later answer
        DG.add_edge("spoiled_0", "spoiled_1"); src.append("spoiled_0"); tgt.append("spoiled_1")
        return res

    def _paths_out(self, res):
        if isinstance(res, list):
            return {}
        out = {}
        for k, ps in res.items():
            key = "%d,%d" % (self.C(k[0]), self.C(k[1]))
            lst = [[[self.C(h[0]), self.C(h[1]), h[2]] for h in p] for p in ps]
            out[key] = {"n": len(lst), "paths": sorted(lst), "tuple": 1 if all(isinstance(p, tuple) for p in ps) else 0}
        return out

    def op_trp(self, s, u, v, a, b):
        G = self.G(s)
        v = tok(v)
        res = _paths.time_respecting_paths(G, self.I(int(u)), None if v is None else self.I(v), tok(a), tok(b))
        return self._paths_out(res)

    def op_trps(self, s, u, v, a, b, num, den, *perm):
        """sample = num/den < 1 with numpy's draw replaced by the permutation given on the line (restricted to the
        indices that exist), so that the model can follow the same draw; everything else is the library's code"""
        import numpy as np
        G = self.G(s)
        v = tok(v)
        perm = [int(x) for x in perm]
        real = np.random.choice
        seen = {}

        def choice(n, size=None, replace=True, p=None):
            assert replace is False and p is None, "time_respecting_paths must draw without replacement"
            seen["n"] = n
            return np.array([i for i in perm if i < n][:size], dtype=int)
        np.random.choice = choice
        try:
            res = _paths.time_respecting_paths(G, self.I(int(u)), None if v is None else self.I(v), tok(a), tok(b), sample=int(num) / int(den))
        finally:
            np.random.choice = real
        if seen.get("n", 0) > len(perm):
            return "skip"
        return self._paths_out(res)

    def op_trpsub(self, s, u, v, a, b, num, den, seed):
        """the real numpy draw: the sampled result must be a subset of the full one (1) """
        import numpy as np
        G = self.G(s)
        v = tok(v)
        np.random.seed(int(seed))
        U, V = self.I(int(u)), None if v is None else self.I(v)
        part = _paths.time_respecting_paths(G, U, V, tok(a), tok(b), sample=int(num) / int(den))
        full = _paths.time_respecting_paths(G, U, V, tok(a), tok(b))
        part = part if isinstance(part, dict) else {}
        full = full if isinstance(full, dict) else {}
        return 1 if all(k in full and all(p in full[k] for p in ps) for k, ps in part.items()) else 0

    def op_occrt(self, t, *name):
        """encode / decode of DAG node names through the library: a graph name -x at t, the path from name"""
        nm = "".join(chr(int(c)) for c in name)
        t = int(t)
        G = dn.DynGraph()
        G.add_interaction(nm, "x", t)
        res = _paths.time_respecting_paths(G, nm)
        hops = [h for ps in res.values() for p in ps for h in p] if isinstance(res, dict) else []
        if len(hops) != 1:
            return {"unexpected": repr(dict(res) if isinstance(res, dict) else res)[:200]}
        a, b, tt = hops[0]
        return [[ord(c) for c in a], [ord(c) for c in b], tt]

    def op_atrp(self, s, a, b, m):
        import tqdm
        G = self.G(s)
        res = _paths.all_time_respecting_paths(G, tok(a), tok(b), 1, tok(m))
        return self._paths_out(res)

    def op_annot(self, k, *rest):
        paths, i = [], 0
        for _ in range(int(k)):
            n = int(rest[i]); i += 1
            p = []
            for _ in range(n):
                p.append((int(rest[i]), int(rest[i + 1]), int(rest[i + 2]))); i += 3
            paths.append(tuple(p))
        r = _paths.annotate_paths(paths)
        # fractional instants (impl only): the duration of a path is last minus first, whatever the instants in between are,
        # and 'fastest' holds exactly the paths of minimal duration
        if paths and all(len(q) > 0 for q in paths):
            fp = [tuple((a, b, t / 10.0) for a, b, t in q) for q in paths]
            if any(_paths.path_duration(q) != q[-1][-1] - q[0][-1] for q in fp):
                return "path_duration-is-not-last-minus-first:fractional-instants"
            dur = lambda q: q[-1][-1] - q[0][-1]
            arg = lambda key, among: [q for q in among if key(q) == min(key(z) for z in among)]
            exp = {"shortest": arg(len, fp), "fastest": arg(dur, fp), "foremost": arg(lambda q: q[-1][-1], fp),
                   "fastest_shortest": arg(dur, arg(len, fp)), "shortest_fastest": arg(len, arg(dur, fp))}
            rf = _paths.annotate_paths(fp)
            for crit, want in exp.items():
                if set(tuple(q) for q in rf[crit]) != set(want):
                    return "%s-is-not-the-optimal-set:fractional-instants" % crit
        out = {}
        for key in ("shortest", "fastest", "foremost", "fastest_shortest", "shortest_fastest"):
            out[key] = [[list(h) for h in p] for p in r[key]]
        out["len"] = [_paths.path_length(p) for p in paths]
        out["dur"] = [_paths.path_duration(p) for p in paths]
        return out

    # ---- C20
    def _conf_out(self, res):
        if res is None:
            return None
        out = {}
        for a, prof in res.items():
            out[a] = {p: sorted([self.C(n), self.fl(x)] for n, x in sc.items()) for p, sc in prof.items()}
        return out

    def op_conf(self, s, start, delta, ptype, k, *alphas):
        from dynetx.algorithms.assortativity import delta_conformity
        G = self.G(s)
        PT = ["shortest", "fastest", "foremost", "fastest_shortest", "shortest_fastest"][int(ptype)]
        al = [int(x) / 100.0 for x in alphas[:int(k)]]
        return self._conf_out(delta_conformity(G, int(start), int(delta), al, ["a"], path_type=PT))

    def op_confw(self, s, start, delta, ptype, na, *rest):
        """delta_conformity for any exponents; the line carries, per exponent, its key (alpha * 100) and the powers d ** alpha the
        model is to use (the implementation just receives alpha): confw slot start delta ptype na (key100 nd (num den)*nd)*na"""
        from dynetx.algorithms.assortativity import delta_conformity
        rest = list(rest); al = []
        for _ in range(int(na)):
            al.append(int(rest[0]) / 1000.0)
            del rest[:3 + 2 * int(rest[2])]
        PT = ["shortest", "fastest", "foremost", "fastest_shortest", "shortest_fastest"][int(ptype)]
        return self._conf_out(delta_conformity(self.G(s), int(start), int(delta), al, ["a"], path_type=PT))

    def op_confp(self, s, start, delta, ptype, psize, nl, *rest):
        """delta_conformity with several labels and profile_size: confp slot start delta ptype psize  nl l..  na a..  nt (node label value)*"""
        import copy
        from dynetx.algorithms.assortativity import delta_conformity
        nl = int(nl)
        labels = [int(x) for x in rest[:nl]]
        rest = rest[nl:]
        na = int(rest[0]); alphas = [int(x) / 100.0 for x in rest[1:1 + na]]
        rest = rest[1 + na:]
        nt = int(rest[0]); tr = [int(x) for x in rest[1:1 + 3 * nt]]
        G = copy.deepcopy(self.G(s))
        for i in range(nt):
            n, l, v = tr[3 * i:3 * i + 3]
            if self.I(n) in G._node:
                G._node[self.I(n)]["L%d" % l] = v
        PT = ["shortest", "fastest", "foremost", "fastest_shortest", "shortest_fastest"][int(ptype)]
        return self._conf_out(delta_conformity(G, int(start), int(delta), alphas, ["L%d" % l for l in labels], profile_size=int(psize), path_type=PT))

    def _hier_tables(self, s, rest):
        """the tables of confh / sconfh -> (graph copy with the label attributes, labels, alphas, hierarchies dictionary)"""
        import copy
        rest = list(rest)

        def grab(w):
            n = int(rest[0]); body = [int(x) for x in rest[1:1 + n * w]]
            del rest[:1 + n * w]
            return [body[i * w:(i + 1) * w] for i in range(n)]
        labels = [x[0] for x in grab(1)]
        alphas = [x[0] / 100.0 for x in grab(1)]
        hlabels = [x[0] for x in grab(1)]
        htr, stat, dynp, dyn = grab(3), grab(3), grab(2), grab(4)
        G = copy.deepcopy(self.G(s))
        for n, l, v in stat:
            if self.I(n) in G._node:
                G._node[self.I(n)]["L%d" % l] = v
        for n, l in dynp:
            if self.I(n) in G._node:
                G._node[self.I(n)]["L%d" % l] = {}
        for n, l, t, v in dyn:
            if self.I(n) in G._node:
                G._node[self.I(n)]["L%d" % l].setdefault(t, v)
        hier = {"L%d" % l: {} for l in hlabels}
        for l, v, r in htr:
            hier["L%d" % l].setdefault(v, r)
        return G, ["L%d" % l for l in labels], alphas, hier

    PT = ["shortest", "fastest", "foremost", "fastest_shortest", "shortest_fastest"]

    def op_confh(self, s, start, delta, ptype, psize, *rest):
        """delta_conformity with time-varying labels and hierarchies:
        confh slot start delta ptype psize | nl l.. | na a.. | nhl l.. | nh (l v rank).. | ns (n l v).. | ndp (n l).. | nd (n l t v).."""
        from dynetx.algorithms.assortativity import delta_conformity
        G, labels, alphas, hier = self._hier_tables(s, rest)
        return self._conf_out(delta_conformity(G, int(start), int(delta), alphas, labels, profile_size=int(psize),
                                               hierarchies=(hier if hier or int(start) % 2 else None), path_type=self.PT[int(ptype)]))

    def op_sconfh(self, s, delta, ptype, psize, *rest):
        """sliding_delta_conformity with the same tables; ONE hierarchies dictionary serves all the windows, as a caller's would"""
        from dynetx.algorithms.assortativity import sliding_delta_conformity
        G, labels, alphas, hier = self._hier_tables(s, rest)
        res = sliding_delta_conformity(G, int(delta), alphas, labels, profile_size=int(psize), hierarchies=(hier or None),
                                       path_type=self.PT[int(ptype)])
        out = {}
        for a, prof in res.items():
            out[a] = {p: sorted([self.C(n), [[t, self.fl(x)] for t, x in seq]] for n, seq in sc.items()) for p, sc in prof.items()}
        return out

    def op_sconf(self, s, delta, ptype, k, *alphas):
        from dynetx.algorithms.assortativity import sliding_delta_conformity
        G = self.G(s)
        PT = ["shortest", "fastest", "foremost", "fastest_shortest", "shortest_fastest"][int(ptype)]
        al = [int(x) / 100.0 for x in alphas[:int(k)]]
        res = sliding_delta_conformity(G, int(delta), al, ["a"], path_type=PT)
        out = {}
        for a, prof in res.items():
            out[a] = {p: sorted([self.C(n), [[t, self.fl(x)] for t, x in seq]] for n, seq in sc.items()) for p, sc in prof.items()}
        return out

    # ---- C18
    def op_compact(self, k, *rest):
        from dynetx.utils import compact_timeslot
        xs = [int(x) for x in rest[:int(k)]]
        m = compact_timeslot(xs)
        # timestamps may be of any ordered type (timestamptype=float, fractions of a day, ...): only their order matters, so the
        # same values halved (floats) and as strings padded to one width must receive the same ranks (impl-only cross check)
        for f in (lambda x: x / 2.0, lambda x: x * 0.25 + 0.125, lambda x: "%012d" % (x + 10 ** 9)):
            try:
                m2 = compact_timeslot([f(x) for x in xs])
            except Exception as ex:  # noqa
                return "other-timestamp-type-raises:" + type(ex).__name__
            if sorted([x, m2[f(x)]] for x in set(xs)) != sorted([a, b] for a, b in m.items()):
                return "ranks-depend-on-the-timestamp-type"
        return sorted([a, b] for a, b in m.items())

    def op_ptxts(self, kind, dst, cls, nd, *rest):
        """parse_* on raw text with a comment marker / delimiter of several characters:
        ptxts kind dst cls nd d1..dnd nc c1..cnc n (len codes)*   (nd = '-' : delimiter=None)"""
        rest = list(rest)
        if nd == "-":
            d = None
        else:
            d = "".join(chr(int(c)) for c in rest[:int(nd)]); del rest[:int(nd)]
        nc = int(rest[0]); cm = "".join(chr(int(c)) for c in rest[1:1 + nc]); del rest[:1 + nc]
        k = int(rest[0]); rest = rest[1:]
        lines, i = [], 0
        for _ in range(k):
            n = int(rest[i]); lines.append("".join(chr(int(c)) for c in rest[i + 1:i + 1 + n])); i += 1 + n
        fn = _el.parse_interactions if int(kind) else _el.parse_snapshots
        self.slots[int(dst)] = fn(lines, comments=cm, directed=bool(int(cls)), delimiter=d, nodetype=int, timestamptype=int)
        for n in self.slots[int(dst)]._node:
            self.rev.setdefault(n, n)
        return "ok"

    def op_ptxt(self, kind, dst, cls, delim, comment, k, *rest):
        """parse_snapshots (kind=0) / parse_interactions (kind=1) on raw text lines given as char codes."""
        lines, i = [], 0
        for _ in range(int(k)):
            n = int(rest[i]); lines.append("".join(chr(int(c)) for c in rest[i + 1:i + 1 + n])); i += 1 + n
        d = None if delim == "-" else chr(int(delim))
        fn = _el.parse_interactions if int(kind) else _el.parse_snapshots
        main_exc = None
        try:
            self.slots[int(dst)] = fn(lines, comments=chr(int(comment)), directed=bool(int(cls)), delimiter=d,
                                      nodetype=int, timestamptype=int)
        except Exception as ex:  # noqa
            main_exc = ex
        # converters that signal failure with other exception classes (a lookup table, a parser of fractions):
        # "a field that cannot be converted raises TypeError" whatever the converter raises (impl-only cross check)
        for nt, tt in ((_strict(int, KeyError), int), (int, _strict(int, ZeroDivisionError)), (_strict(int, OverflowError), _strict(int, ArithmeticError)),
                       (_partial(int), _partial(int, base=10))):      # callables without __name__
            try:
                fn(lines, comments=chr(int(comment)), directed=bool(int(cls)), delimiter=d, nodetype=nt, timestamptype=tt)
                other = None
            except Exception as ex:  # noqa
                other = ex
            if err_kind(other) != err_kind(main_exc) if (other is not None and main_exc is not None) else (other is None) != (main_exc is None):
                return "converter-exception-leaks:%s-instead-of-%s" % (type(other).__name__, type(main_exc).__name__)
        if main_exc is not None:
            raise main_exc
        for n in self.slots[int(dst)]._node:
            self.rev.setdefault(n, n)
        # the same text with another node type: same graph, nodes of that type (impl-only cross check)
        H = fn(lines, comments=chr(int(comment)), directed=bool(int(cls)), delimiter=d, nodetype=str, timestamptype=int)
        if any(not isinstance(n, str) for n in H._node):
            return "nodetype-not-honoured"
        G0 = self.slots[int(dst)]
        e0 = sorted((str(u).strip(), str(v).strip(), json.dumps(dd["t"])) for u, v, dd in (G0.out_interactions_iter() if G0.is_directed() else G0.interactions_iter()))
        e1 = sorted((u.strip(), v.strip(), json.dumps(dd["t"])) for u, v, dd in (H.out_interactions_iter() if H.is_directed() else H.interactions_iter()))
        if not G0.is_directed():
            e0 = sorted((min(a, b), max(a, b), t) for a, b, t in e0); e1 = sorted((min(a, b), max(a, b), t) for a, b, t in e1)
        if e0 != e1:
            return "nodetype-changes-graph"
        # a comment marker of several characters: the same text with the marker lengthened by '-' (a character that also occurs in
        # data: negative numbers, the '-' op) parses to the same graph (impl-only cross check)
        cm = chr(int(comment))
        if d != "-" and not any((cm + "-") in ln for ln in lines):
            lines2 = [ln.replace(cm, cm + "-") for ln in lines]
            H2 = fn(lines2, comments=cm + "-", directed=bool(int(cls)), delimiter=d, nodetype=int, timestamptype=int)
            if self.dump(H2)["tl"] != self.dump(G0)["tl"] or self.dump(H2)["ev"] != self.dump(G0)["ev"]:
                return "two-character-comment-marker-changes-graph"
        return "ok"


def run_case(lines, ids="int", tnp=False):
    import contextlib
    global _TNP
    _TNP = int(tnp) if tnp else 0
    im = Impl(ids)
    with contextlib.redirect_stderr(io.StringIO()):
        return im.run(lines)


if __name__ == "__main__":
    ids = sys.argv[1] if len(sys.argv) > 1 else "int"
    for r in run_case(sys.stdin.read().splitlines(), ids):
        print(json.dumps(r, separators=(",", ":")))
