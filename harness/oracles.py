"""The properties themselves, evaluated on canonical observables (of the implementation or of the
Lean model: both speak the same protocol).  Every function returns a list of failures
[{"clause":..., "detail":...}]; an empty list means the property held on that case.
"""
from spec import Spec, key, runs, elems


def F(clause, **detail):
    return {"clause": clause, "detail": detail}


def pres_map(pres):
    """[[u,v,flat,[t..]]..] -> {(u,v): (flat, set(ts))}"""
    return {(r[0], r[1]): (r[2], set(r[3])) for r in pres if r[0] != "frac"}


def is_err(x):
    return isinstance(x, str) and x.startswith("E:")


def replay_spec(directed, removal, ops, outcomes, fails, clause_prefix="C01"):
    """runs the spec over ops given observed outcomes; records outcome violations"""
    sp = Spec(directed, removal)
    for i, (op, got) in enumerate(zip(ops, outcomes)):
        exp, _ = sp.apply(op, got)
        if exp == "any":
            if got not in ("ok", "E:VE"):
                fails.append(F(clause_prefix + ".outcome", op_index=i, op=op, expected="ok|E:VE", got=got))
        elif exp != got:
            fails.append(F(clause_prefix + ".outcome", op_index=i, op=op, expected=exp, got=got))
    return sp


def universe(sp, extra=()):
    ns = sorted(set(sp.nodes) | set(extra))
    return ns


# ----------------------------------------------------------------------------------------- C01
def c01(directed, ops, outcomes, pres, lo, hi):
    fails = []
    sp = replay_spec(directed, True, ops, outcomes, fails)
    pm = pres_map(pres)
    for r in pres:
        if r[0] == "frac":      # impl-side probe of the presence query at instants between two snapshot ids
            fails.append(F("C01.fractional_instant_present", pair=[r[1], r[2]], instants=r[3]))
    ns = universe(sp, [99])
    for u in ns:
        for v in ns:
            k = key(directed, u, v)
            if k in sp.lenient:
                continue
            flat, ts = pm.get((u, v), (0, set()))
            exp_ts = {x for x in sp.pres.get(k, ()) if lo <= x <= hi}
            if ts != exp_ts:
                fails.append(F("C01.presence", pair=[u, v], expected=sorted(exp_ts), got=sorted(ts)))
            if bool(flat) != sp.ever(u, v):
                fails.append(F("C01.flat", pair=[u, v], expected=int(sp.ever(u, v)), got=flat))
    for (u, v) in pm:
        if (u not in ns or v not in ns) and key(directed, u, v) not in sp.lenient:
            fails.append(F("C01.presence", pair=[u, v], expected=[], got=sorted(pm[(u, v)][1])))
    return fails


# ----------------------------------------------------------------------------------------- C03
def canon(tl):
    bad = []
    for i, iv in enumerate(tl):
        if len(iv) != 2 or iv[0] > iv[1]:
            bad.append("inverted %s" % (iv,))
        if i > 0 and not (tl[i - 1][1] + 1 < iv[0]):
            bad.append("not separated %s %s" % (tl[i - 1], iv))
    return bad


def c03(directed, dump, pres, lo, hi, views=None, where="history"):
    """dump['tl'] canonical; union == presence (as has_interaction reports it)"""
    fails = []
    pm = pres_map(pres)
    for u, v, tl in dump["tl"]:
        bad = canon(tl)
        if bad:
            fails.append(F("C03.canonical", where=where, pair=[u, v], timeline=tl, problems=bad))
        cover = set()
        for iv in tl:
            if len(iv) == 2 and iv[1] - iv[0] < 10000:
                cover.update(range(iv[0], iv[1] + 1))
        got = pm.get((u, v), (0, set()))[1]
        if {x for x in cover if lo <= x <= hi} != got:
            fails.append(F("C03.union", where=where, pair=[u, v], timeline=tl, presence=sorted(got)))
    listed = {(u, v) for u, v, _ in dump["tl"]}
    for (u, v), (flat, ts) in pm.items():
        kk = key(directed, u, v)
        if ts and kk not in listed:
            fails.append(F("C03.union", where=where, pair=[u, v], timeline=None, presence=sorted(ts)))
    if views is not None:
        base = {(u, v): tl for u, v, tl in dump["tl"]}
        for name, u, v, tl in views:
            kk = key(directed, u, v)
            if base.get(kk) != tl:
                fails.append(F("C03.views", where=where, view=name, pair=[u, v], timeline=tl, other=base.get(kk)))
    return fails


# ----------------------------------------------------------------------------------------- C04
def present_keys_at(directed, pm, x):
    return {key(directed, u, v) for (u, v), (_, ts) in pm.items() if x in ts}


def approx(a, b, tol=1e-9):
    return abs(a - b) <= tol * max(1.0, abs(a), abs(b))


def c04(directed, q4, pres, lo, hi):
    if isinstance(q4, str):
        return [F("C04.cross_check", got=q4)]      # an impl-side cross check of op_q4
    fails = []
    pm = pres_map(pres)
    inhabited = sorted({x for (_, ts) in pm.values() for x in ts})
    for name in ("ids", "f_ids"):
        ids = q4[name]
        if ids != sorted(set(ids)):
            fails.append(F("C04.ids_sorted", entry=name, got=ids))
        if sorted(set(ids)) != inhabited:
            fails.append(F("C04.ids", entry=name, expected=inhabited, got=ids))
    for name in ("ips", "f_ips"):
        for t, c2 in q4[name]:
            exp = 2 * len(present_keys_at(directed, pm, t))
            if c2 != exp:
                fails.append(F("C04.count", entry=name, t=t, expected_x2=exp, got_x2=c2))
    alld = dict((t, c) for t, c in q4["ipsall"])
    if sorted(alld) != sorted(set(q4["ids"])):
        fails.append(F("C04.count_all_keys", expected=q4["ids"], got=sorted(alld)))
    for t, c2 in q4["ipsall"]:
        exp = 2 * len(present_keys_at(directed, pm, t))
        if c2 != exp:
            fails.append(F("C04.count", entry="ipsall", t=t, expected_x2=exp, got_x2=c2))
    ids = q4["ids"]
    if ids:
        nn = dict((t, n) for t, n in q4["nn"])
        if is_err(q4["avg"]):
            fails.append(F("C04.avg", got=q4["avg"]))
        else:
            got = q4["avg"]
            num, den = sum(nn[t] for t in ids), len(ids)
            if got[0] == "f":
                ok = approx(got[1], num / den)
            else:
                ok = got[1] * den == num * got[2]
            if not ok:
                fails.append(F("C04.avg", expected=[num, den], got=got))
    return fails


# ----------------------------------------------------------------------------------------- C05
def c05(directed, dump, pres, lo, hi, removal=True):
    """dump['ev'] = sorted [t,u,v,op]; dump['chrono']; presence from has_interaction over [lo,hi].
    [lo,hi] must extend at least 2 beyond every event / presence instant."""
    fails = []
    if not dump["chrono"]:
        fails.append(F("C05.chronological"))
    ev = [tuple(e) for e in dump["ev"]]
    if len(set(ev)) != len(ev):
        fails.append(F("C05.repeat", events=[e for e in ev if ev.count(e) > 1]))
    if not removal:
        return fails
    pm = pres_map(pres)
    P = {}
    for (u, v), (_, ts) in pm.items():
        P.setdefault(key(directed, u, v), set()).update(ts)
    plus = {(u, v, t) for (t, u, v, op) in ev if op == 1}
    minus = {(u, v, t) for (t, u, v, op) in ev if op == 0}
    for k, ts in P.items():
        for (a, b) in runs(ts):
            if (k[0], k[1], a) not in plus:
                fails.append(F("C05.plus_missing", pair=list(k), run=[a, b]))
            if b > a and (k[0], k[1], b + 1) not in minus:
                fails.append(F("C05.unclosed", pair=list(k), run=[a, b]))
    for (u, v, t) in plus:
        ts = P.get((u, v), set())
        if not (t in ts and (t - 1) not in ts):
            fails.append(F("C05.plus_spurious", pair=[u, v], t=t))
    for (u, v, t) in minus:
        ts = P.get((u, v), set())
        if not ((t - 1) in ts and t not in ts):
            fails.append(F("C05.minus_spurious", pair=[u, v], t=t))
    # replay
    R = {}
    open_at = {}
    for (t, u, v, op) in sorted(ev, key=lambda e: (e[0], -e[3])):   # '+' before '-' never matters: different t
        k = (u, v)
        if op == 1:
            if k in open_at:      # previous '+' unclosed: that single instant
                R.setdefault(k, set()).add(open_at[k])
            open_at[k] = t
        else:
            if k in open_at:
                R.setdefault(k, set()).update(range(open_at.pop(k), t))
    for k, t in open_at.items():
        R.setdefault(k, set()).add(t)
    for k in set(P) | set(R):
        if P.get(k, set()) != R.get(k, set()):
            fails.append(F("C05.replay", pair=list(k), presence=sorted(P.get(k, set())), replayed=sorted(R.get(k, set()))))
    return fails


# ----------------------------------------------------------------------------------------- C08
def c08(directed, ops, outcomes, pres, dump, lo, hi):
    fails = []
    sp = replay_spec(directed, False, ops, outcomes, fails, "C08")
    pm = pres_map(pres)
    ns = universe(sp, [99])
    for u in ns:
        for v in ns:
            flat, ts = pm.get((u, v), (0, set()))
            exp = {x for x in range(lo, hi + 1) if sp.present(u, v, x)}
            if ts != exp:
                fails.append(F("C08.presence", pair=[u, v], expected=sorted(exp), got=sorted(ts)))
            if bool(flat) != sp.ever(u, v):
                fails.append(F("C08.flat", pair=[u, v], expected=int(sp.ever(u, v)), got=flat))
    ev = [tuple(e) for e in dump["ev"]]
    exp_ev = sorted((t, k[0], k[1], 1) for k, t in sp.first.items())
    if sorted(ev) != exp_ev:
        fails.append(F("C08.stream", expected=exp_ev, got=sorted(ev)))
    if not dump["chrono"]:
        fails.append(F("C08.chronological"))
    if dump["ids"] != sorted(sp.accepted_ts):
        fails.append(F("C08.ids", expected=sorted(sp.accepted_ts), got=dump["ids"]))
    return fails


# ----------------------------------------------------------------------------------------- C02
def c02(directed, q, pres, t, all_nodes, attrs, nbunch=None, ids=None):
    """q = output of `q2 s t [nbunch]`; presence from has_interaction (pres) at instant t, or flattened."""
    fails = []
    pm = pres_map(pres)
    V = list(all_nodes)
    if t is None:
        E = {(u, v) for (u, v), (flat, _) in pm.items() if flat and u in all_nodes and v in all_nodes}
    else:
        E = {(u, v) for (u, v), (_, ts) in pm.items() if t in ts}
    K = {key(directed, u, v) for (u, v) in E}
    succ = {n: sorted({v for (u, v) in E if u == n}) for n in V}
    pred = {n: sorted({u for (u, v) in E if v == n}) for n in V}

    def deg(n):
        if directed:
            return len(succ[n]) + len(pred[n])
        return len(succ[n]) + (1 if n in succ[n] else 0)   # a loop counts twice (networkx convention)
    nb = V if nbunch is None else [n for n in nbunch if n in all_nodes]
    nbs = set(nb)

    def chk(name, got, exp):
        if got != exp:
            fails.append(F("C02." + name, t=t, nbunch=nbunch, expected=exp, got=got))

    def inter_exp(kind):
        if directed:
            if kind == "in":
                s = {k for k in K if k[1] in nbs}
            else:
                s = {k for k in K if k[0] in nbs}
        else:
            s = {k for k in K if k[0] in nbs or k[1] in nbs}
        s = sorted(list(k) for k in s)
        return {"n": len(s), "set": s}
    for name in ("inter", "inter_iter", "f_inter"):
        chk(name, q[name], inter_exp("out"))
    if directed:
        for name in ("out_inter", "out_inter_iter"):
            chk(name, q[name], inter_exp("out"))
        for name in ("in_inter", "in_inter_iter"):
            chk(name, q[name], inter_exp("in"))
    dexp = sorted([n, deg(n)] for n in nbs)
    for name in ("deg", "deg_iter", "f_deg") + (("deg_once", "deg_set") if nbunch is not None else ()):
        chk(name, q[name], dexp)
    if nbunch is not None:
        chk("inter_once", q["inter_once"], inter_exp("out"))
        if "inter_tuple" in q:
            chk("inter_tuple", q["inter_tuple"], inter_exp("out"))
    if directed:
        chk("indeg", q["indeg"], sorted([n, len(pred[n])] for n in nbs))
        chk("indeg_iter", q["indeg_iter"], sorted([n, len(pred[n])] for n in nbs))
        chk("outdeg", q["outdeg"], sorted([n, len(succ[n])] for n in nbs))
        chk("outdeg_iter", q["outdeg_iter"], sorted([n, len(succ[n])] for n in nbs))
    if nbunch is not None:
        return fails
    if t is None:
        Vt = sorted(V)
    else:
        Vt = sorted(n for n in V if succ[n] or pred[n])
    for name in ("nodes", "nodes_iter", "f_nodes"):
        chk(name, q[name], Vt)
    chk("nodes_data", q["nodes_data"], sorted([n, attrs.get(n, 0)] for n in Vt))
    for name in ("nnodes", "f_nnodes") + (() if directed else ("order",)):
        chk(name, q[name], len(Vt))
    m = len(K)
    for name in ("size", "nint", "f_nint"):
        chk(name, q[name], m)
    n = len(Vt)
    if m == 0 or n <= 1:
        dens = 0.0
    else:
        dens = m / (n * (n - 1)) * (1 if directed else 2)
    got = q["density"]
    if is_err(got) or not approx(got[1] if got[0] == "f" else got[1] / got[2], dens):
        fails.append(F("C02.density", t=t, expected=dens, got=got))
    degs = [deg(x) for x in V]
    hist = [degs.count(i) for i in range(max(degs) + 1)] if degs else []
    chk("deghist", q["deghist"], hist)
    flatE = {(u, v) for (u, v), (flat, _) in pm.items() if flat}
    chk("isempty", q["isempty"], 0 if flatE else 1)
    non = sorted(sorted([a, b]) for i, a in enumerate(sorted(V)) for b in sorted(V)[i + 1:]
                 if (a, b) not in E and (b, a) not in E)
    chk("nonint", q["nonint"], {"n": len(non), "set": non})
    for nstr, e in q["per"].items():
        c = int(nstr)
        if c not in all_nodes:
            # unknown node: answers are left open except has_node
            chk("hasnode", e["hasnode"], 0)
            if "hasnode_unhashable" in e:
                chk("hasnode_unhashable", e["hasnode_unhashable"], 0)
            continue
        und = sorted(set(succ[c]) | set(pred[c]))
        for name in ("nbrs", "nbrs_iter", "f_nbrs"):
            chk(name + "@%d" % c, e[name], succ[c])
        if directed:
            for name in ("succ", "succ_iter"):
                chk(name + "@%d" % c, e[name], succ[c])
            for name in ("pred", "pred_iter"):
                chk(name + "@%d" % c, e[name], pred[c])
            if "indeg1" in e:
                chk("indeg1@%d" % c, e["indeg1"], len(pred[c]))
                chk("outdeg1@%d" % c, e["outdeg1"], len(succ[c]))
            chk("allnbrs@%d" % c, e["allnbrs"], sorted(pred[c] + succ[c]))
        else:
            chk("allnbrs@%d" % c, e["allnbrs"], succ[c])
        chk("nonnbrs@%d" % c, e["nonnbrs"], sorted(x for x in V if x != c and x not in und))
        chk("hasnode@%d" % c, e["hasnode"], 1 if (t is None or succ[c] or pred[c]) else 0)
        chk("deg1@%d" % c, e["deg1"], deg(c))
        for k2 in ("f_deg1_differs", "f_inter1_differs"):
            if k2 in e:
                fails.append(F("C02.single_node_nbunch", t=t, node=c, what=k2, function_vs_method=e[k2]))
        if t is None and "snaps" in e:
            exp = sorted({x for (u, v), (_, ts) in pm.items() if u == c or v == c for x in ts if ids is None or x in ids})
            chk("snaps@%d" % c, e["snaps"], exp)
    for a in V:
        for b in V:
            exp = 1 if (a, b) in E else 0
            got = q["nint2"].get("%d,%d" % (a, b), [0, 0, 0, 0] if directed else [0, 0])
            if got != ([exp] * 4 if directed else [exp, exp]):
                fails.append(F("C02.nint2", t=t, pair=[a, b], expected=exp, got=got))
    return fails


# ----------------------------------------------------------------------------------------- C06
def c06_slice(directed, a, b, presG, presH, dumpG, dumpH, lo, hi):
    fails = []
    pg, ph = pres_map(presG), pres_map(presH)
    if b is None:
        b = a
    exp = {}
    for (u, v), (_, ts) in pg.items():
        s = {x for x in ts if a <= x <= b}
        if s:
            exp[(u, v)] = s
    got = {k: ts for k, (_, ts) in ph.items() if ts}
    if exp != got:
        bad = sorted(k for k in set(exp) | set(got) if exp.get(k) != got.get(k))
        fails.append(F("C06.presence", window=[a, b], pairs=[[list(k), sorted(exp.get(k, [])), sorted(got.get(k, []))] for k in bad[:4]]))
    flat_exp = {k for k in exp}
    flat_got = {k for k, (flat, _) in ph.items() if flat}
    if flat_exp != flat_got:
        fails.append(F("C06.flat", window=[a, b], expected=sorted(map(list, flat_exp)), got=sorted(map(list, flat_got))))
    attrsG = dict((n, t) for n, t in dumpG["nodes"])
    ends = sorted({n for k in exp for n in k})
    if [n for n, _ in dumpH["nodes"]] != ends:
        fails.append(F("C06.nodes", window=[a, b], expected=ends, got=[n for n, _ in dumpH["nodes"]]))
    for n, tok in dumpH["nodes"]:
        if attrsG.get(n) != tok:
            fails.append(F("C06.attrs", node=n, expected=attrsG.get(n), got=tok))
    if dumpH["cls"] != dumpG["cls"]:
        fails.append(F("C06.class", expected=dumpG["cls"], got=dumpH["cls"]))
    return fails
