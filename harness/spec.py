"""Reference semantics taken from the property texts (independent of dynetx and of the Lean model).

A history is a list of ops (see gen.py).  `simulate` replays it against the *specification*:
presence is a set of instants per pair key, a call is rejected only by the documented rule.
"""


def key(directed, u, v):
    return (u, v) if directed else (min(u, v), max(u, v))


def runs(s):
    """maximal runs of a set of ints, ascending: [(a,b),...]"""
    out = []
    for x in sorted(s):
        if out and out[-1][1] == x - 1:
            out[-1][1] = x
        else:
            out.append([x, x])
    return [tuple(r) for r in out]


def elems(op):
    """the add_interaction calls a (bulk) op is defined to make: (list of (u,v), t, e)"""
    k = op[0]
    if k == "add":
        return [(op[1], op[2])], op[3], op[4]
    if k == "addfrom":
        return [tuple(p) for p in op[1]], op[2], op[3]
    ns = list(op[1]); t = op[2]
    e = op[3] if len(op) > 3 else None
    if k in ("path", "fpath"):
        return list(zip(ns[:-1], ns[1:])), t, e
    if k in ("star", "fstar"):
        return [(ns[0], n) for n in ns[1:]] if ns else [], t, e
    if k in ("cycle", "fcycle"):
        return list(zip(ns, ns[1:] + ns[:1])) if ns else [], t, e
    return None


class Spec:
    def __init__(self, directed, removal):
        self.d, self.rem = directed, removal
        self.pres = {}        # key -> set of instants (removal mode)
        self.first = {}       # key -> first accepted t
        self.addts = {}       # key -> set of accepted t (accumulative)
        self.nodes = {}       # node -> attr token, insertion ordered
        self.accepted_ts = set()
        self.lenient = set()  # keys touched by an empty span (outcome left open by the property)

    def add_one(self, u, v, t, e, observed=None, bulk=False):
        """returns expected outcome: 'ok' | 'E:VE' | 'E:NXE' | 'any' and applies it if accepted.
        In accumulative mode no property says *when* a call must be rejected, only that a
        rejected call leaves no trace: there the observed outcome decides, provided a rejection
        is possible at all (an earlier accepted add of the pair lies strictly later)."""
        if t is None:
            return "E:NXE"
        k = key(self.d, u, v)
        if self.rem:
            if e is not None and e <= t:
                self.lenient.add(k)
                return "any"
            cur = self.pres.get(k)
            if cur:
                if t < runs(cur)[-1][0]:
                    return "E:VE"
            span = [t] if e is None else range(t, e)
            self.pres.setdefault(k, set()).update(span)
        else:
            ts = self.addts.get(k)
            # inside a failed bulk call the failing element is taken to be the first one that starts
            # before the latest run of the pair's accepted add instants (the documented rule read on
            # the accumulative timeline); for a single call any earlier-than-latest add may be rejected
            if ts and observed == "E:VE" and t < (runs(ts)[-1][0] if bulk else max(ts)):
                return "E:VE"
            self.addts.setdefault(k, set()).add(t)
            self.accepted_ts.add(t)
        self.first.setdefault(k, t)
        self.nodes.setdefault(u, 0); self.nodes.setdefault(v, 0)
        return "ok"

    def apply(self, op, observed=None):
        """returns (expected outcome, number of elements applied)"""
        k = op[0]
        if k == "node":
            self.nodes.setdefault(op[1], 0); return "ok", 0
        if k == "attr":
            self.nodes[op[1]] = op[2]; return "ok", 0
        if k in ("clear", "clearedges"):
            self.pres, self.first, self.addts, self.accepted_ts, self.lenient = {}, {}, {}, set(), set()
            if k == "clear":
                self.nodes = {}
            return "ok", 0
        el = elems(op)
        if el is None:
            return "ok", 0
        pairs, t, e = el
        if k != "add" and t is None:
            return "E:NXE", 0
        n = 0
        res = "ok"
        for (u, v) in pairs:
            r = self.add_one(u, v, t, e, observed, bulk=(k != "add"))
            if r in ("E:VE", "E:NXE"):
                return r, n
            if r == "any":
                res = "any"
            n += 1
        return res, n

    def present(self, u, v, x):
        k = key(self.d, u, v)
        if self.rem:
            return x in self.pres.get(k, ())
        if k not in self.first or not self.accepted_ts:
            return False
        return self.first[k] <= x <= max(self.accepted_ts)

    def ever(self, u, v):
        return key(self.d, u, v) in self.first


def merge_branches(case):
    """which branch of add_interaction's five-way merge each elementary call of a history takes, replayed against
    the specification (used only for the evidence histogram: it shows what the correspondence runs exercised)"""
    directed, removal = bool(case.get("cls")), bool(case.get("rem", 1))
    P = {}
    out = []
    for op in case.get("ops", []):
        if op[0] in ("clear", "clearedges"):
            P = {}
            out.append("clear")
            continue
        if op[0] not in ("add", "addfrom", "path", "star", "cycle", "fpath", "fstar", "fcycle"):
            continue
        el = elems(op)
        if el is None:
            continue
        pairs, t, e = el
        if t is None:
            out.append("missing-t")
            continue
        for (u, v) in pairs:
            k = key(directed, u, v)
            if removal and e is not None and e <= t:
                out.append("empty-span"); continue
            t1 = (e - 1) if (removal and e is not None) else t
            if k not in P:
                P[k] = [[t, t1]]; out.append("new"); continue
            a, b = P[k][-1]
            if t < a:
                out.append("reject"); break
            if not removal:
                if t <= b + 1:
                    P[k][-1][1] = max(b, t)
                else:
                    P[k].append([t, t])
                out.append("accumulative"); continue
            if t1 <= b:
                out.append("covered")
            elif t <= b + 1:
                P[k][-1][1] = t1; out.append("extend-adjacent" if t == b + 1 else "extend-overlap")
            else:
                P[k].append([t, t1]); out.append("append")
    return out
