"""C06 time_slice, C16 conversions."""
import gen, oracles
from oracles import F, pres_map
from spec import key
from props_core import hist_case


def wf_lines(s, lo, hi):
    return ["dump %d" % s, "pres %d %d %d" % (s, lo, hi), "tls %d" % s, "q4 %d %d %d" % (s, lo, hi)]


def wf_judge(directed, outs, lo, hi, where, qt=None):
    """C02-C05 on a derived graph: outs = [dump, pres, tls, q4, (q2)]"""
    d, p, v, q4 = outs[:4]
    for x in (d, p, v, q4):
        if oracles.is_err(x):
            return [F("wf.raised", where=where, got=x)]
    fails = []
    fails += oracles.c03(directed, d, p, lo, hi, v, where)
    fails += oracles.c04(directed, q4, p, lo, hi)
    fails += oracles.c05(directed, d, p, lo, hi)
    if len(outs) > 4 and not oracles.is_err(outs[4]):
        fails += oracles.c02(directed, outs[4], p, qt, {x for x, _ in d["nodes"]}, dict((x, a) for x, a in d["nodes"]))
    for f in fails:
        f["detail"]["on"] = where
        f["clause"] = f["clause"] + "~wf"
    return fails


def histories(tier, rng, n):
    for d in (0, 1):
        for h in gen.corpus_histories():
            yield hist_case(d, True, h, src="corpus")
        for h in gen.exhaustive_multi_pair(2, tmax=1 if tier == "quick" else 2):
            yield hist_case(d, True, h, src="exhN")
    for i in range(n):
        ops = gen.random_history(rng, p_node=0.1, p_reject=0.02, p_none=0.0, p_empty=0.0)
        if i % 31 == 5:
            ops = gen.shift_times(ops, 2 ** 55 + 3)      # timestamps no float can tell apart
        elif i % 31 == 9:
            ops = gen.shift_times(ops, -1000)            # an all-negative time axis
        yield hist_case(rng.choice([0, 1]), True, ops, ids=("int", "str", "mix")[i % 3] if i % 4 == 0 else "int", src="rand")


class C06:
    id = "C06"
    chunk = 100

    @staticmethod
    def cases(tier, rng):
        n = 1500 if tier == "quick" else 20000
        for c in histories(tier, rng, n):
            lo, hi = gen.window(c["ops"], 2)
            wins = []
            if c["src"] == "corpus":
                k = 3 if len(c["ops"]) < 12 else 12
            elif tier != "quick":
                k = 3
            else:
                k = 2
            for _ in range(k):
                a = rng.randint(lo, hi); b = rng.choice([None, a, rng.randint(a, hi), rng.randint(a, hi), rng.randint(lo, hi)])
                c2 = rng.randint(lo, hi); d2 = rng.randint(c2, hi)
                wins.append([a, b, c2, d2])
            for w in wins:
                cc = dict(c); cc["win"] = w; cc["fn"] = rng.random() < 0.3
                yield cc

    @staticmethod
    def lines(case):
        L = [gen.header(0, case["cls"], 1)]
        lo, hi = gen.window(case["ops"], 3)
        L += [gen.op_line(0, op) for op in case["ops"]]
        a, b, c, d = case["win"]
        L += ["dump 0", "pres 0 %d %d" % (lo, hi)]
        L.append("%s 0 1 %d %s" % ("fslice" if case.get("fn") else "slice", a, gen.T(b)))
        L.append("dump 0")
        L += wf_lines(1, lo, hi)
        L.append("q2 1 %d" % a)
        L.append("slice 1 2 %d %d" % (c, d))
        L.append("pres 2 %d %d" % (lo, hi))
        L.append("dump 2")
        return L

    @staticmethod
    def judge(case, outs):
        n = len(case["ops"])
        if any(o not in ("ok", "E:VE", "E:NXE") for o in outs[1:1 + n]):
            return []
        lo, hi = gen.window(case["ops"], 3)
        a, b, c, d = case["win"]
        directed = bool(case["cls"])
        i = 1 + n
        dumpG, presG, res, dumpG2 = outs[i:i + 4]
        fails = []
        if b is not None and b < a:
            if res != "E:VE":
                fails.append(F("C06.invalid_window", window=[a, b], got=res))
            return fails
        if res != "ok":
            return [F("C06.raised", window=[a, b], got=res)]
        if dumpG != dumpG2:
            fails.append(F("C06.source_changed", before=dumpG, after=dumpG2))
        wf = outs[i + 4:i + 9]
        if any(oracles.is_err(x) for x in wf[:2]):
            return fails + [F("C06.raised", window=[a, b], got=[x for x in wf[:2] if oracles.is_err(x)])]
        fails += oracles.c06_slice(directed, a, b, presG, wf[1], dumpG, wf[0], lo, hi)
        fails += wf_judge(directed, wf, lo, hi, "slice", a)
        res2, pres2, dump2 = outs[i + 9:i + 12]
        bb = a if b is None else b
        if res2 != "ok" or oracles.is_err(pres2) or oracles.is_err(dump2):
            fails.append(F("C06.raised", window=[c, d], on="slice of slice", got=[res2, pres2 if oracles.is_err(pres2) else None]))
        else:
            lo2, hi2 = max(a, c), min(bb, d)
            exp = {}
            for k, (_, ts) in pres_map(presG).items():
                s = {x for x in ts if lo2 <= x <= hi2}
                if s:
                    exp[k] = s
            got = {k: ts for k, (_, ts) in pres_map(pres2).items() if ts}
            if exp != got:
                fails.append(F("C06.slice_of_slice", windows=[[a, bb], [c, d]], expected=sorted([list(k), sorted(v)] for k, v in exp.items()),
                               got=sorted([list(k), sorted(v)] for k, v in got.items())))
        return fails

    @staticmethod
    def nontrivial(case, outs):
        d = outs[1 + len(case["ops"]) + 4]
        return isinstance(d, dict) and len(d["tl"]) >= 1


class C16:
    id = "C16"
    chunk = 100

    @staticmethod
    def cases(tier, rng):
        n = 2000 if tier == "quick" else 25000
        A = lambda u, v, t, e=None: ["add", u, v, t, e]
        extra = [[A(0, 1, 5, 9), A(1, 0, 2, 4)], [A(0, 1, 2, 6), A(1, 0, 4, 9)], [A(0, 1, 2, 4), A(1, 0, 4, 6), A(0, 1, 8)],
                 [A(1, 0, 0, 3), A(0, 1, 1, 2), A(0, 1, 5, 7), A(1, 0, 6, 9)], [A(2, 2, 1, 4), A(1, 2, 3), ["node", 7], ["attr", 7, 3]]]
        for d in (0, 1):
            for h in extra:
                yield hist_case(d, True, h, src="corpus")
        for c in histories(tier, rng, n):
            yield c
        # reciprocal directed pairs with overlapping timelines
        for i in range(n // 2):
            ops = []
            for (u, v) in [(1, 2), (2, 1), (2, 3), (3, 2), (1, 1)]:
                t = rng.randint(0, 3)
                for _ in range(rng.randint(0, 3)):
                    L = rng.randint(1, 4)
                    ops.append(["add", u, v, t, None if L == 1 and rng.random() < 0.5 else t + L])
                    t += L + rng.randint(0, 3)
            rng.shuffle(ops)
            ops.sort(key=lambda o: o[3])
            yield hist_case(1, True, ops, src="recip")

    @staticmethod
    def lines(case):
        L = [gen.header(0, case["cls"], 1)]
        lo, hi = gen.window(case["ops"], 3)
        L += [gen.op_line(0, op) for op in case["ops"]]
        L += ["dump 0", "pres 0 %d %d" % (lo, hi)]
        # every C02 query on the converted graph too (flattened view: isolated nodes must be full citizens of it)
        if case["cls"]:
            L += ["toundir 0 1 0", "dump 0"] + wf_lines(1, lo, hi) + ["q2 1 -"] + ["toundir 0 2 1", "dump 0"] + wf_lines(2, lo, hi) + ["q2 2 -"]
            L += ["isol 0 u0", "isol 0 u1"]
        else:
            L += ["todir 0 1", "dump 0"] + wf_lines(1, lo, hi) + ["q2 1 -"] + ["isol 0 d"]
        return L

    @staticmethod
    def model_skip(line):
        return line.startswith("isol ")

    @staticmethod
    def judge(case, outs):
        n = len(case["ops"])
        if any(o not in ("ok", "E:VE", "E:NXE") for o in outs[1:1 + n]):
            return []
        lo, hi = gen.window(case["ops"], 3)
        i = 1 + n
        dumpG, presG = outs[i], outs[i + 1]
        pg = pres_map(presG)
        fails = []
        convs = [("to_undirected", 0), ("to_undirected(reciprocal)", 0)] if case["cls"] else [("to_directed", 1)]
        j = i + 2
        for nm, dcls in convs:
            res, dG2 = outs[j], outs[j + 1]
            wf = outs[j + 2:j + 7]; j += 7
            if res != "ok":
                fails.append(F("C16.raised", conv=nm, got=res)); continue
            if dG2 != dumpG:
                fails.append(F("C16.source_changed", conv=nm))
            d, p = wf[0], wf[1]
            if oracles.is_err(d) or oracles.is_err(p):
                fails.append(F("C16.raised", conv=nm, got=[d if oracles.is_err(d) else None, p if oracles.is_err(p) else None])); continue
            ph = pres_map(p)
            if d["cls"] != dcls:
                fails.append(F("C16.class", conv=nm, got=d["cls"]))
            if d["nodes"] != dumpG["nodes"]:
                fails.append(F("C16.nodes", conv=nm, expected=dumpG["nodes"], got=d["nodes"]))
            nodes = [x for x, _ in dumpG["nodes"]]
            for u in nodes:
                for v in nodes:
                    fu, tu = pg.get((u, v), (0, set())); fv, tv = pg.get((v, u), (0, set()))
                    gf, gt = ph.get((u, v), (0, set()))
                    if nm == "to_directed":
                        exp = tu
                        rf, rt = ph.get((v, u), (0, set()))
                        if gt != exp and u != v and not gt and not gf and rt == exp and rf:
                            # the pair is there, correctly, in the other orientation only
                            fails.append(F("C16.to_directed_one_orientation", conv=nm, pair=[u, v], expected=sorted(exp), got=[]))
                            continue
                    elif nm == "to_undirected":
                        exp = tu | tv
                    else:
                        exp = tu & tv
                    if gt != exp:
                        fails.append(F("C16.presence", conv=nm, pair=[u, v], expected=sorted(exp), got=sorted(gt)))
            fails += wf_judge(bool(dcls), wf, lo, hi, nm)
        for k, nm in enumerate(["isolation(%s)" % c[0] for c in convs]):
            r = outs[j + k]
            if r != "isolated":
                fails.append(F("C16.isolation", conv=nm, got=r))
        return fails

    @staticmethod
    def nontrivial(case, outs):
        d = outs[1 + len(case["ops"])]
        return isinstance(d, dict) and len(d["tl"]) >= 2
