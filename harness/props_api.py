"""C19: blocked networkx mutators and freeze.  The API surface is probed on deep copies of sample
states; the observations are also written as a Lean table (lean/DynetxModel/Generated/ApiTable.lean)
whose `decide`-checked theorems are re-checked on every run."""
import sys, os, ast, copy, inspect, json, random, io, contextlib
import gen, oracles
from oracles import F

BLOCKED = ["add_edge", "add_edges_from", "add_weighted_edges_from", "update", "remove_edge", "remove_edges_from",
           "remove_node", "remove_nodes_from", "edges_iter", "in_edges", "out_edges", "in_edges_iter", "out_edges_iter"]
BLOCKED_FUNCS = ["set_edge_attributes", "get_edge_attributes"]
TIMED = ["add_interaction", "add_interactions_from", "add_path", "add_star", "add_cycle"]


def _imports():
    import impl
    return impl, impl.nx, impl.dn


def internal(G):
    """deep structural snapshot of everything dynetx stores"""
    adj = {}
    src = G._succ if G.is_directed() else G._adj
    for u, nb in src.items():
        for v, d in nb.items():
            adj[(repr(u), repr(v))] = json.dumps(d, sort_keys=True, default=repr)
    pred = {}
    if G.is_directed():
        for u, nb in G._pred.items():
            for v, d in nb.items():
                pred[(repr(u), repr(v))] = json.dumps(d, sort_keys=True, default=repr)
    nodes = {repr(n): json.dumps(d, sort_keys=True, default=repr) for n, d in G._node.items()}
    tte = {repr(t): sorted(map(repr, ev)) for t, ev in G.time_to_edge.items() if ev}
    return {"adj": adj, "pred": pred, "nodes": nodes, "adjkeys": sorted(map(repr, src)), "tte": tte,
            "snaps": {repr(k): v for k, v in G.snapshots.items()}, "graph": json.dumps(G.graph, sort_keys=True, default=repr)}


def consistent(G, im):
    """no adjacency entry without a timeline; stream in step with presence (C05's clauses)"""
    src = G._succ if G.is_directed() else G._adj
    for u, nb in src.items():
        if u not in G._node:
            return "adjacency row for a node that is not a node"
        for v, d in nb.items():
            if not isinstance(d, dict) or "t" not in d or not d["t"]:
                return "adjacency entry %r-%r without a timeline" % (u, v)
            if v not in G._node:
                return "adjacency entry to a missing node"
    if G.is_directed():
        for u, nb in G._succ.items():
            for v in nb:
                if u not in G._pred.get(v, {}):
                    return "succ/pred out of step"
        for v, nb in G._pred.items():
            for u in nb:
                if v not in G._succ.get(u, {}):
                    return "succ/pred out of step"
    if not G.edge_removal:
        return None
    I = im.Impl("int")
    for n in G._node:
        I.rev[n] = n if isinstance(n, int) else abs(hash(n)) % 1000 + 1000
    try:
        d = I.dump(G)
        ts = [x for iv in (iv for _, _, tl in d["tl"] for iv in tl) for x in iv] + [e[0] for e in d["ev"]] + [0]
        lo, hi = min(ts) - 3, max(ts) + 3
        p = I.pres(G, lo, hi)
    except Exception as ex:  # noqa
        return "observers raise: %s" % type(ex).__name__
    import classify
    # the unclosed two-instant run (known finding D5) is not an inconsistency introduced by the call
    fs = [f for f in oracles.c05(G.is_directed(), d, p, lo, hi) if not classify.d5_unclosed_two_instant_run("C05", {}, f)]
    if fs:
        return "stream out of step with presence: %s" % fs[0]["clause"]
    # snapshot ids and counts in step with presence (C04), as every later query sees them
    try:
        q4 = I.op_q4_obj(G, lo, hi)
    except Exception as ex:  # noqa
        return "snapshot queries raise: %s" % type(ex).__name__
    fs = oracles.c04(G.is_directed(), q4, p, lo, hi)
    if fs:
        return "snapshot ids / counts out of step with presence: %s" % fs[0]["clause"]
    # the in-side of a directed graph must mirror the out-side
    if G.is_directed():
        for n in G._node:
            for m in G._node:
                if (m in G._pred.get(n, {})) != (n in G._succ.get(m, {})):
                    return "succ/pred out of step"
    return None


def warm_reads(G):
    """read-only queries issued before the probed call, so that any cache they fill can go stale"""
    try:
        list(G.stream_interactions()); G.temporal_snapshots_ids(); G.interactions_per_snapshots()
        for n in list(G._node)[:2]:
            G.degree(n); G.neighbors(n); G.get_node_snapshots(n)
        G.degree(t=0); G.nodes(t=0); list(G.interactions(t=0)); G.number_of_interactions(t=0); G.avg_number_of_nodes()
    except Exception:  # noqa
        pass


def arg_variants(fn, nodes, fresh):
    """synthesised positional arguments from parameter names"""
    try:
        sig = inspect.signature(fn)
    except (TypeError, ValueError):
        return [()]
    a, b = (nodes + nodes + [fresh])[:2] if nodes else (fresh, fresh + 1)
    out = []
    for (x, y, lst, eb) in ((a, b, nodes[:2] or [fresh], [(a, b)]), (fresh, fresh + 1, [fresh, fresh + 2], [(fresh, a), (fresh + 1, fresh + 2)])):
        args = []
        ok = True
        for name, p in list(sig.parameters.items())[1:]:
            if p.kind in (p.VAR_POSITIONAL, p.VAR_KEYWORD):
                continue
            if name in ("u", "n", "node_for_adding", "u_of_edge", "node", "u_for_edge"):
                args.append(x)
            elif name in ("v", "v_of_edge", "nbr", "v_for_edge"):
                args.append(y)
            elif name in ("nbunch", "nodes", "nodes_for_adding", "nlist"):
                args.append(list(lst))
            elif name in ("ebunch", "ebunch_to_add", "edges"):
                args.append([tuple(e) + ((1.5,) if "weighted" in fn.__name__ else ()) for e in eb])
            elif p.default is not inspect.Parameter.empty:
                break
            else:
                ok = False
                break
        if ok:
            out.append(tuple(args))
    return out or [()]


def sample_states(rng, n, dn):
    states = []
    for i in range(n):
        directed = i % 2 == 1
        removal = i % 5 != 4
        G = (dn.DynDiGraph if directed else dn.DynGraph)(edge_removal=removal)
        ops = gen.random_history(rng, p_reject=0.0, p_none=0.0, p_empty=0.0, p_node=0.1, loops=True) if i >= 2 else []
        for op in ops:
            try:
                if op[0] == "add":
                    G.add_interaction(op[1], op[2], op[3], op[4])
                elif op[0] == "node":
                    G.add_node(op[1])
                elif op[0] in ("path", "fpath"):
                    G.add_path(op[1], op[2])
            except ValueError:
                pass
        states.append(G)
    return states


def decorated_names(dn):
    """names carrying @not_implemented() in /repo's source, per class / module (static, from the AST)"""
    out = {}
    for modname, cls in (("dynetx.classes.dyngraph", "DynGraph"), ("dynetx.classes.dyndigraph", "DynDiGraph"), ("dynetx.classes.function", None)):
        mod = sys.modules[modname]
        tree = ast.parse(open(mod.__file__).read())
        names = []
        body = tree.body
        if cls:
            body = [n for n in tree.body if isinstance(n, ast.ClassDef) and n.name == cls][0].body
        for n in body:
            if isinstance(n, ast.FunctionDef):
                for d in n.decorator_list:
                    src = ast.unparse(d)
                    if "not_implemented" in src:
                        names.append(n.name)
        out[cls or "function"] = names
    return out


def probe(tier, seed):
    im, nx, dn = _imports()
    rng = random.Random("C19-%s-%d" % (tier, seed))
    states = sample_states(rng, 12 if tier == "quick" else 80, dn)
    deco = decorated_names(dn)
    rows, fails = {}, []
    n_calls = 0
    samples = []
    with contextlib.redirect_stderr(io.StringIO()):
        for G0 in states:
            K = type(G0)
            base = nx.DiGraph if G0.is_directed() else nx.Graph
            cname = K.__name__
            names = sorted(set(n for n in dir(base) if not n.startswith("_")) | set(n for n in dir(K) if not n.startswith("_")))
            nodes = list(G0._node)[:3]
            cons0 = consistent(G0, im)
            if cons0 is not None:
                continue
            for name in names:
                attr = inspect.getattr_static(K, name, None)
                key = (cname, name)
                row = rows.setdefault(key, {"cls": cname, "name": name, "inherited": name in dir(base), "overridden": name in K.__dict__,
                                            "decorated": name in deco[cname], "listed": name in BLOCKED, "calls": 0,
                                            "nxni": 0, "raised": 0, "effect": 0, "inconsistent": 0, "timed": name in TIMED})
                if isinstance(attr, property) or not callable(getattr(K, name, None)):
                    variants = [None]
                else:
                    variants = arg_variants(getattr(K, name), nodes, 900)
                    if name in TIMED:
                        variants = [v + (5,) if name != "add_interaction" else v[:2] + (5,) for v in variants if v is not None]
                for args in variants:
                    G = copy.deepcopy(G0)
                    warm_reads(G)
                    before = internal(G)
                    exc = None
                    try:
                        if args is None:
                            r = getattr(G, name)
                        else:
                            r = getattr(G, name)(*args)
                        if inspect.isgenerator(r) or hasattr(r, "__next__"):
                            for _ in zip(range(50), r):
                                pass
                        elif hasattr(r, "__iter__") and not isinstance(r, (str, bytes, dict)) and not isinstance(r, nx.Graph):
                            try:
                                for _ in zip(range(50), iter(r)):
                                    pass
                            except Exception as ex:  # noqa
                                exc = ex
                    except Exception as ex:  # noqa
                        exc = ex
                    n_calls += 1
                    row["calls"] += 1
                    after = internal(G)
                    eff = 0
                    if before != after:
                        eff = 1
                        if before["adj"] != after["adj"] or before["pred"] != after["pred"] or before["tte"] != after["tte"] or before["snaps"] != after["snaps"] \
                                or any(k not in after["nodes"] for k in before["nodes"]):
                            eff = 2
                    row["effect"] = max(row["effect"], eff)
                    if exc is not None:
                        row["raised"] += 1
                        if isinstance(exc, nx.NetworkXNotImplemented):
                            row["nxni"] += 1
                    cons = consistent(G, im)
                    if cons is not None:
                        row["inconsistent"] += 1
                        fails.append(F("C19.inconsistent_state", cls=cname, call=name, args=repr(args), problem=cons))
                    if name in BLOCKED:
                        if not isinstance(exc, nx.NetworkXNotImplemented):
                            fails.append(F("C19.not_blocked", cls=cname, call=name, args=repr(args), got=type(exc).__name__ if exc else "no exception"))
                        if eff == 2:
                            fails.append(F("C19.blocked_but_mutates", cls=cname, call=name, args=repr(args)))
                    if len(samples) < 3 and eff:
                        samples.append({"cls": cname, "call": name, "args": repr(args), "effect": eff, "raised": type(exc).__name__ if exc else None})
            # module level blocked functions
            for fname in BLOCKED_FUNCS:
                for args in (((G0, {(1, 2): 3}, "w"), (G0, {(1, 2): {"w": 3}})) if fname == "set_edge_attributes" else ((G0, "w"), (G0, "t"))):
                  for spelling in ("positional", "keywords"):
                    G = copy.deepcopy(G0)
                    before = internal(G)
                    exc = None
                    try:
                        if spelling == "positional":
                            getattr(dn, fname)(*((G,) + args[1:]))
                        else:       # the same call with every argument (the graph included) given by name
                            names = [q for q in inspect.signature(getattr(dn, fname)).parameters][:len(args)]
                            getattr(dn, fname)(**dict(zip(names, (G,) + args[1:])))
                    except Exception as ex:  # noqa
                        exc = ex
                    n_calls += 1
                    key = ("function", fname)
                    row = rows.setdefault(key, {"cls": "function", "name": fname, "inherited": False, "overridden": True, "decorated": fname in deco["function"],
                                                "listed": True, "calls": 0, "nxni": 0, "raised": 0, "effect": 0, "inconsistent": 0, "timed": False})
                    row["calls"] += 1
                    if exc is not None:
                        row["raised"] += 1
                    if isinstance(exc, nx.NetworkXNotImplemented):
                        row["nxni"] += 1
                    elif len(args) <= 3:
                        fails.append(F("C19.not_blocked", cls="function", call=fname, args=repr(args[1:]), got=type(exc).__name__ if exc else "no exception"))
                    if internal(G) != before:
                        row["effect"] = 2
                        fails.append(F("C19.blocked_but_mutates", cls="function", call=fname))
            # the other module-level helpers (dn.*): none of them may leave the graph inconsistent either, and the
            # read-only ones must not change it at all
            a0 = nodes[0] if nodes else 900
            FUNC_ARGS = {"nodes": [(), (0,)], "interactions": [(), (None, 0), ([a0], None)], "degree": [(), ([a0], 0)], "degree_histogram": [(), (0,)],
                         "neighbors": [(a0,), (a0, 0)], "number_of_nodes": [(), (0,)], "number_of_interactions": [(), (a0, a0, 0)], "density": [(), (0,)],
                         "is_directed": [()], "is_frozen": [()], "subgraph": [([a0],), ([],)], "create_empty_copy": [(), (False,)],
                         "set_node_attributes": [({a0: 1, 901: 2}, "w"), (3, "w"), ({a0: {"x": 1}, 902: {"x": 2}},)], "get_node_attributes": [("w",)],
                         "all_neighbors": [(a0,), (a0, 0)], "non_neighbors": [(a0,), (a0, 0)], "non_interactions": [(), (0,)], "is_empty": [()],
                         "time_slice": [(0,), (0, 3)], "stream_interactions": [()], "interactions_per_snapshots": [(), (0,)], "temporal_snapshots_ids": [()],
                         "inter_event_time_distribution": [(), (a0,)]}
            READ_ONLY = set(FUNC_ARGS) - {"set_node_attributes"}
            for fname, variants in FUNC_ARGS.items():
                fn = getattr(dn, fname, None)
                if fn is None:
                    continue
                for args in variants:
                    G = copy.deepcopy(G0)
                    before = internal(G)
                    exc = None
                    try:
                        r = fn(G, *args)
                        if inspect.isgenerator(r) or hasattr(r, "__next__"):
                            for _ in zip(range(50), r):
                                pass
                        if fname == "is_directed" and bool(r) != G0.is_directed():
                            fails.append(F("C19.function_result", call="dn.is_directed", got=repr(r)))
                        if fname == "is_frozen" and r:
                            fails.append(F("C19.function_result", call="dn.is_frozen on a graph that was never frozen", got=repr(r)))
                        if fname == "create_empty_copy" and (type(r) is not K or r.number_of_nodes() != G0.number_of_nodes() or list(r.stream_interactions())):
                            fails.append(F("C19.function_result", call="dn.create_empty_copy", got=repr(r)))
                    except Exception as ex:  # noqa
                        exc = ex
                    n_calls += 1
                    key = ("function", fname)
                    row = rows.setdefault(key, {"cls": "function", "name": fname, "inherited": False, "overridden": True, "decorated": fname in deco["function"],
                                                "listed": False, "calls": 0, "nxni": 0, "raised": 0, "effect": 0, "inconsistent": 0, "timed": False})
                    row["calls"] += 1
                    if exc is not None:
                        row["raised"] += 1
                    after = internal(G)
                    if after != before:
                        row["effect"] = max(row["effect"], 1)
                        if fname in READ_ONLY:
                            fails.append(F("C19.query_mutates", call="dn." + fname, args=repr(args)))
                    cons = consistent(G, im)
                    if cons is not None:
                        row["inconsistent"] += 1
                        fails.append(F("C19.inconsistent_state", cls="function", call=fname, args=repr(args), problem=cons))
            # freeze
            G = copy.deepcopy(G0)
            Gf = dn.freeze(G)
            if Gf is not G or not dn.is_frozen(G):
                fails.append(F("C19.is_frozen", cls=cname))
            mutators = [(k[1]) for k, r in rows.items() if k[0] == cname and (r["effect"] > 0 or r["timed"])]
            # node *data* may still be modified on a frozen graph (freeze's documented contract)
            mutators = [m for m in mutators if m not in ("update_node_attr", "update_node_attr_from")]
            for name in sorted(set(mutators) | set(TIMED) | {"add_node", "add_nodes_from", "clear"}):
                if not hasattr(G, name):
                    continue
                fn = getattr(K, name, None)
                variants = arg_variants(fn, nodes, 900) if fn is not None else [()]
                if name in TIMED:
                    variants = [v + (5,) if name != "add_interaction" else v[:2] + (5,) for v in variants]
                for args in variants:
                    before = internal(G)
                    exc = None
                    try:
                        getattr(G, name)(*args)
                    except Exception as ex:  # noqa
                        exc = ex
                    n_calls += 1
                    frow = rows.setdefault((cname, "frozen:" + name), {"cls": cname, "name": "frozen:" + name, "calls": 0, "raised": 0, "effect": 0, "timed": name in TIMED,
                                                                      "inherited": False, "overridden": False, "decorated": False, "listed": False, "nxni": 0, "inconsistent": 0})
                    frow["calls"] += 1
                    changed = internal(G) != before
                    if exc is not None:
                        frow["raised"] += 1
                    if changed:
                        frow["effect"] = 2
                    if exc is None or changed:
                        fails.append(F("C19.frozen_mutable", cls=cname, call=name, args=repr(args), raised=type(exc).__name__ if exc else None, changed=changed))
                        if changed:
                            G = dn.freeze(copy.deepcopy(G0))
            # a frozen graph also refuses add_node / add_nodes_from for a node it ALREADY has, with attributes (the networkx idiom
            # for editing node data): it raises and changes nothing
            G = dn.freeze(copy.deepcopy(G0))
            if nodes:
                ex0 = nodes[0]
                for label, call in (("add_node(existing, attr)", lambda: G.add_node(ex0, colour="red")),
                                    ("add_nodes_from([existing], attr)", lambda: G.add_nodes_from([ex0], colour="red")),
                                    ("add_nodes_from([(existing, data)])", lambda: G.add_nodes_from([(ex0, {"colour": "red"})]))):
                    before = (internal(G), copy.deepcopy(G._node))
                    exc = None
                    try:
                        call()
                    except Exception as ex:  # noqa
                        exc = ex
                    n_calls += 1
                    changed = (internal(G), G._node) != before
                    if exc is None or changed:
                        fails.append(F("C19.frozen_mutable", cls=cname, call=label, raised=type(exc).__name__ if exc else None, changed=changed))
                        G = dn.freeze(copy.deepcopy(G0))
            # the blocked untimed edge views keep raising NetworkXNotImplemented ("always") after freeze as before it
            G = dn.freeze(copy.deepcopy(G0))
            for vname in ("edges_iter", "in_edges", "out_edges", "in_edges_iter", "out_edges_iter"):
                if hasattr(G, vname):
                    try:
                        r = getattr(G, vname)()
                        if hasattr(r, "__next__"):
                            list(r)
                        got = "no exception"
                    except nx.NetworkXNotImplemented:
                        got = None
                    except Exception as ex:  # noqa
                        got = type(ex).__name__
                    n_calls += 1
                    if got is not None:
                        fails.append(F("C19.blocked_view_after_freeze", cls=cname, call=vname, got=got))
            for fname, call in (("dn.get_edge_attributes", lambda: dn.get_edge_attributes(G, "t")), ("dn.set_edge_attributes", lambda: dn.set_edge_attributes(G, 1, "w"))):
                try:
                    call(); got = "no exception"
                except nx.NetworkXNotImplemented:
                    got = None
                except Exception as ex:  # noqa
                    got = type(ex).__name__
                n_calls += 1
                if got is not None:
                    fails.append(F("C19.blocked_view_after_freeze", cls=cname, call=fname, got=got))
            # graphs derived from a frozen graph are graphs in their own right: freezing them must freeze them
            Gf = dn.freeze(copy.deepcopy(G0))
            derivs = [("to_directed", lambda g: g.to_directed()) if not G0.is_directed() else ("to_undirected", lambda g: g.to_undirected()),
                      ("time_slice", lambda g: g.time_slice(0, 5)), ("create_empty_copy", lambda g: dn.create_empty_copy(g)),
                      ("deepcopy", lambda g: copy.deepcopy(g))]
            for dname, fn in derivs:
                try:
                    H = fn(Gf)
                except Exception:  # noqa
                    continue
                n_calls += 1
                try:
                    dn.freeze(H)
                except Exception as ex:  # noqa
                    fails.append(F("C19.freeze_raised", cls=cname, derived=dname, got=type(ex).__name__)); continue
                if not dn.is_frozen(H):
                    fails.append(F("C19.is_frozen", cls=cname, derived=dname))
                for mname, margs in (("add_node", (987,)), ("add_nodes_from", ([988],)), ("clear", ())):
                    before = internal(H)
                    exc = None
                    try:
                        getattr(H, mname)(*margs)
                    except Exception as ex:  # noqa
                        exc = ex
                    if exc is None or internal(H) != before:
                        fails.append(F("C19.frozen_mutable", cls=cname, call=mname, derived_from_frozen=dname,
                                       raised=type(exc).__name__ if exc else None, changed=internal(H) != before))
                        break
    return rows, fails, n_calls, samples, len(states)


def lean_table(rows):
    """only seed-independent columns (booleans, strongest effect), so that the table - and the Lean build -
    changes when the code's behaviour changes, not when the seed does"""
    L = ["-- GENERATED by harness/props_api.py from the installed networkx and /repo on every run. Do not edit.",
         "namespace Dynetx.Api", "",
         "structure Row where", "  cls : String", "  name : String", "  inherited : Bool", "  overridden : Bool", "  decorated : Bool",
         "  listed : Bool", "  timed : Bool", "  frozen : Bool", "  probed : Bool", "  allRaised : Bool", "  allNxni : Bool", "  effect : Nat", "  inconsistent : Bool", "  deriving Repr, DecidableEq", "",
         "def table : List Row := ["]
    items = []
    for k in sorted(rows):
        r = rows[k]
        b = lambda x: "true" if x else "false"
        fz = r["name"].startswith("frozen:")
        items.append('  { cls := "%s", name := "%s", inherited := %s, overridden := %s, decorated := %s, listed := %s, timed := %s, frozen := %s, probed := %s, allRaised := %s, allNxni := %s, effect := %d, inconsistent := %s }'
                     % (r["cls"], r["name"][7:] if fz else r["name"], b(r["inherited"]), b(r["overridden"]), b(r["decorated"]), b(r["listed"]), b(r["timed"]), b(fz),
                        b(r["calls"] > 0), b(r["calls"] > 0 and r["raised"] == r["calls"]), b(r["calls"] > 0 and r["nxni"] == r["calls"]), r["effect"], b(r["inconsistent"] > 0)))
    L.append(",\n".join(items))
    L += ["]", "", "end Dynetx.Api", ""]
    return "\n".join(L)


_CACHE = {}


class C19:
    id = "C19"

    @staticmethod
    def pre_obligations(tier, seed):
        """the API table is regenerated from the installed networkx and /repo BEFORE the Lean build, so that
        the table theorems are re-checked against what the code does now"""
        C19.custom_run(tier, seed)

    @staticmethod
    def custom_run(tier, seed):
        if (tier, seed) in _CACHE:
            return _CACHE[(tier, seed)]
        r = C19._run(tier, seed)
        _CACHE[(tier, seed)] = r
        return r

    @staticmethod
    def _run(tier, seed):
        rows, fails, n_calls, samples, n_states = probe(tier, seed)
        here = os.path.dirname(os.path.abspath(__file__))
        path = os.path.join(os.path.dirname(here), "lean", "DynetxModel", "Generated", "ApiTable.lean")
        if os.path.isdir(os.path.dirname(path)):
            txt = lean_table(rows)
            old = open(path).read() if os.path.exists(path) else None
            if old != txt:
                with open(path, "w") as f:
                    f.write(txt)
        case = {"kind": "api-probe", "tier": tier, "seed": seed}
        return {"n": n_calls, "nontrivial": {"%s.%s" % k for k, r in rows.items() if r["effect"] or r["raised"]},
                "fails": [{"case": dict(case, call=f["detail"].get("call"), cls=f["detail"].get("cls")), "fails": [dict(f, agrees_with_model=None)], "lines": []} for f in fails],
                "disagree": [], "model_fails": [], "internal": [],
                "hist": {"states": n_states, "names": len(rows), "calls": n_calls, "edge_mutators": sorted("%s.%s" % k for k, r in rows.items() if r["effect"] == 2)},
                "samples": samples}

    @staticmethod
    def lines(case):
        return []

    @staticmethod
    def judge(case, outs):
        # replay: probe again and keep the failures of the named call
        rows, fails, _, _, _ = probe(case.get("tier", "quick"), case.get("seed", 0))
        return [f for f in fails if case.get("call") is None or f["detail"].get("call") == case.get("call")]

    @staticmethod
    def nontrivial(case, outs):
        return True
