"""C17 temporal statistics, C20 delta-conformity.  (C19 lives in props_api.py)"""
import itertools
import gen, oracles
from oracles import F, pres_map, approx
from spec import key
from props_core import hist_case
from props_paths import temporal_graph


def num(x):
    """["f",float] | ["q",n,d] -> float"""
    if x[0] == "f":
        return x[1]
    return x[1] / x[2]


def ratio_ok(got, n, d):
    if oracles.is_err(got):
        return False
    if got[0] == "q":
        return got[1] * d == n * got[2]
    return approx(got[1], n / d)


class C17:
    id = "C17"
    chunk = 60

    @staticmethod
    def cases(tier, rng):
        n = 1500 if tier == "quick" else 20000
        A = lambda u, v, t, e=None: ["add", u, v, t, e]
        tests = [[A(0, 1, 0), A(0, 2, 0), A(0, 1, 1), A(0, 2, 2), A(0, 3, 2)],
                 [A(0, 1, 0), A(0, 2, 0), A(0, 1, 1), A(0, 2, 1), A(3, 4, 1), A(5, 6, 1)],
                 [A(0, 1, 0), A(0, 2, 0), A(0, 1, 1), A(0, 2, 1), A(1, 3, 2), A(0, 3, 2)]]
        for d in (0, 1):
            for h in tests + gen.corpus_histories():
                yield hist_case(d, True, h, src="corpus")
        for i in range(n):
            d = 1 if i % 4 == 0 else 0
            if i % 2:
                ops = temporal_graph(rng, rng.choice([2, 3, 4, 5]), rng.choice([2, 4, 6]), bool(d), p=rng.choice([0.2, 0.4]), loops=False)
                if rng.random() < 0.2:
                    ops.append(["node", 9])
            else:
                ops = gen.random_history(rng, p_reject=0.02, p_none=0.0, p_empty=0.0, loops=bool(d), p_node=0.05)
            if i % 37 == 3:
                ops = gen.shift_times(ops, 2 ** 55 + 3)
            elif i % 37 == 8:
                ops = gen.shift_times(ops, -1000)
            yield hist_case(d, True, ops, src="rand")

    @staticmethod
    def lines(case):
        L = [gen.header(0, case["cls"], 1)]
        lo, hi = gen.window(case["ops"], 2)
        L += [gen.op_line(0, op) for op in case["ops"]]
        L += ["dump 0", "pres 0 %d %d" % (lo, hi), "q4 0 %d %d" % (lo, hi), "stats 0"]
        return L

    @staticmethod
    def judge(case, outs):
        n = len(case["ops"])
        if any(o not in ("ok", "E:VE", "E:NXE") for o in outs[1:1 + n]):
            return []
        dump, pres, _q4, st = outs[1 + n:5 + n]
        if oracles.is_err(dump) or oracles.is_err(pres):
            return []
        if oracles.is_err(st):
            return [F("C17.raised", got=st)]
        directed = bool(case["cls"])
        pm = pres_map(pres)
        V = [x for x, _ in dump["nodes"]]
        fails = []
        loops = any(u == v and ts for (u, v), (_, ts) in pm.items())
        Tuv = {}
        for (u, v), (_, ts) in pm.items():
            if ts:
                Tuv[key(directed, u, v)] = set(ts)
        T = sorted({x for ts in Tuv.values() for x in ts})
        Tu = {u: {x for k, ts in Tuv.items() if u in k for x in ts} for u in V}

        def chk(name, got, nn, dd, bound=True):
            if dd == 0:
                return
            if not ratio_ok(got, nn, dd):
                fails.append(F("C17." + name, expected=[nn, dd], got=got))
            elif bound and not (-1e-12 <= num(got) <= 1 + 1e-12):
                fails.append(F("C17.range", measure=name, got=got))
        if not directed and not loops and T:
            nT = len(T)
            chk("coverage", st["coverage"], sum(len(Tu[u]) for u in V), nT * len(V))
            chk("avg_number_of_nodes", st["avg_nodes"], sum(len(Tu[u]) for u in V), nT, bound=False)
            pairs = list(itertools.combinations(V, 2))
            chk("uniformity", st["uniformity"], sum(len(Tu[a] & Tu[b]) for a, b in pairs), sum(len(Tu[a] | Tu[b]) for a, b in pairs))
            chk("density", st["density"], sum(len(Tuv.get(key(False, a, b), ())) for a, b in pairs), sum(len(Tu[a] & Tu[b]) for a, b in pairs))
            for u in V:
                e = st["node"][str(u)]
                chk("node_contribution", e["contrib"], len(Tu[u]), nT)
                if e["npres"] != sorted(Tu[u]):
                    fails.append(F("C17.node_presence", node=u, expected=sorted(Tu[u]), got=e["npres"]))
                nn = sum(len(Tuv.get(key(False, u, v), ())) for v in V if v != u)
                dd = sum(len(Tu[v] & Tu[u]) for v in V)
                if dd == 0:
                    if not (not oracles.is_err(e["ndens"]) and num(e["ndens"]) == 0):
                        fails.append(F("C17.node_density", node=u, expected=0, got=e["ndens"]))
                else:
                    chk("node_density", e["ndens"], nn, dd)
            for a, b in pairs:
                e = st["pair"]["%d,%d" % tuple(sorted((a, b)))]
                chk("node_pair_uniformity", e["puni"], len(Tu[a] & Tu[b]), len(Tu[a] | Tu[b]))
                dd = len(Tu[a] & Tu[b])
                if dd == 0:
                    if not (not oracles.is_err(e["pdens"]) and num(e["pdens"]) == 0):
                        fails.append(F("C17.pair_density", pair=[a, b], expected=0, got=e["pdens"]))
                else:
                    chk("pair_density", e["pdens"], len(Tuv.get(key(False, a, b), ())), dd)
                if "econtrib" in e:
                    chk("edge_contribution", e["econtrib"], len(Tuv.get(key(False, a, b), ())), nT)
            for t, got in st["sdens"]:
                Vt = [u for u in V if t in Tu[u]]
                m = sum(1 for k, ts in Tuv.items() if t in ts)
                nn_ = len(Vt)
                if nn_ <= 1:
                    if oracles.is_err(got) or num(got) != 0:
                        fails.append(F("C17.snapshot_density", t=t, expected=0, got=got))
                else:
                    chk("snapshot_density", got, 2 * m, nn_ * (nn_ - 1))
        # inter-event time distributions (both classes)
        ev = sorted(dump["ev"])

        def hist_of(times):
            h = {}
            for a, b in zip(times, times[1:]):
                h[b - a] = h.get(b - a, 0) + 1
            return sorted([k, v] for k, v in h.items())

        def chk_hist(name, got, times):
            exp = hist_of(times)
            if got != exp:
                fails.append(F("C17." + name, expected=exp, got=got)); return
            if times:
                if sum(c for _, c in got) != len(times) - 1 or sum(g * c for g, c in got) != times[-1] - times[0]:
                    fails.append(F("C17.iet_mass", name=name, got=got))
        alltimes = [e[0] for e in ev]
        for nm in ("iet", "f_iet") + (("iet_in", "iet_out") if directed else ()):
            chk_hist(nm, st[nm], alltimes)
        for u in V:
            e = st["niet"][str(u)]
            chk_hist("node_iet", e["iet"], [x[0] for x in ev if x[1] == u or x[2] == u])
            if directed:
                chk_hist("node_iet_in", e["in"], [x[0] for x in ev if x[2] == u])
                chk_hist("node_iet_out", e["out"], [x[0] for x in ev if x[1] == u])
        return fails

    @staticmethod
    def nontrivial(case, outs):
        d = outs[1 + len(case["ops"])]
        return isinstance(d, dict) and len(d["ids"]) >= 2 and len(d["tl"]) >= 2


def check_same(a, b):
    import check as _ck
    return _ck.same(a, b)


class C20:
    id = "C20"
    chunk = 25
    no_warm = True      # the label lines would create bare nodes in the middle of the history

    @staticmethod
    def cases(tier, rng):
        n = 300 if tier == "quick" else 4000
        for i in range(n):
            nn = rng.choice([3, 4, 4, 5])
            tm = rng.choice([3, 4, 5, 6])
            directed = (i % 4 == 3)
            # self-loops in one case of six (a node whose only contacts in the window are self-loops reaches nobody: score 0)
            ops = temporal_graph(rng, nn, tm, directed, p=rng.choice([0.2, 0.3, 0.4]) * (0.6 if directed else 1), loops=(i % 6 == 5))
            lonely = (i % 30 == 11)       # the only node present at start has nothing but a one-instant self-loop in the window
            if lonely:
                s0 = rng.choice([0, 1, 2])
                ops = [["add", 1, 1, s0, None], ["add", 2, 3, s0 + 1, None], ["add", 3, 4, s0 + 2, None], ["add", 4, 2, s0 + 4, None]]
            if not ops:
                continue
            nodes = sorted({x for o in ops for x in (o[1], o[2])})
            mode = i % 3          # 0 random labels, 1 all equal, 2 two labels
            labels = {x: (1 if mode == 1 else rng.randint(1, 2 if mode == 2 else 3)) for x in nodes}
            start = rng.randint(-1, tm)
            delta = rng.choice([0, 1, 2, 3, 4, 8])
            if lonely:
                start, delta = s0, rng.choice([1, 2, 3])
            alphas = sorted(set(rng.choice([100, 200, 300, 100, 200, 50, 150, 250]) for _ in range(rng.choice([1, 2]))))
            # a renaming of node ids and label values
            perm = nodes[:]; rng.shuffle(perm)
            nmap = dict(zip(nodes, [p + 10 for p in perm]))
            vals = sorted(set(labels.values())); pv = vals[:]; rng.shuffle(pv)
            lmap = dict(zip(vals, [x + 5 for x in pv]))
            # several labels / profiles: label l of node x, profile_size, and the documented argument errors
            nlab = rng.choice([1, 2, 2, 3])
            tab = [[x, l, (1 if mode == 1 else rng.randint(0, 2))] for x in nodes for l in range(nlab)]
            psize = rng.choice([1, 1, 2, nlab, nlab + (1 if i % 17 == 0 else 0)])
            prof = {"labels": list(range(nlab)), "psize": psize, "tab": tab, "alphas": ([] if i % 23 == 0 else [a for a in alphas if a % 100 == 0] or [100])}
            # time-varying labels (a dictionary instant -> value instead of a value) and label hierarchies (value -> rank).
            # The instants at which __label_frequency reads a dictionary are `start` and the hop counts 1, 2, ...;
            # most tables cover them all, one case in four has holes (a hole skips the node or raises KeyError)
            holes = (i % 4 == 2)
            span = sorted(set(range(-1, tm + 8)) | {start})
            stat, dynp, dyn = [], [], []
            for x in nodes:
                for l in range(nlab):
                    if rng.random() < 0.5:
                        stat.append([x, l, 1 if mode == 1 else rng.randint(0, 2)])
                    else:
                        dynp.append([x, l])
                        for t in span:
                            if not holes or rng.random() < 0.75:
                                dyn.append([x, l, t, 1 if mode == 1 else rng.randint(0, 2)])
            hl = [l for l in range(nlab) if rng.random() < 0.5]
            htr = []
            for l in hl:
                # a hierarchy is a ranking of the values it knows: the values kept (a hole = a value without rank, KeyError when
                # it is needed) are ranked 0..k-1 in a random order, so two ranks never differ by more than len - 1 (HierOK)
                kept = [v for v in (0, 1, 2) if not (holes and rng.random() < 0.2)]
                order = kept[:]; rng.shuffle(order)
                tie = len(kept) == 3 and rng.random() < 0.35      # two values on one level: ranks 0, 0, 1 (still a ranking)
                for v in kept:
                    htr.append([l, v, max(0, order.index(v) - 1) if tie else order.index(v)])
            prof["hier"] = {"hl": hl, "htr": htr, "stat": stat, "dynp": dynp, "dyn": dyn, "holes": holes}
            yield {"cls": 1 if directed else 0, "rem": 1, "ops": ops, "labels": labels, "start": start, "delta": delta, "alphas": alphas, "prof": prof,
                   "ptype": rng.randint(0, 4), "nmap": nmap, "lmap": lmap, "equal": mode == 1,
                   "ids": "ustr" if i % 8 == 5 else "int",      # node ids with the '_' of the DAG's occurrence names (a, a_1, a_1_2, _d, e_)
                   "src": "rand",
                   "presort": i % 2 == 1}

    @staticmethod
    def lines(case):
        L = [gen.header(0, case["cls"], 1)]
        L += [gen.op_line(0, op) for op in case["ops"]]
        L += ["attr 0 %d %d" % (n, a) for n, a in sorted(case["labels"].items())]
        al = " ".join(map(str, case["alphas"]))
        s, d, pt = case["start"], case["delta"], case["ptype"]
        L += ["dump 0", "conf 0 %d %d %d %d %s" % (s, d, pt, len(case["alphas"]), al),
              "slice 0 1 %d %d" % (s, s + d), "dump 1", "pres 1 %d %d" % (s - 1, s + d + 1), "atrp 1 - - -",
              "sconf 0 %d %d %d %s" % (d, pt, len(case["alphas"]), al)]
        # renamed copy
        L.append(gen.header(2, case["cls"], 1))
        nm, lm = case["nmap"], case["lmap"]
        if case.get("presort"):
            L += ["node 2 %d" % x for x in sorted(nm.values())]
        L += [gen.op_line(2, [o[0], nm[o[1]], nm[o[2]], o[3], o[4]]) for o in case["ops"]]
        L += ["attr 2 %d %d" % (nm[n], lm[a]) for n, a in sorted(case["labels"].items())]
        L.append("conf 2 %d %d %d %d %s" % (s, d, pt, len(case["alphas"]), al))
        # per-t conformities for the sliding clause
        ts = sorted({o[3] for o in case["ops"]} | {x for o in case["ops"] if o[4] for x in range(o[3], o[4])})
        case["_ts"] = ts
        for t in ts:
            L.append("conf 0 %d %d %d %d %s" % (t, d, pt, len(case["alphas"]), al))
        # any exponent: the model receives the powers d ** alpha exactly as Python's floats give them (model: nodeScoreW, theorem C20W_bound)
        from fractions import Fraction
        blocks = []
        # exponents with more than two decimals too (1.006, 2.718): the result key is '%.2f' % alpha, the powers use alpha itself
        al1000 = [a * 10 for a in case["alphas"]] + [x for x in ([1006, 2718, 1234, 505][len(case["ops"]) % 4],)
                                                     if ("%.2f" % (x / 1000.0)) not in {"%.2f" % (a / 100.0) for a in case["alphas"]}]
        for a in al1000:
            alpha = a / 1000.0
            ws = [Fraction(float(dd) ** alpha) for dd in range(1, 9)]
            blocks.append("%d %d %d %s" % (a, int(round(float("%.2f" % alpha) * 100)), len(ws), " ".join("%d %d" % (w.numerator, w.denominator) for w in ws)))
        case["_confw_extra"] = len(al1000) - len(case["alphas"])
        L.append("confw 0 %d %d %d %d %s" % (s, d, pt, len(al1000), " ".join(blocks)))
        pr = case["prof"]
        L.append(("confp 0 %d %d %d %d %d %s %d %s %d %s" % (s, d, pt, pr["psize"], len(pr["labels"]), " ".join(map(str, pr["labels"])),
                  len(pr["alphas"]), " ".join(map(str, pr["alphas"])), len(pr["tab"]), " ".join("%d %d %d" % tuple(x) for x in pr["tab"]))).replace("  ", " "))
        h = pr["hier"]

        def blk(rows):
            return " ".join([str(len(rows))] + [" ".join(map(str, r)) for r in rows])
        tables = " ".join([blk([[l] for l in pr["labels"]]), blk([[a] for a in pr["alphas"]]),
                           blk([[l] for l in h["hl"]]), blk(h["htr"]), blk(h["stat"]), blk(h["dynp"]), blk(h["dyn"])])
        L.append("confh 0 %d %d %d %d %s" % (s, d, pt, pr["psize"], tables))
        # the sliding driver with all its arguments, and the per-instant calls it must agree with (each of those is given
        # freshly built tables; the sliding call passes one hierarchies dictionary to every window)
        for t in ts:
            L.append("confh 0 %d %d %d %d %s" % (t, d, pt, pr["psize"], tables))
        L.append("sconfh 0 %d %d %d %s" % (d, pt, pr["psize"], tables))
        return L

    @staticmethod
    def judge(case, outs):
        nops = len(case["ops"]); nl = len(case["labels"])
        if any(o != "ok" for o in outs[1:1 + nops + nl]):
            return []
        i = 1 + nops + nl
        dump0, conf, sl, dump1, pres1, atrp, sconf = outs[i:i + 7]
        j = i + 7 + 1 + nops + nl + (len(case["nmap"]) if case.get("presort") else 0)
        conf2 = outs[j]
        nts = len(case["_ts"])
        per_t = outs[j + 1:-4 - nts]
        confw = outs[-4 - nts]
        confp = outs[-3 - nts]
        confh = outs[-2 - nts]
        per_th = outs[-1 - nts:-1]
        sconfh = outs[-1]
        fails = []
        s, d = case["start"], case["delta"]
        if sl != "ok" or oracles.is_err(dump1):
            return []
        if oracles.is_err(conf):
            return [F("C20.raised", start=s, delta=d, got=conf)]
        empty = len(dump1["ids"]) == 0
        if empty != (conf is None):
            fails.append(F("C20.none_iff_empty", start=s, delta=d, window_ids=dump1["ids"], got=conf))
        if conf is None:
            return fails
        pm = pres_map(pres1)
        present = sorted({u for (u, v), (_, ts) in pm.items() if s in ts} | {v for (u, v), (_, ts) in pm.items() if s in ts})
        exp_keys = sorted("%.2f" % (a / 100.0) for a in case["alphas"])
        if sorted(conf) != exp_keys:
            fails.append(F("C20.alpha_keys", expected=exp_keys, got=sorted(conf)))
        reach = set()
        if isinstance(atrp, dict):
            for k, g in atrp.items():
                a, b = map(int, k.split(","))
                if a != b and g["n"]:
                    reach.add(a)
        for a, prof in conf.items():
            if list(prof) != ["a"]:
                fails.append(F("C20.profile_keys", got=list(prof)))
            for p, sc in prof.items():
                if [x for x, _ in sc] != present:
                    fails.append(F("C20.nodes", start=s, expected=present, got=[x for x, _ in sc]))
                for x, val in sc:
                    v = oracles_num(val)
                    if not (-1 - 1e-9 <= v <= 1 + 1e-9):
                        fails.append(F("C20.bound", node=x, alpha=a, got=val))
                    if case["equal"]:
                        exp = 1.0 if x in reach else 0.0
                        if not approx(v, exp):
                            fails.append(F("C20.all_equal", node=x, alpha=a, expected=exp, got=val))
        # label profiles
        pr = case["prof"]
        import itertools as _it
        if pr["psize"] > len(pr["labels"]) or not pr["alphas"]:
            if confp != "E:VE":
                fails.append(F("C20.profile_arguments", psize=pr["psize"], labels=pr["labels"], alphas=pr["alphas"], expected="E:VE", got=confp))
        elif oracles.is_err(confp) or confp is None:
            fails.append(F("C20.profiles_raised", got=confp))
        else:
            exp_prof = sorted("_".join("L%d" % l for l in c) for k in range(1, pr["psize"] + 1) for c in _it.combinations(pr["labels"], k))
            if sorted(confp) != sorted("%.2f" % (a / 100.0) for a in pr["alphas"]):
                fails.append(F("C20.alpha_keys", got=sorted(confp)))
            for a, prof in confp.items():
                if sorted(prof) != exp_prof:
                    fails.append(F("C20.profile_keys", expected=exp_prof, got=sorted(prof)))
                for p, sc in prof.items():
                    if [x for x, _ in sc] != present:
                        fails.append(F("C20.nodes", profile=p, start=s, expected=present, got=[x for x, _ in sc]))
                    for x, val in sc:
                        v = oracles_num(val)
                        if not (-1 - 1e-9 <= v <= 1 + 1e-9):
                            fails.append(F("C20.bound", node=x, alpha=a, profile=p, got=val))
                        if case["equal"]:
                            exp = 1.0 if x in reach else 0.0
                            if not approx(v, exp):
                                fails.append(F("C20.all_equal", node=x, alpha=a, profile=p, expected=exp, got=val))
        # the same call again (the model is given the powers d ** alpha as exact rationals): same answer as the first call
        if isinstance(confw, dict) and isinstance(conf, dict):
            extra = {k: v for k, v in confw.items() if k not in conf}
            if not check_same(conf, {k: v for k, v in confw.items() if k in conf}):
                fails.append(F("C20.repeat_call", first=conf, second=confw))
            for a, prof in extra.items():       # the exponent with more decimals: same keys, bound, all-equal
                for p_, sc in prof.items():
                    for x, val in sc:
                        v = oracles_num(val)
                        if not (-1 - 1e-9 <= v <= 1 + 1e-9):
                            fails.append(F("C20.bound", where="exponent with decimals", node=x, alpha=a, got=val))
                        if case["equal"] and not approx(v, 1.0 if x in reach else 0.0):
                            fails.append(F("C20.all_equal", where="exponent with decimals", node=x, alpha=a, got=val))
        elif not check_same(conf, confw):
            fails.append(F("C20.repeat_call", first=conf, second=confw))
        # time-varying labels and hierarchies (model: ConformityH.lean; theorems C20H_result, C20H_errors)
        if pr["psize"] > len(pr["labels"]) or not pr["alphas"]:
            if confh != "E:VE":
                fails.append(F("C20.profile_arguments", where="hierarchies", expected="E:VE", got=confh))
        elif oracles.is_err(confh):
            if confh != "E:KeyError":
                fails.append(F("C20.hier_raised", got=confh))
        elif confh is None:
            fails.append(F("C20.none_iff_empty", where="hierarchies", got=confh))
        else:
            for a, prof in confh.items():
                for p, sc in prof.items():
                    if [x for x, _ in sc] != present:
                        fails.append(F("C20.nodes", where="hierarchies", profile=p, start=s, expected=present, got=[x for x, _ in sc]))
                    for x, val in sc:
                        v = oracles_num(val)
                        if not (-1 - 1e-9 <= v <= 1 + 1e-9):
                            fails.append(F("C20.bound", where="hierarchies", node=x, alpha=a, profile=p, got=val))
                        if case["equal"] and not pr["hier"]["holes"] and not approx(v, 1.0 if x in reach else 0.0):
                            fails.append(F("C20.all_equal", where="hierarchies", node=x, alpha=a, profile=p, got=val))
        # renaming invariance
        if oracles.is_err(conf2) or conf2 is None:
            fails.append(F("C20.relabel", got=conf2))
        else:
            nm = case["nmap"]
            for a, prof in conf.items():
                for p, sc in prof.items():
                    other = dict((x, val) for x, val in conf2.get(a, {}).get(p, []))
                    for x, val in sc:
                        if nm[x] not in other or not approx(oracles_num(val), oracles_num(other[nm[x]])):
                            fails.append(F("C20.relabel", node=x, alpha=a, got=[val, other.get(nm[x])]))
        # sliding
        ids = dump0["ids"]
        if oracles.is_err(sconf):
            fails.append(F("C20.sliding_raised", got=sconf))
        elif ids:
            exp = {}
            for t, c in zip(case["_ts"], per_t):
                if t in ids and t + d < ids[-1] and c is not None and not oracles.is_err(c):
                    for a, prof in c.items():
                        for p, sc in prof.items():
                            for x, val in sc:
                                exp.setdefault((a, p, x), []).append([t + d, oracles_num(val)])
            got = {}
            for a, prof in sconf.items():
                for p, sc in prof.items():
                    for x, seq in sc:
                        got[(a, p, x)] = [[t, oracles_num(v)] for t, v in seq]
            if set(got) != set(exp) or any(len(got[k]) != len(exp[k]) or any(g[0] != e[0] or not approx(g[1], e[1]) for g, e in zip(got[k], exp[k])) for k in exp):
                fails.append(F("C20.sliding", delta=d, expected=sorted([list(k), v] for k, v in exp.items())[:4], got=sorted([list(k), v] for k, v in got.items())[:4]))
        # sliding with profiles, time-varying labels and hierarchies (model: slidingDeltaConformityH, theorem C20H_sliding)
        if ids and not (pr["psize"] > len(pr["labels"]) or not pr["alphas"]):
            visited = [(t, c) for t, c in zip(case["_ts"], per_th) if t in ids and t + d < ids[-1]]
            if any(oracles.is_err(c) for _, c in visited):
                if not oracles.is_err(sconfh):
                    fails.append(F("C20.sliding_swallows_exception", where="hierarchies", per_t=[c for _, c in visited if oracles.is_err(c)][:2]))
            elif oracles.is_err(sconfh):
                fails.append(F("C20.sliding_raised", where="hierarchies", got=sconfh))
            else:
                exp = {}
                for t, c in visited:
                    if c is not None:
                        for a, prof in c.items():
                            for p, sc in prof.items():
                                for x, val in sc:
                                    exp.setdefault((a, p, x), []).append([t + d, oracles_num(val)])
                got = {}
                for a, prof in sconfh.items():
                    for p, sc in prof.items():
                        for x, seq in sc:
                            got[(a, p, x)] = [[t, oracles_num(v)] for t, v in seq]
                if set(got) != set(exp) or any(len(got[k]) != len(exp[k]) or any(g[0] != e[0] or not approx(g[1], e[1]) for g, e in zip(got[k], exp[k])) for k in exp):
                    fails.append(F("C20.sliding", where="hierarchies", delta=d, expected=sorted([list(k), v] for k, v in exp.items())[:4],
                                   got=sorted([list(k), v] for k, v in got.items())[:4]))
        return fails

    @staticmethod
    def model_skip(line):
        """the model computes exact rationals for natural exponents only; fractional exponents are
        covered by the oracle on the implementation (and by the real-valued bound theorem)"""
        w = line.split()
        if w[0] == "conf":
            return any(int(a) % 100 for a in w[6:])
        if w[0] == "sconf":
            return any(int(a) % 100 for a in w[5:])
        return False

    @staticmethod
    def nontrivial(case, outs):
        return any(isinstance(o, dict) and any(isinstance(v, dict) and "a" in v and len(v["a"]) >= 2 for v in o.values()) for o in outs)


def oracles_num(x):
    return num(x)
