#!/venv/bin/python
"""seedtest.py <mutation dir with patch.diff, demo.py, meta.json> [--props C01,C05] [--tier quick] [--keep-as NAME]
Confirms a seeded change in a scratch worktree (suite green, demo fails with / passes without it), then applies it to
/repo, runs the named checks, and always restores /repo."""
import sys, os, subprocess, json, shutil, argparse, tempfile
ap = argparse.ArgumentParser()
ap.add_argument("dir"); ap.add_argument("--props"); ap.add_argument("--tier", default="quick"); ap.add_argument("--keep-as")
a = ap.parse_args()
d = os.path.abspath(a.dir)
patch = os.path.join(d, "patch.diff")
meta = json.load(open(os.path.join(d, "meta.json")))
props = (a.props or meta["property"]).split(",")
res = {"confirmed": {}, "checks": {}}


def sh(cmd, **kw):
    p = subprocess.run(cmd, shell=True, capture_output=True, text=True, **kw)
    return p.returncode, (p.stdout + p.stderr)


wt = tempfile.mkdtemp(prefix="dxseed")
os.rmdir(wt)
try:
    rc, out = sh("git -C /repo worktree add -q --detach %s HEAD" % wt)
    assert rc == 0, out
    env = "cd %s && PYTHONPATH=%s " % (wt, wt)
    rc0, _ = sh(env + "/venv/bin/python %s/demo.py" % d)
    rc, out = sh("git -C %s apply %s" % (wt, patch))
    res["confirmed"]["applies"] = rc == 0
    rct, outt = sh(env + "/venv/bin/python -m pytest -q -p no:cacheprovider dynetx/test 2>&1 | tail -3")
    res["confirmed"]["suite"] = outt.strip().split("\n")[-1]
    rc1, out1 = sh(env + "/venv/bin/python %s/demo.py" % d)
    res["confirmed"]["demo_without"] = rc0
    res["confirmed"]["demo_with"] = rc1
finally:
    sh("git -C /repo worktree remove --force %s" % wt)
ok = res["confirmed"].get("applies") and rc0 == 0 and rc1 != 0 and " passed" in res["confirmed"]["suite"] and "failed" not in res["confirmed"]["suite"]
res["confirmed"]["ok"] = bool(ok)
if ok:
    rc, out = sh("git -C /repo status --porcelain")
    assert out.strip() == "", "repo not clean: " + out
    try:
        rc, out = sh("git -C /repo apply %s" % patch)
        assert rc == 0, out
        for p in props:
            rc, out = sh("cd /verif && ./check.sh %s %s 2>&1 | grep -v conda" % (p, a.tier))
            lines = [l for l in out.split("\n") if l.startswith("VIOLATION") or l.startswith("  clause") or l.startswith("failing input") or "INTERNAL" in l]
            vio = [l for l in out.split("\n") if l.startswith("VIOLATION")]
            res["checks"][p] = {"detected": bool(vio), "lines": [l[:400] for l in lines[:6]], "tail": out.strip().split("\n")[-1][:300]}
    finally:
        sh("git -C /repo checkout -- .")
        rc, out = sh("git -C /repo status --porcelain")
        assert out.strip() == "", out
print(json.dumps(res, indent=1))
if a.keep_as and ok:
    dst = os.path.join("/verif/seeded", a.keep_as)
    os.makedirs(dst, exist_ok=True)
    for f in ("patch.diff", "demo.py"):
        shutil.copy(os.path.join(d, f), os.path.join(dst, f))
    meta["confirmed"] = res["confirmed"]
    meta["detected_by"] = {p: r["detected"] for p, r in res["checks"].items()}
    meta["check_output"] = res["checks"]
    json.dump(meta, open(os.path.join(dst, "meta.json"), "w"), indent=1)
