"""C09 snapshot files, C10 interaction files, C11 node-link JSON, C18 reader noise + compaction."""
import gen, oracles
from oracles import F, pres_map
from spec import key, runs
from props_core import hist_case
from props_derive import histories, wf_lines, wf_judge


def io_histories(tier, rng, n):
    for j, c in enumerate(histories(tier, rng, n)):
        if c["ids"] == "mix":
            c["ids"] = "str"
        elif c["ids"] == "int" and j % 5 == 2:
            c["ids"] = "dstr"      # digit strings: the same tokens as integer ids, another node type
        yield c


def name_table_line(case, kind, src, dst, d):
    """`textrtn`: the text layer for string node ids; the line carries str(node) for every node of the case
    (model: DynetxModel/TextNames.lean, theorems C09_textN_roundtrip / C10_textN_roundtrip)"""
    import impl
    codes = sorted(gen.nodes_of(case["ops"]))
    tab = []
    for c in codes:
        nm = str(impl.mk_id(c, case["ids"]))
        tab.append("%d %d %s" % (c, len(nm), " ".join(str(ord(ch)) for ch in nm)))
    return ("textrtn %d %d %d %d %d %s" % (kind, src, dst, d, len(codes), " ".join(tab))).rstrip()


def file_only_cases(rng):
    """graphs whose string node ids contain characters that str.splitlines() / a default str.split() would cut at
    (U+2028, U+0085, FS/GS/RS, CR, VT, FF): with an explicit delimiter they are ordinary characters of a field"""
    for d in (0, 1):
        for j in range(6):
            ops = gen.random_history(rng, n_ops=rng.choice([3, 5, 8]), n_nodes=rng.choice([3, 5, 8]), p_reject=0.0, p_none=0.0, p_empty=0.0,
                                     p_bulk=0.0, p_node=0.0, p_clear=0.0)
            c = hist_case(d, True, ops, ids="sepstr", src="corpus-separators")
            c["fileonly"] = True
            yield c
    # float ids (0.1 + 0.2, 1/3, 1e-7, 1e22): every digit of their shortest round-trip representation matters
    for d in (0, 1):
        for j in range(3):
            ops = gen.random_history(rng, n_ops=rng.choice([3, 5, 8]), n_nodes=rng.choice([3, 5, 8]), p_reject=0.0, p_none=0.0, p_empty=0.0,
                                     p_bulk=0.0, p_node=0.0, p_clear=0.0)
            c = hist_case(d, True, ops, ids="flt", src="corpus-float-ids")
            c["fileonly"] = True
            yield c
    # hashtag-like ids ('#a', 'c#', '#'): written as they are and read back with another comment marker
    for d in (0, 1):
        for j in range(4):
            ops = gen.random_history(rng, n_ops=rng.choice([3, 5, 8]), n_nodes=rng.choice([3, 5, 8]), p_reject=0.0, p_none=0.0, p_empty=0.0,
                                     p_bulk=0.0, p_node=0.0, p_clear=0.0)
            c = hist_case(d, True, ops, ids="hstr", src="corpus-hash-ids")
            c["fileonly"] = True
            c["comments"] = 37
            yield c


def file_only_judge(pid, case, directed, outs):
    presG, frt, pres2, dump2 = outs
    if oracles.is_err(presG):
        return []
    if not isinstance(frt, dict) or oracles.is_err(pres2):
        return [F(pid + ".raised", where="file (ids with separator-like characters)", io=case["io"], got=[frt if not isinstance(frt, dict) else None, pres2 if oracles.is_err(pres2) else None])]
    P, Q = pres_keys(directed, presG), pres_keys(directed, pres2)
    if pid == "C10":
        # the unclosed two-instant run (D5) loses its second instant on any round trip
        return [] if all(Q.get(k, set()) <= P.get(k, set()) for k in Q) and set(Q) == set(P) else [F(pid + ".roundtrip_presence", where="file (separator ids)", io=case["io"])]
    if P != Q:
        bad = sorted(k for k in set(P) | set(Q) if P.get(k) != Q.get(k))[:3]
        return [F(pid + ".roundtrip", where="file (ids with separator-like characters)", io=case["io"],
                  pairs=[[list(k), sorted(P.get(k, [])), sorted(Q.get(k, []))] for k in bad])]
    return []


def pres_keys(directed, pres):
    P = {}
    for (u, v), (_, ts) in pres_map(pres).items():
        if ts:
            P.setdefault(key(directed, u, v), set()).update(ts)
    return P


class C09:
    id = "C09"
    chunk = 60
    pollute_rate = 0.1

    @staticmethod
    def cases(tier, rng):
        n = 1200 if tier == "quick" else 15000
        k = 0
        long_cases = [hist_case(d, True, [["add", 1, 2, 0, 1100 + 37 * d], ["add", 2, 3, 5, None], ["add", 2, 1, 1200, 1230]], src="corpus-long") for d in (0, 1)]
        long_cases.append(hist_case(1, True, [["add", 1, 2, 0, 9100], ["add", 2, 1, 40, 45]], src="corpus-long"))
        import itertools as _it
        for c in _it.chain(long_cases, file_only_cases(rng), io_histories(tier, rng, n)):
            c["io"] = [k % 4, (k // 4) % 12, (k // 48) % 4]   # target, delimiter, encoding: all 192 combinations cycle
            if c["io"][2] == 1 and c.get("ids") in ("str", "jstr") and set(gen.nodes_of(c["ops"])) & {4, 5, 6}:
                c["io"][2] = 0                              # labels outside latin-1 are written in utf-8 (the encoding must fit the text)
            if c.get("fileonly"):
                c["io"] = [k % 4, 1 + k % 3, 0]             # explicit non-blank delimiter, utf-8
            k += 1
            # a four-column file: the same spans written as rows u v t e
            rows = []
            for op in c["ops"]:
                if op[0] == "add" and op[3] is not None and (op[4] is None or op[4] > op[3]):
                    rows.append([op[1], op[2], op[3]] + ([] if op[4] is None else [op[4]]))
            c["rows4"] = rows
            yield c

    @staticmethod
    def lines(case):
        L = [gen.header(0, case["cls"], 1)]
        lo, hi = gen.window(case["ops"], 2)
        L += [gen.op_line(0, op) for op in case["ops"]]
        if case.get("fileonly"):
            t, d, e = case["io"]
            return L + ["pres 0 %d %d" % (lo, hi), ("filert 0 0 2 %d %d %d %s" % (t, d, e, case.get("comments", ""))).rstrip(), "pres 2 %d %d" % (lo, hi), "dump 2"]
        L += ["pres 0 %d %d" % (lo, hi), "wsnap 0", "snaprt 0 1", "pres 1 %d %d" % (lo, hi)]
        t, d, e = case["io"]
        L += ["filert 0 0 2 %d %d %d" % (t, d, e), "pres 2 %d %d" % (lo, hi), "dump 2"]
        rows = case["rows4"]
        flat = " ".join("%d %s" % (len(r), " ".join(map(str, r))) for r in rows)
        L += [("rsnap 3 %d %d %s" % (case["cls"], len(rows), flat)).rstrip(), "pres 3 %d %d" % (lo, hi)]
        if case.get("ids", "int") == "int":
            # the exact text (model: DynetxModel/Text.lean) and the graph parsed back from it; correspondence only
            L += ["textrt 0 0 4 %d" % (d % 4), "dump 4"]
        elif case.get("ids") in ("str", "dstr"):
            L += [name_table_line(case, 0, 0, 4, d % 4), "dump 4"]
        return L

    @staticmethod
    def judge(case, outs):
        n = len(case["ops"])
        oc = outs[1:1 + n]
        if any(o not in ("ok", "E:VE", "E:NXE") for o in oc):
            return []
        directed = bool(case["cls"])
        i = 1 + n
        if case.get("fileonly"):
            return file_only_judge("C09", case, directed, outs[i:i + 4])
        presG, rows, rt, pres1, frt, pres2, dump2, r4, pres3 = outs[i:i + 9]
        fails = []
        P = pres_keys(directed, presG)
        exp_rows = sorted([k[0], k[1], x] for k, ts in P.items() for x in ts)
        if oracles.is_err(rows):
            return [F("C09.raised", where="generate_snapshots", got=rows)]

        def canon_rows(rs):
            return sorted([list(key(directed, r[0], r[1])) + [r[2]] for r in rs])
        if canon_rows(rows) != exp_rows:
            fails.append(F("C09.rows", expected=exp_rows[:12], got=canon_rows(rows)[:12]))
        if directed and sorted(rows) != exp_rows:
            fails.append(F("C09.orientation", expected=exp_rows[:12], got=sorted(rows)[:12]))
        for nm, ok, p in (("parse(generate)", rt, pres1), ("file", "ok" if isinstance(frt, dict) else frt, pres2)):
            if ok != "ok" or oracles.is_err(p):
                fails.append(F("C09.raised", where=nm, io=case["io"], got=[ok, p if oracles.is_err(p) else None])); continue
            Q = pres_keys(directed, p)
            if Q != P:
                bad = sorted(k for k in set(P) | set(Q) if P.get(k) != Q.get(k))[:3]
                fails.append(F("C09.roundtrip", where=nm, io=case["io"], pairs=[[list(k), sorted(P.get(k, [])), sorted(Q.get(k, []))] for k in bad]))
        if isinstance(frt, dict):
            if frt["rows"] != exp_rows:
                fails.append(F("C09.file_rows", io=case["io"], expected=exp_rows[:12], got=frt["rows"][:12]))
            if isinstance(dump2, dict) and dump2["cls"] != case["cls"]:
                fails.append(F("C09.class", got=dump2["cls"]))
        # four-column rows: only meaningful when the history itself was accepted in full
        if all(o == "ok" for o in oc) and all(op[0] == "add" for op in case["ops"]) and len(case["rows4"]) == n:
            if r4 != "ok" or oracles.is_err(pres3):
                fails.append(F("C09.raised", where="4-column rows", got=[r4, pres3 if oracles.is_err(pres3) else None]))
            elif pres_keys(directed, pres3) != P:
                Q = pres_keys(directed, pres3)
                bad = sorted(k for k in set(P) | set(Q) if P.get(k) != Q.get(k))[:3]
                fails.append(F("C09.four_columns", pairs=[[list(k), sorted(P.get(k, [])), sorted(Q.get(k, []))] for k in bad]))
        return fails

    @staticmethod
    def nontrivial(case, outs):
        r = outs[2 + len(case["ops"])]
        return isinstance(r, list) and len(r) >= 3


def replay_log(directed, rows):
    """spec of C10: '+' = appears at t; '-' at t = present from the latest appearance through t-1"""
    P, latest = {}, {}
    for (u, v, op, t) in rows:
        k = key(directed, u, v)
        if op == 1:
            P.setdefault(k, set()).add(t)
            latest[k] = t
        else:
            P.setdefault(k, set()).update(range(latest[k], t))
    return {k: s for k, s in P.items() if s}


def random_log(rng, directed):
    nodes = list(range(1, rng.choice([2, 3, 4]) + 1))
    t = rng.randint(0, 3)
    rows, latest, open_ = [], {}, set()
    for _ in range(rng.choice([1, 2, 3, 4, 6, 8, 12])):
        t += rng.choice([0, 0, 1, 1, 2, 3])
        u, v = rng.choice(nodes), rng.choice(nodes)
        k = key(directed, u, v)
        if k in latest and latest[k] < t and rng.random() < 0.5:
            rows.append([u, v, 0, t]); open_.discard(k)
            if rng.random() < 0.2:
                rows.append([v, u, 0, t] if not directed and rng.random() < 0.5 else [u, v, 0, t])   # a redundant second '-'
            if rng.random() < 0.7:
                latest.pop(k)      # usually do not emit a second '-' for the same appearance
        elif k not in latest or latest[k] < t:
            rows.append([u, v, 1, t]); latest[k] = t
    return rows


class C10:
    id = "C10"
    chunk = 60
    pollute_rate = 0.1

    @staticmethod
    def cases(tier, rng):
        n = 1200 if tier == "quick" else 15000
        k = 0
        # streams longer than any plausible write buffer (1024 / 4096 rows): a ring of pairs, each with a closed run
        # (few nodes, many runs per pair: the presence dump is quadratic in the number of nodes)
        prs = [(1, 2), (2, 3), (3, 1)]
        long_cases = [hist_case(d, True, [["add", prs[k % 3][0], prs[k % 3][1], 4 * (k // 3), 4 * (k // 3) + 2 + (k % 2)] for k in range(m)], src="corpus-long")
                      for d, m in ((0, 620), (1, 2200), (0, 4300))]      # the last one is a file of more than 2**16 characters
        import itertools as _it
        for c in _it.chain(long_cases, file_only_cases(rng), io_histories(tier, rng, n)):
            c["io"] = [k % 4, (k // 4) % 12, (k // 48) % 4]   # target, delimiter, encoding: all 192 combinations cycle
            if c["io"][2] == 1 and c.get("ids") in ("str", "jstr") and set(gen.nodes_of(c["ops"])) & {4, 5, 6}:
                c["io"][2] = 0                              # labels outside latin-1 are written in utf-8
            if c.get("fileonly"):
                c["io"] = [k % 4, 1 + k % 3, 0]
            c["log"] = random_log(rng, bool(c["cls"]))
            k += 1
            yield c

    @staticmethod
    def lines(case):
        L = [gen.header(0, case["cls"], 1)]
        lo, hi = gen.window(case["ops"], 3)
        L += [gen.op_line(0, op) for op in case["ops"]]
        if case.get("fileonly"):
            t, d, e = case["io"]
            return L + ["pres 0 %d %d" % (lo, hi), ("filert 1 0 2 %d %d %d %s" % (t, d, e, case.get("comments", ""))).rstrip(), "pres 2 %d %d" % (lo, hi), "dump 2"]
        L += ["pres 0 %d %d" % (lo, hi), "dump 0", "wint 0", "intrt 0 1", "pres 1 %d %d" % (lo, hi), "dump 1"]
        t, d, e = case["io"]
        L += ["filert 1 0 2 %d %d %d" % (t, d, e), "pres 2 %d %d" % (lo, hi), "dump 2"]
        log = case["log"]
        L += [("rint 3 %d %d %s" % (case["cls"], len(log), " ".join(" ".join(map(str, r)) for r in log))).rstrip(),
              "pres 3 -2 60", "dump 3"]
        if case.get("ids", "int") == "int":
            L += ["textrt 1 0 4 %d" % (d % 4), "dump 4"]
        elif case.get("ids") in ("str", "dstr"):
            L += [name_table_line(case, 1, 0, 4, d % 4), "dump 4"]
        return L

    @staticmethod
    def judge(case, outs):
        n = len(case["ops"])
        oc = outs[1:1 + n]
        if any(o not in ("ok", "E:VE", "E:NXE") for o in oc):
            return []
        directed = bool(case["cls"])
        i = 1 + n
        if case.get("fileonly"):
            return file_only_judge("C10", case, directed, outs[i:i + 4])
        presG, dumpG, w, rt, pres1, dump1, frt, pres2, dump2, rl, pres3, dump3 = outs[i:i + 12]
        fails = []
        if oracles.is_err(w):
            return [F("C10.raised", where="generate_interactions", got=w)]
        if w["rows"] != dumpG["ev"]:
            fails.append(F("C10.rows", stream=dumpG["ev"], written=w["rows"]))
        if not w["chrono"]:
            fails.append(F("C10.rows_order"))
        P = pres_keys(directed, presG)
        for nm, ok, p, d in (("parse(generate)", rt, pres1, dump1), ("file", "ok" if isinstance(frt, dict) else frt, pres2, dump2)):
            if ok != "ok" or oracles.is_err(p) or oracles.is_err(d):
                fails.append(F("C10.raised", where=nm, io=case["io"], got=[ok, p if oracles.is_err(p) else None])); continue
            Q = pres_keys(directed, p)
            if Q != P:
                bad = sorted(k for k in set(P) | set(Q) if P.get(k) != Q.get(k))[:3]
                fails.append(F("C10.roundtrip_presence", where=nm, io=case["io"], pairs=[[list(k), sorted(P.get(k, [])), sorted(Q.get(k, []))] for k in bad]))
            if d["ev"] != dumpG["ev"]:
                fails.append(F("C10.roundtrip_stream", where=nm, expected=dumpG["ev"], got=d["ev"]))
        if isinstance(frt, dict):
            if frt["rows"] != dumpG["ev"]:
                fails.append(F("C10.file_rows", io=case["io"], expected=dumpG["ev"], got=frt["rows"]))
            if not frt["chrono"]:
                fails.append(F("C10.file_order", io=case["io"]))
        # arbitrary well-formed log
        if rl != "ok" or oracles.is_err(pres3):
            fails.append(F("C10.raised", where="well-formed log", log=case["log"], got=[rl, pres3 if oracles.is_err(pres3) else None]))
        else:
            exp = replay_log(directed, case["log"])
            got = pres_keys(directed, pres3)
            if exp != got:
                bad = sorted(k for k in set(exp) | set(got) if exp.get(k) != got.get(k))[:3]
                fails.append(F("C10.log_replay", log=case["log"], pairs=[[list(k), sorted(exp.get(k, [])), sorted(got.get(k, []))] for k in bad]))
        return fails

    @staticmethod
    def nontrivial(case, outs):
        w = outs[3 + len(case["ops"])]
        return isinstance(w, dict) and len(w["rows"]) >= 2


class C11:
    id = "C11"
    chunk = 60
    pollute_rate = 0.1

    @staticmethod
    def cases(tier, rng):
        n = 1500 if tier == "quick" else 20000
        for j, c in enumerate(io_histories(tier, rng, n)):
            if j % 3 == 0:
                c["ids"] = "jstr"
            elif j % 7 == 1:
                c["ids"] = "jmix"
            c["gattr"] = rng.choice([0, 0, 3, 7])
            c["dflt"] = rng.choice([0, 1])
            c["idattr"] = (j % 40 == 5)       # a node attribute named like the id key (known finding D27)
            # node RECORDS with named attributes (model: DynetxModel/NodeLinkAttrs.lean): 12 attribute names, the id key
            # is one of them; a clash (an attribute named like the id key) only in every 40th case (D27)
            idk = rng.choice([0, 0, 0, 1, 2, 7, 5, 6])
            clash = (j % 40 == 7)
            names = [k for k in range(12) if k != idk]
            nodes = []
            for n in rng.sample(range(0, 9), rng.choice([1, 2, 3, 4])):
                ks = rng.sample(names, rng.choice([0, 1, 2, 3]))
                if clash and not any(idk in [k for k, _ in a] for _, a in nodes):
                    ks.insert(rng.randrange(len(ks) + 1), idk)
                nodes.append((n, [(k, rng.randrange(10)) for k in ks]))
            c["recs"] = [idk, nodes]
            recs = []
            for _ in range(rng.choice([1, 2, 3, 4])):
                ks = rng.sample(range(12), rng.choice([0, 1, 2, 3]))
                r = [(k, 1 if k == idk and rng.random() < 0.8 else 0, rng.randrange(5)) for k in ks]
                if rng.random() < 0.6 and idk not in ks:
                    r.insert(rng.randrange(len(r) + 1), (idk, 1, rng.randrange(5)))
                recs.append(r)
            c["imp"] = [idk, recs]
            yield c

    @staticmethod
    def lines(case):
        L = [gen.header(0, case["cls"], 1)]
        lo, hi = gen.window(case["ops"], 2)
        L += [gen.op_line(0, op) for op in case["ops"]]
        if case["gattr"]:
            L.append("gattr 0 %d" % case["gattr"])
        L += ["dump 0", "pres 0 %d %d" % (lo, hi), "nld 0", "nlrt 0 1 %d 1" % case["dflt"], "dump 1", "pres 1 %d %d" % (lo, hi),
              "nlrt 0 2 %d 0" % case["dflt"], "dump 2", "nlrt2 0 3", "dump 3", "pres 3 %d %d" % (lo, hi), "dump 0"]
        if case.get("idattr"):
            L.append("nlidattr 0")
        if case.get("recs"):
            idk, nodes = case["recs"]
            L.append(("nlrecs %d %d " % (idk, len(nodes)) + " ".join("%d %d %s" % (n, len(a), " ".join("%d %d" % kv for kv in a)) for n, a in nodes)).rstrip().replace("  ", " "))
            idk, recs = case["imp"]
            L.append(("nlimp %d %d " % (idk, len(recs)) + " ".join("%d %s" % (len(r), " ".join("%d %d %d" % e for e in r)) for r in recs)).rstrip().replace("  ", " "))
        return L

    @staticmethod
    def model_skip(line):
        # attribute NAMES are outside the model (attributes are opaque tokens there)
        return line.startswith("nlidattr")

    @staticmethod
    def judge(case, outs):
        n = len(case["ops"])
        if any(o not in ("ok", "E:VE", "E:NXE") for o in outs[1:1 + n]):
            return []
        directed = bool(case["cls"])
        i = 1 + n + (1 if case["gattr"] else 0)
        dumpG, presG, nld, r1, dump1, pres1, r2, dump2, r3, dump3, pres3, dumpG2 = outs[i:i + 12]
        fails = []
        if oracles.is_err(nld):
            return [F("C11.raised", where="node_link_data", got=nld)]
        P = pres_keys(directed, presG)
        exp_links = sorted([k[0], k[1], x] for k, ts in P.items() for x in ts)
        if nld["links"] != exp_links:
            fails.append(F("C11.links", expected=exp_links[:12], got=nld["links"][:12]))
        if nld["directed"] != case["cls"]:
            fails.append(F("C11.directed_flag", got=nld["directed"]))
        if nld["nodes"] != dumpG["nodes"]:
            fails.append(F("C11.nodes", expected=dumpG["nodes"], got=nld["nodes"]))
        if nld["g"] != dumpG["g"] or not nld["json"]:
            fails.append(F("C11.graph_attrs_or_json", got=[nld["g"], nld["json"]]))
        for nm, ok, d, p in (("roundtrip", r1, dump1, pres1), ("custom id", r3, dump3, pres3)):
            if ok != "ok" or oracles.is_err(d) or oracles.is_err(p):
                fails.append(F("C11.raised", where=nm, got=[ok, d if oracles.is_err(d) else None])); continue
            if d["cls"] != case["cls"]:
                fails.append(F("C11.class", where=nm, got=d["cls"]))
            if d["nodes"] != dumpG["nodes"] or d["g"] != dumpG["g"]:
                fails.append(F("C11.nodes_attrs", where=nm, expected=[dumpG["nodes"], dumpG["g"]], got=[d["nodes"], d["g"]]))
            Q = pres_keys(directed, p)
            if Q != P:
                bad = sorted(k for k in set(P) | set(Q) if P.get(k) != Q.get(k))[:3]
                fails.append(F("C11.presence", where=nm, pairs=[[list(k), sorted(P.get(k, [])), sorted(Q.get(k, []))] for k in bad]))
        if r2 != "ok" or oracles.is_err(dump2):
            fails.append(F("C11.raised", where="no directed field", got=r2))
        elif dump2["cls"] != case["dflt"]:
            fails.append(F("C11.directed_default", expected=case["dflt"], got=dump2["cls"]))
        if dumpG2 != dumpG:
            fails.append(F("C11.source_changed"))
        if case.get("idattr") and outs[i + 12] != "ok":
            fails.append(F("C11.attribute_named_like_id_key", got=outs[i + 12]))
        if case.get("recs"):
            o = outs[i + 12 + (1 if case.get("idattr") else 0)]
            idk, nodes = case["recs"]
            want = [[1, n, [[k, 0, v] for k, v in a]] for n, a in nodes]
            kept = [[1, n, [[k, 0, v] for k, v in a if k != idk]] for n, a in nodes]
            if not isinstance(o, dict):
                fails.append(F("C11.node_records", got=o))
            else:
                # every node is listed with its id under the id key and with its attributes
                for (n, a), r in zip(nodes, o["recs"] + [None] * len(nodes)):
                    if r is None or [idk, 1, n] not in r or any([k, 0, v] not in r for k, v in a if k != idk):
                        fails.append(F("C11.node_records", where="data", node=n, attrs=a, got=r)); break
                if o["back"] != want:
                    if o["back"] == kept:
                        fails.append(F("C11.attribute_named_like_id_key", got="attribute-lost", where="records", id_key=idk))
                    else:
                        fails.append(F("C11.node_records", where="rebuilt", expected=want, got=o["back"]))
        return fails

    @staticmethod
    def nontrivial(case, outs):
        d = outs[1 + len(case["ops"]) + (1 if case["gattr"] else 0)]
        return isinstance(d, dict) and len(d["tl"]) >= 2


# --------------------------------------------------------------------------------------------- C18
def noisy_file(rng, kind, delim, directed=False):
    """returns (lines, clean_rows, expect_type_error).  kind 0: snapshot rows, 1: interaction rows."""
    sep = delim if delim is not None else " "
    lines, clean = [], []
    t = rng.randint(0, 3)
    last, latest = {}, {}
    bad = False
    for _ in range(rng.choice([1, 2, 3, 5, 8, 12])):
        r = rng.random()
        ws = rng.choice(["", " ", "  ", "\t"]) if delim != "\t" else rng.choice(["", " "])
        if r < 0.12:
            lines.append(rng.choice(["", " ", "\n", "   \n", "\t\n" if delim != "\t" else " \n"])); continue
        if r < 0.24:
            lines.append("#" + rng.choice(["", " comment", " 1 2 3", sep.join(["1", "2", "3", "4"])]) + "\n"); continue
        if r < 0.32:
            k = rng.choice([1, 2]) if kind == 0 else rng.choice([1, 2, 3, 5])
            lines.append(sep.join(str(rng.randint(1, 4)) for _ in range(k)) + "\n"); continue
        t += rng.choice([0, 1, 1, 2, 3])
        u, v = rng.randint(1, 4), rng.randint(1, 4)
        if kind == 0:
            f = [u, v, t]
            if rng.random() < 0.3:
                f.append(t + rng.randint(1, 3))
            extra = []
            if len(f) == 4 and rng.random() < 0.2:
                extra = ["9"]
            row = list(f)
            if (u, v) in last and last[(u, v)] > t:
                continue
            last[(u, v)] = t
            if not directed:
                last[(v, u)] = t
            txt = sep.join(map(str, f + extra))
        else:
            k = (u, v)
            if k in latest and latest[k] < t and rng.random() < 0.5:
                row = [u, v, 0, t]; latest.pop(k)
                if not directed:
                    latest.pop((v, u), None)
            elif k not in latest:
                row = [u, v, 1, t]; latest[k] = t
                if not directed:
                    latest[(v, u)] = t
            else:
                continue
            txt = sep.join([str(u), str(v), "+" if row[2] else "-", str(t)])
        if delim is not None and rng.random() < 0.03 and not bad:
            # an EMPTY field (two delimiters in a row) is a field like any other with an explicit delimiter: it cannot be converted
            parts = txt.split(sep)
            lines.append(sep.join([parts[0], ""] + parts[2:]) + "\n"); bad = True
            break
        if rng.random() < 0.04 and not bad:
            # a field that cannot be converted: everything up to here is parsed, then TypeError
            r3 = rng.random()
            parts = txt.split(sep)
            if kind == 0 and len(parts) >= 4 and r3 < 0.4:
                txt = sep.join(parts[:3] + ["w0.5"] + parts[4:])       # the vanishing time does not convert
            elif r3 < 0.7:
                txt = txt.replace(str(row[0]), "x%d" % row[0], 1)
            else:
                txt = sep.join(parts[:2] + (["z"] if kind == 0 else [parts[2], "z"]))
            lines.append(txt + "\n"); bad = True
            break
        if rng.random() < 0.25:
            # a blank delimiter between the last column and the marker is stripped with the rest of the trailing blanks;
            # any other delimiter there would be an (empty) extra column, so it is only generated for blank delimiters
            txt += rng.choice([" #", "#", " # trailing 5 6 7", "#" + sep + "1"] + ([sep + "# note", sep + "#"] if sep.isspace() else []))
        lines.append(ws + txt + (ws if rng.random() < 0.5 else "") + "\n")
        clean.append(row)
    return lines, clean, bad


class C18:
    id = "C18"
    chunk = 100
    pollute_rate = 0.1

    @staticmethod
    def cases(tier, rng):
        n = 3000 if tier == "quick" else 40000
        import itertools
        # compaction: all subsets of -3..6 (thorough) / -2..4 (quick)
        lo, hi = (-2, 4) if tier == "quick" else (-3, 6)
        dom = list(range(lo, hi + 1))
        for k in range(0, len(dom) + 1):
            for s in itertools.combinations(dom, k):
                s = list(s); rng.shuffle(s)
                yield {"kind": "compact", "ts": s, "src": "exh-compact"}
        for i in range(n // 10):
            s = rng.sample(range(-1000, 1000), rng.randint(0, 30))
            yield {"kind": "compact", "ts": s, "src": "rand-compact"}
        for i in range(n):
            kind = i % 2
            delim = rng.choice([None, None, ",", ";", "\t", " "])      # ' ' given explicitly is not the default: no merging of blanks
            cls = rng.choice([0, 1])
            lines, clean, bad = noisy_file(rng, kind, delim, bool(cls))
            yield {"kind": "noise", "rk": kind, "cls": cls, "delim": delim, "text": lines, "clean": clean, "bad": bad, "src": "rand-noise"}
            if i % 5 == 1 and delim in (None, ",", ";"):
                # the same file with a comment marker and a delimiter of several characters (model: TextMulti.lean, C18S_*)
                M, D = [("//", "::"), ("--", "::"), ("#!", "->"), ("%%", ", "), ("//", None), ("--", None), ("", "::"), ("//", "")][(i // 5) % 8]
                if delim is None:
                    D = None
                elif D is None:
                    D = "::"                  # a text written with a delimiter is read with one
                if M == "":
                    # an empty marker is found at position 0 of every line: nothing is read
                    c2, b2 = [], False
                elif D == "":
                    c2, b2 = None, False      # empty separator: ValueError at the first line that is split
                else:
                    c2, b2 = clean, bad
                t2 = [l.replace("#", M) if M else l for l in lines]
                if delim is not None and D is not None:
                    t2 = [l.replace(delim, D) for l in t2]
                yield {"kind": "noise", "rk": kind, "cls": cls, "delim": delim, "multi": [M, D], "text": t2, "clean": c2, "bad": b2,
                       "src": "rand-noise-multichar"}
        for i in range(n // 2):
            kind = i % 2
            cls = rng.choice([0, 1])
            lines, clean, bad = noisy_file(rng, kind, None, bool(cls))
            # timestamps spread out so that compaction matters
            m = {}
            for r in clean:
                for j in ([2, 3] if kind == 0 else [3]):
                    if j < len(r):
                        m.setdefault(r[j], None)
            spread = {t: t * 3 + 7 for t in m}
            rows = [[(spread[x] if (j >= 2 and not (kind == 1 and j == 2)) else x) for j, x in enumerate(r)] for r in clean]
            noise = []
            if rng.random() < 0.4:
                for _ in range(rng.randint(1, 3)):
                    noise.append([rng.randint(0, len(rows)), rng.choice([[], ["#", "1", "2", "99"], ["#"], ["1", "2"], ["1", "2", "1", "5", "77"], ["1", "2", "1", "55", "7", "8"]] if kind == 1 else
                                                                        [[], ["#", "1", "2", "99"], ["#"], ["1", "2"], ["7"]])])
            # the same instant spelled in several ways ("7", "07", "+7"): the ranks are those of the converted values
            respell = {}
            if rng.random() < 0.5:
                for t in set(spread.values()):
                    if rng.random() < 0.5:
                        respell[t] = rng.choice(["0%d" % t, "+%d" % t, "00%d" % t]) if t >= 0 else "-0%d" % -t
            # a timestamp that does not convert, in a row the parser accepts: TypeError (from read_ids or the parser)
            bad = None
            if rng.random() < 0.06:
                bad = [rng.randint(0, len(rows)), (["1", "2", "x7"] if kind == 0 else ["1", "2", "1", "x7"])]
            yield {"kind": "keys", "rk": kind, "cls": cls, "rows": rows, "noise": noise, "respell": respell, "badrow": bad, "src": "rand-keys"}

    @staticmethod
    def lines(case):
        if case["kind"] == "compact":
            return [("compact %d %s" % (len(case["ts"]), " ".join(map(str, case["ts"])))).rstrip()]
        if case["kind"] == "noise":
            enc = " ".join("%d %s" % (len(l), " ".join(str(ord(ch)) for ch in l)) for l in case["text"])
            enc = " ".join(enc.split())
            d = "-" if case["delim"] is None else str(ord(case["delim"]))
            L = [("ptxt %d 0 %d %s 35 %d %s" % (case["rk"], case["cls"], d, len(case["text"]), enc)).rstrip(), "dump 0"]
            if case.get("multi"):
                M, D = case["multi"]
                dd = "-" if D is None else ("%d %s" % (len(D), " ".join(str(ord(ch)) for ch in D))).rstrip()
                mm = ("%d %s" % (len(M), " ".join(str(ord(ch)) for ch in M))).rstrip()
                L = [("ptxts %d 0 %d %s %s %d %s" % (case["rk"], case["cls"], dd, mm, len(case["text"]), enc)).rstrip(), "dump 0"]
            rows = case["clean"] or []
            if case["rk"] == 0:
                flat = " ".join("%d %s" % (len(r), " ".join(map(str, r))) for r in rows)
                L.append(("rsnap 1 %d %d %s" % (case["cls"], len(rows), flat)).rstrip())
            else:
                L.append(("rint 1 %d %d %s" % (case["cls"], len(rows), " ".join(" ".join(map(str, r)) for r in rows))).rstrip())
            L.append("dump 1")
            return L
        rows = case["rows"]
        frows = [list(map(str, r)) for r in rows]
        rs = case.get("respell") or {}
        if rs:
            flip = 0
            for fr, r in zip(frows, rows):
                for j in ([2, 3] if case["rk"] == 0 else [3]):
                    if j < len(r) and r[j] in rs:
                        flip += 1
                        if flip % 2:            # every other occurrence, so that both spellings appear in one file
                            fr[j] = rs[r[j]]
        ins = list(case.get("noise", [])) + ([case["badrow"]] if case.get("badrow") else [])
        for pos, nr in sorted(ins, key=lambda x: -x[0]):
            frows.insert(pos, nr)
        flat = " ".join(("%d %s" % (len(r), " ".join(r))).rstrip() for r in frows)
        L = [("rkeys %d 0 %d %d %s" % (case["rk"], case["cls"], len(frows), flat)).rstrip(), "dump 0"]
        ts = sorted({r[j] for r in rows for j in ([2, 3] if case["rk"] == 0 else [3]) if j < len(r)})
        rank = {t: i for i, t in enumerate(ts)}
        rr = [[(rank[x] if (j >= 2 and not (case["rk"] == 1 and j == 2)) else x) for j, x in enumerate(r)] for r in rows]
        if case["rk"] == 0:
            flat = " ".join("%d %s" % (len(r), " ".join(map(str, r))) for r in rr)
            L.append(("rsnap 1 %d %d %s" % (case["cls"], len(rr), flat)).rstrip())
        else:
            L.append(("rint 1 %d %d %s" % (case["cls"], len(rr), " ".join(" ".join(map(str, r)) for r in rr))).rstrip())
        L.append("dump 1")
        return L

    @staticmethod
    def judge(case, outs):
        if case["kind"] == "compact":
            got = outs[0]
            ts = sorted(set(case["ts"]))
            exp = [[t, i] for i, t in enumerate(ts)]
            if len(set(case["ts"])) != len(case["ts"]):
                return []
            return [] if got == exp else [F("C18.compaction", input=case["ts"], expected=exp, got=got)]
        if case["kind"] == "noise":
            r, d0, r1, d1 = outs
            if case.get("multi") and case["clean"] is None:
                # an empty separator is rejected as soon as a line reaches the split (or nothing is split at all)
                return [] if r in ("E:VE", "ok") else [F("C18.empty_separator", text=case["text"], got=r)]
            if case["bad"]:
                return [] if r == "E:TypeError" else [F("C18.conversion", text=case["text"], expected="E:TypeError", got=r)]
            if r1 != "ok":
                return []       # the clean rows themselves are not an accepted history
            if r != "ok":
                return [F("C18.noise_raised", text=case["text"], delim=case["delim"], got=r)]
            return [] if d0 == d1 else [F("C18.noise", text=case["text"], delim=case["delim"], noisy=d0, clean=d1)]
        r, d0, r1, d1 = outs
        if case.get("badrow"):
            return [] if r == "E:TypeError" else [F("C18.keys_conversion", rows=case["rows"], bad=case["badrow"], expected="E:TypeError", got=r)]
        if r1 != "ok":
            return []
        if r != "ok":
            return [F("C18.keys_raised", rows=case["rows"], got=r)]
        return [] if d0 == d1 else [F("C18.keys", rows=case["rows"], with_keys=d0, ranked=d1)]

    @staticmethod
    def model_skip(line):
        return False

    @staticmethod
    def nontrivial(case, outs):
        if case["kind"] == "compact":
            return len(case["ts"]) >= 2
        return isinstance(outs[1], dict) and len(outs[1]["tl"]) >= 1
