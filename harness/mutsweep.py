#!/venv/bin/python
"""mutsweep.py --out DIR [--files f1,f2] [--max N] [--seed S] [--props-all]
Development tool (not a registered check): systematic small mutations of /repo's dynetx sources, each applied to a
scratch COPY of the repository (never /repo), filtered by the repository's own test suite, then run against the quick
checks of the properties anchored in the mutated function, inside a scratch COPY of /verif (so evidence files and
the generated API table of the real /verif are not touched).  A mutant that passes the suite and raises no
VIOLATION is a "survivor": either equivalent w.r.t. the properties or a gap of the generators; survivors are listed
for triage.  Nothing here decides a property."""
import argparse, ast, json, os, random, re, shutil, subprocess, sys, tempfile, time

HERE = os.path.dirname(os.path.abspath(__file__))
VERIF = os.path.dirname(HERE)
REPO = "/repo"

# function name (regex) -> properties whose checks exercise it
FUNC_PROPS = [
    (r"generate_snapshots|write_snapshots|read_snapshots|parse_snapshots", ["C09", "C18"]),
    (r"generate_interactions|write_interactions|read_interactions|parse_interactions", ["C10", "C18"]),
    (r"read_ids|compact_timeslot|_decoded_lines", ["C18", "C09", "C10"]),
    (r"node_link", ["C11"]),
    (r"temporal_dag", ["C15", "C12", "C13"]),
    (r"time_respecting_paths", ["C12", "C13", "C20"]),
    (r"annotate_paths|path_length|path_duration", ["C14", "C20"]),
    (r"conformity|__label_frequency|__normalize|__remap|__distance", ["C20"]),
    (r"to_directed|to_undirected", ["C16"]),
    (r"coverage|contribution|uniformity|pair_density|node_density|snapshot_density|node_presence|inter_.*event_time", ["C17"]),
    (r"time_slice", ["C06", "C20"]),
    (r"freeze|frozen|not_implemented|clear|update_node_attr|add_node|open_file|_open", ["C19", "C09"]),
    (r"stream_interactions", ["C05", "C08", "C10"]),
    (r"temporal_snapshots_ids|interactions_per_snapshots|avg_number_of_nodes", ["C04", "C08"]),
    (r"add_interaction$|__add_event|__drop_event|add_interactions_from|add_path|add_star|add_cycle", ["C01", "C03", "C04", "C05", "C07", "C08"]),
    (r"__presence_test|has_interaction", ["C01", "C02", "C08"]),
    (r"interactions_iter|interactions$|in_interactions|out_interactions|neighbors|successors|predecessors|degree|size|order|"
     r"number_of_nodes|number_of_interactions|has_node|nodes|get_node_snapshots|all_neighbors|non_neighbors|non_interactions|"
     r"density$|degree_histogram|is_empty|has_successor|has_predecessor", ["C02", "C08"]),
]
FILE_DEFAULT = {"dynetx/utils/decorators.py": ["C19", "C09", "C10"], "dynetx/classes/function.py": ["C02", "C19"],
                "dynetx/utils/transform.py": ["C18"], "dynetx/utils/misc.py": ["C09", "C10", "C11"]}

OPS = [
    (r"<=", "<"), (r"(?<![<>=!])<(?![=<])", "<="), (r">=", ">"), (r"(?<![<>=!-])>(?![=>])", ">="),
    (r"==", "!="), (r"!=", "=="), (r"\band\b", "or"), (r"\bor\b", "and"), (r"\bnot ", ""),
    (r" \+ 1\b", ""), (r" - 1\b", ""), (r" \+ 1\b", " + 2"), (r" - 1\b", " + 1"), (r"\b0\b", "1"), (r"\b1\b", "0"), (r"\b2\b", "1"),
    (r"\[0\]", "[1]"), (r"\[1\]", "[0]"), (r"\[-1\]", "[0]"), (r"\[0\]", "[-1]"),
    (r"\bmin\(", "max("), (r"\bmax\(", "min("), (r"\bsorted\(", "list("),
    (r"\(u, v\b", "(v, u"), (r"\bu, v\b", "v, u"), (r"\bis None\b", "is not None"), (r"\bis not None\b", "is None"),
    (r"\bTrue\b", "False"), (r"\bFalse\b", "True"), (r"\bcontinue\b", "break"), (r"\bt_from\b", "t_to"), (r"\b_succ\b", "_pred"), (r"\b_pred\b", "_succ"),
    (r"\.append\(", ".insert(0, "), (r" \+= ", " -= "), (r"\bstart\b", "end"), (r"\bin\b(?! range)", "not in"),
]


def func_ranges(src):
    """[(name, first body line, last line)] with docstring lines excluded"""
    tree = ast.parse(src)
    out = []
    for node in ast.walk(tree):
        if isinstance(node, (ast.FunctionDef, ast.AsyncFunctionDef)):
            body = node.body
            first = body[0]
            if isinstance(first, ast.Expr) and isinstance(getattr(first, "value", None), ast.Constant) and isinstance(first.value.value, str):
                body = body[1:]
            if not body:
                continue
            out.append((node.name, body[0].lineno, node.end_lineno))
    return out


def props_for(path, fname):
    for rx, props in FUNC_PROPS:
        if re.search(rx, fname):
            return props
    return FILE_DEFAULT.get(path, [])


def gen_mutants(files, rng):
    muts = []
    for path in files:
        src = open(os.path.join(REPO, path)).read()
        lines = src.split("\n")
        fr = func_ranges(src)
        for i, line in enumerate(lines, start=1):
            encl = [f for f in fr if f[1] <= i <= f[2]]
            if not encl:
                continue
            fname = sorted(encl, key=lambda f: f[2] - f[1])[0][0]
            code = line.split("#")[0]
            if not code.strip() or code.strip().startswith(("raise ", '"""', "'''", ">>>")):
                continue
            for rx, rep in OPS:
                for m in re.finditer(rx, code):
                    new = code[:m.start()] + rep + code[m.end():]
                    if new != code:
                        muts.append({"file": path, "line": i, "func": fname, "old": line.strip(), "new": new.strip(), "text": new})
            if re.match(r"\s+(self\.|del |[a-zA-Z_\[\]\.]+ = |[a-zA-Z_\.]+\()", code) and not code.strip().endswith(":"):
                ind = len(code) - len(code.lstrip())
                muts.append({"file": path, "line": i, "func": fname, "old": line.strip(), "new": "pass", "text": " " * ind + "pass"})
    rng.shuffle(muts)
    return muts


def sh(cmd, env=None, timeout=1800, cwd=None):
    try:
        p = subprocess.run(cmd, shell=True, capture_output=True, text=True, env=env, timeout=timeout, cwd=cwd)
        return p.returncode, p.stdout + p.stderr
    except subprocess.TimeoutExpired:
        return 124, "timeout"


def main():
    ap = argparse.ArgumentParser()
    ap.add_argument("--out", required=True); ap.add_argument("--files"); ap.add_argument("--max", type=int, default=100)
    ap.add_argument("--seed", type=int, default=0); ap.add_argument("--nproc", default="8")
    a = ap.parse_args()
    rng = random.Random(a.seed)
    files = a.files.split(",") if a.files else [
        "dynetx/classes/dyngraph.py", "dynetx/classes/dyndigraph.py", "dynetx/classes/function.py", "dynetx/algorithms/paths.py",
        "dynetx/algorithms/assortativity.py", "dynetx/readwrite/edgelist.py", "dynetx/readwrite/json_graph/node_link.py",
        "dynetx/utils/transform.py", "dynetx/utils/decorators.py"]
    os.makedirs(a.out, exist_ok=True)
    work = tempfile.mkdtemp(prefix="mutsweep")
    repo2 = os.path.join(work, "repo"); verif2 = os.path.join(work, "verif")
    try:
        shutil.copytree(REPO, repo2, ignore=shutil.ignore_patterns(".git", "__pycache__"))
        shutil.copytree(VERIF, verif2, ignore=shutil.ignore_patterns(".git", "__pycache__", "replays", "seeded", "harmless"))
        env = dict(os.environ, DYNETX_REPO=repo2, PYTHONPATH=repo2, PYTHONDONTWRITEBYTECODE="1", VERIF_NPROC=a.nproc)
        muts = gen_mutants(files, rng)[:a.max]
        log = open(os.path.join(a.out, "results.jsonl"), "a")
        for k, m in enumerate(muts):
            src_path = os.path.join(repo2, m["file"])
            orig = open(os.path.join(REPO, m["file"])).read()
            lines = orig.split("\n")
            lines[m["line"] - 1] = m["text"]
            open(src_path, "w").write("\n".join(lines))
            res = dict(m); res.pop("text")
            try:
                rc, out = sh("/venv/bin/python -m py_compile %s" % src_path, env=env)
                if rc != 0:
                    res["status"] = "does-not-compile"; continue
                rc, out = sh("cd %s && /venv/bin/python -m pytest -x -q -p no:cacheprovider dynetx/test 2>&1 | tail -2" % repo2, env=env, timeout=300)
                if " passed" not in out or "failed" in out or "error" in out.lower():
                    res["status"] = "killed-by-tests"; continue
                props = props_for(m["file"], m["func"])
                res["props"] = props
                det = {}
                t0 = time.time()
                for p in props:
                    rc, out = sh("./check.sh %s quick" % p, env=env, cwd=verif2, timeout=900)
                    vio = [l for l in out.split("\n") if l.startswith("VIOLATION")]
                    det[p] = "VIOLATION" if vio else ("rc=%d" % rc)
                    if vio:
                        break
                res["checks"] = det
                res["wall"] = round(time.time() - t0, 1)
                res["status"] = "detected" if any(v == "VIOLATION" for v in det.values()) else "SURVIVED"
            finally:
                open(src_path, "w").write(orig)
                log.write(json.dumps(res) + "\n"); log.flush()
                print(k, res.get("status"), m["file"], m["line"], m["func"], "|", m["old"][:60], "=>", m["new"][:60], flush=True)
    finally:
        shutil.rmtree(work, ignore_errors=True)


if __name__ == "__main__":
    main()
