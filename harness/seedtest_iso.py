#!/venv/bin/python
"""seedtest_iso.py <mutation dir> --keep-as NAME [--props C01,...]
Like seedtest.py, but never touches /repo's working tree: the change is confirmed (suite green, demo fails with /
passes without) and then checked in its own scratch worktree through harness/isolated.py, so several can run at once."""
import sys, os, subprocess, json, shutil, argparse, tempfile
ap = argparse.ArgumentParser()
ap.add_argument("dir"); ap.add_argument("--props"); ap.add_argument("--keep-as"); ap.add_argument("--nproc", default="6")
a = ap.parse_args()
d = os.path.abspath(a.dir)
meta = json.load(open(os.path.join(d, "meta.json")))
props = (a.props or meta["property"]).split(",")


def sh(cmd):
    p = subprocess.run(cmd, shell=True, capture_output=True, text=True)
    return p.returncode, p.stdout + p.stderr


wt = tempfile.mkdtemp(prefix="dxseed"); os.rmdir(wt)
res = {"confirmed": {}, "checks": {}}
try:
    rc, out = sh("git -C /repo worktree add -q --detach %s HEAD" % wt)
    assert rc == 0, out
    env = "cd %s && PYTHONPATH=%s " % (wt, wt)
    rc0, _ = sh(env + "/venv/bin/python %s/demo.py" % d)
    rc, out = sh("git -C %s apply %s/patch.diff" % (wt, d))
    res["confirmed"]["applies"] = rc == 0
    _, outt = sh(env + "/venv/bin/python -m pytest -q -p no:cacheprovider dynetx/test 2>&1 | tail -3")
    res["confirmed"]["suite"] = outt.strip().split("\n")[-1]
    rc1, _ = sh(env + "/venv/bin/python %s/demo.py" % d)
    res["confirmed"].update(demo_without=rc0, demo_with=rc1)
    ok = rc == 0 and rc0 == 0 and rc1 != 0 and " passed" in res["confirmed"]["suite"] and "failed" not in res["confirmed"]["suite"]
    res["confirmed"]["ok"] = bool(ok)
    if ok:
        rc, out = sh("/venv/bin/python /verif/harness/isolated.py %s --props %s --nproc %s --label x" % (wt, ",".join(props), a.nproc))
        for p in props:
            ls = [l for l in out.split("\n") if l.startswith("x %s " % p)]
            res["checks"][p] = {"detected": any(("violation=yes" in l) or ("VIOLATION" in l) or (" rc=1 " in l) for l in ls), "lines": [l[:500] for l in ls]}
finally:
    sh("git -C /repo worktree remove --force %s" % wt)
print(json.dumps(res, indent=1))
if a.keep_as and res["confirmed"].get("ok"):
    dst = os.path.join("/verif/seeded", a.keep_as)
    os.makedirs(dst, exist_ok=True)
    for f in ("patch.diff", "demo.py"):
        shutil.copy(os.path.join(d, f), os.path.join(dst, f))
    meta["confirmed"] = res["confirmed"]
    meta["detected_by"] = {p: r["detected"] for p, r in res["checks"].items()}
    meta["check_output"] = res["checks"]
    json.dump(meta, open(os.path.join(dst, "meta.json"), "w"), indent=1)
