#!/bin/bash
# usage: check.sh Cxx [quick|thorough]      (cwd = /verif)
cd "$(dirname "$0")"
exec /venv/bin/python harness/check.py "$1" --tier "${2:-${VERIF_TIER:-quick}}"
