import DynetxModel
import DynetxProofs.C20Hier
/-
  C20, clause "scores are invariant under renaming label values", for the full-featured model (time-varying labels and
  hierarchies): rename the values of every label by an injective map - in the node attributes (static values and the
  values inside the time-varying dictionaries) and in the keys of the label's hierarchy - and `delta_conformity`
  returns the same result: same scores, same `KeyError`s.
-/
namespace Dynetx

def LabelVal.mapVal (f : Nat → Nat) : LabelVal → LabelVal
  | .static v => .static (f v)
  | .dyn tab => .dyn (tab.map (fun e => (e.1, f e.2)))

def Hierarchy.mapKeys (f : Nat → Nat) (h : Hierarchy) : Hierarchy := h.map (fun e => (f e.1, e.2))

theorem at?_mapVal (f : Nat → Nat) (lv : LabelVal) (t : Int) : (lv.mapVal f).at? t = (lv.at? t).map f := by
  cases lv with
  | static v => rfl
  | dyn tab =>
    simp only [LabelVal.mapVal, LabelVal.at?]
    induction tab with
    | nil => rfl
    | cons e rest ih =>
      simp only [List.map_cons, List.find?_cons]
      by_cases h : e.1 == t
      · simp [h]
      · simp only [h]; exact ih

theorem beq_inj {f : Nat → Nat} (hf : Function.Injective f) (a b : Nat) : (f a == f b) = (a == b) := by
  by_cases h : a = b
  · subst h; simp
  · have : f a ≠ f b := fun h' => h (hf h')
    simp [h, this]

theorem find?_mapKeys {f : Nat → Nat} (hf : Function.Injective f) (h : Hierarchy) (v : Nat) :
    (Hierarchy.mapKeys f h).find? (fun e => e.1 == f v) = (h.find? (fun e => e.1 == v)).map (fun e => (f e.1, e.2)) := by
  unfold Hierarchy.mapKeys
  induction h with
  | nil => rfl
  | cons e rest ih =>
    simp only [List.map_cons, List.find?_cons, beq_inj hf]
    by_cases hc : e.1 == v
    · simp [hc]
    · simp only [hc]; exact ih

theorem distanceH_relabel {f : Nat → Nat} (hf : Function.Injective f) (h : Option Hierarchy) (a b : Nat) :
    distanceH (h.map (Hierarchy.mapKeys f)) (f a) (f b) = distanceH h a b := by
  cases h with
  | none => rfl
  | some tab =>
    simp only [Option.map_some, distanceH, find?_mapKeys hf]
    cases tab.find? (fun e => e.1 == a) <;> cases tab.find? (fun e => e.1 == b) <;>
      simp [Hierarchy.mapKeys]

theorem allOk_map_congr {α β γ : Type} (l : List α) (F : α → Except Err β) (G : α → Except Err γ) (p : β → γ)
    (h : ∀ x ∈ l, G x = match F x with | .ok y => .ok (p y) | .error e => .error e) :
    allOk (l.map G) = match allOk (l.map F) with | .ok r => .ok (r.map p) | .error e => .error e := by
  induction l with
  | nil => rfl
  | cons x xs ih =>
    have hx := h x (by simp)
    have ih' := ih (fun y hy => h y (by simp [hy]))
    simp only [List.map_cons]
    rw [hx]
    cases hF : F x with
    | error e => simp [allOk]
    | ok y =>
      simp only [allOk]
      rw [ih']
      cases allOk (xs.map F) with
      | error e => rfl
      | ok r => simp

theorem termH_relabel (g : Graph) (lab : Node → LabelVal) (h : Option Hierarchy) {f : Nat → Nat}
    (hf : Function.Injective f) (au : Nat) (td : List (Node × Nat)) (v : Node) :
    termH g (fun n => (lab n).mapVal f) (h.map (Hierarchy.mapKeys f)) (f au) td v = termH g lab h au td v := by
  unfold termH
  simp only [at?_mapVal]
  cases hav : (lab v).at? ((((td.find? (fun e => e.1 == v)).map (·.2)).getD 0 : Nat) : Int) with
  | none => rfl
  | some av =>
    simp only [Option.map_some, beq_inj hf, distanceH_relabel hf]
    cases hs : (if au == av then (Except.ok 1 : Except Err Rat) else distanceH h au av) with
    | error e => rfl
    | ok s =>
      simp only
      have hall := allOk_map_congr
        (g.neighbors v (some ((((td.find? (fun e => e.1 == v)).map (·.2)).getD 0 : Nat) : Int)))
        (fun x => valueOrKeyError ((lab x).at? ((((td.find? (fun e => e.1 == v)).map (·.2)).getD 0 : Nat) : Int)))
        (fun x => valueOrKeyError (((lab x).at? ((((td.find? (fun e => e.1 == v)).map (·.2)).getD 0 : Nat) : Int)).map f))
        f (by
          intro x _
          cases (lab x).at? ((((td.find? (fun e => e.1 == v)).map (·.2)).getD 0 : Nat) : Int) <;> rfl)
      rw [hall]
      cases allOk (List.map (fun x => valueOrKeyError ((lab x).at? ((((td.find? (fun e => e.1 == v)).map (·.2)).getD 0 : Nat) : Int)))
          (g.neighbors v (some ((((td.find? (fun e => e.1 == v)).map (·.2)).getD 0 : Nat) : Int)))) with
      | error e => rfl
      | ok axs =>
        simp only [List.filter_map, List.length_map, Function.comp_def, beq_inj hf]

theorem labelFrequencyH_relabel (g : Graph) (lab : Node → LabelVal) (h : Option Hierarchy) {f : Nat → Nat}
    (hf : Function.Injective f) (u : Node) (nodes : List Node) (td : List (Node × Nat)) (start : Int) :
    labelFrequencyH g (fun n => (lab n).mapVal f) (h.map (Hierarchy.mapKeys f)) u nodes td start
      = labelFrequencyH g lab h u nodes td start := by
  unfold labelFrequencyH
  simp only [at?_mapVal]
  cases (lab u).at? start with
  | none => rfl
  | some au =>
    have hfun : termH g (fun n => (lab n).mapVal f) (h.map (Hierarchy.mapKeys f)) (f au) td = termH g lab h au td :=
      funext (termH_relabel g lab h hf au td)
    simp only [Option.map_some, hfun]

/-- a renaming of the label values: one injective map per label -/
def relabelTab (f : Nat → Nat → Nat) (tab : LabelTableH) : LabelTableH := fun l n => (tab l n).mapVal (f l)
def relabelHier (f : Nat → Nat → Nat) (hier : Hierarchies) : Hierarchies := fun l => (hier l).map (Hierarchy.mapKeys (f l))

theorem profileFrequencyH_relabel (g : Graph) (tab : LabelTableH) (hier : Hierarchies) (f : Nat → Nat → Nat)
    (hf : ∀ l, Function.Injective (f l)) (profile : List Nat) (u : Node) (nodes : List Node) (td : List (Node × Nat))
    (start : Int) :
    profileFrequencyH g (relabelTab f tab) (relabelHier f hier) profile u nodes td start
      = profileFrequencyH g tab hier profile u nodes td start := by
  unfold profileFrequencyH
  congr 1
  funext s l
  cases s with
  | error e => rfl
  | ok s =>
    have := labelFrequencyH_relabel g (tab l) (hier l) (hf l) u nodes td start
    show (match labelFrequencyH g (fun n => (tab l n).mapVal (f l)) ((hier l).map (Hierarchy.mapKeys (f l))) u nodes td start with
      | .error e => (.error e : Except Err Rat) | .ok x => .ok (s * x)) = _
    rw [this]
    rfl

theorem nodeScoreH_relabel (g : Graph) (tab : LabelTableH) (hier : Hierarchies) (f : Nat → Nat → Nat)
    (hf : ∀ l, Function.Injective (f l)) (pr : List Nat) (sp : List ((Node × Node) × List TPath))
    (ptype alpha : Nat) (start : Int) (u : Node) :
    nodeScoreH g (relabelTab f tab) (relabelHier f hier) pr sp ptype alpha start u
      = nodeScoreH g tab hier pr sp ptype alpha start u := by
  unfold nodeScoreH
  simp only [profileFrequencyH_relabel g tab hier f hf]

/-- **C20 (renaming label values; time-varying labels and hierarchies).** -/
theorem C20H_relabel (dg : Graph) (tab : LabelTableH) (hier : Hierarchies) (f : Nat → Nat → Nat)
    (hf : ∀ l, Function.Injective (f l)) (start delta : Int) (alphas labels : List Nat) (profileSize ptype : Nat) :
    dg.deltaConformityH (relabelTab f tab) (relabelHier f hier) start delta alphas labels profileSize ptype
      = dg.deltaConformityH tab hier start delta alphas labels profileSize ptype := by
  unfold Graph.deltaConformityH
  simp only [nodeScoreH_relabel _ tab hier f hf]

end Dynetx
