import DynetxProofs.Lemmas.Events
import DynetxProofs.Lemmas.CountsHistory
/-
  clear() / clear_edges() as overridden in /repo reset the whole temporal state: the result satisfies every
  invariant the other theorems rely on (so histories may restart after them).
-/
namespace Dynetx

theorem C19_clear_consistent (g : Graph) :
    WF g.clear ∧ SnapInv g.clear ∧ EvInv g.clear ∧ g.clear.nodes = [] ∧
    WF g.clearEdges ∧ SnapInv g.clearEdges ∧ EvInv g.clearEdges ∧ g.clearEdges.nodes = g.nodes := by
  refine ⟨⟨?_, ?_⟩, ⟨⟨?_, ?_⟩, ?_⟩, ⟨?_, ?_, ?_, ?_, ?_⟩, rfl, ⟨?_, ?_⟩, ⟨⟨?_, ?_⟩, ?_⟩, ⟨?_, ?_, ?_, ?_, ?_⟩, rfl⟩
  all_goals first
    | exact List.Pairwise.nil
    | (intro e he; cases he)
    | (intro x; simp [Graph.clear, Graph.clearEdges, Graph.countAt, lookupSnap])
    | simp [Graph.clear, Graph.clearEdges]

theorem C19_clear_presence (g : Graph) (a b : Node) (t : Option Int) :
    g.clear.hasInteraction a b t = false ∧ g.clearEdges.hasInteraction a b t = false ∧
    g.clear.ids = [] ∧ g.clearEdges.ids = [] ∧ g.clear.stream = [] ∧ g.clearEdges.stream = [] := by
  simp [Graph.clear, Graph.clearEdges, Graph.hasInteraction, Graph.findEdge, Graph.ids, Graph.stream]

end Dynetx
