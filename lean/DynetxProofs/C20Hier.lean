import DynetxModel
import DynetxProofs.C20
import DynetxProofs.C20Profiles
/-
  C20 for the remaining branches of `__label_frequency` (DynetxModel/ConformityH.lean): time-varying labels and
  label hierarchies.

  * `C20H_bound`     every score the call returns lies in [-1, 1], provided every hierarchy is a ranking whose ranks
                     differ by at most `len - 1` (`HierOK`; the hypothesis is necessary: `C20H_bad_hierarchy`);
  * `C20H_errors`    the only exception these branches can raise is `KeyError` (a value missing from a time-varying
                     label at the instant it is read, or from a hierarchy); `ZeroDivisionError` is unreachable;
  * `C20H_static`    with static labels and no hierarchies the model is `ConformityP` (so `C20P_*` carry over).
-/
namespace Dynetx

/-! ### `allOk` -/

theorem allOk_forall₂ {α β : Type} (f : α → Except Err β) :
    ∀ (l : List α) (r : List β), allOk (l.map f) = .ok r → List.Forall₂ (fun x y => f x = .ok y) l r
  | [], r, h => by
    simp only [List.map_nil, allOk, Except.ok.injEq] at h; subst h; exact List.Forall₂.nil
  | x :: l, r, h => by
    simp only [List.map_cons] at h
    cases hx : f x with
    | error e => rw [hx] at h; simp [allOk] at h
    | ok a =>
      rw [hx] at h
      simp only [allOk] at h
      cases hr : allOk (l.map f) with
      | error e => rw [hr] at h; simp at h
      | ok l' =>
        rw [hr] at h
        simp only [Except.ok.injEq] at h
        subst h
        exact List.Forall₂.cons hx (allOk_forall₂ f l l' hr)

theorem allOk_error {α β : Type} (f : α → Except Err β) :
    ∀ (l : List α) (e : Err), allOk (l.map f) = .error e → ∃ x ∈ l, f x = .error e
  | [], e, h => by simp [allOk] at h
  | x :: l, e, h => by
    simp only [List.map_cons] at h
    cases hx : f x with
    | error e' =>
      rw [hx] at h; simp only [allOk, Except.error.injEq] at h; subst h
      exact ⟨x, by simp, hx⟩
    | ok a =>
      rw [hx] at h
      simp only [allOk] at h
      cases hr : allOk (l.map f) with
      | error e' =>
        rw [hr] at h; simp only [Except.error.injEq] at h; subst h
        obtain ⟨y, hy, hfy⟩ := allOk_error f l e' hr
        exact ⟨y, by simp [hy], hfy⟩
      | ok l' => rw [hr] at h; simp at h

theorem allOk_map_ok {α β : Type} (F : α → β) (l : List α) :
    allOk (l.map (fun x => (.ok (F x) : Except Err β))) = .ok (l.map F) := by
  induction l with
  | nil => rfl
  | cons x xs ih => simp only [List.map_cons, allOk, ih]

theorem forall₂_eq_map {α β : Type} {f : α → Except Err β} {l : List α} {r : List β}
    (h : List.Forall₂ (fun x y => f x = .ok y) l r) (g : α → β) (hg : ∀ x ∈ l, ∀ y, f x = .ok y → y = g x) :
    r = l.map g := by
  induction h with
  | nil => rfl
  | @cons x y l' r' hxy _ ih =>
    rw [List.map_cons, hg x (by simp) y hxy, ih (fun z hz w hw => hg z (by simp [hz]) w hw)]

theorem forall₂_mem_right {α β : Type} {f : α → Except Err β} {l : List α} {r : List β}
    (h : List.Forall₂ (fun x y => f x = .ok y) l r) {y : β} (hy : y ∈ r) : ∃ x ∈ l, f x = .ok y := by
  induction h with
  | nil => simp at hy
  | @cons a b l' r' hab _ ih =>
    rcases List.mem_cons.1 hy with rfl | hy'
    · exact ⟨a, by simp, hab⟩
    · obtain ⟨x, hx, hfx⟩ := ih hy'
      exact ⟨x, by simp [hx], hfx⟩

theorem forall₂_map_eq {α β γ : Type} {f : α → Except Err β} {l : List α} {r : List β}
    (h : List.Forall₂ (fun x y => f x = .ok y) l r) (p : β → γ) (q : α → γ)
    (hpq : ∀ x ∈ l, ∀ y, f x = .ok y → p y = q x) : r.map p = l.map q := by
  induction h with
  | nil => rfl
  | @cons a b l' r' hab _ ih =>
    rw [List.map_cons, List.map_cons, hpq a (by simp) b hab, ih (fun z hz w hw => hpq z (by simp [hz]) w hw)]

/-! ### `__distance` with a hierarchy -/

/-- a hierarchy is a ranking: two ranks never differ by more than `len - 1` (true of `{v: position}` tables) -/
def HierOK (tab : Hierarchy) : Prop :=
  ∀ a ∈ tab, ∀ b ∈ tab, absInt (a.2 - b.2) ≤ (tab.length : Int) - 1

def HiersOK (hier : Hierarchies) : Prop := ∀ l tab, hier l = some tab → HierOK tab

theorem absInt_nonneg (x : Int) : 0 ≤ absInt x := by unfold absInt; split <;> omega

theorem distanceH_bound (h : Option Hierarchy) (hok : ∀ tab, h = some tab → HierOK tab) (a b : Nat) (x : Rat)
    (hx : distanceH h a b = .ok x) : -1 ≤ x ∧ x ≤ 0 := by
  unfold distanceH at hx
  cases h with
  | none => simp only [Except.ok.injEq] at hx; subst hx; norm_num
  | some tab =>
    simp only at hx
    split at hx
    · next ea eb hea heb =>
      split at hx
      · simp at hx
      · next hlen =>
        simp only [Except.ok.injEq] at hx
        have hma : ea ∈ tab := List.mem_of_find?_eq_some hea
        have hmb : eb ∈ tab := List.mem_of_find?_eq_some heb
        have hle := hok tab rfl ea hma eb hmb
        have hpos : 1 ≤ tab.length := List.length_pos_of_mem hma
        have h2 : 2 ≤ tab.length := by
          have : tab.length ≠ 1 := by simpa using hlen
          omega
        have hden : (0 : Rat) < ((tab.length : Nat) : Rat) - 1 := by
          have : (2 : Rat) ≤ ((tab.length : Nat) : Rat) := by exact_mod_cast h2
          linarith
        have hn0 : (0 : Rat) ≤ ((absInt (ea.2 - eb.2) : Int) : Rat) := by exact_mod_cast absInt_nonneg _
        have hn1 : ((absInt (ea.2 - eb.2) : Int) : Rat) ≤ ((tab.length : Nat) : Rat) - 1 := by
          have : ((absInt (ea.2 - eb.2) : Int) : Rat) ≤ (((tab.length : Int) - 1 : Int) : Rat) := by exact_mod_cast hle
          simpa using this
        subst hx
        constructor
        · rw [le_div_iff₀ hden]; linarith
        · apply div_nonpos_of_nonpos_of_nonneg <;> linarith
    · simp at hx

/-- `ZeroDivisionError` needs a one-entry hierarchy that ranks both values, i.e. equal values: unreachable, since
    `__distance` is only called for different values -/
theorem distanceH_error (h : Option Hierarchy) (a b : Nat) (hab : a ≠ b) (e : Err)
    (he : distanceH h a b = .error e) : e = .key := by
  unfold distanceH at he
  cases h with
  | none => simp at he
  | some tab =>
    simp only at he
    split at he
    · next ea eb hea heb =>
      split at he
      · next hlen =>
        exfalso
        have hma : ea ∈ tab := List.mem_of_find?_eq_some hea
        have hmb : eb ∈ tab := List.mem_of_find?_eq_some heb
        have h1 : tab.length = 1 := by simpa using hlen
        obtain ⟨z, hz⟩ := List.length_eq_one_iff.1 h1
        rw [hz] at hma hmb
        simp only [List.mem_singleton] at hma hmb
        have ha := List.find?_some hea
        have hb := List.find?_some heb
        simp only [beq_iff_eq] at ha hb
        rw [hma] at ha; rw [hmb] at hb
        exact hab (ha.symm.trans hb)
      · simp at he
    · simp only [Except.error.injEq] at he; exact he.symm

/-! ### one reached node, one label -/

theorem factor_abs_le (cnt len : Nat) (hcl : cnt ≤ len) :
    |(if (if len > 0 then (cnt : Rat) / (len : Rat) else 0) > 0
        then (if len > 0 then (cnt : Rat) / (len : Rat) else 0) else 1)| ≤ 1 := by
  have := term_abs_le true cnt len hcl
  simpa using this

theorem termH_abs_le (g : Graph) (lab : Node → LabelVal) (h : Option Hierarchy)
    (hok : ∀ tab, h = some tab → HierOK tab) (au : Nat) (td : List (Node × Nat)) (v : Node) (x : Rat)
    (hx : termH g lab h au td v = .ok (some x)) : |x| ≤ 1 := by
  unfold termH at hx
  simp only at hx
  split at hx
  · simp at hx
  · next av _ =>
    split at hx
    · simp at hx
    · next s hs =>
      split at hx
      · simp at hx
      · next axs haxs =>
        simp only [Except.ok.injEq, Option.some.injEq] at hx
        have hlen : axs.length = (g.neighbors v
            (some (((List.find? (fun e => e.1 == v) td).map (·.2)).getD 0 : Nat))).length :=
          (allOk_forall₂ _ _ _ haxs).length_eq.symm
        have hs1 : |s| ≤ 1 := by
          by_cases hc : au == av
          · simp only [hc, if_true, Except.ok.injEq] at hs; subst hs; simp
          · simp only [hc] at hs
            have := distanceH_bound h hok au av s hs
            rw [abs_le]; constructor <;> linarith [this.1, this.2]
        subst hx
        rw [abs_mul]
        have hf := factor_abs_le (axs.filter (fun ax => ax == av)).length
          (g.neighbors v (some (((List.find? (fun e => e.1 == v) td).map (·.2)).getD 0 : Nat))).length
          (by rw [← hlen]; exact List.length_filter_le _ _)
        calc |s| * _ ≤ 1 * 1 := mul_le_mul hs1 hf (abs_nonneg _) (by norm_num)
          _ = 1 := by norm_num

theorem termH_error (g : Graph) (lab : Node → LabelVal) (h : Option Hierarchy) (au : Nat) (td : List (Node × Nat))
    (v : Node) (e : Err) (he : termH g lab h au td v = .error e) : e = .key := by
  unfold termH at he
  simp only at he
  split at he
  · simp at he
  · next av _ =>
    split at he
    · next e' hs =>
      simp only [Except.error.injEq] at he; subst he
      by_cases hc : au == av
      · simp [hc] at hs
      · simp only [hc] at hs
        exact distanceH_error h au av (by simpa using hc) _ hs
    · split at he
      · next e' haxs =>
        simp only [Except.error.injEq] at he; subst he
        obtain ⟨y, _, hy⟩ := allOk_error _ _ _ haxs
        unfold valueOrKeyError at hy
        split at hy
        · simp at hy
        · simp only [Except.error.injEq] at hy; exact hy.symm
      · simp at he

theorem abs_sum_filterMap_le (ts : List (Option Rat)) (h : ∀ x, some x ∈ ts → |x| ≤ 1) :
    |(ts.filterMap id).sum| ≤ (ts.length : Rat) := by
  induction ts with
  | nil => simp
  | cons t ts ih =>
    have ih' := ih (fun x hx => h x (by simp [hx]))
    cases t with
    | none =>
      rw [List.filterMap_cons_none (by rfl), List.length_cons]
      push_cast; linarith
    | some x =>
      rw [List.filterMap_cons_some (by rfl), List.sum_cons, List.length_cons]
      have hx := h x (by simp)
      push_cast
      exact (abs_add_le _ _).trans (by linarith)

theorem labelFrequencyH_abs_le (g : Graph) (lab : Node → LabelVal) (h : Option Hierarchy)
    (hok : ∀ tab, h = some tab → HierOK tab) (u : Node) (nodes : List Node) (td : List (Node × Nat)) (start : Int)
    (x : Rat) (hx : labelFrequencyH g lab h u nodes td start = .ok x) : |x| ≤ 1 := by
  unfold labelFrequencyH at hx
  split at hx
  · simp at hx
  · next au _ =>
    split at hx
    · simp at hx
    · next ts hts =>
      simp only [Except.ok.injEq] at hx
      subst hx
      have hf := allOk_forall₂ _ _ _ hts
      have hlen : ts.length = nodes.length := hf.length_eq.symm
      rw [foldl_add_zero]
      have hb : |(ts.filterMap id).sum| ≤ (ts.length : Rat) := by
        apply abs_sum_filterMap_le
        intro y hy
        obtain ⟨v, _, hv⟩ := forall₂_mem_right hf hy
        exact termH_abs_le g lab h hok au td v y hv
      rw [hlen] at hb
      rcases Nat.eq_zero_or_pos nodes.length with h0 | h0
      · rw [h0]; simp
      · have hpos : (0 : Rat) < (nodes.length : Rat) := by exact_mod_cast h0
        rw [abs_div, abs_of_pos hpos, div_le_one hpos]; exact hb

theorem labelFrequencyH_error (g : Graph) (lab : Node → LabelVal) (h : Option Hierarchy) (u : Node)
    (nodes : List Node) (td : List (Node × Nat)) (start : Int) (e : Err)
    (he : labelFrequencyH g lab h u nodes td start = .error e) : e = .key := by
  unfold labelFrequencyH at he
  split at he
  · simp only [Except.error.injEq] at he; exact he.symm
  · split at he
    · next e' hts =>
      simp only [Except.error.injEq] at he; subst he
      obtain ⟨v, _, hv⟩ := allOk_error _ _ _ hts
      exact termH_error g lab h _ td v _ hv
    · simp at he

/-! ### a profile -/

def pfStep (g : Graph) (tab : LabelTableH) (hier : Hierarchies) (u : Node) (nodes : List Node)
    (td : List (Node × Nat)) (start : Int) (s : Except Err Rat) (l : Nat) : Except Err Rat :=
  match s with
  | .error e => .error e
  | .ok s =>
    match labelFrequencyH g (tab l) (hier l) u nodes td start with
    | .error e => .error e
    | .ok x => .ok (s * x)

theorem profileFrequencyH_eq (g : Graph) (tab : LabelTableH) (hier : Hierarchies) (profile : List Nat) (u : Node)
    (nodes : List Node) (td : List (Node × Nat)) (start : Int) :
    profileFrequencyH g tab hier profile u nodes td start
      = profile.foldl (pfStep g tab hier u nodes td start) (.ok 1) := rfl

theorem pfStep_foldl_error (g : Graph) (tab : LabelTableH) (hier : Hierarchies) (u : Node) (nodes : List Node)
    (td : List (Node × Nat)) (start : Int) (profile : List Nat) (e : Err) :
    profile.foldl (pfStep g tab hier u nodes td start) (.error e) = .error e := by
  induction profile with
  | nil => rfl
  | cons l ls ih => simpa [List.foldl_cons, pfStep] using ih

theorem pfStep_foldl_bound (g : Graph) (tab : LabelTableH) (hier : Hierarchies) (hok : HiersOK hier) (u : Node)
    (nodes : List Node) (td : List (Node × Nat)) (start : Int) (profile : List Nat) :
    ∀ (s x : Rat), |s| ≤ 1 → profile.foldl (pfStep g tab hier u nodes td start) (.ok s) = .ok x → |x| ≤ 1 := by
  induction profile with
  | nil => intro s x hs hx; simp only [List.foldl_nil, Except.ok.injEq] at hx; subst hx; exact hs
  | cons l ls ih =>
    intro s x hs hx
    rw [List.foldl_cons] at hx
    cases hl : labelFrequencyH g (tab l) (hier l) u nodes td start with
    | error e =>
      simp only [pfStep, hl] at hx
      rw [pfStep_foldl_error] at hx; simp at hx
    | ok y =>
      simp only [pfStep, hl] at hx
      have hy := labelFrequencyH_abs_le g (tab l) (hier l) (fun t ht => hok l t ht) u nodes td start y hl
      apply ih (s * y) x _ hx
      rw [abs_mul]
      calc |s| * |y| ≤ 1 * 1 := mul_le_mul hs hy (abs_nonneg _) (by norm_num)
        _ = 1 := by norm_num

theorem profileFrequencyH_abs_le (g : Graph) (tab : LabelTableH) (hier : Hierarchies) (hok : HiersOK hier)
    (profile : List Nat) (u : Node) (nodes : List Node) (td : List (Node × Nat)) (start : Int) (x : Rat)
    (hx : profileFrequencyH g tab hier profile u nodes td start = .ok x) : |x| ≤ 1 := by
  rw [profileFrequencyH_eq] at hx
  exact pfStep_foldl_bound g tab hier hok u nodes td start profile 1 x (by simp) hx

theorem pfStep_foldl_errkind (g : Graph) (tab : LabelTableH) (hier : Hierarchies) (u : Node)
    (nodes : List Node) (td : List (Node × Nat)) (start : Int) (profile : List Nat) :
    ∀ (s : Rat) (e : Err), profile.foldl (pfStep g tab hier u nodes td start) (.ok s) = .error e → e = .key := by
  induction profile with
  | nil => intro s e he; simp at he
  | cons l ls ih =>
    intro s e he
    rw [List.foldl_cons] at he
    cases hl : labelFrequencyH g (tab l) (hier l) u nodes td start with
    | error e' =>
      simp only [pfStep, hl] at he
      rw [pfStep_foldl_error] at he
      simp only [Except.error.injEq] at he; subst he
      exact labelFrequencyH_error g (tab l) (hier l) u nodes td start _ hl
    | ok y =>
      simp only [pfStep, hl] at he
      exact ih _ e he

theorem profileFrequencyH_error (g : Graph) (tab : LabelTableH) (hier : Hierarchies) (profile : List Nat) (u : Node)
    (nodes : List Node) (td : List (Node × Nat)) (start : Int) (e : Err)
    (he : profileFrequencyH g tab hier profile u nodes td start = .error e) : e = .key := by
  rw [profileFrequencyH_eq] at he
  exact pfStep_foldl_errkind g tab hier u nodes td start profile 1 e he

/-! ### the score of a node -/

/-- the per-distance similarity, totalised outside the `ok` case (only used where it is `ok`) -/
def simH (g : Graph) (tab : LabelTableH) (hier : Hierarchies) (pr : List Nat) (td : List (Node × Nat)) (start : Int)
    (u : Node) (d : Nat) : Rat :=
  match profileFrequencyH g tab hier pr u (nodesAtRank td d) td start with
  | .ok s => s
  | .error _ => 0

theorem simH_abs_le (g : Graph) (tab : LabelTableH) (hier : Hierarchies) (hok : HiersOK hier) (pr : List Nat)
    (td : List (Node × Nat)) (start : Int) (u : Node) (d : Nat) : |simH g tab hier pr td start u d| ≤ 1 := by
  unfold simH
  split
  · next s hs => exact profileFrequencyH_abs_le g tab hier hok pr u _ td start s hs
  · simp

/-- **C20 (bound; time-varying labels and hierarchies).**  Whenever the score of a node is computed (no `KeyError`), it
    lies in [-1, 1], for every graph, label table, profile, exponent and every hierarchy that is a ranking. -/
theorem C20H_bound (g : Graph) (tab : LabelTableH) (hier : Hierarchies) (hok : HiersOK hier) (pr : List Nat)
    (sp : List ((Node × Node) × List TPath)) (ptype alpha : Nat) (start : Int) (u : Node) (x : Rat)
    (hx : nodeScoreH g tab hier pr sp ptype alpha start u = .ok x) : -1 ≤ x ∧ x ≤ 1 := by
  unfold nodeScoreH at hx
  simp only at hx
  split at hx
  · simp at hx
  · next parts hparts =>
    have hf : List.Forall₂ _ (ranksOf (tDistances sp ptype u)) parts := allOk_forall₂ _ _ _ hparts
    obtain ⟨hnd, hpw, hmem⟩ := ranksOf_facts (tDistances sp ptype u)
    have hpos : ∀ d ∈ ranksOf (tDistances sp ptype u), 1 ≤ d := fun d hd => ((hmem d).1 hd).1
    have hparts_eq : parts = (ranksOf (tDistances sp ptype u)).map
        (fun d => simH g tab hier pr (tDistances sp ptype u) start u d / ((d : Nat) : Rat) ^ alpha) := by
      apply forall₂_eq_map hf
      intro d hd y hy
      have hd0 : (d == 0) = false := by have := hpos d hd; simp; omega
      simp only [hd0, Bool.false_eq_true, if_false] at hy
      unfold simH nodesAtRank
      split at hy
      · simp at hy
      · next s hs =>
        simp only [Except.ok.injEq] at hy
        simp only [hs]
        exact hy.symm
    rw [foldl_add_zero, hparts_eq] at hx
    have hx' : (match (ranksOf (tDistances sp ptype u)).getLast? with
        | none => (Except.ok (((ranksOf (tDistances sp ptype u)).map
            (fun d => simH g tab hier pr (tDistances sp ptype u) start u d / ((d : Nat) : Rat) ^ alpha)).sum) : Except Err Rat)
        | some mx => .ok (((ranksOf (tDistances sp ptype u)).map
            (fun d => simH g tab hier pr (tDistances sp ptype u) start u d / ((d : Nat) : Rat) ^ alpha)).sum
              / normConst mx alpha)) = .ok x := hx
    clear hx
    cases hl : (ranksOf (tDistances sp ptype u)).getLast? with
    | none =>
      rw [hl] at hx'
      simp only [Except.ok.injEq] at hx'
      have : ranksOf (tDistances sp ptype u) = [] := List.getLast?_eq_none_iff.1 hl
      rw [this] at hx'; simp at hx'; subst hx'; norm_num
    | some mx =>
      rw [hl] at hx'
      simp only [Except.ok.injEq] at hx'
      obtain ⟨hmx, hle⟩ := le_getLast_of_pairwise hpw hl
      subst hx'
      exact quot_bound _ (normConst mx alpha) (normConst_pos mx alpha (hpos mx hmx))
        (core_abs_sum_le (ranksOf (tDistances sp ptype u)) mx alpha (simH g tab hier pr (tDistances sp ptype u) start u)
          hnd (fun d hd => ⟨hpos d hd, hle d hd⟩)
          (fun d _ => simH_abs_le g tab hier hok pr (tDistances sp ptype u) start u d))

/-- **C20 (exceptions of these branches).**  The only exception the score computation can raise is `KeyError`:
    a time-varying label without a value at the instant it is read, or a value without a rank. -/
theorem C20H_errors (g : Graph) (tab : LabelTableH) (hier : Hierarchies) (pr : List Nat)
    (sp : List ((Node × Node) × List TPath)) (ptype alpha : Nat) (start : Int) (u : Node) (e : Err)
    (he : nodeScoreH g tab hier pr sp ptype alpha start u = .error e) : e = .key := by
  unfold nodeScoreH at he
  simp only at he
  split at he
  · next e' hparts =>
    simp only [Except.error.injEq] at he; subst he
    obtain ⟨d, _, hd⟩ := allOk_error _ _ _ hparts
    split at hd
    · simp at hd
    · split at hd
      · next e'' hpf =>
        simp only [Except.error.injEq] at hd; subst hd
        exact profileFrequencyH_error g tab hier pr u _ _ start _ hpf
      · simp at hd
  · split at he <;> simp at he

/-! ### the whole result -/

/-- **C20 (shape and bound of the result; time-varying labels and hierarchies).**  A successful non-`None` result has one
    entry per exponent, in each one entry per profile, in each of those one score per node present at `start` in the
    slice, and every score lies in [-1, 1] (hierarchies being rankings). -/
theorem C20H_result (dg : Graph) (tab : LabelTableH) (hier : Hierarchies) (hok : HiersOK hier) (start delta : Int)
    (alphas labels : List Nat) (profileSize ptype : Nat) (l : List (Nat × List (List Nat × List (Node × Rat))))
    (h : dg.deltaConformityH tab hier start delta alphas labels profileSize ptype = .ok (some l)) :
    l.map (·.1) = alphas ∧
    (∀ e ∈ l, e.2.map (·.1) = profilesOf labels profileSize) ∧
    (∃ g, dg.timeSlice start (some (start + delta)) = .ok g ∧
      ∀ e ∈ l, ∀ pe ∈ e.2, pe.2.map (·.1) = g.nodesAt (some start)) ∧
    (∀ e ∈ l, ∀ pe ∈ e.2, ∀ nv ∈ pe.2, -1 ≤ nv.2 ∧ nv.2 ≤ 1) := by
  unfold Graph.deltaConformityH at h
  split at h
  · cases h
  · split at h
    · cases h
    · cases hs : dg.timeSlice start (some (start + delta)) with
      | error e => rw [hs] at h; simp at h
      | ok g =>
        rw [hs] at h
        simp only at h
        cases hmin : minList g.ids with
        | none => rw [hmin] at h; simp at h
        | some lo =>
          cases hmax : maxList g.ids with
          | none => rw [hmin, hmax] at h; simp at h
          | some hi =>
            rw [hmin, hmax] at h
            simp only at h
            split at h
            · simp at h
            · next sp _ =>
              split at h
              · simp at h
              · next r hr =>
                simp only [Except.ok.injEq, Option.some.injEq] at h
                subst h
                have hA := allOk_forall₂ _ _ _ hr
                have key : ∀ e ∈ r, e.2.map (·.1) = profilesOf labels profileSize ∧
                    ∀ pe ∈ e.2, pe.2.map (·.1) = g.nodesAt (some start) ∧
                      ∀ nv ∈ pe.2, -1 ≤ nv.2 ∧ nv.2 ≤ 1 := by
                  intro e he
                  obtain ⟨a, _, hae⟩ := forall₂_mem_right hA he
                  split at hae
                  · simp at hae
                  · next prs hprs =>
                    simp only [Except.ok.injEq] at hae
                    subst hae
                    have hP := allOk_forall₂ _ _ _ hprs
                    refine ⟨?_, ?_⟩
                    · have := forall₂_map_eq hP (·.1) id (by
                        intro pr _ pe hpe
                        split at hpe
                        · simp at hpe
                        · simp only [Except.ok.injEq] at hpe; subst hpe; rfl)
                      simpa using this
                    · intro pe hpe
                      obtain ⟨pr, _, hpre⟩ := forall₂_mem_right hP hpe
                      split at hpre
                      · simp at hpre
                      · next sc hsc =>
                        simp only [Except.ok.injEq] at hpre
                        subst hpre
                        have hN := allOk_forall₂ _ _ _ hsc
                        constructor
                        · have := forall₂_map_eq hN (·.1) id (by
                            intro u _ nv hnv
                            split at hnv
                            · simp at hnv
                            · simp only [Except.ok.injEq] at hnv; subst hnv; rfl)
                          simpa using this
                        · intro nv hnv
                          obtain ⟨u, _, hue⟩ := forall₂_mem_right hN hnv
                          split at hue
                          · simp at hue
                          · next x hx =>
                            simp only [Except.ok.injEq] at hue
                            subst hue
                            exact C20H_bound g tab hier hok pr sp ptype a start u x hx
                refine ⟨?_, fun e he => (key e he).1, ⟨g, rfl, fun e he pe hpe => ((key e he).2 pe hpe).1⟩,
                  fun e he pe hpe => ((key e he).2 pe hpe).2⟩
                have := forall₂_map_eq hA (·.1) id (by
                  intro a _ e hae
                  split at hae
                  · simp at hae
                  · simp only [Except.ok.injEq] at hae; subst hae; rfl)
                simpa using this

/-! ### static labels, no hierarchies: the model of `ConformityP.lean` -/

theorem filterMap_some_fun {α β : Type} (F : α → β) (l : List α) :
    l.filterMap (fun v => some (F v)) = l.map F := by
  induction l with
  | nil => rfl
  | cons x xs ih => simp [ih]

theorem termH_static (g : Graph) (lab : Node → Nat) (au : Nat) (td : List (Node × Nat)) (v : Node) :
    termH g (fun n => .static (lab n)) none au td v = .ok (some (
      (if au == lab v then (1 : Rat) else -1) *
      (let vn := g.neighbors v (some (((td.find? (fun e => e.1 == v)).map (·.2)).getD 0 : Nat))
       let cnt := (vn.filter (fun x => lab x == lab v)).length
       let f : Rat := if vn.length > 0 then (cnt : Rat) / (vn.length : Rat) else 0
       if f > 0 then f else 1))) := by
  unfold termH
  simp only [LabelVal.at?]
  have hs : (if au == lab v then (.ok 1 : Except Err Rat) else distanceH none au (lab v))
      = .ok (if au == lab v then (1 : Rat) else -1) := by
    by_cases hc : au == lab v <;> simp [hc, distanceH]
  rw [hs]
  simp only [valueOrKeyError, allOk_map_ok, List.filter_map, List.length_map, Function.comp_def]

theorem labelFrequencyH_static (g : Graph) (lab : Node → Nat) (u : Node) (nodes : List Node) (td : List (Node × Nat))
    (start : Int) :
    labelFrequencyH g (fun n => .static (lab n)) none u nodes td start = .ok (labelFrequencyL g lab u nodes td) := by
  unfold labelFrequencyH labelFrequencyL
  simp only [LabelVal.at?]
  have : nodes.map (termH g (fun n => LabelVal.static (lab n)) none (lab u) td)
      = nodes.map (fun v => (.ok (some (
      (if lab u == lab v then (1 : Rat) else -1) *
      (let vn := g.neighbors v (some (((td.find? (fun e => e.1 == v)).map (·.2)).getD 0 : Nat))
       let cnt := (vn.filter (fun x => lab x == lab v)).length
       let f : Rat := if vn.length > 0 then (cnt : Rat) / (vn.length : Rat) else 0
       if f > 0 then f else 1))) : Except Err (Option Rat))) := by
    apply List.map_congr_left
    intro v _
    exact termH_static g lab (lab u) td v
  rw [this, allOk_map_ok]
  simp only [List.filterMap_map, Function.comp_def, id_eq, filterMap_some_fun]

theorem profileFrequencyH_static (g : Graph) (tab : LabelTable) (profile : List Nat) (u : Node) (nodes : List Node)
    (td : List (Node × Nat)) (start : Int) :
    profileFrequencyH g (fun l n => .static (tab l n)) (fun _ => none) profile u nodes td start
      = .ok (profileFrequency g tab profile u nodes td) := by
  unfold profileFrequencyH profileFrequency
  generalize (1 : Rat) = s
  induction profile generalizing s with
  | nil => rfl
  | cons l ls ih =>
    simp only [List.foldl_cons]
    rw [labelFrequencyH_static g (tab l) u nodes td start]
    exact ih _

theorem nodeScoreH_static (g : Graph) (tab : LabelTable) (pr : List Nat) (sp : List ((Node × Node) × List TPath))
    (ptype alpha : Nat) (start : Int) (u : Node) :
    nodeScoreH g (fun l n => .static (tab l n)) (fun _ => none) pr sp ptype alpha start u
      = .ok (nodeScoreP g tab pr sp ptype alpha u) := by
  unfold nodeScoreH nodeScoreP
  simp only [profileFrequencyH_static]
  have : ∀ (ranks : List Nat) (F : Nat → Rat),
      ranks.map (fun d => if d == 0 then (.ok 0 : Except Err Rat) else .ok (F d))
        = ranks.map (fun d => (.ok (if d == 0 then 0 else F d) : Except Err Rat)) := by
    intro ranks F
    apply List.map_congr_left
    intro d _
    split <;> rfl
  rw [this, allOk_map_ok]
  simp only
  cases (sortedSetNat (List.map (fun x => x.2) (remapDistances (tDistances sp ptype u)))).getLast? <;> rfl

/-- **C20 (consistency of the two models).**  With static labels and no hierarchies, `delta_conformity` as modelled here
    is `delta_conformity` as modelled in `ConformityP.lean`: same value, same exceptions. -/
theorem C20H_static (dg : Graph) (tab : LabelTable) (start delta : Int) (alphas labels : List Nat)
    (profileSize ptype : Nat) :
    dg.deltaConformityH (fun l n => .static (tab l n)) (fun _ => none) start delta alphas labels profileSize ptype
      = dg.deltaConformityP tab start delta alphas labels profileSize ptype := by
  unfold Graph.deltaConformityH Graph.deltaConformityP
  split
  · rfl
  · split
    · rfl
    · cases dg.timeSlice start (some (start + delta)) with
      | error e => rfl
      | ok g =>
        simp only
        cases minList g.ids with
        | none => rfl
        | some lo =>
          cases maxList g.ids with
          | none => rfl
          | some hi =>
            simp only
            cases g.allTimeRespectingPaths (some (max start lo)) (some (min hi (start + delta))) none with
            | error e => rfl
            | ok sp =>
              simp only [nodeScoreH_static, allOk_map_ok]

/-! ### the hypothesis on hierarchies is satisfiable and necessary -/

example : HierOK [(4, 0), (7, 1), (9, 2)] := by
  intro a ha b hb
  simp only [List.mem_cons, List.mem_nil_iff, or_false] at ha hb
  rcases ha with rfl | rfl | rfl <;> rcases hb with rfl | rfl | rfl <;> decide

/-- ranks that are not positions: the "distance" of two values leaves [-1, 0], and with it the score -/
theorem C20H_bad_hierarchy : distanceH (some [(0, 0), (1, 10)]) 0 1 = .ok (-10) := by
  simp [distanceH, absInt]
  norm_num

/-- a time-varying label without a value at `start` raises `KeyError` -/
example (g : Graph) (nodes : List Node) (td : List (Node × Nat)) :
    labelFrequencyH g (fun _ => .dyn [(3, 1)]) none 0 nodes td 2 = .error .key := by
  simp [labelFrequencyH, LabelVal.at?]

end Dynetx
