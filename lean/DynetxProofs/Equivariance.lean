import DynetxModel
/-
  EQUIVARIANCE of the model under injective renamings of node ids.

  The model represents node ids as natural numbers; the code only ever uses `==`/hash on ids.  This file proves
  that every operation of the model commutes with an arbitrary injective renaming `ρ : Node → Node`
  (`Graph.rename ρ`): histories, queries, derived graphs, the path enumeration and delta-conformity.  Consequences:
  * C20's clause "scores are invariant under renaming node ids" (`C20_rename_nodes`);
  * conclusions proved for natural-number ids transfer to any id type that embeds into `Nat`.
-/
namespace Dynetx

section
variable (ρ : Node → Node)

def Edge.rename (e : Edge) : Edge := { e with u := ρ e.u, v := ρ e.v }
def Ev.rename (e : Ev) : Ev := { e with u := ρ e.u, v := ρ e.v }

/-- the graph with every node id `n` replaced by `ρ n` -/
def Graph.rename (g : Graph) : Graph :=
  { g with nodes := g.nodes.map (fun p => (ρ p.1, p.2)), edges := g.edges.map (Edge.rename ρ),
           events := g.events.map (Ev.rename ρ) }

@[simp] theorem rn_directed (g : Graph) : (g.rename ρ).directed = g.directed := rfl
@[simp] theorem rn_removal (g : Graph) : (g.rename ρ).removal = g.removal := rfl
@[simp] theorem rn_snaps (g : Graph) : (g.rename ρ).snaps = g.snaps := rfl
@[simp] theorem rn_gattr (g : Graph) : (g.rename ρ).gattr = g.gattr := rfl
@[simp] theorem rn_nodes (g : Graph) : (g.rename ρ).nodes = g.nodes.map (fun p => (ρ p.1, p.2)) := rfl
@[simp] theorem rn_edges (g : Graph) : (g.rename ρ).edges = g.edges.map (Edge.rename ρ) := rfl
@[simp] theorem rn_events (g : Graph) : (g.rename ρ).events = g.events.map (Ev.rename ρ) := rfl
@[simp] theorem rn_empty (d r : Bool) : (Graph.empty d r).rename ρ = Graph.empty d r := rfl

variable {ρ} (hρ : Function.Injective ρ)
include hρ

theorem rn_beq (x y : Node) : (ρ x == ρ y) = (x == y) := by
  rw [Bool.eq_iff_iff]
  simp only [beq_iff_eq]
  exact ⟨fun h => hρ h, fun h => h ▸ rfl⟩

theorem rn_sameKey (d : Bool) (u v a b : Node) : sameKey d (ρ u) (ρ v) (ρ a) (ρ b) = sameKey d u v a b := by
  simp [sameKey, rn_beq hρ]

theorem rn_findEdge (g : Graph) (u v : Node) :
    (g.rename ρ).findEdge (ρ u) (ρ v) = (g.findEdge u v).map (Edge.rename ρ) := by
  unfold Graph.findEdge
  simp only [rn_edges, rn_directed, List.find?_map]
  congr 1
  apply congrArg (fun p => List.find? p g.edges)
  funext e
  simp [Edge.rename, Function.comp, rn_sameKey hρ]

theorem rn_any_node {α : Type} (nodes : List (Node × α)) (n : Node) :
    (nodes.map (fun p => (ρ p.1, p.2))).any (fun p => p.1 == ρ n) = nodes.any (fun p => p.1 == n) := by
  simp only [List.any_map, Function.comp_def, rn_beq hρ]

theorem rn_hasNodeFlat (g : Graph) (n : Node) : (g.rename ρ).hasNodeFlat (ρ n) = g.hasNodeFlat n := by
  simp [Graph.hasNodeFlat, rn_any_node hρ]

theorem rn_ensureNode (nodes : List (Node × Nat)) (n : Node) :
    ensureNode (nodes.map (fun p => (ρ p.1, p.2))) (ρ n) = (ensureNode nodes n).map (fun p => (ρ p.1, p.2)) := by
  unfold ensureNode
  rw [rn_any_node hρ]
  split <;> simp

theorem rn_addEvent (g : Graph) (t : Int) (u v : Node) (plus : Bool) :
    (g.rename ρ).addEvent t (ρ u) (ρ v) plus = (g.addEvent t u v plus).rename ρ := by
  unfold Graph.addEvent
  have : (g.rename ρ).events.any (fun e => e.t == t && sameKey (g.rename ρ).directed e.u e.v (ρ u) (ρ v) && e.plus == plus)
      = g.events.any (fun e => e.t == t && sameKey g.directed e.u e.v u v && e.plus == plus) := by
    simp only [rn_events, rn_directed, List.any_map, Function.comp_def, Ev.rename, rn_sameKey hρ]
  rw [this]
  split
  · rfl
  · simp [Graph.rename, Ev.rename]

theorem rn_dropEvent (g : Graph) (t : Int) (u v : Node) (plus : Bool) :
    (g.rename ρ).dropEvent t (ρ u) (ρ v) plus = (g.dropEvent t u v plus).rename ρ := by
  unfold Graph.dropEvent
  simp only [Graph.rename, List.filter_map]
  congr 2
  apply congrArg (fun p => List.filter p g.events)
  funext e
  simp [Function.comp, Ev.rename, rn_sameKey hρ]

theorem rn_ensureNodes (g : Graph) (u v : Node) :
    (g.rename ρ).ensureNodes (ρ u) (ρ v) = (g.ensureNodes u v).rename ρ := by
  simp [Graph.ensureNodes, Graph.rename, rn_ensureNode hρ]

theorem rn_setTl (g : Graph) (u v : Node) (tl : List Span) :
    (g.rename ρ).setTl (ρ u) (ρ v) tl = (g.setTl u v tl).rename ρ := by
  unfold Graph.setTl
  simp only [Graph.rename, List.map_map]
  congr 1
  apply List.map_congr_left
  intro e _
  simp only [Function.comp, Edge.rename, rn_sameKey hρ]
  split <;> rfl

omit hρ in
theorem rn_bumpRange (g : Graph) (lo hi : Int) :
    (g.rename ρ).bumpRange lo hi = (g.bumpRange lo hi).rename ρ := rfl

theorem rn_optAddMinus (g : Graph) (e : Option Int) (u v : Node) :
    optAddMinus (g.rename ρ) e (ρ u) (ρ v) = (optAddMinus g e u v).rename ρ := by
  cases e <;> simp [optAddMinus, rn_addEvent hρ]

omit hρ in
theorem rn_effE (g : Graph) (e : Option Int) : (g.rename ρ).effE e = g.effE e := rfl

theorem rn_addNew (g : Graph) (u v : Node) (t0 t1 : Int) (eR : Option Int) :
    (g.rename ρ).addNew (ρ u) (ρ v) t0 t1 eR = (g.addNew u v t0 t1 eR).rename ρ := by
  unfold Graph.addNew
  simp only [rn_ensureNodes hρ]
  have h1 : ({ (g.ensureNodes u v).rename ρ with
      edges := ((g.ensureNodes u v).rename ρ).edges ++ [({ u := ρ u, v := ρ v, tl := [(t0, t1)] } : Edge)] } : Graph)
      = ({ g.ensureNodes u v with edges := (g.ensureNodes u v).edges ++ [({ u := u, v := v, tl := [(t0, t1)] } : Edge)] } : Graph).rename ρ := by
    simp [Graph.rename, Edge.rename]
  rw [h1, rn_addEvent hρ, rn_optAddMinus hρ]
  simp only [rn_removal, rn_bumpRange]
  rw [apply_ite (Graph.rename ρ)]
  rfl

theorem rn_addCovered (g : Graph) (u v : Node) (t1 b : Int) (eR : Option Int) :
    (g.rename ρ).addCovered (ρ u) (ρ v) t1 b eR = (g.addCovered u v t1 b eR).rename ρ := by
  unfold Graph.addCovered
  split
  · exact rn_optAddMinus hρ g eR u v
  · rfl

theorem rn_addAccum (g : Graph) (u v : Node) (t0 a b : Int) (rest : List Span) :
    (g.rename ρ).addAccum (ρ u) (ρ v) t0 a b rest = (g.addAccum u v t0 a b rest).rename ρ := by
  unfold Graph.addAccum
  simp only [rn_ensureNodes hρ]
  split <;> simp [rn_setTl hρ, rn_bumpRange]

theorem rn_addExtend (g : Graph) (u v : Node) (t0 t1 a b : Int) (rest : List Span) (eR : Option Int) :
    (g.rename ρ).addExtend (ρ u) (ρ v) t0 t1 a b rest eR = (g.addExtend u v t0 t1 a b rest eR).rename ρ := by
  unfold Graph.addExtend
  simp only [rn_ensureNodes hρ, rn_dropEvent hρ, rn_setTl hρ]
  cases eR with
  | some e => simp [rn_addEvent hρ, rn_bumpRange]
  | none =>
    simp only
    split <;> simp [rn_addEvent hρ, rn_bumpRange]

theorem rn_addAppend (g : Graph) (u v : Node) (t0 t1 a b : Int) (rest : List Span) (eR : Option Int) :
    (g.rename ρ).addAppend (ρ u) (ρ v) t0 t1 a b rest eR = (g.addAppend u v t0 t1 a b rest eR).rename ρ := by
  unfold Graph.addAppend
  simp only [rn_ensureNodes hρ, rn_setTl hρ, rn_addEvent hρ, rn_optAddMinus hρ, rn_bumpRange]

/-- **`add_interaction` is equivariant**: same outcome, renamed state -/
theorem rn_addInteraction (g : Graph) (u v : Node) (t e : Option Int) :
    (g.rename ρ).addInteraction (ρ u) (ρ v) t e =
      (((g.addInteraction u v t e).1).rename ρ, (g.addInteraction u v t e).2) := by
  unfold Graph.addInteraction
  cases t with
  | none => rfl
  | some t0 =>
    simp only [rn_effE]
    cases spanEnd t0 (g.effE e) with
    | none => rfl
    | some t1 =>
      simp only [rn_findEdge hρ]
      cases g.findEdge u v with
      | none => simp [rn_addNew hρ]
      | some ed =>
        simp only [Option.map_some, Edge.rename]
        cases ed.tl with
        | nil => rfl
        | cons ab rest =>
          obtain ⟨a, b⟩ := ab
          simp only [rn_removal]
          by_cases h1 : t0 < a
          · simp only [if_pos h1]
          · by_cases h2 : (g.removal && decide (t1 ≤ b)) = true
            · simp only [if_neg h1, if_pos h2, rn_addCovered hρ]
            · by_cases h3 : (!g.removal) = true
              · simp only [if_neg h1, if_neg h2, if_pos h3, rn_addAccum hρ]
              · by_cases h4 : t0 ≤ b + 1
                · simp only [if_neg h1, if_neg h2, if_neg h3, if_pos h4, rn_addExtend hρ]
                · simp only [if_neg h1, if_neg h2, if_neg h3, if_neg h4, rn_addAppend hρ]

/-! ### queries -/

omit hρ in
@[simp] theorem rn_ids (g : Graph) : (g.rename ρ).ids = g.ids := rfl

omit hρ in
@[simp] theorem rn_presenceTest (g : Graph) (tl : List Span) (t : Int) :
    (g.rename ρ).presenceTest tl t = g.presenceTest tl t := rfl

theorem rn_hasInteraction (g : Graph) (u v : Node) (t : Option Int) :
    (g.rename ρ).hasInteraction (ρ u) (ρ v) t = g.hasInteraction u v t := by
  unfold Graph.hasInteraction
  rw [rn_findEdge hρ]
  cases g.findEdge u v with
  | none => rfl
  | some e => cases t <;> simp [Edge.rename]

theorem rn_present (g : Graph) (u v : Node) (t : Option Int) :
    (g.rename ρ).present (ρ u) (ρ v) t = g.present u v t := by
  cases t <;> simp [Graph.present, rn_hasInteraction hρ]

theorem rn_succs (g : Graph) (n : Node) : (g.rename ρ).succs (ρ n) = (g.succs n).map ρ := by
  unfold Graph.succs
  simp only [rn_edges, rn_directed, List.filterMap_map, List.map_filterMap]
  apply congrArg (fun f => List.filterMap f g.edges)
  funext e
  simp only [Function.comp, Edge.rename, rn_beq hρ]
  split
  · rfl
  · split <;> rfl

theorem rn_preds (g : Graph) (n : Node) : (g.rename ρ).preds (ρ n) = (g.preds n).map ρ := by
  unfold Graph.preds
  simp only [rn_edges, List.filterMap_map, List.map_filterMap]
  apply congrArg (fun f => List.filterMap f g.edges)
  funext e
  simp only [Function.comp, Edge.rename, rn_beq hρ]
  split <;> rfl

theorem rn_neighbors (g : Graph) (n : Node) (t : Option Int) :
    (g.rename ρ).neighbors (ρ n) t = (g.neighbors n t).map ρ := by
  unfold Graph.neighbors
  rw [rn_succs hρ, List.filter_map]
  congr 1
  apply congrArg (fun p => List.filter p (g.succs n))
  funext m
  simp [Function.comp, rn_present hρ]

theorem rn_predecessors (g : Graph) (n : Node) (t : Option Int) :
    (g.rename ρ).predecessors (ρ n) t = (g.predecessors n t).map ρ := by
  unfold Graph.predecessors
  rw [rn_preds hρ, List.filter_map]
  congr 1
  apply congrArg (fun p => List.filter p (g.preds n))
  funext m
  simp [Function.comp, rn_present hρ]

omit hρ in
theorem rn_nodeList (g : Graph) : (g.rename ρ).nodeList = g.nodeList.map ρ := by
  simp [Graph.nodeList, List.map_map, Function.comp_def]

theorem rn_outDegree (g : Graph) (n : Node) (t : Option Int) : (g.rename ρ).outDegree (ρ n) t = g.outDegree n t := by
  simp [Graph.outDegree, rn_neighbors hρ]

theorem rn_inDegree (g : Graph) (n : Node) (t : Option Int) : (g.rename ρ).inDegree (ρ n) t = g.inDegree n t := by
  simp [Graph.inDegree, rn_predecessors hρ]

theorem rn_degree (g : Graph) (n : Node) (t : Option Int) : (g.rename ρ).degree (ρ n) t = g.degree n t := by
  simp [Graph.degree, rn_outDegree hρ, rn_inDegree hρ]

theorem rn_contains (l : List Node) (m : Node) : (l.map ρ).contains (ρ m) = l.contains m := by
  induction l with
  | nil => rfl
  | cons x xs ih =>
    simp only [List.map_cons, List.contains_cons, ih]
    have : (ρ m == ρ x) = (m == x) := rn_beq hρ m x
    rw [this]

theorem rn_interactionsGo (g : Graph) (t : Option Int) (l seen : List Node) :
    (g.rename ρ).interactionsGo t (l.map ρ) (seen.map ρ) =
      (g.interactionsGo t l seen).map (fun p => (ρ p.1, ρ p.2)) := by
  induction l generalizing seen with
  | nil => rfl
  | cons n rest ih =>
    simp only [List.map_cons, Graph.interactionsGo, List.map_append]
    have := ih (n :: seen)
    simp only [List.map_cons] at this
    rw [this, rn_succs hρ, List.filter_map, List.map_map, List.map_map]
    congr 1
    have hf : ((fun m => !(seen.map ρ).contains m && (g.rename ρ).present (ρ n) m t) ∘ ρ) =
        (fun m => !seen.contains m && g.present n m t) := by
      funext m
      simp only [Function.comp, rn_contains hρ, rn_present hρ]
    rw [hf]
    rfl

theorem rn_interactions_all (g : Graph) (t : Option Int) :
    (g.rename ρ).interactions none t = (g.interactions none t).map (fun p => (ρ p.1, ρ p.2)) := by
  unfold Graph.interactions Graph.nbunch
  simp only [rn_nodeList]
  exact rn_interactionsGo hρ g t g.nodeList []

theorem rn_outInteractions_all (g : Graph) (t : Option Int) :
    (g.rename ρ).outInteractions none t = (g.outInteractions none t).map (fun p => (ρ p.1, ρ p.2)) := by
  unfold Graph.outInteractions Graph.nbunch
  simp only [rn_nodeList, List.flatMap_map, List.map_flatMap, rn_neighbors hρ, List.map_map]
  rfl

theorem rn_nodesAt (g : Graph) (t : Option Int) : (g.rename ρ).nodesAt t = (g.nodesAt t).map ρ := by
  cases t with
  | none => simp [Graph.nodesAt, rn_nodeList]
  | some t =>
    simp only [Graph.nodesAt, rn_nodeList, List.filter_map]
    congr 1
    apply congrArg (fun p => List.filter p g.nodeList)
    funext n
    simp [Function.comp, rn_degree hρ]

theorem rn_hasNode (g : Graph) (n : Node) (t : Option Int) : (g.rename ρ).hasNode (ρ n) t = g.hasNode n t := by
  cases t <;> simp [Graph.hasNode, rn_hasNodeFlat hρ, rn_degree hρ]

theorem rn_timeline (g : Graph) (u v : Node) : (g.rename ρ).timeline (ρ u) (ρ v) = g.timeline u v := by
  unfold Graph.timeline
  rw [rn_findEdge hρ]
  cases g.findEdge u v <;> simp [Edge.rename]

/-! ### derived graphs -/

/-- a list of `add_interaction` calls with renamed endpoints -/
def rnCalls (ρ : Node → Node) (calls : List (Node × Node × Int × Option Int)) : List (Node × Node × Int × Option Int) :=
  calls.map (fun c => (ρ c.1, ρ c.2.1, c.2.2))

theorem rn_addMany (calls : List (Node × Node × Int × Option Int)) : ∀ (g : Graph),
    (g.rename ρ).addMany (rnCalls ρ calls) = (((g.addMany calls).1).rename ρ, (g.addMany calls).2) := by
  induction calls with
  | nil => intro g; rfl
  | cons c rest ih =>
    intro g
    obtain ⟨u, v, t, e⟩ := c
    simp only [rnCalls, List.map_cons, Graph.addMany]
    rw [rn_addInteraction hρ]
    cases h : g.addInteraction u v (some t) e with
    | mk g' err =>
      cases err with
      | none => simpa [rnCalls] using ih g'
      | some er => rfl

theorem rn_interactionsData (g : Graph) :
    (g.rename ρ).interactionsData = g.interactionsData.map (fun d => (ρ d.1, ρ d.2.1, d.2.2)) := by
  unfold Graph.interactionsData
  rw [rn_interactions_all hρ]
  simp [List.map_map, Function.comp_def, rn_timeline hρ]

theorem rn_outInteractionsData (g : Graph) :
    (g.rename ρ).outInteractionsData = g.outInteractionsData.map (fun d => (ρ d.1, ρ d.2.1, d.2.2)) := by
  unfold Graph.outInteractionsData
  rw [rn_outInteractions_all hρ]
  simp [List.map_map, Function.comp_def, rn_timeline hρ]

omit hρ in
theorem rn_sliceCalls (a b : Int) (d : List (Node × Node × List Span)) :
    sliceCalls a b (d.map (fun x => (ρ x.1, ρ x.2.1, x.2.2))) = rnCalls ρ (sliceCalls a b d) := by
  unfold sliceCalls rnCalls
  simp only [List.flatMap_map, List.map_flatMap, List.map_filterMap]
  apply congrArg (fun f => List.flatMap f d)
  funext x
  obtain ⟨u, v, tl⟩ := x
  apply congrArg (fun f => List.filterMap f tl)
  funext s
  obtain ⟨lo, hi⟩ := s
  cases clip a b lo hi <;> simp

theorem rn_copyAttrs (src dst : List (Node × Nat)) :
    copyAttrs (src.map (fun p => (ρ p.1, p.2))) (dst.map (fun p => (ρ p.1, p.2))) =
      (copyAttrs src dst).map (fun p => (ρ p.1, p.2)) := by
  unfold copyAttrs
  simp only [List.map_map]
  apply List.map_congr_left
  intro p _
  simp only [Function.comp, List.find?_map]
  have : ((fun q : Node × Nat => q.1 == ρ p.1) ∘ fun p => (ρ p.1, p.2)) = (fun q : Node × Nat => q.1 == p.1) := by
    funext q; simp [Function.comp, rn_beq hρ]
  rw [this]
  cases src.find? (fun q => q.1 == p.1) <;> simp

theorem rn_timeSlice_aux (g : Graph) (a b : Int) (d : List (Node × Node × List Span)) :
    (match (Graph.empty g.directed true).addMany (sliceCalls a b (d.map (fun x => (ρ x.1, ρ x.2.1, x.2.2)))) with
      | (_, some e) => (Except.error e : Except Err Graph)
      | (h, none) => .ok { h with nodes := copyAttrs (g.rename ρ).nodes h.nodes }) =
    Except.map (Graph.rename ρ)
      (match (Graph.empty g.directed true).addMany (sliceCalls a b d) with
      | (_, some e) => (Except.error e : Except Err Graph)
      | (h, none) => .ok { h with nodes := copyAttrs g.nodes h.nodes }) := by
  rw [rn_sliceCalls]
  have := rn_addMany hρ (sliceCalls a b d) (Graph.empty g.directed true)
  rw [rn_empty] at this
  rw [this]
  cases h : (Graph.empty g.directed true).addMany (sliceCalls a b d) with
  | mk h' err =>
    cases err with
    | some e => rfl
    | none =>
      simp only [Except.map, rn_nodes]
      congr 1
      simp [Graph.rename, rn_copyAttrs hρ]

theorem rn_sliceData (g : Graph) :
    (if (g.rename ρ).directed = true then (g.rename ρ).outInteractionsData else (g.rename ρ).interactionsData) =
      (if g.directed = true then g.outInteractionsData else g.interactionsData).map (fun d => (ρ d.1, ρ d.2.1, d.2.2)) := by
  split
  · rename_i h
    rw [if_pos (show g.directed = true from h)]
    exact rn_outInteractionsData hρ g
  · rename_i h
    rw [if_neg (show ¬ g.directed = true from h)]
    exact rn_interactionsData hρ g

/-- **`time_slice` is equivariant** -/
theorem rn_timeSlice (g : Graph) (a : Int) (b : Option Int) :
    (g.rename ρ).timeSlice a b = (g.timeSlice a b).map (Graph.rename ρ) := by
  unfold Graph.timeSlice
  by_cases hw : (b.isSome && decide (b.getD a < a)) = true
  · simp only [if_pos hw]
    rfl
  · simp only [if_neg hw]
    rw [rn_sliceData hρ g]
    exact rn_timeSlice_aux hρ g a (b.getD a) _

/-! ### the temporal DAG and the path enumeration -/

omit hρ in
theorem rn_contains_gen {α β : Type} [BEq α] [LawfulBEq α] [BEq β] [LawfulBEq β] (f : α → β)
    (hf : Function.Injective f) (l : List α) (x : α) : (l.map f).contains (f x) = l.contains x := by
  induction l with
  | nil => rfl
  | cons y ys ih =>
    simp only [List.map_cons, List.contains_cons, ih]
    congr 1
    rw [Bool.eq_iff_iff]
    simp only [beq_iff_eq]
    exact ⟨fun h => hf h, fun h => h ▸ rfl⟩

omit hρ in
theorem rn_insertNew {α β : Type} [BEq α] [LawfulBEq α] [BEq β] [LawfulBEq β] (f : α → β)
    (hf : Function.Injective f) (l : List α) (x : α) : insertNew (l.map f) (f x) = (insertNew l x).map f := by
  unfold insertNew
  rw [rn_contains_gen f hf]
  split <;> simp

omit hρ in
theorem rn_foldl_insertNew {α β : Type} [BEq α] [LawfulBEq α] [BEq β] [LawfulBEq β] (f : α → β)
    (hf : Function.Injective f) (xs : List α) : ∀ acc : List α,
    (xs.map f).foldl insertNew (acc.map f) = (xs.foldl insertNew acc).map f := by
  induction xs with
  | nil => intro acc; rfl
  | cons x xs ih =>
    intro acc
    simp only [List.map_cons, List.foldl_cons, rn_insertNew f hf, ih]

omit hρ in
theorem mem_insertNew' {α : Type} [BEq α] [LawfulBEq α] {l : List α} {x y : α} :
    y ∈ insertNew l x ↔ y ∈ l ∨ y = x := by
  unfold insertNew
  split
  · rename_i h
    constructor
    · exact Or.inl
    · rintro (h' | rfl)
      · exact h'
      · exact List.contains_iff_mem.mp h
  · simp

omit hρ in
theorem mem_foldl_insertNew' {α : Type} [BEq α] [LawfulBEq α] {l acc : List α} {y : α} :
    y ∈ l.foldl insertNew acc ↔ y ∈ acc ∨ y ∈ l := by
  induction l generalizing acc with
  | nil => simp
  | cons a l ih =>
    simp only [List.foldl_cons, ih, mem_insertNew', List.mem_cons]
    constructor
    · rintro ((h | h) | h)
      · exact Or.inl h
      · exact Or.inr (Or.inl h)
      · exact Or.inr (Or.inr h)
    · rintro (h | h | h)
      · exact Or.inl (Or.inl h)
      · exact Or.inl (Or.inr h)
      · exact Or.inr h

def rnOcc (ρ : Node → Node) (o : Occ) : Occ := (ρ o.1, o.2)
def rnHop (ρ : Node → Node) (h : Hop) : Hop := (ρ h.1, ρ h.2.1, h.2.2)
def rnEdge (ρ : Node → Node) (e : Occ × Occ) : Occ × Occ := (rnOcc ρ e.1, rnOcc ρ e.2)

theorem rnOcc_inj : Function.Injective (rnOcc ρ) := by
  intro a b h
  simp only [rnOcc, Prod.mk.injEq] at h
  exact Prod.ext (hρ h.1) h.2

theorem rnHop_inj : Function.Injective (rnHop ρ) := by
  intro a b h
  simp only [rnHop, Prod.mk.injEq] at h
  exact Prod.ext (hρ h.1) (Prod.ext (hρ h.2.1) h.2.2)

theorem rnEdge_inj : Function.Injective (rnEdge ρ) := by
  intro a b h
  simp only [rnEdge, Prod.mk.injEq] at h
  exact Prod.ext (rnOcc_inj hρ h.1) (rnOcc_inj hρ h.2)

def Dag.rename (ρ : Node → Node) (d : Dag) : Dag :=
  { edges := d.edges.map (rnEdge ρ), sources := d.sources.map (rnOcc ρ), targets := d.targets.map (rnOcc ρ),
    active := d.active.map (rnOcc ρ) }

theorem rn_newTargets (v : Option Node) (nb : List Node) (tid : Int) :
    newTargets (v.map ρ) (nb.map ρ) tid = (newTargets v nb tid).map (rnOcc ρ) := by
  cases v with
  | none => simp [newTargets, rnOcc, List.map_map, Function.comp_def]
  | some v =>
    simp only [newTargets, Option.map_some, rn_contains hρ]
    split <;> simp [rnOcc]

/-- the inner loop of `dagStep` over the active occurrences -/
def rnDagInner (g : Graph) (v : Option Node) (tid : Int)
    (acc : List (Occ × Occ) × List Occ × List Occ × List Occ) (an : Occ) :
    List (Occ × Occ) × List Occ × List Occ × List Occ :=
  let (edges, targets, toAdd, toRemove) := acc
  let nb := g.neighbors an.1 (some tid)
  let targets := (newTargets v nb tid).foldl insertNew targets
  let toRemove := if nb.isEmpty then toRemove ++ [an] else toRemove
  let edges := (nb.map (fun n => (an, (n, tid)))).foldl insertNew edges
  (edges, targets, toAdd ++ nb.map (fun n => (n, tid)), toRemove)

def rnAcc (ρ : Node → Node) (acc : List (Occ × Occ) × List Occ × List Occ × List Occ) :
    List (Occ × Occ) × List Occ × List Occ × List Occ :=
  (acc.1.map (rnEdge ρ), acc.2.1.map (rnOcc ρ), acc.2.2.1.map (rnOcc ρ), acc.2.2.2.map (rnOcc ρ))

theorem rn_dagInner (g : Graph) (v : Option Node) (tid : Int)
    (acc : List (Occ × Occ) × List Occ × List Occ × List Occ) (an : Occ) :
    rnDagInner (g.rename ρ) (v.map ρ) tid (rnAcc ρ acc) (rnOcc ρ an) = rnAcc ρ (rnDagInner g v tid acc an) := by
  obtain ⟨edges, targets, toAdd, toRemove⟩ := acc
  simp only [rnDagInner, rnAcc, rnOcc, rn_neighbors hρ]
  have hT := rn_foldl_insertNew (rnOcc ρ) (rnOcc_inj hρ) (newTargets v (g.neighbors an.1 (some tid)) tid) targets
  have hE := rn_foldl_insertNew (rnEdge ρ) (rnEdge_inj hρ)
    ((g.neighbors an.1 (some tid)).map (fun n => (an, (n, tid)))) edges
  rw [rn_newTargets hρ, hT]
  have hmapE : (List.map ρ (g.neighbors an.1 (some tid))).map (fun n => ((ρ an.1, an.2), (n, tid))) =
      ((g.neighbors an.1 (some tid)).map (fun n => (an, (n, tid)))).map (rnEdge ρ) := by
    simp [List.map_map, Function.comp_def, rnEdge, rnOcc]
  rw [hmapE, hE]
  simp only [List.isEmpty_map, List.map_append, List.map_map, Prod.mk.injEq, true_and]
  refine ⟨?_, ?_⟩
  · simp [Function.comp_def, rnOcc]
  · split <;> simp [rnOcc]

theorem rn_dagInner_foldl (g : Graph) (v : Option Node) (tid : Int) (act : List Occ) :
    ∀ acc, (act.map (rnOcc ρ)).foldl (rnDagInner (g.rename ρ) (v.map ρ) tid) (rnAcc ρ acc) =
      rnAcc ρ (act.foldl (rnDagInner g v tid) acc) := by
  induction act with
  | nil => intro acc; rfl
  | cons a rest ih =>
    intro acc
    simp only [List.map_cons, List.foldl_cons, rn_dagInner hρ, ih]

omit hρ in
theorem rn_dagStep_eq (g : Graph) (u : Node) (v : Option Node) (st : Dag) (tid : Int) :
    dagStep g u v st tid =
      (let nb := g.neighbors u (some tid)
       let r := st.active.foldl (rnDagInner g v tid)
          ((nb.map (fun n => ((u, tid), (n, tid)))).foldl insertNew st.edges,
           (newTargets v nb tid).foldl insertNew st.targets, nb.map (fun n => (n, tid)), [])
       { edges := r.1, sources := if nb.isEmpty then st.sources else insertNew st.sources (u, tid),
         targets := r.2.1,
         active := (r.2.2.1.foldl insertNew st.active).filter (fun a => !r.2.2.2.contains a) }) := rfl

theorem rn_dagStep (g : Graph) (u : Node) (v : Option Node) (st : Dag) (tid : Int) :
    dagStep (g.rename ρ) (ρ u) (v.map ρ) (st.rename ρ) tid = (dagStep g u v st tid).rename ρ := by
  rw [rn_dagStep_eq, rn_dagStep_eq]
  simp only [rn_neighbors hρ, Dag.rename]
  have hE := rn_foldl_insertNew (rnEdge ρ) (rnEdge_inj hρ)
    ((g.neighbors u (some tid)).map (fun n => ((u, tid), (n, tid)))) st.edges
  have hT := rn_foldl_insertNew (rnOcc ρ) (rnOcc_inj hρ) (newTargets v (g.neighbors u (some tid)) tid) st.targets
  have hmapE : (List.map ρ (g.neighbors u (some tid))).map (fun n => ((ρ u, tid), (n, tid))) =
      ((g.neighbors u (some tid)).map (fun n => ((u, tid), (n, tid)))).map (rnEdge ρ) := by
    simp [List.map_map, Function.comp_def, rnEdge, rnOcc]
  have hmapA : (List.map ρ (g.neighbors u (some tid))).map (fun n => ((n, tid) : Occ)) =
      ((g.neighbors u (some tid)).map (fun n => ((n, tid) : Occ))).map (rnOcc ρ) := by
    simp [List.map_map, Function.comp_def, rnOcc]
  rw [hmapE, hE, rn_newTargets hρ, hT, hmapA]
  have hfold := rn_dagInner_foldl hρ g v tid st.active
    ((((g.neighbors u (some tid)).map (fun n => ((u, tid), (n, tid)))).foldl insertNew st.edges),
     ((newTargets v (g.neighbors u (some tid)) tid).foldl insertNew st.targets),
     ((g.neighbors u (some tid)).map (fun n => ((n, tid) : Occ))), [])
  simp only [rnAcc, List.map_nil] at hfold
  rw [hfold]
  simp only [List.isEmpty_map]
  congr 1
  · split
    · rfl
    · exact rn_insertNew (rnOcc ρ) (rnOcc_inj hρ) st.sources (u, tid)
  · rw [rn_foldl_insertNew (rnOcc ρ) (rnOcc_inj hρ), List.filter_map]
    congr 1
    apply congrArg (fun p => List.filter p _)
    funext a
    simp only [Function.comp, rn_contains_gen (rnOcc ρ) (rnOcc_inj hρ)]

theorem rn_dagFold (g : Graph) (u : Node) (v : Option Node) (w : List Int) : ∀ st : Dag,
    w.foldl (dagStep (g.rename ρ) (ρ u) (v.map ρ)) (st.rename ρ) = (w.foldl (dagStep g u v) st).rename ρ := by
  induction w with
  | nil => intro st; rfl
  | cons t w ih => intro st; simp only [List.foldl_cons, rn_dagStep hρ, ih]

/-- **`temporal_dag` is equivariant** -/
theorem rn_temporalDag (g : Graph) (u : Node) (v : Option Node) (start stop : Option Int) :
    (g.rename ρ).temporalDag (ρ u) (v.map ρ) start stop = (g.temporalDag u v start stop).map (Dag.rename ρ) := by
  unfold Graph.temporalDag
  simp only [rn_ids]
  cases minList g.ids with
  | none => rfl
  | some lo =>
    cases maxList g.ids with
    | none => rfl
    | some hi =>
      simp only
      split
      · rfl
      · have := rn_dagFold hρ g u v (g.ids.filter (fun i => decide (start.getD lo ≤ i) && decide (i ≤ stop.getD hi))) Dag.empty
        simp only [Except.map]
        rw [← this]
        rfl

theorem rn_dagNodes (d : Dag) : (d.rename ρ).nodes = d.nodes.map (rnOcc ρ) := by
  unfold Dag.nodes
  have := rn_foldl_insertNew (rnOcc ρ) (rnOcc_inj hρ) (d.edges.flatMap (fun e => [e.1, e.2])) []
  simp only [List.map_nil] at this
  rw [← this]
  congr 1
  simp [Dag.rename, List.flatMap_map, List.map_flatMap, rnEdge]

theorem rn_simplePathsGo (edges : List (Occ × Occ)) (target : Occ) (fuel : Nat) :
    ∀ (cur : Occ) (visited : List Occ),
    simplePathsGo (edges.map (rnEdge ρ)) (rnOcc ρ target) fuel (rnOcc ρ cur) (visited.map (rnOcc ρ)) =
      (simplePathsGo edges target fuel cur visited).map (List.map (rnOcc ρ)) := by
  have hinj := rnOcc_inj hρ
  have hbeq : ∀ a b : Occ, (rnOcc ρ a == rnOcc ρ b) = (a == b) := by
    intro a b
    rw [Bool.eq_iff_iff]
    simp only [beq_iff_eq]
    exact ⟨fun h => hinj h, fun h => h ▸ rfl⟩
  induction fuel with
  | zero => intro cur visited; rfl
  | succ fuel ih =>
    intro cur visited
    simp only [simplePathsGo, hbeq]
    split
    · rfl
    · have hnext : ((edges.map (rnEdge ρ)).filter (fun e => e.1 == rnOcc ρ cur)).map (·.2) =
          (((edges.filter (fun e => e.1 == cur)).map (·.2))).map (rnOcc ρ) := by
        rw [List.filter_map, List.map_map, List.map_map]
        have : ((fun e : Occ × Occ => e.1 == rnOcc ρ cur) ∘ rnEdge ρ) = (fun e : Occ × Occ => e.1 == cur) := by
          funext e; simp only [Function.comp, rnEdge, hbeq]
        rw [this]
        rfl
      rw [hnext, List.filter_map, List.flatMap_map, List.map_flatMap]
      have hp : ((fun n => !(List.map (rnOcc ρ) visited).contains n && n != rnOcc ρ cur) ∘ rnOcc ρ) =
          (fun n => !visited.contains n && n != cur) := by
        funext n
        simp only [Function.comp, rn_contains_gen (rnOcc ρ) hinj, bne, hbeq]
      rw [hp]
      apply congrArg (fun f => List.flatMap f _)
      funext n
      have := ih n (cur :: visited)
      simp only [List.map_cons] at this
      simp only [Function.comp, this, List.map_map]
      apply List.map_congr_left
      intro q _
      simp only [Function.comp, List.map_cons]

theorem rn_simplePaths (d : Dag) (s t : Occ) :
    simplePaths (d.rename ρ) (rnOcc ρ s) (rnOcc ρ t) = (simplePaths d s t).map (List.map (rnOcc ρ)) := by
  unfold simplePaths
  rw [rn_dagNodes hρ, List.length_map]
  have := rn_simplePathsGo hρ d.edges t (d.nodes.length + 1) s []
  simpa [Dag.rename] using this

omit hρ in
theorem rn_hopsOf : ∀ p : List Occ, hopsOf (p.map (rnOcc ρ)) = (hopsOf p).map (rnHop ρ)
  | [] => rfl
  | [_] => rfl
  | a :: b :: rest => by
    have := rn_hopsOf (b :: rest)
    simp only [List.map_cons] at this
    simp only [List.map_cons, hopsOf, this]
    rfl

theorem rn_pingPongOk : ∀ p : TPath, pingPongOk (p.map (rnHop ρ)) = pingPongOk p
  | [] => rfl
  | [_] => rfl
  | a :: b :: rest => by
    have := rn_pingPongOk (b :: rest)
    simp only [List.map_cons] at this
    simp only [List.map_cons, pingPongOk]
    rw [this]
    simp only [rnHop, rn_beq hρ]

omit hρ in
theorem rn_pathKey (p : TPath) (hne : p ≠ []) : pathKey (p.map (rnHop ρ)) = (ρ (pathKey p).1, ρ (pathKey p).2) := by
  unfold pathKey
  cases p with
  | nil => exact absurd rfl hne
  | cons a rest =>
    have hl : ((a :: rest).map (rnHop ρ)).getLast? = ((a :: rest).getLast?).map (rnHop ρ) :=
      List.getLast?_map
    rw [hl]
    cases h : (a :: rest).getLast? with
    | none => simp at h
    | some b => simp [rnHop]

def rnGroups (ρ : Node → Node) (r : List ((Node × Node) × List TPath)) : List ((Node × Node) × List TPath) :=
  r.map (fun kp => ((ρ kp.1.1, ρ kp.1.2), kp.2.map (List.map (rnHop ρ))))

theorem rn_keyBeq (a b : Node × Node) : ((ρ a.1, ρ a.2) == (ρ b.1, ρ b.2)) = (a == b) := by
  rw [Bool.eq_iff_iff]
  simp only [beq_iff_eq, Prod.mk.injEq]
  constructor
  · rintro ⟨h1, h2⟩; exact Prod.ext (hρ h1) (hρ h2)
  · rintro rfl; exact ⟨rfl, rfl⟩

theorem rn_groupFold (ps : List TPath) (hne : ∀ p ∈ ps, p ≠ []) : ∀ acc : List ((Node × Node) × List TPath),
    (ps.map (List.map (rnHop ρ))).foldl (fun acc p =>
      let k := pathKey p
      if acc.any (fun e => e.1 == k) then acc.map (fun e => if e.1 == k then (e.1, e.2 ++ [p]) else e)
      else acc ++ [(k, [p])]) (rnGroups ρ acc) =
    rnGroups ρ (ps.foldl (fun acc p =>
      let k := pathKey p
      if acc.any (fun e => e.1 == k) then acc.map (fun e => if e.1 == k then (e.1, e.2 ++ [p]) else e)
      else acc ++ [(k, [p])]) acc) := by
  induction ps with
  | nil => intro acc; rfl
  | cons p rest ih =>
    intro acc
    simp only [List.map_cons, List.foldl_cons]
    rw [← ih (fun q hq => hne q (List.mem_cons_of_mem _ hq))]
    congr 1
    have hk := rn_pathKey (ρ := ρ) p (hne p List.mem_cons_self)
    simp only [hk]
    have hany : (rnGroups ρ acc).any (fun e => e.1 == (ρ (pathKey p).1, ρ (pathKey p).2)) =
        acc.any (fun e => e.1 == pathKey p) := by
      simp only [rnGroups, List.any_map, Function.comp_def]
      apply congrArg (fun f => List.any acc f)
      funext e
      exact rn_keyBeq hρ e.1 (pathKey p)
    rw [hany]
    split
    · simp only [rnGroups, List.map_map]
      apply List.map_congr_left
      intro e _
      simp only [Function.comp]
      have := rn_keyBeq hρ e.1 (pathKey p)
      rw [this]
      split <;> simp
    · simp [rnGroups]

theorem rn_groupPaths (ps : List TPath) (hne : ∀ p ∈ ps, p ≠ []) :
    groupPaths (ps.map (List.map (rnHop ρ))) = rnGroups ρ (groupPaths ps) := by
  unfold groupPaths
  exact rn_groupFold hρ ps hne []

omit hρ in
theorem rn_isEmpty_map {α β : Type} (f : α → β) (l : List α) : (l.map f).isEmpty = l.isEmpty := by
  cases l <;> rfl

theorem rnPath_inj : Function.Injective (List.map (rnHop ρ)) := by
  intro a b h
  exact (List.map_inj_right (fun x y hxy => rnHop_inj hρ hxy)).mp h

/-- **`time_respecting_paths` is equivariant** -/
theorem rn_timeRespectingPaths (g : Graph) (u : Node) (v : Option Node) (start stop : Option Int) :
    (g.rename ρ).timeRespectingPaths (ρ u) (v.map ρ) start stop =
      (g.timeRespectingPaths u v start stop).map (rnGroups ρ) := by
  unfold Graph.timeRespectingPaths
  rw [rn_hasNode hρ, rn_temporalDag hρ]
  split
  · rfl
  · cases g.temporalDag u v start stop with
    | error e => rfl
    | ok d =>
      simp only [Except.map]
      congr 1
      -- raw paths
      have hraw : ((d.rename ρ).sources.flatMap (fun s => (d.rename ρ).targets.map (fun t => (s, t)))).flatMap
            (fun (x : Occ × Occ) => (simplePaths (d.rename ρ) x.1 x.2).map hopsOf) =
          ((d.sources.flatMap (fun s => d.targets.map (fun t => (s, t)))).flatMap
            (fun (x : Occ × Occ) => (simplePaths d x.1 x.2).map hopsOf)).map (List.map (rnHop ρ)) := by
        simp only [Dag.rename, List.flatMap_map, List.map_flatMap, List.flatMap_assoc, List.map_map]
        apply congrArg (fun f => List.flatMap f d.sources)
        funext s
        apply congrArg (fun f => List.flatMap f d.targets)
        funext t
        have := rn_simplePaths hρ d s t
        simp only [Dag.rename] at this
        simp only [Function.comp, List.flatMap_cons, List.flatMap_nil, List.append_nil, this, List.map_map]
        apply List.map_congr_left
        intro q _
        exact rn_hopsOf q
      have hkept : (List.filter (fun pt => pingPongOk pt && !pt.isEmpty)
            (((d.sources.flatMap (fun s => d.targets.map (fun t => (s, t)))).flatMap
              (fun (x : Occ × Occ) => (simplePaths d x.1 x.2).map hopsOf)).map (List.map (rnHop ρ)))) =
          (List.filter (fun pt => pingPongOk pt && !pt.isEmpty)
            ((d.sources.flatMap (fun s => d.targets.map (fun t => (s, t)))).flatMap
              (fun (x : Occ × Occ) => (simplePaths d x.1 x.2).map hopsOf))).map (List.map (rnHop ρ)) := by
        rw [List.filter_map]
        congr 1
        apply congrArg (fun p => List.filter p _)
        funext pt
        simp only [Function.comp, rn_pingPongOk hρ, rn_isEmpty_map]
      have hraw' : (List.flatMap (fun (x : Occ × Occ) => match x with | (s, t) => (simplePaths (d.rename ρ) s t).map hopsOf)
            ((d.rename ρ).sources.flatMap (fun s => (d.rename ρ).targets.map (fun t => (s, t))))) =
          ((d.rename ρ).sources.flatMap (fun s => (d.rename ρ).targets.map (fun t => (s, t)))).flatMap
            (fun (x : Occ × Occ) => (simplePaths (d.rename ρ) x.1 x.2).map hopsOf) := rfl
      have hraw0 : (List.flatMap (fun (x : Occ × Occ) => match x with | (s, t) => (simplePaths d s t).map hopsOf)
            (d.sources.flatMap (fun s => d.targets.map (fun t => (s, t))))) =
          (d.sources.flatMap (fun s => d.targets.map (fun t => (s, t)))).flatMap
            (fun (x : Occ × Occ) => (simplePaths d x.1 x.2).map hopsOf) := rfl
      rw [hraw', hraw, hkept, hraw0]
      have hded := rn_foldl_insertNew (List.map (rnHop ρ)) (rnPath_inj hρ)
        (List.filter (fun pt => pingPongOk pt && !pt.isEmpty)
          ((d.sources.flatMap (fun s => d.targets.map (fun t => (s, t)))).flatMap
            (fun (x : Occ × Occ) => (simplePaths d x.1 x.2).map hopsOf))) []
      simp only [List.map_nil] at hded
      rw [hded]
      apply rn_groupPaths hρ
      intro p hp
      rw [mem_foldl_insertNew'] at hp
      rcases hp with hp | hp
      · simp at hp
      · simp only [List.mem_filter, Bool.and_eq_true, Bool.not_eq_true', List.isEmpty_eq_false_iff] at hp
        exact hp.2.2

/-- the dictionary update of `all_time_respecting_paths`: `res[(u, v)] = path` -/
def rnAtrpMerge (u : Node) (res : List ((Node × Node) × List TPath)) (kp : (Node × Node) × List TPath) :
    List ((Node × Node) × List TPath) :=
  let k := (u, kp.1.2)
  if res.any (fun e => e.1 == k) then res.map (fun e => if e.1 == k then (k, kp.2) else e)
  else res ++ [(k, kp.2)]

theorem rn_atrpMerge (u : Node) (res : List ((Node × Node) × List TPath)) (kp : (Node × Node) × List TPath) :
    rnAtrpMerge (ρ u) (rnGroups ρ res) ((ρ kp.1.1, ρ kp.1.2), kp.2.map (List.map (rnHop ρ))) =
      rnGroups ρ (rnAtrpMerge u res kp) := by
  unfold rnAtrpMerge
  have hany : (rnGroups ρ res).any (fun e => e.1 == (ρ u, ρ kp.1.2)) = res.any (fun e => e.1 == (u, kp.1.2)) := by
    simp only [rnGroups, List.any_map, Function.comp_def]
    apply congrArg (fun f => List.any res f)
    funext e
    exact rn_keyBeq hρ e.1 (u, kp.1.2)
  simp only [hany]
  split
  · simp only [rnGroups, List.map_map]
    apply List.map_congr_left
    intro e _
    simp only [Function.comp]
    have := rn_keyBeq hρ e.1 (u, kp.1.2)
    simp only at this
    rw [this]
    split <;> rfl
  · simp [rnGroups]

theorem rn_atrpMerge_foldl (u : Node) (paths : List ((Node × Node) × List TPath)) :
    ∀ res, (rnGroups ρ paths).foldl (rnAtrpMerge (ρ u)) (rnGroups ρ res) = rnGroups ρ (paths.foldl (rnAtrpMerge u) res) := by
  induction paths with
  | nil => intro res; rfl
  | cons kp rest ih =>
    intro res
    simp only [rnGroups, List.map_cons, List.foldl_cons]
    have := rn_atrpMerge hρ u res kp
    simp only [rnGroups] at this ih
    rw [this]
    exact ih _

/-- one iteration of `for u in G.nodes(t=min_t)` -/
def rnAtrpStep (g : Graph) (start stop : Option Int) (res : List ((Node × Node) × List TPath)) (u : Node) :
    Except Err (List ((Node × Node) × List TPath)) :=
  match g.timeRespectingPaths u none start stop with
  | .error e => .error e
  | .ok paths => .ok (paths.foldl (rnAtrpMerge u) res)

theorem rn_atrpFold (g : Graph) (start stop : Option Int) (us : List Node) :
    ∀ res, (us.map ρ).foldlM (rnAtrpStep (g.rename ρ) start stop) (rnGroups ρ res) =
      (us.foldlM (rnAtrpStep g start stop) res).map (rnGroups ρ) := by
  induction us with
  | nil => intro res; rfl
  | cons u rest ih =>
    intro res
    simp only [List.map_cons, List.foldlM_cons, bind, Except.bind]
    unfold rnAtrpStep
    have h := rn_timeRespectingPaths hρ g u none start stop
    simp only [Option.map_none] at h
    rw [h]
    cases g.timeRespectingPaths u none start stop with
    | error e => rfl
    | ok paths =>
      simp only [Except.map]
      rw [rn_atrpMerge_foldl hρ]
      exact ih _

/-- **`all_time_respecting_paths` is equivariant** -/
theorem rn_allTimeRespectingPaths (g : Graph) (start stop minT : Option Int) :
    (g.rename ρ).allTimeRespectingPaths start stop minT =
      (g.allTimeRespectingPaths start stop minT).map (rnGroups ρ) := by
  have h1 : ∀ g : Graph, g.allTimeRespectingPaths start stop minT =
      (g.nodesAt minT).foldlM (rnAtrpStep g start stop) [] := fun _ => rfl
  rw [h1, h1, rn_nodesAt hρ]
  exact rn_atrpFold hρ g start stop (g.nodesAt minT) []

/-! ### annotate_paths -/

omit hρ in
theorem rn_pathLength (p : TPath) : pathLength (p.map (rnHop ρ)) = pathLength p := by
  simp [pathLength]

omit hρ in
theorem rn_lastTime (p : TPath) : lastTime (p.map (rnHop ρ)) = lastTime p := by
  unfold lastTime
  rw [List.getLast?_map]
  cases p.getLast? <;> rfl

omit hρ in
theorem rn_firstTime (p : TPath) : firstTime (p.map (rnHop ρ)) = firstTime p := by
  unfold firstTime
  rw [List.head?_map]
  cases p.head? <;> rfl

omit hρ in
theorem rn_pathDuration (p : TPath) : pathDuration (p.map (rnHop ρ)) = pathDuration p := by
  simp [pathDuration, rn_lastTime, rn_firstTime]

omit hρ in
theorem rn_trackMin_foldl {κ : Type} (lt eq : κ → κ → Bool) (key : TPath → κ)
    (hkey : ∀ p, key (p.map (rnHop ρ)) = key p) (ps : List TPath) :
    ∀ (o : Option κ) (acc : List TPath),
    (ps.map (List.map (rnHop ρ))).foldl (trackMin lt eq key) (o, acc.map (List.map (rnHop ρ))) =
      ((ps.foldl (trackMin lt eq key) (o, acc)).1, (ps.foldl (trackMin lt eq key) (o, acc)).2.map (List.map (rnHop ρ))) := by
  induction ps with
  | nil => intro o acc; rfl
  | cons p rest ih =>
    intro o acc
    simp only [List.map_cons, List.foldl_cons]
    have hstep : trackMin lt eq key (o, acc.map (List.map (rnHop ρ))) (p.map (rnHop ρ)) =
        ((trackMin lt eq key (o, acc) p).1, (trackMin lt eq key (o, acc) p).2.map (List.map (rnHop ρ))) := by
      unfold trackMin
      cases o with
      | none => simp [hkey]
      | some m =>
        simp only [hkey]
        split
        · simp
        · split <;> simp
    rw [hstep]
    exact ih _ _

theorem rn_secondary (f : TPath → Int) (hf : ∀ p, f (p.map (rnHop ρ)) = f p) (l : List TPath) :
    secondary f (l.map (List.map (rnHop ρ))) = (secondary f l).map (List.map (rnHop ρ)) := by
  unfold secondary
  have hk := rn_foldl_insertNew (List.map (rnHop ρ)) (rnPath_inj hρ) l []
  simp only [List.map_nil] at hk
  rw [hk]
  have hm : ((l.foldl insertNew []).map (List.map (rnHop ρ))).map f = (l.foldl insertNew []).map f := by
    rw [List.map_map]
    apply List.map_congr_left
    intro p _
    exact hf p
  simp only [hm]
  cases minList ((l.foldl insertNew []).map f) with
  | none => rfl
  | some m =>
    simp only [List.filter_map]
    congr 1
    apply congrArg (fun q => List.filter q _)
    funext p
    simp [Function.comp, hf]

def Annot.rename (ρ : Node → Node) (a : Annot) : Annot :=
  { shortest := a.shortest.map (List.map (rnHop ρ)), fastest := a.fastest.map (List.map (rnHop ρ)),
    foremost := a.foremost.map (List.map (rnHop ρ)), fastestShortest := a.fastestShortest.map (List.map (rnHop ρ)),
    shortestFastest := a.shortestFastest.map (List.map (rnHop ρ)) }

/-- **`annotate_paths` is equivariant** -/
theorem rn_annotatePaths (ps : List TPath) :
    annotatePaths (ps.map (List.map (rnHop ρ))) = (annotatePaths ps).rename ρ := by
  unfold annotatePaths Annot.rename
  have h1 := rn_trackMin_foldl (ρ := ρ) (fun (a b : Nat) => decide (a < b)) (fun a b => a == b) pathLength rn_pathLength ps none []
  have h2 := rn_trackMin_foldl (ρ := ρ) (fun (a b : Int) => decide (a < b)) (fun a b => a == b) pathDuration rn_pathDuration ps none []
  have h3 := rn_trackMin_foldl (ρ := ρ) (fun (a b : Int) => decide (a < b)) (fun a b => a == b) lastTime rn_lastTime ps none []
  simp only [List.map_nil] at h1 h2 h3
  simp only [h1, h2, h3]
  rw [rn_secondary hρ pathDuration rn_pathDuration, rn_secondary hρ (fun p => (pathLength p : Int)) (fun p => by simp [rn_pathLength])]

theorem rn_selectPaths (ps : List TPath) (ptype : Nat) :
    selectPaths (annotatePaths (ps.map (List.map (rnHop ρ)))) ptype =
      (selectPaths (annotatePaths ps) ptype).map (List.map (rnHop ρ)) := by
  rw [rn_annotatePaths hρ]
  unfold selectPaths Annot.rename
  split <;> rfl

/-! ### delta-conformity -/

theorem rn_label (g : Graph) (n : Node) : (g.rename ρ).label (ρ n) = g.label n := by
  unfold Graph.label
  simp only [rn_nodes, List.find?_map]
  have : ((fun p : Node × Nat => p.1 == ρ n) ∘ fun p => (ρ p.1, p.2)) = (fun p : Node × Nat => p.1 == n) := by
    funext p; simp [Function.comp, rn_beq hρ]
  rw [this]
  cases g.nodes.find? (fun p => p.1 == n) <;> rfl

def rnDist (ρ : Node → Node) (td : List (Node × Nat)) : List (Node × Nat) := td.map (fun e => (ρ e.1, e.2))

/-- one step of the `t_distances` accumulation -/
def rnTdStep (ptype : Nat) (u : Node) (acc : List (Node × Nat)) (kp : (Node × Node) × List TPath) : List (Node × Nat) :=
  if kp.1.1 == u && kp.1.1 != kp.1.2 then
    match minNat ((selectPaths (annotatePaths kp.2) ptype).map (·.length)) with
    | some m => if acc.any (fun e => e.1 == kp.1.2) then acc.map (fun e => if e.1 == kp.1.2 then (e.1, m) else e)
                else acc ++ [(kp.1.2, m)]
    | none => acc
  else acc

omit hρ in
theorem rn_tDistances_eq (sp : List ((Node × Node) × List TPath)) (ptype : Nat) (u : Node) :
    tDistances sp ptype u = sp.foldl (rnTdStep ptype u) [] := rfl

theorem rn_tdStep (ptype : Nat) (u : Node) (acc : List (Node × Nat)) (kp : (Node × Node) × List TPath) :
    rnTdStep ptype (ρ u) (rnDist ρ acc) ((ρ kp.1.1, ρ kp.1.2), kp.2.map (List.map (rnHop ρ))) =
      rnDist ρ (rnTdStep ptype u acc kp) := by
  unfold rnTdStep
  simp only [rn_beq hρ, bne, rn_selectPaths hρ, List.map_map]
  have hl : (fun (p : TPath) => p.length) ∘ List.map (rnHop ρ) = fun (p : TPath) => p.length := by
    funext p; simp
  rw [hl]
  split
  · cases minNat ((selectPaths (annotatePaths kp.2) ptype).map (·.length)) with
    | none => rfl
    | some m =>
      simp only
      have hany : (rnDist ρ acc).any (fun e => e.1 == ρ kp.1.2) = acc.any (fun e => e.1 == kp.1.2) := by
        simp only [rnDist, List.any_map, Function.comp_def, rn_beq hρ]
      rw [hany]
      split
      · simp only [rnDist, List.map_map]
        apply List.map_congr_left
        intro e _
        simp only [Function.comp, rn_beq hρ]
        split <;> rfl
      · simp [rnDist]
  · rfl

theorem rn_tDistances (sp : List ((Node × Node) × List TPath)) (ptype : Nat) (u : Node) :
    tDistances (rnGroups ρ sp) ptype (ρ u) = rnDist ρ (tDistances sp ptype u) := by
  rw [rn_tDistances_eq, rn_tDistances_eq]
  have : ∀ acc, (rnGroups ρ sp).foldl (rnTdStep ptype (ρ u)) (rnDist ρ acc) = rnDist ρ (sp.foldl (rnTdStep ptype u) acc) := by
    induction sp with
    | nil => intro acc; rfl
    | cons kp rest ih =>
      intro acc
      simp only [rnGroups, List.map_cons, List.foldl_cons]
      rw [rn_tdStep hρ]
      exact ih _
  exact this []

omit hρ in
theorem rn_remapDistances (td : List (Node × Nat)) : remapDistances (rnDist ρ td) = rnDist ρ (remapDistances td) := by
  unfold remapDistances rnDist
  simp [List.map_map, Function.comp_def]

theorem rn_labelFrequency (g : Graph) (u : Node) (nodes : List Node) (td : List (Node × Nat)) :
    labelFrequency (g.rename ρ) (ρ u) (nodes.map ρ) (rnDist ρ td) = labelFrequency g u nodes td := by
  unfold labelFrequency
  simp only [List.map_map, List.length_map, rn_label hρ]
  congr 2
  apply List.map_congr_left
  intro v _
  simp only [Function.comp, rn_label hρ]
  have hfind : (rnDist ρ td).find? (fun e => e.1 == ρ v) = (td.find? (fun e => e.1 == v)).map (fun e => (ρ e.1, e.2)) := by
    simp only [rnDist, List.find?_map]
    congr 1
    apply congrArg (fun q => List.find? q td)
    funext e
    simp [Function.comp, rn_beq hρ]
  rw [hfind]
  have hd : (((td.find? (fun e => e.1 == v)).map (fun e => (ρ e.1, e.2))).map (·.2)).getD 0 =
      ((td.find? (fun e => e.1 == v)).map (·.2)).getD 0 := by
    cases td.find? (fun e => e.1 == v) <;> rfl
  rw [hd, rn_neighbors hρ]
  simp only [List.length_map, List.filter_map, Function.comp_def, rn_label hρ]

theorem rn_nodeScore (g : Graph) (sp : List ((Node × Node) × List TPath)) (ptype alpha : Nat) (u : Node) :
    nodeScore (g.rename ρ) (rnGroups ρ sp) ptype alpha (ρ u) = nodeScore g sp ptype alpha u := by
  unfold nodeScore
  simp only [rn_tDistances hρ, rn_remapDistances]
  have hvals : (rnDist ρ (remapDistances (tDistances sp ptype u))).map (·.2) =
      (remapDistances (tDistances sp ptype u)).map (·.2) := by
    simp [rnDist, List.map_map, Function.comp_def]
  rw [hvals]
  have hterm : ∀ d : Nat,
      labelFrequency (g.rename ρ) (ρ u)
        (((rnDist ρ (remapDistances (tDistances sp ptype u))).filter (fun e => e.2 == d)).map (·.1))
        (rnDist ρ (tDistances sp ptype u)) =
      labelFrequency g u (((remapDistances (tDistances sp ptype u)).filter (fun e => e.2 == d)).map (·.1))
        (tDistances sp ptype u) := by
    intro d
    have : ((rnDist ρ (remapDistances (tDistances sp ptype u))).filter (fun e => e.2 == d)).map (·.1) =
        (((remapDistances (tDistances sp ptype u)).filter (fun e => e.2 == d)).map (·.1)).map ρ := by
      simp [rnDist, List.filter_map, List.map_map, Function.comp_def]
    rw [this]
    exact rn_labelFrequency hρ g u _ _
  simp only [hterm]

/-- the renaming of a `delta_conformity` result: node keys renamed, scores untouched -/
def rnConf (ρ : Node → Node) (r : Option (List (Nat × List (Node × Rat)))) : Option (List (Nat × List (Node × Rat))) :=
  r.map (fun l => l.map (fun ar => (ar.1, ar.2.map (fun nv => (ρ nv.1, nv.2)))))

/-- **C20 (node renaming).** Renaming the node ids with any injective map renames the keys of the result of
    `delta_conformity` and leaves every score unchanged (same order, same exceptions). -/
theorem C20_rename_nodes (dg : Graph) (start delta : Int) (alphas : List Nat) (ptype : Nat) :
    (dg.rename ρ).deltaConformity start delta alphas ptype =
      (dg.deltaConformity start delta alphas ptype).map (rnConf ρ) := by
  unfold Graph.deltaConformity
  rw [rn_timeSlice hρ]
  cases dg.timeSlice start (some (start + delta)) with
  | error e => rfl
  | ok g =>
    simp only [Except.map, rn_ids]
    cases minList g.ids with
    | none => rfl
    | some mmid =>
      cases maxList g.ids with
      | none => rfl
      | some mid =>
        simp only
        rw [rn_allTimeRespectingPaths hρ]
        cases g.allTimeRespectingPaths (some (max start mmid)) (some (min mid (start + delta))) none with
        | error e => rfl
        | ok sp =>
          simp only [Except.map, rnConf, Option.map_some, rn_nodesAt hρ, List.map_map]
          congr 2
          apply List.map_congr_left
          intro a _
          simp only [Function.comp, List.map_map, Prod.mk.injEq, true_and]
          apply List.map_congr_left
          intro u _
          simp only [Function.comp, rn_nodeScore hρ]

end
end Dynetx
