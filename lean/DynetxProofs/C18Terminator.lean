-- C18 (text layer): line terminators.  A row is read the same with or without its terminator ('\n', '\r\n', or any run
-- of white space), so a file whose last row has no final newline, or a CRLF file, gives the same graph.
import DynetxProofs.C18Text

namespace Dynetx

open List

theorem c18x_stripL_ws_append (w x : List Char) (hw : ∀ c ∈ w, isWs c = true) : stripL (w ++ x) = stripL x := by
  induction w with
  | nil => rfl
  | cons c cs ih =>
    have hc : isWs c = true := hw c (List.mem_cons_self ..)
    simp only [List.cons_append, stripL, hc, if_true]
    exact ih (fun d hd => hw d (List.mem_cons_of_mem _ hd))

theorem c18x_stripL_append (l w : List Char) :
    stripL (l ++ w) = if stripL l = [] then stripL w else stripL l ++ w := by
  induction l with
  | nil => simp [stripL]
  | cons c cs ih =>
    by_cases hc : isWs c = true
    · simp only [List.cons_append, stripL, hc, if_true]; exact ih
    · simp [stripL, hc]

/-- `strip` ignores trailing white space -/
theorem c18x_strip_append_ws (l w : List Char) (hw : ∀ c ∈ w, isWs c = true) : strip (l ++ w) = strip l := by
  unfold strip
  rw [c18x_stripL_append]
  by_cases h : stripL l = []
  · simp only [h, if_true]
    rw [c18t_stripL_ws w hw]
  · simp only [h, if_false]
    rw [List.reverse_append, c18x_stripL_ws_append _ _ (fun c hc => hw c (List.mem_reverse.mp hc))]

/-- cutting the comment off a line with a terminator: the terminator survives only when there is no comment -/
theorem c18x_cutComment_append (cm : Char) (line w : List Char) (hcm : cm ∉ w) :
    ∃ w', (w' = [] ∨ w' = w) ∧ cutComment cm (line ++ w) = cutComment cm line ++ w' := by
  induction line with
  | nil => exact ⟨w, Or.inr rfl, by simpa [cutComment] using c18t_cutComment_notin cm w hcm⟩
  | cons c cs ih =>
    by_cases hc : (c == cm) = true
    · exact ⟨[], Or.inl rfl, by simp [cutComment, hc]⟩
    · obtain ⟨w', hw', h⟩ := ih
      refine ⟨w', hw', ?_⟩
      simp only [List.cons_append, cutComment, hc, Bool.false_eq_true, if_false]
      rw [h]

/-- the fields of a row do not depend on its terminator (any run `w` of white space that does not contain the comment
    marker: `'\n'`, `'\r\n'`, trailing blanks), provided something is left of the line once the comment is cut -/
theorem C18_terminator_fields (cm : Char) (delim : Option Char) (line w : List Char)
    (hw : ∀ c ∈ w, isWs c = true) (hcm : cm ∉ w) (hne : cutComment cm line ≠ []) :
    fieldsOf cm delim (line ++ w) = fieldsOf cm delim line := by
  obtain ⟨w', hw', h⟩ := c18x_cutComment_append cm line w hcm
  have hws : ∀ c ∈ w', isWs c = true := by
    rcases hw' with rfl | rfl
    · intro c hc; simp at hc
    · exact hw
  unfold fieldsOf
  simp only [h]
  have e1 : (cutComment cm line ++ w').isEmpty = false := by
    cases hl : cutComment cm line with
    | nil => exact absurd hl hne
    | cons a r => rfl
  have e2 : (cutComment cm line).isEmpty = false := by
    cases hl : cutComment cm line with
    | nil => exact absurd hl hne
    | cons a r => rfl
  simp only [e1, e2, Bool.false_eq_true, if_false, c18x_strip_append_ws _ _ hws]

/-- a line of nothing but its terminator has no fields at all or one empty field: too few for a row either way -/
theorem c18x_fields_of_ws (cm : Char) (delim : Option Char) (w : List Char) (hw : ∀ c ∈ w, isWs c = true) :
    fieldsOf cm delim w = none ∨ fieldsOf cm delim w = some [] ∨ fieldsOf cm delim w = some [[]] := by
  unfold fieldsOf
  by_cases he : (cutComment cm w).isEmpty = true
  · left; simp [he]
  · right
    have hsub : ∀ c ∈ cutComment cm w, isWs c = true := by
      intro c hc
      have : ∀ (l : List Char), c ∈ cutComment cm l → c ∈ l := by
        intro l
        induction l with
        | nil => simp [cutComment]
        | cons a r ih =>
          simp only [cutComment]
          split
          · simp
          · intro h
            rcases List.mem_cons.mp h with h | h
            · exact h ▸ List.mem_cons_self ..
            · exact List.mem_cons_of_mem _ (ih h)
      exact hw c (this w hc)
    simp only [he, Bool.false_eq_true, if_false, c18t_strip_ws _ hsub]
    cases delim with
    | none => left; simp [splitWs, splitWs.go]
    | some d => right; simp [splitOnChar]

/-- `parse_snapshots`: a row is read the same with and without its terminator -/
theorem C18_terminator_snapRow (cm : Char) (delim : Option Char) (line w : List Char)
    (hw : ∀ c ∈ w, isWs c = true) (hcm : cm ∉ w) :
    snapRow cm delim (line ++ w) = snapRow cm delim line := by
  by_cases hne : cutComment cm line = []
  · -- nothing but a comment (or nothing at all): skipped either way
    have h0 : fieldsOf cm delim line = none := by simp [fieldsOf, hne]
    obtain ⟨w', hw', h⟩ := c18x_cutComment_append cm line w hcm
    have hws : ∀ c ∈ w', isWs c = true := by
      rcases hw' with rfl | rfl
      · intro c hc; simp at hc
      · exact hw
    have h1 : fieldsOf cm delim (line ++ w) = none ∨ fieldsOf cm delim (line ++ w) = some [] ∨
        fieldsOf cm delim (line ++ w) = some [[]] := by
      have hcw : cutComment cm w' = w' := c18t_cutComment_notin cm w' (by
        rcases hw' with rfl | rfl
        · simp
        · exact hcm)
      have := c18x_fields_of_ws cm delim w' hws
      unfold fieldsOf at this ⊢
      rw [h, hne, List.nil_append]
      rw [hcw] at this
      exact this
    unfold snapRow
    rw [h0]
    rcases h1 with h1 | h1 | h1 <;> rw [h1]
  · unfold snapRow
    rw [C18_terminator_fields cm delim line w hw hcm hne]

/-- `parse_interactions`: likewise -/
theorem C18_terminator_intRow (cm : Char) (delim : Option Char) (line w : List Char)
    (hw : ∀ c ∈ w, isWs c = true) (hcm : cm ∉ w) :
    intRow cm delim (line ++ w) = intRow cm delim line := by
  by_cases hne : cutComment cm line = []
  · have h0 : fieldsOf cm delim line = none := by simp [fieldsOf, hne]
    obtain ⟨w', hw', h⟩ := c18x_cutComment_append cm line w hcm
    have hws : ∀ c ∈ w', isWs c = true := by
      rcases hw' with rfl | rfl
      · intro c hc; simp at hc
      · exact hw
    have h1 : fieldsOf cm delim (line ++ w) = none ∨ fieldsOf cm delim (line ++ w) = some [] ∨
        fieldsOf cm delim (line ++ w) = some [[]] := by
      have hcw : cutComment cm w' = w' := c18t_cutComment_notin cm w' (by
        rcases hw' with rfl | rfl
        · simp
        · exact hcm)
      have := c18x_fields_of_ws cm delim w' hws
      unfold fieldsOf at this ⊢
      rw [h, hne, List.nil_append]
      rw [hcw] at this
      exact this
    unfold intRow
    rw [h0]
    rcases h1 with h1 | h1 | h1 <;> rw [h1]
  · unfold intRow
    rw [C18_terminator_fields cm delim line w hw hcm hne]

/-- whole texts: the same lines with and without terminators (each line its own, e.g. all `'\n'` but the last) give the
    same graph and the same outcome -/
theorem C18_terminator_snapshots (directed : Bool) (cm : Char) (delim : Option Char)
    (lines : List (List Char × List Char))
    (hw : ∀ p ∈ lines, (∀ c ∈ p.2, isWs c = true) ∧ cm ∉ p.2) :
    parseSnapshotsText directed cm delim (lines.map (fun p => p.1 ++ p.2)) =
      parseSnapshotsText directed cm delim (lines.map (·.1)) := by
  unfold parseSnapshotsText
  rw [c18t_goS, c18t_goS]
  have : ∀ (ls : List (List Char × List Char)), (∀ p ∈ ls, (∀ c ∈ p.2, isWs c = true) ∧ cm ∉ p.2) →
      c18t_cleanS cm delim (ls.map (fun p => p.1 ++ p.2)) = c18t_cleanS cm delim (ls.map (·.1)) := by
    intro ls
    induction ls with
    | nil => intro _; rfl
    | cons p r ih =>
      intro h
      have hp := h p (List.mem_cons_self ..)
      have hr := ih (fun q hq => h q (List.mem_cons_of_mem _ hq))
      simp only [List.map_cons, c18t_cleanS, C18_terminator_snapRow cm delim p.1 p.2 hp.1 hp.2, hr]
  rw [this lines hw]

theorem C18_terminator_interactions (directed : Bool) (cm : Char) (delim : Option Char)
    (lines : List (List Char × List Char))
    (hw : ∀ p ∈ lines, (∀ c ∈ p.2, isWs c = true) ∧ cm ∉ p.2) :
    parseInteractionsText directed cm delim (lines.map (fun p => p.1 ++ p.2)) =
      parseInteractionsText directed cm delim (lines.map (·.1)) := by
  unfold parseInteractionsText
  rw [c18t_goI, c18t_goI]
  have : ∀ (ls : List (List Char × List Char)), (∀ p ∈ ls, (∀ c ∈ p.2, isWs c = true) ∧ cm ∉ p.2) →
      c18t_cleanI cm delim (ls.map (fun p => p.1 ++ p.2)) = c18t_cleanI cm delim (ls.map (·.1)) := by
    intro ls
    induction ls with
    | nil => intro _; rfl
    | cons p r ih =>
      intro h
      have hp := h p (List.mem_cons_self ..)
      have hr := ih (fun q hq => h q (List.mem_cons_of_mem _ hq))
      simp only [List.map_cons, c18t_cleanI, C18_terminator_intRow cm delim p.1 p.2 hp.1 hp.2, hr]
  rw [this lines hw]

/-- non-vacuity: a CRLF row, a row without terminator, a comment row with terminator -/
example : snapRow '#' none ("1 2 17\r\n".toList) = snapRow '#' none ("1 2 17".toList) ∧
    snapRow '#' (some ',') ("1,2,17 # x\n".toList) = .row 1 2 17 none ∧ snapRow '#' none ("# x\n".toList) = .skip := by
  decide

end Dynetx
