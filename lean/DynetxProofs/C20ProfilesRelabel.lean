import DynetxModel
import DynetxProofs.C20Profiles
import DynetxProofs.C20Hier
/-
  C20, clause "scores are invariant under renaming label values", for label PROFILES: the per-label term reads the
  values only through `==`, so renaming the values of each label by an injective map (a different one per label if
  wanted) changes nothing - not the scores, not the exceptions.  Lifted to the full-featured model for static labels
  without hierarchies through `C20H_static`.
-/
namespace Dynetx

theorem labelFrequencyL_relabel (g : Graph) (lab : Node → Nat) (f : Nat → Nat) (hf : Function.Injective f) (u : Node)
    (nodes : List Node) (td : List (Node × Nat)) :
    labelFrequencyL g (fun n => f (lab n)) u nodes td = labelFrequencyL g lab u nodes td := by
  unfold labelFrequencyL
  have heq : ∀ a b : Nat, (f a == f b) = (a == b) := by
    intro a b
    by_cases h : a = b
    · subst h; simp
    · have : f a ≠ f b := fun h' => h (hf h')
      simp [h, this]
  simp only [heq]

theorem profileFrequency_relabel (g : Graph) (tab : LabelTable) (f : Nat → Nat → Nat)
    (hf : ∀ l, Function.Injective (f l)) (profile : List Nat) (u : Node) (nodes : List Node) (td : List (Node × Nat)) :
    profileFrequency g (fun l n => f l (tab l n)) profile u nodes td = profileFrequency g tab profile u nodes td := by
  unfold profileFrequency
  congr 1
  funext s l
  rw [labelFrequencyL_relabel g (tab l) (f l) (hf l)]

theorem nodeScoreP_relabel (g : Graph) (tab : LabelTable) (f : Nat → Nat → Nat) (hf : ∀ l, Function.Injective (f l))
    (pr : List Nat) (sp : List ((Node × Node) × List TPath)) (ptype alpha : Nat) (u : Node) :
    nodeScoreP g (fun l n => f l (tab l n)) pr sp ptype alpha u = nodeScoreP g tab pr sp ptype alpha u := by
  unfold nodeScoreP
  simp only [profileFrequency_relabel g tab f hf]

/-- **C20 (renaming label values, profiles).**  Renaming the values of every label by an injective map leaves the whole
    result of `delta_conformity` unchanged: same keys, same scores, same exceptions. -/
theorem C20P_relabel (dg : Graph) (tab : LabelTable) (f : Nat → Nat → Nat) (hf : ∀ l, Function.Injective (f l))
    (start delta : Int) (alphas labels : List Nat) (profileSize ptype : Nat) :
    dg.deltaConformityP (fun l n => f l (tab l n)) start delta alphas labels profileSize ptype
      = dg.deltaConformityP tab start delta alphas labels profileSize ptype := by
  unfold Graph.deltaConformityP
  simp only [nodeScoreP_relabel _ tab f hf]

/-- the same for the full-featured model with static labels and no hierarchies -/
theorem C20H_relabel_static (dg : Graph) (tab : LabelTable) (f : Nat → Nat → Nat) (hf : ∀ l, Function.Injective (f l))
    (start delta : Int) (alphas labels : List Nat) (profileSize ptype : Nat) :
    dg.deltaConformityH (fun l n => .static (f l (tab l n))) (fun _ => none) start delta alphas labels profileSize ptype
      = dg.deltaConformityH (fun l n => .static (tab l n)) (fun _ => none) start delta alphas labels profileSize ptype := by
  rw [C20H_static dg (fun l n => f l (tab l n)), C20H_static dg tab, C20P_relabel dg tab f hf]

/-- the hypothesis is necessary: merging two values changes a score (witness at the level of one term) -/
example : labelFrequencyL (Graph.empty false true) (fun n => n) 0 [1] [] ≠
    labelFrequencyL (Graph.empty false true) (fun _ => 7) 0 [1] [] := by
  decide +kernel

end Dynetx
