import DynetxProofs.Equivariance
import DynetxProofs.Spec
import DynetxProofs.C20Sliding
/-
  Equivariance, continued: whole histories (`Graph.run`), node labelling, the sliding driver, and the statement of
  C20's clause "scores are invariant under renaming node ids" for graphs given by their history.
-/
namespace Dynetx

section
variable {ρ : Node → Node} (hρ : Function.Injective ρ)
include hρ

def Op.rename (ρ : Node → Node) (op : Op) : Op := { op with pairs := op.pairs.map (fun p => (ρ p.1, ρ p.2)) }

theorem rn_addFromGo (es : List (Node × Node)) (t e : Option Int) : ∀ g : Graph,
    (g.rename ρ).addFromGo (es.map (fun p => (ρ p.1, ρ p.2))) t e =
      (((g.addFromGo es t e).1).rename ρ, (g.addFromGo es t e).2) := by
  induction es with
  | nil => intro g; rfl
  | cons p rest ih =>
    intro g
    obtain ⟨u, v⟩ := p
    simp only [List.map_cons, Graph.addFromGo]
    rw [rn_addInteraction hρ]
    cases h : g.addInteraction u v t e with
    | mk g' err =>
      cases err with
      | none => exact ih g'
      | some er => rfl

theorem rn_step (g : Graph) (op : Op) :
    (g.rename ρ).step (op.rename ρ) = (((g.step op).1).rename ρ, (g.step op).2) := by
  unfold Graph.step Graph.addInteractionsFrom Op.rename
  cases op.t with
  | none => rfl
  | some t => exact rn_addFromGo hρ op.pairs (some t) op.e g

/-- **histories are equivariant**: the renamed history run on the renamed graph gives the renamed graph and the same
    outcome (accepted / ValueError / NetworkXError) for every call -/
theorem rn_run (ops : List Op) : ∀ g : Graph,
    (g.rename ρ).run (ops.map (Op.rename ρ)) = (((g.run ops).1).rename ρ, (g.run ops).2) := by
  induction ops with
  | nil => intro g; rfl
  | cons op rest ih =>
    intro g
    simp only [List.map_cons, Graph.run, rn_step hρ, ih]

theorem rn_setAttr (g : Graph) (n : Node) (a : Nat) : (g.rename ρ).setAttr (ρ n) a = (g.setAttr n a).rename ρ := by
  unfold Graph.setAttr
  simp only [rn_nodes, rn_any_node hρ]
  split
  · simp only [Graph.rename, List.map_map]
    congr 1
    apply List.map_congr_left
    intro p _
    simp only [Function.comp, rn_beq hρ]
    split <;> rfl
  · simp [Graph.rename]

omit hρ in
theorem rn_addNode_nodes (g : Graph) : (g.rename ρ).gattr = g.gattr := rfl

theorem rn_addNode (g : Graph) (n : Node) : (g.rename ρ).addNode (ρ n) = (g.addNode n).rename ρ := by
  simp [Graph.addNode, Graph.rename, rn_ensureNode hρ]

/-- **C20 (node renaming), for graphs given by their history**: build the same history with renamed node ids,
    label the renamed nodes with the same labels, and `delta_conformity` returns the same scores under the renamed
    keys -/
theorem C20_rename_nodes_history (d r : Bool) (ops : List Op) (attrs : List (Node × Nat))
    (start delta : Int) (alphas : List Nat) (ptype : Nat) :
    ((attrs.map (fun p => (ρ p.1, p.2))).foldl (fun g p => g.setAttr p.1 p.2)
        ((Graph.empty d r).run (ops.map (Op.rename ρ))).1).deltaConformity start delta alphas ptype =
      ((attrs.foldl (fun g p => g.setAttr p.1 p.2) ((Graph.empty d r).run ops).1).deltaConformity
        start delta alphas ptype).map (rnConf ρ) := by
  have hrun := rn_run hρ ops (Graph.empty d r)
  rw [rn_empty] at hrun
  rw [hrun]
  have hattr : ∀ (l : List (Node × Nat)) (g : Graph),
      (l.map (fun p => (ρ p.1, p.2))).foldl (fun g p => g.setAttr p.1 p.2) (g.rename ρ) =
        (l.foldl (fun g p => g.setAttr p.1 p.2) g).rename ρ := by
    intro l
    induction l with
    | nil => intro g; rfl
    | cons p rest ih =>
      intro g
      simp only [List.map_cons, List.foldl_cons, rn_setAttr hρ, ih]
  rw [hattr]
  exact C20_rename_nodes hρ _ start delta alphas ptype

/-! ### the sliding driver -/

theorem rn_contrib (stamp : Int) (r : List (Nat × List (Node × Rat))) (a : Nat) (n : Node) :
    c20s_contrib stamp (r.map (fun ar => (ar.1, ar.2.map (fun nv => (ρ nv.1, nv.2))))) a (ρ n) =
      c20s_contrib stamp r a n := by
  unfold c20s_contrib
  simp only [List.filter_map, List.flatMap_map]
  apply congrArg (fun f => List.flatMap f _)
  funext ar
  simp only [Function.comp, List.filter_map, List.map_map]
  have : ((fun nv : Node × Rat => nv.1 == ρ n) ∘ fun nv => (ρ nv.1, nv.2)) = (fun nv : Node × Rat => nv.1 == n) := by
    funext nv; simp [Function.comp, rn_beq hρ]
  rw [this]
  rfl

/-- **C20 (sliding, node renaming).** The series reported for (alpha, ρ n) on the renamed graph is the series reported
    for (alpha, n) on the original graph. -/
theorem C20_rename_nodes_sliding (dg : Graph) (delta : Int) (alphas : List Nat) (ptype : Nat)
    (res res' : Sliding)
    (h : dg.slidingDeltaConformity delta alphas ptype = .ok res)
    (h' : (dg.rename ρ).slidingDeltaConformity delta alphas ptype = .ok res') :
    ∀ a n, c20s_series res' a (ρ n) = c20s_series res a n := by
  intro a n
  rw [C20_sliding _ delta alphas ptype res' h', C20_sliding _ delta alphas ptype res h]
  have hq : c20s_qualifying (dg.rename ρ) delta = c20s_qualifying dg delta := rfl
  rw [hq]
  unfold c20s_expected
  apply congrArg (fun f => List.flatMap f _)
  funext t
  rw [C20_rename_nodes hρ]
  cases dg.deltaConformity t delta alphas ptype with
  | error e => rfl
  | ok o =>
    cases o with
    | none => rfl
    | some r => exact rn_contrib hρ (t + delta) r a n

/-- the sliding call on the renamed graph succeeds exactly when it does on the original -/
theorem C20_rename_nodes_sliding_ok (dg : Graph) (delta : Int) (alphas : List Nat) (ptype : Nat) :
    (∃ res', (dg.rename ρ).slidingDeltaConformity delta alphas ptype = .ok res') ↔
      (∃ res, dg.slidingDeltaConformity delta alphas ptype = .ok res) := by
  rw [C20_sliding_ok_iff, C20_sliding_ok_iff]
  have hq : c20s_qualifying (dg.rename ρ) delta = c20s_qualifying dg delta := rfl
  rw [hq]
  constructor
  · intro hall t ht
    obtain ⟨r, hr⟩ := hall t ht
    rw [C20_rename_nodes hρ] at hr
    cases hd : dg.deltaConformity t delta alphas ptype with
    | error e => rw [hd] at hr; cases hr
    | ok o => exact ⟨o, rfl⟩
  · intro hall t ht
    obtain ⟨r, hr⟩ := hall t ht
    rw [C20_rename_nodes hρ, hr]
    exact ⟨_, rfl⟩

end

/-! ### not vacuous: a concrete renaming of a concrete labelled history -/

theorem rn_add7_injective : Function.Injective (fun x : Nat => x + 7) := fun _ _ h => Nat.add_right_cancel h

example (ops : List Op) (attrs : List (Node × Nat)) :
    ((attrs.map (fun p => (p.1 + 7, p.2))).foldl (fun g p => g.setAttr p.1 p.2)
        ((Graph.empty false true).run (ops.map (Op.rename (· + 7)))).1).deltaConformity 0 2 [1] 0 =
      ((attrs.foldl (fun g p => g.setAttr p.1 p.2) ((Graph.empty false true).run ops).1).deltaConformity 0 2 [1] 0).map
        (rnConf (· + 7)) :=
  C20_rename_nodes_history rn_add7_injective false true ops attrs 0 2 [1] 0

end Dynetx
