import DynetxModel
/-
  C18 for comment markers and delimiters of several characters (DynetxModel/TextMulti.lean).

  * the one-character text layer of IO.lean is the instance `[c]` (`cutCommentS_single`, `splitOnS_single`,
    `fieldsOfS_single`, `snapRowS_single`, `intRowS_single`, `parseSnapshotsTextS_single`,
    `parseInteractionsTextS_single`): every theorem of C18Text.lean / TextRoundtrip.lean carries over;
  * `C18S_comment_ignored`: whatever follows a complete marker is ignored - the cut never depends on it;
  * `C18S_comment_absent`: a line without the marker is left alone;
  * `C18S_split_join`: splitting what was joined with the delimiter gives back the fields, whenever no character of
    the delimiter occurs in a field.
-/
namespace Dynetx

/-! ### one character = the instance `[c]` -/

theorem isPrefixOf_single (c : Char) (x : Char) (xs : List Char) : [c].isPrefixOf (x :: xs) = (x == c) := by
  simp [List.isPrefixOf, Bool.and_true, eq_comm, BEq.comm]

theorem cutCommentS_single (c : Char) (l : List Char) : cutCommentS [c] l = cutComment c l := by
  induction l with
  | nil => rfl
  | cons x xs ih =>
    simp only [cutCommentS, cutComment, isPrefixOf_single, ih]

theorem splitOnChar_ne_nil (d : Char) (l : List Char) : splitOnChar d l ≠ [] := by
  induction l with
  | nil => simp [splitOnChar]
  | cons x xs ih =>
    simp only [splitOnChar]
    cases splitOnChar d xs with
    | nil => simp
    | cons f fs => by_cases h : x == d <;> simp [h]

theorem splitOnSGo_single (d : Char) : ∀ (l cur : List Char) (fuel : Nat), l.length + 1 ≤ fuel →
    splitOnSGo [d] fuel cur l =
      match splitOnChar d l with
      | [] => [cur.reverse]
      | f :: fs => (cur.reverse ++ f) :: fs := by
  intro l
  induction l with
  | nil =>
    intro cur fuel hf
    obtain ⟨k, rfl⟩ : ∃ k, fuel = k + 1 := ⟨fuel - 1, by omega⟩
    simp [splitOnSGo, splitOnChar, List.isPrefixOf]
  | cons x xs ih =>
    intro cur fuel hf
    obtain ⟨k, rfl⟩ : ∃ k, fuel = k + 1 := ⟨fuel - 1, by simp at hf; omega⟩
    have hk : xs.length + 1 ≤ k := by simp at hf; omega
    simp only [splitOnSGo, isPrefixOf_single, splitOnChar]
    by_cases hx : x == d
    · simp only [hx, if_true, List.length_singleton, List.drop_succ_cons, List.drop_zero]
      rw [ih [] k hk]
      cases h : splitOnChar d xs with
      | nil => exact absurd h (splitOnChar_ne_nil d xs)
      | cons f fs => simp
    · simp only [hx]
      rw [ih (x :: cur) k hk]
      cases h : splitOnChar d xs with
      | nil => exact absurd h (splitOnChar_ne_nil d xs)
      | cons f fs => simp

theorem splitOnS_single (d : Char) (l : List Char) : splitOnS [d] l = some (splitOnChar d l) := by
  unfold splitOnS
  simp only [List.isEmpty_cons, Bool.false_eq_true, if_false]
  rw [splitOnSGo_single d l [] (l.length + 1) (Nat.le_refl _)]
  cases h : splitOnChar d l with
  | nil => exact absurd h (splitOnChar_ne_nil d l)
  | cons f fs => simp

theorem fieldsOfS_single (c : Char) (delim : Option Char) (line : List Char) :
    fieldsOfS [c] (delim.map (fun d => [d])) line =
      match fieldsOf c delim line with
      | none => .skipped
      | some fs => .fields fs := by
  unfold fieldsOfS fieldsOf
  simp only [cutCommentS_single]
  split
  · rfl
  · cases delim with
    | none => rfl
    | some d => simp only [Option.map_some, splitOnS_single]

theorem snapRowS_single (c : Char) (delim : Option Char) (line : List Char) :
    snapRowS [c] (delim.map (fun d => [d])) line =
      match snapRow c delim line with
      | .skip => .skip
      | .bad => .bad
      | .row u v t e => .row u v t e := by
  unfold snapRowS snapRow
  rw [fieldsOfS_single]
  cases fieldsOf c delim line with
  | none => rfl
  | some fs =>
    rcases fs with _ | ⟨u, _ | ⟨v, _ | ⟨t, _ | ⟨e, rest⟩⟩⟩⟩
    · rfl
    · rfl
    · rfl
    · simp only
      cases nodeOf u <;> cases nodeOf v <;> cases intOf t <;> rfl
    · simp only
      cases nodeOf u <;> cases nodeOf v <;> cases intOf t <;> cases intOf e <;> rfl

theorem intRowS_single (c : Char) (delim : Option Char) (line : List Char) :
    intRowS [c] (delim.map (fun d => [d])) line =
      match intRow c delim line with
      | .skip => .skip
      | .bad => .bad
      | .row r => .row r := by
  unfold intRowS intRow
  rw [fieldsOfS_single]
  cases fieldsOf c delim line with
  | none => rfl
  | some fs =>
    rcases fs with _ | ⟨u, _ | ⟨v, _ | ⟨op, _ | ⟨t, _ | ⟨x, rest⟩⟩⟩⟩⟩
    · rfl
    · rfl
    · rfl
    · rfl
    · simp only
      cases nodeOf u <;> cases nodeOf v <;> cases intOf t <;> rfl
    · rfl

theorem parseSnapshotsTextS_go_single (c : Char) (delim : Option Char) (lines : List (List Char)) :
    ∀ g, parseSnapshotsTextS.go [c] (delim.map (fun d => [d])) g lines = parseSnapshotsText.go c delim g lines := by
  induction lines with
  | nil => intro g; rfl
  | cons l rest ih =>
    intro g
    simp only [parseSnapshotsTextS.go, parseSnapshotsText.go, snapRowS_single]
    cases snapRow c delim l with
    | skip => exact ih g
    | bad => rfl
    | row u v t e =>
      simp only
      cases g.addInteraction u v (some t) e with
      | mk g' o =>
        cases o with
        | none => exact ih g'
        | some err => rfl

/-- the readers' text layer for one-character markers is the instance `[c]`, `[d]` of the general one -/
theorem parseSnapshotsTextS_single (directed : Bool) (c : Char) (delim : Option Char) (lines : List (List Char)) :
    parseSnapshotsTextS directed [c] (delim.map (fun d => [d])) lines = parseSnapshotsText directed c delim lines :=
  parseSnapshotsTextS_go_single c delim lines _

theorem parseInteractionsTextS_go_single (c : Char) (delim : Option Char) (lines : List (List Char)) :
    ∀ g, parseInteractionsTextS.go [c] (delim.map (fun d => [d])) g lines = parseInteractionsText.go c delim g lines := by
  induction lines with
  | nil => intro g; rfl
  | cons l rest ih =>
    intro g
    simp only [parseInteractionsTextS.go, parseInteractionsText.go, intRowS_single]
    cases intRow c delim l with
    | skip => exact ih g
    | bad => rfl
    | row r =>
      simp only
      cases g.replayRow r with
      | mk g' o =>
        cases o with
        | none => exact ih g'
        | some err => rfl

theorem parseInteractionsTextS_single (directed : Bool) (c : Char) (delim : Option Char) (lines : List (List Char)) :
    parseInteractionsTextS directed [c] (delim.map (fun d => [d])) lines = parseInteractionsText directed c delim lines :=
  parseInteractionsTextS_go_single c delim lines _

/-! ### markers of several characters -/

theorem isPrefixOf_self (l : List Char) : l.isPrefixOf l = true := by
  induction l with
  | nil => rfl
  | cons a l ih => simp [List.isPrefixOf, ih]

theorem isPrefixOf_append_of_le (p x y : List Char) (h : p.length ≤ x.length) :
    p.isPrefixOf (x ++ y) = p.isPrefixOf x := by
  induction p generalizing x with
  | nil => simp [List.isPrefixOf]
  | cons a p ih =>
    cases x with
    | nil => simp at h
    | cons b x =>
      simp only [List.cons_append, List.isPrefixOf]
      rw [ih x (by simpa using h)]

/-- **C18 (text after the comment marker is ignored, any marker).**  Once a complete marker has been written, nothing
    that follows it can change what the parser keeps of the line. -/
theorem C18S_comment_ignored (cm a b b' : List Char) :
    cutCommentS cm (a ++ cm ++ b) = cutCommentS cm (a ++ cm ++ b') := by
  induction a with
  | nil =>
    cases cm with
    | nil =>
      cases b <;> cases b' <;> simp [cutCommentS, List.isPrefixOf]
    | cons c cs =>
      have h1 : (c :: cs).isPrefixOf ((c :: cs) ++ b) = true := by
        rw [isPrefixOf_append_of_le _ _ _ (Nat.le_refl _)]; exact isPrefixOf_self _
      have h2 : (c :: cs).isPrefixOf ((c :: cs) ++ b') = true := by
        rw [isPrefixOf_append_of_le _ _ _ (Nat.le_refl _)]; exact isPrefixOf_self _
      simp only [List.nil_append, List.cons_append] at h1 h2 ⊢
      simp only [cutCommentS, h1, h2, if_true]
  | cons x xs ih =>
    have hlen : cm.length ≤ (x :: xs ++ cm).length := by simp; omega
    have h1 := isPrefixOf_append_of_le cm (x :: xs ++ cm) b hlen
    have h2 := isPrefixOf_append_of_le cm (x :: xs ++ cm) b' hlen
    simp only [List.cons_append, List.append_assoc] at h1 h2 ih ⊢
    simp only [cutCommentS, h1, h2]
    split
    · rfl
    · rw [ih]

/-- a line in which the marker does not occur at any position is left alone -/
theorem C18S_comment_absent (cm : List Char) (l : List Char) (h : ∀ i, i < l.length → cm.isPrefixOf (l.drop i) = false) :
    cutCommentS cm l = l := by
  induction l with
  | nil => rfl
  | cons x xs ih =>
    have h0 := h 0 (by simp)
    simp only [List.drop_zero] at h0
    simp only [cutCommentS, h0, Bool.false_eq_true, if_false]
    rw [ih (fun i hi => by have := h (i + 1) (by simpa using hi); simpa using this)]

/-- a field none of whose characters occurs in the delimiter is passed over by the scan, character by character -/
theorem splitOnSGo_field (d : List Char) (hd : d ≠ []) (f : List Char) (hf : ∀ c ∈ f, c ∉ d) :
    ∀ (cur rest : List Char) (fuel : Nat), f.length + rest.length + 1 ≤ fuel →
      (rest = [] ∨ d.isPrefixOf rest = true) →
      splitOnSGo d fuel cur (f ++ rest) = splitOnSGo d (fuel - f.length) (f.reverse ++ cur) rest := by
  induction f with
  | nil => intro cur rest fuel _ _; simp
  | cons x xs ih =>
    intro cur rest fuel hfuel hrest
    obtain ⟨k, rfl⟩ : ∃ k, fuel = k + 1 := ⟨fuel - 1, by simp at hfuel; omega⟩
    have hx : d.isPrefixOf (x :: xs ++ rest) = false := by
      cases d with
      | nil => exact absurd rfl hd
      | cons a d' =>
        have : x ∉ a :: d' := hf x (by simp)
        have hne : (a == x) = false := by
          simp only [beq_eq_false_iff_ne, ne_eq]
          intro h; exact this (by simp [h])
        simp [List.isPrefixOf, hne]
    simp only [List.cons_append] at hx ⊢
    simp only [splitOnSGo, hx, Bool.false_eq_true, if_false]
    rw [ih (fun c hc => hf c (by simp [hc])) (x :: cur) rest k (by simp at hfuel; omega) hrest]
    simp [List.reverse_cons, List.append_assoc]

/-- **C18 (the delimiter is honoured, any delimiter).**  Splitting what was joined with `d` gives back the fields, whenever
    no character of `d` occurs in a field. -/
theorem C18S_split_join (d : List Char) (hd : d ≠ []) :
    ∀ (fields : List (List Char)), fields ≠ [] → (∀ f ∈ fields, ∀ c ∈ f, c ∉ d) →
      ∀ (fuel : Nat), (d.intercalate fields).length + 1 ≤ fuel →
        splitOnSGo d fuel [] (d.intercalate fields) = fields := by
  intro fields
  induction fields with
  | nil => intro h; exact absurd rfl h
  | cons f rest ih =>
    intro _ hf fuel hfuel
    cases rest with
    | nil =>
      have := splitOnSGo_field d hd f (hf f (by simp)) [] [] fuel (by simpa using hfuel) (Or.inl rfl)
      simp only [List.append_nil] at this
      have hj : d.intercalate [f] = f := by simp [List.intercalate]
      rw [hj, this]
      obtain ⟨k, hk⟩ : ∃ k, fuel - f.length = k + 1 := ⟨fuel - f.length - 1, by
        rw [hj] at hfuel; omega⟩
      rw [hk]
      have hnp : d.isPrefixOf ([] : List Char) = false := by
        cases d with
        | nil => exact absurd rfl hd
        | cons a d' => rfl
      simp [splitOnSGo, hnp]
    | cons g rest' =>
      have hj : d.intercalate (f :: g :: rest') = f ++ (d ++ d.intercalate (g :: rest')) := by
        simp [List.intercalate, List.intersperse, List.flatten, List.append_assoc]
      rw [hj] at hfuel ⊢
      have hpre : d.isPrefixOf (d ++ d.intercalate (g :: rest')) = true := by
        rw [isPrefixOf_append_of_le _ _ _ (Nat.le_refl _)]; exact isPrefixOf_self _
      rw [splitOnSGo_field d hd f (hf f (by simp)) [] _ fuel (by simpa using hfuel) (Or.inr hpre)]
      obtain ⟨k, hk⟩ : ∃ k, fuel - f.length = k + 1 := ⟨fuel - f.length - 1, by
        simp only [List.length_append] at hfuel
        have : 0 < d.length := List.length_pos_iff.mpr hd
        omega⟩
      rw [hk]
      simp only [splitOnSGo, hpre, if_true, List.append_nil, List.reverse_reverse, List.drop_left]
      congr 1
      apply ih (by simp) (fun f' hf' => hf f' (List.mem_cons_of_mem _ hf'))
      simp only [List.length_append] at hfuel
      have hdl : 0 < d.length := List.length_pos_iff.mpr hd
      omega

/-- the same through `splitOnS` (Python's `s.split(d)`) -/
theorem C18S_split_join_opt (d : List Char) (hd : d ≠ []) (fields : List (List Char)) (hne : fields ≠ [])
    (hf : ∀ f ∈ fields, ∀ c ∈ f, c ∉ d) : splitOnS d (d.intercalate fields) = some fields := by
  unfold splitOnS
  have : d.isEmpty = false := by cases d with | nil => exact absurd rfl hd | cons _ _ => rfl
  simp only [this, Bool.false_eq_true, if_false]
  rw [C18S_split_join d hd fields hne hf _ (Nat.le_refl _)]

/-- an empty separator is rejected (`ValueError: empty separator`), it does not split into characters -/
theorem C18S_empty_separator (l : List Char) : splitOnS [] l = none := rfl

/-- non-vacuity: a two-character delimiter and marker at work -/
example : splitOnS [':', ':'] "1::23::4".toList = some ["1".toList, "23".toList, "4".toList] := by decide
example : cutCommentS ['/', '/'] "1/2 3 // note".toList = "1/2 3 ".toList := by decide

end Dynetx
