-- C18: compact_timeslot is a strictly increasing bijection onto 0..k-1 for duplicate-free input
import DynetxModel

namespace Dynetx

open List

/-! ### assocSet with a fresh key appends -/

theorem C18_assocSet_fresh (m : List (Int × Nat)) (k : Int) (v : Nat)
    (h : ∀ p ∈ m, p.1 ≠ k) : assocSet m k v = m ++ [(k, v)] := by
  induction m with
  | nil => rfl
  | cons p rest ih =>
    obtain ⟨k', v'⟩ := p
    have hk : k' ≠ k := h (k', v') (by simp)
    have hrest : ∀ p ∈ rest, p.1 ≠ k := fun p hp => h p (by simp [hp])
    simp [assocSet, hk, ih hrest]

theorem C18_foldl_assocSet (tls : List Int) (hnd : tls.Nodup) (n : Nat) (acc : List (Int × Nat))
    (hacc : ∀ p ∈ acc, p.1 ∉ tls) :
    (tls.zipIdx n).foldl (fun m (p : Int × Nat) => assocSet m p.1 p.2) acc = acc ++ tls.zipIdx n := by
  induction tls generalizing n acc with
  | nil => simp
  | cons a rest ih =>
    have hnd' := List.nodup_cons.mp hnd
    simp only [List.zipIdx_cons, List.foldl_cons]
    rw [C18_assocSet_fresh acc a n (fun p hp he => hacc p hp (by simp [he]))]
    rw [ih hnd'.2 (n + 1) (acc ++ [(a, n)])]
    · simp
    · intro p hp
      rcases List.mem_append.mp hp with hp | hp
      · intro hmem; exact hacc p hp (by simp [hmem])
      · simp at hp; subst hp; exact hnd'.1

/-- the sorted timestamps -/
def C18_sorted (l : List Int) : List Int := l.mergeSort (fun a b => decide (a ≤ b))

theorem C18_sorted_perm (l : List Int) : C18_sorted l ~ l := List.mergeSort_perm _ _

theorem C18_sorted_nodup (l : List Int) (hnd : l.Nodup) : (C18_sorted l).Nodup :=
  (C18_sorted_perm l).nodup_iff.mpr hnd

theorem C18_sorted_pairwise_le (l : List Int) : (C18_sorted l).Pairwise (fun a b => a ≤ b) := by
  have h := List.pairwise_mergeSort (le := fun (a b : Int) => decide (a ≤ b))
    (by intro a b c; simp; omega) (by intro a b; simp; omega) l
  exact h.imp (by intro a b; simp)

theorem C18_sorted_pairwise_lt (l : List Int) (hnd : l.Nodup) :
    (C18_sorted l).Pairwise (fun a b => a < b) := by
  have h1 := C18_sorted_pairwise_le l
  have h2 : (C18_sorted l).Pairwise (fun a b => a ≠ b) := C18_sorted_nodup l hnd
  exact (h1.and h2).imp (by intro a b ⟨h, h'⟩; omega)

/-- for duplicate-free input the dict comprehension is just the enumeration of the sorted list -/
theorem C18_compact_eq (l : List Int) (hnd : l.Nodup) :
    compactTimeslot l = (C18_sorted l).zipIdx := by
  unfold compactTimeslot
  have := C18_foldl_assocSet (C18_sorted l) (C18_sorted_nodup l hnd) 0 [] (by simp)
  simpa [C18_sorted] using this

/-! ### rank in a strictly sorted enumeration -/

theorem C18_rank_zipIdx (tls : List Int) (hs : tls.Pairwise (fun a b => a < b)) (n : Nat) (t : Int) :
    rankOf (tls.zipIdx n) t =
      if t ∈ tls then some (n + (tls.filter (fun s => decide (s < t))).length) else none := by
  induction tls generalizing n with
  | nil => simp [rankOf]
  | cons a rest ih =>
    have hp := List.pairwise_cons.mp hs
    have ih' := ih hp.2 (n + 1)
    unfold rankOf at ih' ⊢
    by_cases hat : a = t
    · subst hat
      have hnil : rest.filter (fun s => decide (s < a)) = [] := by
        rw [List.filter_eq_nil_iff]
        intro x hx
        have := hp.1 x hx
        simp; omega
      simp [hnil]
    · have hne : ¬ (t = a) := fun h => hat h.symm
      have hb : (a == t) = false := by simp [hat]
      simp only [List.zipIdx_cons, List.find?_cons, hb, List.mem_cons, hne, false_or]
      rw [ih']
      by_cases hmem : t ∈ rest
      · have : a < t := hp.1 t hmem
        simp [hmem, this]; omega
      · simp [hmem]

/-! ### counting smaller elements -/

theorem C18_count_mono (l : List Int) (s t : Int) (h : s ≤ t) :
    (l.filter (fun x => decide (x < s))).length ≤ (l.filter (fun x => decide (x < t))).length := by
  induction l with
  | nil => simp
  | cons a rest ih =>
    simp only [List.filter_cons]
    by_cases h1 : a < s
    · have h2 : a < t := by omega
      simp [h1, h2]; omega
    · by_cases h2 : a < t
      · simp [h1, h2]; omega
      · simp [h1, h2]; omega

theorem C18_count_strict (l : List Int) (s t : Int) (hmem : s ∈ l) (h : s < t) :
    (l.filter (fun x => decide (x < s))).length < (l.filter (fun x => decide (x < t))).length := by
  induction l with
  | nil => simp at hmem
  | cons a rest ih =>
    simp only [List.filter_cons]
    by_cases has : a = s
    · subst has
      have := C18_count_mono rest a t (by omega)
      simp [h]; omega
    · have hm : s ∈ rest := by
        rcases List.mem_cons.mp hmem with e | e
        · exact absurd e.symm has
        · exact e
      have := ih hm
      by_cases h1 : a < s
      · have h2 : a < t := by omega
        simp [h1, h2]; omega
      · by_cases h2 : a < t
        · simp [h1, h2]; omega
        · simp [h1, h2]; omega

/-! ### the required theorems -/

theorem C18_rank (l : List Int) (hnd : l.Nodup) (t : Int) :
    rankOf (compactTimeslot l) t =
      if t ∈ l then some ((l.filter (fun s => decide (s < t))).length) else none := by
  rw [C18_compact_eq l hnd, C18_rank_zipIdx _ (C18_sorted_pairwise_lt l hnd) 0 t]
  have hperm := C18_sorted_perm l
  have hlen : ((C18_sorted l).filter (fun s => decide (s < t))).length
      = (l.filter (fun s => decide (s < t))).length := (hperm.filter _).length_eq
  simp [hperm.mem_iff, hlen]

theorem C18_rank_mem (l : List Int) (hnd : l.Nodup) (t : Int) (i : Nat)
    (h : rankOf (compactTimeslot l) t = some i) :
    t ∈ l ∧ i = (l.filter (fun s => decide (s < t))).length := by
  rw [C18_rank l hnd t] at h
  by_cases hm : t ∈ l
  · simp [hm] at h; exact ⟨hm, h.symm⟩
  · simp [hm] at h

theorem C18_strictMono (l : List Int) (hnd : l.Nodup) (s t : Int) (i j : Nat)
    (hs : rankOf (compactTimeslot l) s = some i) (ht : rankOf (compactTimeslot l) t = some j) :
    s < t ↔ i < j := by
  obtain ⟨hsm, hi⟩ := C18_rank_mem l hnd s i hs
  obtain ⟨htm, hj⟩ := C18_rank_mem l hnd t j ht
  constructor
  · intro h
    have := C18_count_strict l s t hsm h
    omega
  · intro h
    rcases Int.lt_trichotomy s t with h' | h' | h'
    · exact h'
    · subst h'; omega
    · have := C18_count_strict l t s htm h'
      omega

theorem C18_injective (l : List Int) (hnd : l.Nodup) (s t : Int) (i : Nat)
    (hs : rankOf (compactTimeslot l) s = some i) (ht : rankOf (compactTimeslot l) t = some i) :
    s = t := by
  have h1 := C18_strictMono l hnd s t i i hs ht
  have h2 := C18_strictMono l hnd t s i i ht hs
  omega

theorem C18_rank_getElem (tls : List Int) (hnd : tls.Nodup) (n i : Nat) (hi : i < tls.length) :
    rankOf (tls.zipIdx n) tls[i] = some (n + i) := by
  induction tls generalizing n i with
  | nil => simp at hi
  | cons a rest ih =>
    have hnd' := List.nodup_cons.mp hnd
    cases i with
    | zero => simp [rankOf]
    | succ i =>
      have hi' : i < rest.length := by simpa using hi
      have hne : a ≠ rest[i] := fun h => hnd'.1 (h ▸ List.getElem_mem hi')
      have := ih hnd'.2 (n + 1) i hi'
      unfold rankOf at this ⊢
      have hb : (a == rest[i]) = false := by simp [hne]
      simp only [List.zipIdx_cons, List.getElem_cons_succ, List.find?_cons, hb]
      rw [this]; congr 1; omega

theorem C18_onto (l : List Int) (hnd : l.Nodup) (i : Nat) :
    i < l.length ↔ ∃ t ∈ l, rankOf (compactTimeslot l) t = some i := by
  constructor
  · intro hi
    have hlen : (C18_sorted l).length = l.length := (C18_sorted_perm l).length_eq
    have hi' : i < (C18_sorted l).length := by omega
    refine ⟨(C18_sorted l)[i], (C18_sorted_perm l).mem_iff.mp (List.getElem_mem hi'), ?_⟩
    rw [C18_compact_eq l hnd]
    simpa using C18_rank_getElem (C18_sorted l) (C18_sorted_nodup l hnd) 0 i hi'
  · rintro ⟨t, htm, ht⟩
    obtain ⟨_, hi⟩ := C18_rank_mem l hnd t i ht
    rw [hi]
    exact List.length_filter_lt_length_iff_exists.mpr ⟨t, htm, by simp⟩

theorem C18_keys (l : List Int) (hnd : l.Nodup) :
    (compactTimeslot l).map (·.1) ~ l ∧ ((compactTimeslot l).map (·.1)).Nodup := by
  have h : (compactTimeslot l).map (·.1) = C18_sorted l := by
    rw [C18_compact_eq l hnd]; exact List.zipIdx_map_fst 0 _
  rw [h]
  exact ⟨C18_sorted_perm l, C18_sorted_nodup l hnd⟩

/-- the ranks are exactly `0 .. k-1`, in key order -/
theorem C18_values (l : List Int) (hnd : l.Nodup) :
    (compactTimeslot l).map (·.2) = List.range l.length := by
  rw [C18_compact_eq l hnd]
  have hlen : (C18_sorted l).length = l.length := (C18_sorted_perm l).length_eq
  rw [← hlen]
  apply List.ext_getElem <;> simp

/-! ### non-vacuity -/

/-- `mergeSort` is defined by well-founded recursion, which `decide` cannot unfold; the sort of the
    concrete input is evaluated by `simp`, the rest (enumeration, dict construction, lookup) by `decide` -/
theorem C18_example_sorted :
    ([5, -1, 9] : List Int).mergeSort (fun a b => decide (a ≤ b)) = [-1, 5, 9] := by
  simp [List.mergeSort, List.MergeSort.Internal.splitInTwo]

example : compactTimeslot [5, -1, 9] = [(-1, 0), (5, 1), (9, 2)] := by
  unfold compactTimeslot
  rw [C18_example_sorted]
  decide

example : rankOf (compactTimeslot [5, -1, 9]) 5 = some 1 ∧ rankOf (compactTimeslot [5, -1, 9]) 9 = some 2
    ∧ rankOf (compactTimeslot [5, -1, 9]) (-1) = some 0 ∧ rankOf (compactTimeslot [5, -1, 9]) 7 = none := by
  unfold compactTimeslot
  rw [C18_example_sorted]
  decide

/-- duplicates are collapsed to the LAST index of the sorted list (dict overwrite), which is why the
    theorems above need `Nodup`: here the ranks are 1 and 2, not 0 and 1 -/
example : compactTimeslot [3, 3, 4] = [(3, 1), (4, 2)] := by
  unfold compactTimeslot
  have : ([3, 3, 4] : List Int).mergeSort (fun a b => decide (a ≤ b)) = [3, 3, 4] := by
    simp [List.mergeSort, List.MergeSort.Internal.splitInTwo]
  rw [this]
  decide

end Dynetx

