import DynetxProofs.C09
/-
  C11: node-link data (`node_link_data` / `node_link_graph`).
  The links are the snapshot rows of C09, the nodes are all nodes with their attribute token, the
  graph attribute and the class are recorded; reading the data back rebuilds class, graph attribute,
  node table and presence relation.
-/
namespace Dynetx

/-! ### `add_interaction` and the fields it does not touch / touches only when an endpoint is new -/

theorem c11_addNew_gattr (g : Graph) (u v : Node) (t0 t1 : Int) (eR : Option Int) :
    (g.addNew u v t0 t1 eR).gattr = g.gattr := by
  unfold Graph.addNew
  simp only []
  split <;> simp only [bumpRange_gattr, optAddMinus_gattr, addEvent_gattr] <;> rfl

theorem c11_addCovered_gattr (g : Graph) (u v : Node) (t1 b : Int) (eR : Option Int) :
    (g.addCovered u v t1 b eR).gattr = g.gattr := by
  unfold Graph.addCovered; split <;> simp

theorem c11_addExtend_gattr (g : Graph) (u v : Node) (t0 t1 a b : Int) (rest : List Span) (eR : Option Int) :
    (g.addExtend u v t0 t1 a b rest eR).gattr = g.gattr := by
  unfold Graph.addExtend
  cases eR with
  | none =>
    simp only [bumpRange_gattr]
    split
    · rfl
    · simp only [addEvent_gattr]; rfl
  | some e => simp only [bumpRange_gattr, addEvent_gattr]; rfl

theorem c11_addAppend_gattr (g : Graph) (u v : Node) (t0 t1 a b : Int) (rest : List Span) (eR : Option Int) :
    (g.addAppend u v t0 t1 a b rest eR).gattr = g.gattr := by
  unfold Graph.addAppend
  simp only [bumpRange_gattr, optAddMinus_gattr, addEvent_gattr]; rfl

theorem c11_addAccum_gattr (g : Graph) (u v : Node) (t0 a b : Int) (rest : List Span) :
    (g.addAccum u v t0 a b rest).gattr = g.gattr := by
  unfold Graph.addAccum; simp only [bumpRange_gattr]; split <;> rfl

theorem c11_addInteraction_gattr (g : Graph) (u v : Node) (t e : Option Int) :
    (g.addInteraction u v t e).1.gattr = g.gattr := by
  unfold Graph.addInteraction
  repeat' split
  all_goals first
    | with_reducible rfl
    | rw [c11_addNew_gattr]
    | rw [c11_addCovered_gattr]
    | rw [c11_addAccum_gattr]
    | rw [c11_addExtend_gattr]
    | rw [c11_addAppend_gattr]

theorem c11_addMany_gattr (g : Graph) (calls : List Call4) : (g.addMany calls).1.gattr = g.gattr := by
  induction calls generalizing g with
  | nil => rfl
  | cons c rest ih =>
    obtain ⟨u, v, t, e⟩ := c
    have h1 := c11_addInteraction_gattr g u v (some t) e
    unfold Graph.addMany
    split
    · rename_i g' hres
      rw [hres] at h1
      rw [ih g', h1]
    · rename_i g' err hres
      rw [hres] at h1
      exact h1

theorem c11_addInteraction_directed (g : Graph) (u v : Node) (t e : Option Int) :
    (g.addInteraction u v t e).1.directed = g.directed := by
  unfold Graph.addInteraction
  repeat' split
  all_goals first
    | with_reducible rfl
    | rw [addNew_directed]
    | rw [addCovered_directed]
    | rw [addAccum_directed]
    | rw [addExtend_directed]
    | rw [addAppend_directed]

theorem c11_addMany_directed (g : Graph) (calls : List Call4) : (g.addMany calls).1.directed = g.directed := by
  induction calls generalizing g with
  | nil => rfl
  | cons c rest ih =>
    obtain ⟨u, v, t, e⟩ := c
    have h1 := c11_addInteraction_directed g u v (some t) e
    unfold Graph.addMany
    split
    · rename_i g' hres
      rw [hres] at h1
      rw [ih g', h1]
    · rename_i g' err hres
      rw [hres] at h1
      exact h1

/-- `add_interaction` leaves the node table alone or makes sure both endpoints are in it -/
theorem c11_addInteraction_nodes (g : Graph) (u v : Node) (t e : Option Int) :
    (g.addInteraction u v t e).1.nodes = g.nodes ∨
    (g.addInteraction u v t e).1.nodes = ensureNode (ensureNode g.nodes u) v := by
  unfold Graph.addInteraction
  repeat' split
  all_goals first
    | (left; with_reducible rfl)
    | (right; rw [q1_addNew_nodes])
    | (left; rw [q1_addCovered_nodes])
    | (right; rw [q1_addAccum_nodes])
    | (right; rw [q1_addExtend_nodes])
    | (right; rw [q1_addAppend_nodes])

theorem c11_ensureNode_known (ns : List (Node × Nat)) (n : Node) (hk : ns.any (fun p => p.1 == n) = true) :
    ensureNode ns n = ns := by
  unfold ensureNode; rw [if_pos hk]

theorem c11_addInteraction_nodes_of_known (g : Graph) (u v : Node) (t e : Option Int)
    (hu : g.hasNodeFlat u = true) (hv : g.hasNodeFlat v = true) :
    (g.addInteraction u v t e).1.nodes = g.nodes := by
  rcases c11_addInteraction_nodes g u v t e with h1 | h1
  · exact h1
  · rw [h1, c11_ensureNode_known g.nodes u hu, c11_ensureNode_known g.nodes v hv]

/-- if both endpoints of every call are nodes already, the fold adds no node (and changes no attribute) -/
theorem c11_addMany_nodes_of_known (g : Graph) (calls : List Call4)
    (hk : ∀ c ∈ calls, g.hasNodeFlat c.1 = true ∧ g.hasNodeFlat c.2.1 = true) :
    (g.addMany calls).1.nodes = g.nodes := by
  induction calls generalizing g with
  | nil => rfl
  | cons c rest ih =>
    obtain ⟨u, v, t, e⟩ := c
    have hc := hk (u, v, t, e) List.mem_cons_self
    have h1 := c11_addInteraction_nodes_of_known g u v (some t) e hc.1 hc.2
    unfold Graph.addMany
    split
    · rename_i g' hres
      rw [hres] at h1
      simp only at h1
      rw [ih g', h1]
      intro c' hc'
      have := hk c' (List.mem_cons_of_mem _ hc')
      unfold Graph.hasNodeFlat at this ⊢
      rw [h1]; exact this
    · rename_i g' err hres
      rw [hres] at h1
      exact h1

/-! ### rebuilding the node table -/

/-- the node loop of `node_link_graph` -/
def c11_nodeFold (ns : List (Node × Nat)) (g0 : Graph) : Graph :=
  ns.foldl (fun g (p : Node × Nat) => (g.addNode p.1).setAttr p.1 p.2) g0

theorem c11_step_fields (g : Graph) (n : Node) (a : Nat) :
    ((g.addNode n).setAttr n a).edges = g.edges ∧ ((g.addNode n).setAttr n a).removal = g.removal ∧
    ((g.addNode n).setAttr n a).directed = g.directed ∧ ((g.addNode n).setAttr n a).gattr = g.gattr := by
  unfold Graph.setAttr
  split <;> exact ⟨rfl, rfl, rfl, rfl⟩

theorem c11_nodeFold_fields (ns : List (Node × Nat)) (g0 : Graph) :
    (c11_nodeFold ns g0).edges = g0.edges ∧ (c11_nodeFold ns g0).removal = g0.removal ∧
    (c11_nodeFold ns g0).directed = g0.directed ∧ (c11_nodeFold ns g0).gattr = g0.gattr := by
  induction ns generalizing g0 with
  | nil => exact ⟨rfl, rfl, rfl, rfl⟩
  | cons p rest ih =>
    obtain ⟨a, b, c, d⟩ := ih ((g0.addNode p.1).setAttr p.1 p.2)
    obtain ⟨a', b', c', d'⟩ := c11_step_fields g0 p.1 p.2
    unfold c11_nodeFold at *
    rw [List.foldl_cons]
    exact ⟨a.trans a', b.trans b', c.trans c', d.trans d'⟩

/-- one round of the node loop for a name that is not there yet appends the entry -/
theorem c11_step_nodes_fresh (g : Graph) (p : Node × Nat) (hf : p.1 ∉ g.nodes.map (·.1)) :
    ((g.addNode p.1).setAttr p.1 p.2).nodes = g.nodes ++ [p] := by
  have hany : g.nodes.any (fun q => q.1 == p.1) = false := by
    rw [Bool.eq_false_iff, Ne, q1_any_iff]; exact hf
  have h1 : (g.addNode p.1).nodes = g.nodes ++ [(p.1, 0)] := by
    unfold Graph.addNode ensureNode
    simp [hany]
  unfold Graph.setAttr
  rw [h1]
  have hany2 : (g.nodes ++ [(p.1, 0)]).any (fun q => q.1 == p.1) = true := by simp
  rw [if_pos hany2]
  simp only [List.map_append, List.map_cons, List.map_nil, beq_self_eq_true, if_true]
  congr 1
  rw [List.map_congr_left (g := id)]
  · simp
  · intro q hq
    have : q.1 ≠ p.1 := fun hc => hf (hc ▸ List.mem_map_of_mem hq)
    simp [this]

/-- the node loop over a duplicate-free table rebuilds it exactly, attributes included -/
theorem c11_rebuild_nodes_gen (ns : List (Node × Nat)) (g0 : Graph) (hnd : (ns.map (·.1)).Nodup)
    (hdis : ∀ p ∈ ns, p.1 ∉ g0.nodes.map (·.1)) :
    (c11_nodeFold ns g0).nodes = g0.nodes ++ ns := by
  induction ns generalizing g0 with
  | nil => simp [c11_nodeFold]
  | cons p rest ih =>
    rw [List.map_cons, List.nodup_cons] at hnd
    have hstep := c11_step_nodes_fresh g0 p (hdis p List.mem_cons_self)
    unfold c11_nodeFold at *
    rw [List.foldl_cons, ih _ hnd.2, hstep, List.append_assoc]
    · rfl
    · intro q hq
      rw [hstep, List.map_append, List.mem_append]
      rintro (hc | hc)
      · exact hdis q (List.mem_cons_of_mem _ hq) hc
      · simp only [List.map_cons, List.map_nil, List.mem_singleton] at hc
        exact hnd.1 (hc ▸ List.mem_map_of_mem hq)

theorem c11_rebuild_nodes (ns : List (Node × Nat)) (g0 : Graph) (hnd : (ns.map (·.1)).Nodup)
    (h0 : g0.nodes = []) : (c11_nodeFold ns g0).nodes = ns := by
  rw [c11_rebuild_nodes_gen ns g0 hnd (by intro p _; rw [h0]; simp), h0, List.nil_append]

/-! ### 6. the data -/

section data
variable {g : Graph} (h : WF g) (hr : g.removal = true) (hn : NodeInv g)

/-- the recorded fields -/
theorem C11_fields (g : Graph) :
    g.nodeLinkData.links = g.genSnapshots ∧ g.nodeLinkData.directed = some g.directed ∧
    g.nodeLinkData.nodes = g.nodes ∧ g.nodeLinkData.gattr = g.gattr := ⟨rfl, rfl, rfl, rfl⟩

include h hr hn

/-- the links: exactly one per interaction and instant (oriented as in `g` when directed, one of the two
    orientations when undirected); the class, every node with its attribute token (isolated nodes
    included) and the graph attribute are recorded -/
theorem C11_links :
    g.nodeLinkData.links = g.genSnapshots ∧
    g.nodeLinkData.directed = some g.directed ∧
    g.nodeLinkData.nodes = g.nodes ∧
    g.nodeLinkData.gattr = g.gattr ∧
    (g.directed = true →
      (∀ u v x, (u, v, x) ∈ g.nodeLinkData.links ↔ g.hasInteraction u v (some x) = true) ∧
      g.nodeLinkData.links.Nodup) ∧
    (g.directed = false →
      (∀ u v x, ((u, v, x) ∈ g.nodeLinkData.links ∨ (v, u, x) ∈ g.nodeLinkData.links) ↔
        g.hasInteraction u v (some x) = true) ∧
      g.nodeLinkData.links.Pairwise
        (fun r s => ¬ (sameKey false r.1 r.2.1 s.1 s.2.1 = true ∧ r.2.2 = s.2.2))) ∧
    (∀ r ∈ g.nodeLinkData.links, g.hasNodeFlat r.1 = true ∧ g.hasNodeFlat r.2.1 = true) := by
  refine ⟨rfl, rfl, rfl, rfl, C09_rows_directed h hr hn, C09_rows_undirected h hr hn, ?_⟩
  intro r hrm
  exact q1_node_of_flat hn (q1_has_some_flat g _ _ _ (c09_row_present h hr hrm))

/-! ### 7. round trip -/

theorem C11_roundtrip (dflt : Bool) :
    ∃ H, nodeLinkGraph g.nodeLinkData dflt = (H, none) ∧ H.directed = g.directed ∧ H.gattr = g.gattr ∧
      H.nodes = g.nodes ∧ WF H ∧
      ∀ u v x, H.hasInteraction u v (some x) = g.hasInteraction u v (some x) := by
  -- the state after the node loop
  let g0 : Graph := { Graph.empty g.directed true with gattr := g.gattr }
  let g1 : Graph := c11_nodeFold g.nodes g0
  obtain ⟨f1, f2, f3, f4⟩ := c11_nodeFold_fields g.nodes g0
  have hnodes : g1.nodes = g.nodes := c11_rebuild_nodes g.nodes g0 hn.nodup rfl
  have hshape : nodeLinkGraph g.nodeLinkData dflt =
      g1.addMany (g.genSnapshots.map (fun r => (r.1, r.2.1, r.2.2, none))) := rfl
  obtain ⟨r1, r2, r3, r4⟩ := c09_roundtrip_gen h hr hn g1 f1 f2 f3
  have hk : ∀ c ∈ g.genSnapshots.map (fun r => ((r.1, r.2.1, r.2.2, none) : Call4)),
      g1.hasNodeFlat c.1 = true ∧ g1.hasNodeFlat c.2.1 = true := by
    intro c hc
    obtain ⟨r, hrm, rfl⟩ := List.mem_map.mp hc
    have := q1_node_of_flat hn (q1_has_some_flat g _ _ _ (c09_row_present h hr hrm))
    unfold Graph.hasNodeFlat at this ⊢
    rw [hnodes]; exact this
  refine ⟨(g1.addMany (g.genSnapshots.map (fun r => (r.1, r.2.1, r.2.2, none)))).1, ?_, ?_, ?_, ?_, ?_, ?_⟩
  · rw [hshape]; exact Prod.ext rfl r1
  · exact r3
  · rw [c11_addMany_gattr]; exact f4
  · rw [c11_addMany_nodes_of_known g1 _ hk]; exact hnodes
  · exact r2
  · exact r4

/-! ### 8. the `directed` argument -/

omit h hr hn in
/-- the `directed` argument is used only when the data does not say (no hypothesis on `g` needed: the
    class of the result is fixed before the first link is read, whatever happens afterwards) -/
theorem C11_directed_default (g : Graph) (dflt : Bool) :
    (nodeLinkGraph { g.nodeLinkData with directed := none } dflt).1.directed = dflt ∧
    (nodeLinkGraph g.nodeLinkData dflt).1.directed = g.directed := by
  have hshape1 : nodeLinkGraph { g.nodeLinkData with directed := none } dflt =
      (c11_nodeFold g.nodes { Graph.empty dflt true with gattr := g.gattr }).addMany
        (g.genSnapshots.map (fun r => (r.1, r.2.1, r.2.2, none))) := rfl
  have hshape2 : nodeLinkGraph g.nodeLinkData dflt =
      (c11_nodeFold g.nodes { Graph.empty g.directed true with gattr := g.gattr }).addMany
        (g.genSnapshots.map (fun r => (r.1, r.2.1, r.2.2, none))) := rfl
  rw [hshape1, hshape2, c11_addMany_directed, c11_addMany_directed,
    (c11_nodeFold_fields _ _).2.2.1, (c11_nodeFold_fields _ _).2.2.1]
  exact ⟨rfl, rfl⟩

end data

/-! ### 9. histories -/

/-- for the graph reached by any history of the add family (removal mode), with nodes and node
    attributes added in between by `add_node` / `update_node_attr` or not -/
theorem C11_history (d dflt : Bool) (ops : List Op) :
    ∃ H, nodeLinkGraph ((Graph.empty d true).run ops).1.nodeLinkData dflt = (H, none) ∧
      H.directed = d ∧ H.gattr = ((Graph.empty d true).run ops).1.gattr ∧
      H.nodes = ((Graph.empty d true).run ops).1.nodes ∧ WF H ∧
      ∀ u v x, H.hasInteraction u v (some x) =
        ((Graph.empty d true).run ops).1.hasInteraction u v (some x) := by
  have r := run_ok (Graph.empty d true) (WF.empty _ _) rfl ops
  have hn := run_nodeInv (Graph.empty d true) (NodeInv.empty _ _) ops
  have hd : ((Graph.empty d true).run ops).1.directed = d := r.directed
  have := C11_roundtrip r.wf r.removal hn dflt
  rw [hd] at this
  exact this

/-- the same after isolated nodes / attributes have been put on top of a history, then more history -/
theorem C11_history_nodes (d dflt : Bool) (ops ops' : List Op) (n : Node) (a : Nat) :
    ∃ H, nodeLinkGraph (((((Graph.empty d true).run ops).1.addNode n).setAttr n a).run ops').1.nodeLinkData dflt
        = (H, none) ∧
      H.directed = d ∧
      H.nodes = (((((Graph.empty d true).run ops).1.addNode n).setAttr n a).run ops').1.nodes ∧ WF H ∧
      ∀ u v x, H.hasInteraction u v (some x) =
        (((((Graph.empty d true).run ops).1.addNode n).setAttr n a).run ops').1.hasInteraction u v (some x) := by
  have r := run_ok (Graph.empty d true) (WF.empty _ _) rfl ops
  have hn := run_nodeInv (Graph.empty d true) (NodeInv.empty _ _) ops
  have hn2 := setAttr_nodeInv _ (addNode_nodeInv _ hn n) n a
  obtain ⟨f1, f2, f3, _⟩ := c11_step_fields ((Graph.empty d true).run ops).1 n a
  have hwf2 : WF ((((Graph.empty d true).run ops).1.addNode n).setAttr n a) := wf_congr r.wf f1 f3
  have r' := run_ok _ hwf2 (f2.trans r.removal) ops'
  have hn' := run_nodeInv _ hn2 ops'
  have hd : (((((Graph.empty d true).run ops).1.addNode n).setAttr n a).run ops').1.directed = d := by
    rw [r'.directed, f3]; exact r.directed
  obtain ⟨H, h1, h2, _, h4, h5, h6⟩ := C11_roundtrip r'.wf r'.removal hn' dflt
  exact ⟨H, h1, h2.trans hd, h4, h5, h6⟩

/-! ### 10. non-vacuity -/

example : c09_demo.nodes = [(1, 0), (2, 0), (7, 4)] ∧ c09_demo.nodeLinkData.links = [(1, 2, 2), (1, 2, 3)] ∧
    c09_demo.nodeLinkData.nodes = [(1, 0), (2, 0), (7, 4)] ∧
    c09_demo.nodeLinkData.directed = some false := by decide

example : (nodeLinkGraph c09_demo.nodeLinkData true).2 = none ∧
    (nodeLinkGraph c09_demo.nodeLinkData true).1.nodes = c09_demo.nodes ∧
    (nodeLinkGraph c09_demo.nodeLinkData true).1.directed = false ∧
    (nodeLinkGraph c09_demo.nodeLinkData true).1.edges = c09_demo.edges := by decide

/-- without the `directed` key the argument decides -/
example : (nodeLinkGraph { c09_demo.nodeLinkData with directed := none } true).1.directed = true ∧
    (nodeLinkGraph { c09_demo.nodeLinkData with directed := none } false).1.directed = false := by decide

/-- side remark: when the `directed` key is missing and the argument says "undirected", the links of a
    directed graph need not be readable: 1→2 at 5 then 2→1 at 3 is an out-of-order call for the
    unordered pair -/
example :
    (nodeLinkGraph { ((((Graph.empty true true).addInteraction 1 2 (some 5) none).1.addInteraction 2 1
        (some 3) none).1).nodeLinkData with directed := none } false).2 = some .value := by decide

end Dynetx
