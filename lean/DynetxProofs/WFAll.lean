import DynetxProofs.Properties
import DynetxProofs.C05
/-
  The three invariants of a removal-enabled graph (`WF`, `SnapInv`, `EvInv`) bundled as `FullInv`,
  the C03/C04/C05 consequences stated for an ARBITRARY graph that satisfies them, and the fact that
  every graph the library itself builds (time_slice, to_directed, to_undirected, the readers,
  node_link_graph) satisfies them — with no hypothesis on the source graph.
-/
namespace Dynetx

-- the Part 1 statements keep all four invariants as hypotheses even where a proof uses fewer
set_option linter.unusedVariables false

/-! ## Part 1 — the C04/C05 consequences for an arbitrary graph -/

/-- a stored pair is counted at `x` exactly when `has_interaction` reports it (Boolean form) -/
theorem wfa_present_eq {g : Graph} (h : WF g) (hr : g.removal = true) {e : Edge} (he : e ∈ g.edges) (x : Int) :
    presentTl e.tl x = g.hasInteraction e.u e.v (some x) := by
  have := h.present_edge_iff hr he x
  cases h1 : presentTl e.tl x with
  | true => exact (this.mp h1).symm
  | false =>
    cases h2 : g.hasInteraction e.u e.v (some x) with
    | false => rfl
    | true => rw [this.mpr h2] at h1; cases h1

/-- C04 for any graph with the invariants: ids strictly increasing, ids = inhabited instants,
    counters exact -/
theorem wfa_C04 (g : Graph) (h : WF g) (hr : g.removal = true) (hs : SnapInv g) (hev : EvInv g) :
    g.ids.Pairwise (· < ·) ∧
    (∀ x, x ∈ g.ids ↔ ∃ a b, g.hasInteraction a b (some x) = true) ∧
    (∀ x, g.ips2 x = 2 * (g.edges.filter (fun e => g.hasInteraction e.u e.v (some x))).length) := by
  refine ⟨ids_strictly_increasing hs, fun x => mem_ids_iff h hr hs x, ?_⟩
  intro x
  show lookupSnap g.snaps x = _
  rw [hs.count x]
  unfold Graph.countAt
  rw [List.countP_eq_length_filter]
  congr 2
  apply List.filter_congr
  intro e he
  exact wfa_present_eq h hr he x

theorem wfa_C05_no_repeat (g : Graph) (h : WF g) (hr : g.removal = true) (hs : SnapInv g) (hev : EvInv g) :
    g.stream.Pairwise
      (fun e f => ¬ (e.t = f.t ∧ sameKey g.directed e.u e.v f.u f.v = true ∧ e.plus = f.plus)) := by
  have hn := hev.nodup
  refine (List.Perm.pairwise_iff ?_ (List.mergeSort_perm _ _)).mpr hn
  intro x y hxy hc
  exact hxy ⟨hc.1.symm, by rw [sameKey_symm]; exact hc.2.1, hc.2.2.symm⟩

/-- a '+' entry sits exactly where the pair is present and was absent the instant before -/
theorem wfa_C05_plus_iff (g : Graph) (h : WF g) (hr : g.removal = true) (hs : SnapInv g) (hev : EvInv g)
    (a b : Node) (x : Int) :
    (∃ ev ∈ g.stream, ev.plus = true ∧ ev.t = x ∧ sameKey g.directed ev.u ev.v a b = true) ↔
      (g.hasInteraction a b (some x) = true ∧ g.hasInteraction a b (some (x - 1)) = false) := by
  have hwf := h
  constructor
  · rintro ⟨ev, hm, hp, ht, hk⟩
    rw [mem_stream_iff] at hm
    obtain ⟨ed, hedm, hedk, s, hs, hst⟩ := hev.plus_sound ev hm hp
    have hcan := (hwf.tl ed hedm).2
    have hab : sameKey g.directed ed.u ed.v a b = true := sameKey_trans hedk hk
    have hle := hcan.all_le s hs
    constructor
    · rw [hwf.hasInteraction_iff hr]
      exact ⟨ed, hedm, hab, s, hs, by omega, by omega⟩
    · cases hh : g.hasInteraction a b (some (x - 1)) with
      | false => rfl
      | true =>
        obtain ⟨e', he'm, he'k, r, hrm, hr1, hr2⟩ := (hwf.hasInteraction_iff hr a b (x - 1)).mp hh
        have : e' = ed := pairwise_unique hwf.keys he'm hedm he'k hab
        subst this
        rcases hcan.sep hrm hs with rfl | hsep | hsep <;> omega
  · rintro ⟨h1, h2⟩
    obtain ⟨ed, hedm, hedk, s, hs, hs1, hs2⟩ := (hwf.hasInteraction_iff hr a b x).mp h1
    have hstart : s.1 = x := by
      by_cases hlt : s.1 < x
      · have : g.hasInteraction a b (some (x - 1)) = true :=
          (hwf.hasInteraction_iff hr a b (x - 1)).mpr ⟨ed, hedm, hedk, s, hs, by omega, by omega⟩
        rw [h2] at this; cases this
      · omega
    obtain ⟨ev, hm, hp, ht, hk⟩ := hev.plus_complete ed hedm s hs
    refine ⟨ev, (mem_stream_iff g ev).mpr hm, hp, by omega, ?_⟩
    exact sameKey_trans (by rw [sameKey_symm]; exact hk) hedk

/-- a '-' entry at `x` sits right after the end of a run: present at `x - 1`, absent at `x` -/
theorem wfa_C05_minus_sound (g : Graph) (h : WF g) (hr : g.removal = true) (hs : SnapInv g) (hev : EvInv g)
    (a b : Node) (x : Int) :
    (∃ ev ∈ g.stream, ev.plus = false ∧ ev.t = x ∧ sameKey g.directed ev.u ev.v a b = true) →
      (g.hasInteraction a b (some (x - 1)) = true ∧ g.hasInteraction a b (some x) = false) := by
  have hwf := h
  rintro ⟨ev, hm, hp, ht, hk⟩
  rw [mem_stream_iff] at hm
  obtain ⟨ed, hedm, hedk, s, hs, hst⟩ := hev.minus_sound ev hm hp
  have hcan := (hwf.tl ed hedm).2
  have hab : sameKey g.directed ed.u ed.v a b = true := sameKey_trans hedk hk
  have hle := hcan.all_le s hs
  constructor
  · rw [hwf.hasInteraction_iff hr]
    exact ⟨ed, hedm, hab, s, hs, by omega, by omega⟩
  · cases hh : g.hasInteraction a b (some x) with
    | false => rfl
    | true =>
      obtain ⟨e', he'm, he'k, r, hrm, hr1, hr2⟩ := (hwf.hasInteraction_iff hr a b x).mp hh
      have : e' = ed := pairwise_unique hwf.keys he'm hedm he'k hab
      subst this
      rcases hcan.sep hrm hs with rfl | hsep | hsep <;> omega

/-- every stored run of three or more instants is closed by a '-' entry right after its end -/
theorem wfa_C05_closed_partial (g : Graph) (h : WF g) (hr : g.removal = true) (hs : SnapInv g) (hev : EvInv g) :
    ∀ ed ∈ g.edges, ∀ s ∈ ed.tl, s.1 + 1 < s.2 →
      ∃ ev ∈ g.stream, ev.plus = false ∧ ev.t = s.2 + 1 ∧ sameKey g.directed ed.u ed.v ev.u ev.v = true := by
  intro ed hedm s hs hlen
  obtain ⟨ev, hm, h1, h2, h3⟩ := hev.minus_complete ed hedm s hs hlen
  exact ⟨ev, (mem_stream_iff g ev).mpr hm, h1, h2, h3⟩

/-- every run, of any length, is opened by a '+' entry at its start -/
theorem wfa_C05_opened (g : Graph) (h : WF g) (hr : g.removal = true) (hs : SnapInv g) (hev : EvInv g) :
    ∀ ed ∈ g.edges, ∀ s ∈ ed.tl,
      ∃ ev ∈ g.stream, ev.plus = true ∧ ev.t = s.1 ∧ sameKey g.directed ed.u ed.v ev.u ev.v = true := by
  intro ed hedm s hs
  obtain ⟨ev, hm, h1, h2, h3⟩ := hev.plus_complete ed hedm s hs
  exact ⟨ev, (mem_stream_iff g ev).mpr hm, h1, h2, h3⟩

/-! ## Part 2 — the bundled invariant -/

structure FullInv (g : Graph) : Prop where
  wf : WF g
  removal : g.removal = true
  snap : SnapInv g
  ev : EvInv g

/-- a graph without stored pairs, events and counters (nodes and attributes may be in place) -/
theorem FullInv.fresh (g : Graph) (he : g.edges = []) (hv : g.events = []) (hs : g.snaps = [])
    (hr : g.removal = true) : FullInv g := by
  refine ⟨⟨?_, ?_⟩, hr, ⟨⟨?_, ?_⟩, ?_⟩, ⟨?_, ?_, ?_, ?_, ?_⟩⟩
  · rw [he]; intro e h; cases h
  · rw [he]; exact List.Pairwise.nil
  · rw [hs]; exact List.Pairwise.nil
  · rw [hs]; intro p hp; cases hp
  · intro x; rw [hs]; unfold Graph.countAt; rw [he]; rfl
  · rw [hv]; exact List.Pairwise.nil
  · rw [hv]; intro ev h; cases h
  · rw [he]; intro ed h; cases h
  · rw [hv]; intro ev h; cases h
  · rw [he]; intro ed h; cases h

theorem wfa_fresh_empty (d : Bool) : FullInv (Graph.empty d true) :=
  FullInv.fresh _ rfl rfl rfl rfl

/-- one `add_interaction`, whatever its outcome (`t` missing, empty span, rejection, acceptance) -/
theorem FullInv.addInteraction {g : Graph} (h : FullInv g) (u v : Node) (t e : Option Int) :
    FullInv (g.addInteraction u v t e).1 := by
  cases t with
  | none => rw [addInteraction_noTime]; exact h
  | some t0 =>
    have hE := effE_removal g h.removal e
    cases hsp : spanEnd t0 e with
    | none =>
      rw [addInteraction_emptySpan g u v t0 e (by rw [hE]; exact hsp)]; exact h
    | some t1 =>
      have sp := addInteraction_stepSpec g h.wf h.removal u v t0 e t1 hsp
      exact ⟨sp.wf, by rw [sp.removal]; exact h.removal,
        addInteraction_snapInv g h.wf h.removal h.snap u v t0 e t1 hsp,
        addInteraction_evInv g h.wf h.removal h.ev u v t0 e t1 hsp⟩

theorem FullInv.addMany {g : Graph} (h : FullInv g) (calls : List (Node × Node × Int × Option Int)) :
    FullInv (g.addMany calls).1 := by
  induction calls generalizing g with
  | nil => exact h
  | cons c rest ih =>
    obtain ⟨u, v, t, e⟩ := c
    have h1 := h.addInteraction u v (some t) e
    rcases hres : g.addInteraction u v (some t) e with ⟨g', o⟩
    rw [hres] at h1
    cases o with
    | none => simp only [Graph.addMany, hres]; exact ih h1
    | some err => simp only [Graph.addMany, hres]; exact h1

/-- one row of `parse_interactions` (a '-' row for an unknown pair leaves the graph unchanged) -/
theorem FullInv.replayRow {g : Graph} (h : FullInv g) (r : Ev) : FullInv (g.replayRow r).1 := by
  unfold Graph.replayRow
  split
  · exact h.addInteraction _ _ _ _
  · split
    · exact h
    · split
      · exact h
      · split
        · exact h.addInteraction _ _ _ _
        · exact h

theorem FullInv.replayRows {g : Graph} (h : FullInv g) (rows : List Ev) : FullInv (g.replayRows rows).1 := by
  induction rows generalizing g with
  | nil => exact h
  | cons r rest ih =>
    have h1 := h.replayRow r
    rcases hres : g.replayRow r with ⟨g', o⟩
    rw [hres] at h1
    cases o with
    | none => simp only [Graph.replayRows, hres]; exact ih h1
    | some err => simp only [Graph.replayRows, hres]; exact h1

/-- the invariant does not look at `nodes` / `gattr` -/
theorem FullInv.congr {g g' : Graph} (he : g'.edges = g.edges) (hv : g'.events = g.events)
    (hs : g'.snaps = g.snaps) (hd : g'.directed = g.directed) (hr : g'.removal = g.removal)
    (h : FullInv g) : FullInv g' := by
  refine ⟨wf_congr h.wf he hd, by rw [hr]; exact h.removal, ⟨by rw [hs]; exact h.snap.ok, ?_⟩,
    ⟨?_, ?_, ?_, ?_, ?_⟩⟩
  · intro x
    have := h.snap.count x
    unfold Graph.countAt at this ⊢
    rw [hs, he]; exact this
  · rw [hv, hd]; exact h.ev.nodup
  · rw [hv, he, hd]; exact h.ev.plus_sound
  · rw [hv, he, hd]; exact h.ev.plus_complete
  · rw [hv, he, hd]; exact h.ev.minus_sound
  · rw [hv, he, hd]; exact h.ev.minus_complete

/-! ## Part 3 — every graph the library builds is fully well formed -/

theorem C06_wellformed (g : Graph) (a : Int) (bo : Option Int) (H : Graph) (hH : g.timeSlice a bo = .ok H) :
    FullInv H := by
  unfold Graph.timeSlice at hH
  simp only at hH
  split at hH
  · cases hH
  · have hf := (wfa_fresh_empty g.directed).addMany
      (sliceCalls a (bo.getD a) (if g.directed then g.outInteractionsData else g.interactionsData))
    split at hH
    · cases hH
    · rename_i h' heq
      rw [heq] at hf
      cases hH
      exact FullInv.congr (g := h') rfl rfl rfl rfl rfl hf

theorem C16_wellformed_toDirected (g H : Graph) (hH : g.toDirected = .ok H) : FullInv H := by
  unfold Graph.toDirected at hH
  simp only at hH
  have hf := (FullInv.fresh
      { Graph.empty true true with nodes := g.nodes.map (fun (p : Node × Nat) => (p.1, 0)) } rfl rfl rfl rfl).addMany
    (g.interactionsData.flatMap (fun (u, v, tl) => tl.map (fun (a, b) => (u, v, a, some (b + 1)))))
  split at hH
  · cases hH
  · rename_i h' heq
    rw [heq] at hf
    cases hH
    exact FullInv.congr (g := h') rfl rfl rfl rfl rfl hf

theorem C16_wellformed_toUndirected (g : Graph) (recip : Bool) (H : Graph) (hH : g.toUndirected recip = .ok H) :
    FullInv H := by
  unfold Graph.toUndirected at hH
  simp only at hH
  have hf := (FullInv.fresh
      { Graph.empty false true with nodes := g.nodes.map (fun (p : Node × Nat) => (p.1, 0)) } rfl rfl rfl rfl).addMany
    ((mergedGo g recip g.outInteractionsData []).flatMap
      (fun (u, v, s) => (runsOf s).map (fun (a, b) => (u, v, a, some (b + 1)))))
  split at hH
  · cases hH
  · rename_i h' heq
    rw [heq] at hf
    cases hH
    exact FullInv.congr (g := h') rfl rfl rfl rfl rfl hf

theorem C09_wellformed (d : Bool) (rows : List (Node × Node × Int × Option Int)) :
    FullInv (parseSnapshots d rows).1 :=
  (wfa_fresh_empty d).addMany rows

theorem C10_wellformed (d : Bool) (rows : List Ev) : FullInv (parseInteractions d rows).1 :=
  (wfa_fresh_empty d).replayRows rows

theorem wfa_addNode (g : Graph) (n : Node) :
    (g.addNode n).edges = g.edges ∧ (g.addNode n).events = g.events ∧ (g.addNode n).snaps = g.snaps ∧
    (g.addNode n).directed = g.directed ∧ (g.addNode n).removal = g.removal :=
  ⟨rfl, rfl, rfl, rfl, rfl⟩

theorem wfa_setAttr (g : Graph) (n : Node) (a : Nat) :
    (g.setAttr n a).edges = g.edges ∧ (g.setAttr n a).events = g.events ∧ (g.setAttr n a).snaps = g.snaps ∧
    (g.setAttr n a).directed = g.directed ∧ (g.setAttr n a).removal = g.removal := by
  unfold Graph.setAttr
  split <;> exact ⟨rfl, rfl, rfl, rfl, rfl⟩

/-- the node loop of `node_link_graph` touches only `nodes` -/
theorem wfa_nodeLoop (ns : List (Node × Nat)) (g : Graph) :
    let g1 := ns.foldl (fun g (p : Node × Nat) => (g.addNode p.1).setAttr p.1 p.2) g
    g1.edges = g.edges ∧ g1.events = g.events ∧ g1.snaps = g.snaps ∧
    g1.directed = g.directed ∧ g1.removal = g.removal := by
  induction ns generalizing g with
  | nil => exact ⟨rfl, rfl, rfl, rfl, rfl⟩
  | cons p rest ih =>
    simp only [List.foldl_cons]
    obtain ⟨a1, a2, a3, a4, a5⟩ := ih ((g.addNode p.1).setAttr p.1 p.2)
    obtain ⟨b1, b2, b3, b4, b5⟩ := wfa_setAttr (g.addNode p.1) p.1 p.2
    obtain ⟨c1, c2, c3, c4, c5⟩ := wfa_addNode g p.1
    exact ⟨by rw [a1, b1, c1], by rw [a2, b2, c2], by rw [a3, b3, c3], by rw [a4, b4, c4], by rw [a5, b5, c5]⟩

theorem C11_wellformed (data : NodeLink) (dflt : Bool) : FullInv (nodeLinkGraph data dflt).1 := by
  unfold nodeLinkGraph
  simp only
  apply FullInv.addMany
  obtain ⟨h1, h2, h3, h4, h5⟩ := wfa_nodeLoop data.nodes
    { Graph.empty (data.directed.getD dflt) true with gattr := data.gattr }
  exact FullInv.fresh _ (by rw [h1]; rfl) (by rw [h2]; rfl) (by rw [h3]; rfl) (by rw [h5]; rfl)

/-! ### the text readers -/

theorem wfa_snapText_go (cm : Char) (delim : Option Char) (lines : List (List Char)) (g : Graph)
    (h : FullInv g) : FullInv (parseSnapshotsText.go cm delim g lines).1 := by
  induction lines generalizing g with
  | nil => exact h
  | cons l rest ih =>
    unfold parseSnapshotsText.go
    split
    · exact ih g h
    · exact h
    · rename_i u v t e _
      have h1 := h.addInteraction u v (some t) e
      split
      · rename_i g' heq; rw [heq] at h1; exact ih g' h1
      · rename_i g' err heq; rw [heq] at h1; exact h1

theorem C18_wellformed_snapshots (d : Bool) (cm : Char) (delim : Option Char) (lines : List (List Char)) :
    FullInv (parseSnapshotsText d cm delim lines).1 :=
  wfa_snapText_go cm delim lines _ (wfa_fresh_empty d)

theorem wfa_intText_go (cm : Char) (delim : Option Char) (lines : List (List Char)) (g : Graph)
    (h : FullInv g) : FullInv (parseInteractionsText.go cm delim g lines).1 := by
  induction lines generalizing g with
  | nil => exact h
  | cons l rest ih =>
    unfold parseInteractionsText.go
    split
    · exact ih g h
    · exact h
    · rename_i r _
      have h1 := h.replayRow r
      split
      · rename_i g' heq; rw [heq] at h1; exact ih g' h1
      · rename_i g' err heq; rw [heq] at h1; exact h1

theorem C18_wellformed_interactions (d : Bool) (cm : Char) (delim : Option Char) (lines : List (List Char)) :
    FullInv (parseInteractionsText d cm delim lines).1 :=
  wfa_intText_go cm delim lines _ (wfa_fresh_empty d)

theorem wfa_keys_goS (cm : Char) (delim : Option Char) (rk : Int → Int) (lines : List (List Char)) (g : Graph)
    (h : FullInv g) : FullInv (readKeysText.goS cm delim rk g lines).1 := by
  induction lines generalizing g with
  | nil => exact h
  | cons l rest ih =>
    unfold readKeysText.goS
    split
    · exact ih g h
    · exact h
    · rename_i u v t e _
      have h1 := h.addInteraction u v (some (rk t)) (e.map rk)
      split
      · rename_i g' heq; rw [heq] at h1; exact ih g' h1
      · rename_i g' err heq; rw [heq] at h1; exact h1

theorem wfa_keys_goI (cm : Char) (delim : Option Char) (rk : Int → Int) (lines : List (List Char)) (g : Graph)
    (h : FullInv g) : FullInv (readKeysText.goI cm delim rk g lines).1 := by
  induction lines generalizing g with
  | nil => exact h
  | cons l rest ih =>
    unfold readKeysText.goI
    split
    · exact ih g h
    · exact h
    · rename_i r _
      have h1 := h.replayRow { r with t := rk r.t }
      split
      · rename_i g' heq; rw [heq] at h1; exact ih g' h1
      · rename_i g' err heq; rw [heq] at h1; exact h1

theorem C18_wellformed_keys (interactions d : Bool) (cm : Char) (delim : Option Char) (lines : List (List Char)) :
    FullInv (readKeysText interactions d cm delim lines).1 := by
  unfold readKeysText
  split
  · exact wfa_fresh_empty d
  · simp only
    split
    · exact wfa_keys_goI cm delim _ lines _ (wfa_fresh_empty d)
    · exact wfa_keys_goS cm delim _ lines _ (wfa_fresh_empty d)

/-! ### C03 for every `FullInv` graph -/

theorem C03_derived_canonical (g : Graph) (h : FullInv g) :
    ∀ u v tl, g.timeline u v = some tl →
      CanonAsc tl ∧ ∀ x, memTl tl x ↔ g.hasInteraction u v (some x) = true := by
  intro u v tl htl
  unfold Graph.timeline at htl
  cases hf : g.findEdge u v with
  | none => simp [hf] at htl
  | some ed =>
    have heq : tl = ed.tl.reverse := by simp [hf] at htl; exact htl.symm
    obtain ⟨hem, hek⟩ := findEdge_some hf
    obtain ⟨_, hc⟩ := h.wf.tl ed hem
    subst heq
    refine ⟨hc.reverse, ?_⟩
    intro x
    rw [memTl_reverse, h.wf.hasInteraction_iff h.removal]
    constructor
    · intro hm; exact ⟨ed, hem, hek, hm⟩
    · rintro ⟨e', hem', hek', hm⟩
      rw [pairwise_unique h.wf.keys hem hem' hek hek']; exact hm

/-- on an undirected `FullInv` graph both endpoint orders expose the same list -/
theorem wfa_C03_symmetric (g : Graph) (hd : g.directed = false) (u v : Node) :
    g.timeline v u = g.timeline u v := by
  unfold Graph.timeline
  rw [← findEdge_swap_undirected g hd u v]

/-! ## Part 4 — a concrete instance -/

/-- a small undirected graph: pair (0,1) on [0,3] and [6,7], pair (1,2) on [2,2] -/
def wfa_ex : Graph :=
  ((Graph.empty false true).addMany [(0, 1, 0, some 4), (1, 2, 2, none), (1, 0, 6, some 8)]).1

example : wfa_ex.timeline 0 1 = some [(0, 3), (6, 7)] := by decide

example : ∃ H, wfa_ex.timeSlice 1 (some 2) = .ok H ∧ FullInv H ∧
    H.timeline 0 1 = some [(1, 2)] ∧ H.timeline 1 2 = some [(2, 2)] := by
  have hok : (match wfa_ex.timeSlice 1 (some 2) with
      | .ok H => H.timeline 0 1 == some [(1, 2)] && H.timeline 1 2 == some [(2, 2)]
      | .error _ => false) = true := by decide
  cases hH : wfa_ex.timeSlice 1 (some 2) with
  | error e => rw [hH] at hok; cases hok
  | ok H =>
    rw [hH] at hok
    simp only [Bool.and_eq_true, beq_iff_eq] at hok
    exact ⟨H, rfl, C06_wellformed _ _ _ _ hH, hok.1, hok.2⟩

end Dynetx
