import DynetxModel
import DynetxProofs.Properties
import DynetxProofs.C13
/-
  The path theorems C12 / C13 / C15 take "the snapshot ids are strictly increasing" as a hypothesis.  It holds for every
  graph the library can build, in BOTH modes (removal-enabled and accumulative): the snapshot counters are only ever
  written through `bump` (keys stay distinct) or emptied by `clear`.  Consequently the theorems hold for every history,
  which is how the correspondence runs use them (one path case in seven is built with `edge_removal=False`).
-/
namespace Dynetx

theorem snapsOk_empty : SnapsOk ([] : List (Int × Nat)) := ⟨by simp, by intro p hp; cases hp⟩

theorem bumpRange_snapsOk (g : Graph) (lo hi : Int) (h : SnapsOk g.snaps) : SnapsOk (g.bumpRange lo hi).snaps :=
  bumpAll_ok g.snaps (irange lo hi) h

/-- `add_interaction` keeps the keys of `snapshots` distinct and the counters positive, whatever the mode and the outcome -/
theorem addInteraction_snapsOk (g : Graph) (u v : Node) (t e : Option Int) (h : SnapsOk g.snaps) :
    SnapsOk (g.addInteraction u v t e).1.snaps := by
  unfold Graph.addInteraction
  split
  · exact h
  · split
    · exact h
    · split
      · unfold Graph.addNew
        simp only
        split
        · apply bumpRange_snapsOk; simpa using h
        · apply bumpRange_snapsOk; simpa using h
      · split
        · exact h
        · split
          · exact h
          · split
            · unfold Graph.addCovered; split
              · simpa using h
              · exact h
            · split
              · unfold Graph.addAccum
                simp only
                apply bumpRange_snapsOk
                split <;> simpa using h
              · split
                · unfold Graph.addExtend
                  simp only
                  apply bumpRange_snapsOk
                  split
                  · simpa using h
                  · split <;> simpa using h
                · unfold Graph.addAppend
                  simp only
                  apply bumpRange_snapsOk
                  simpa using h

theorem addFromGo_snapsOk (es : List (Node × Node)) (t e : Option Int) :
    ∀ (g : Graph), SnapsOk g.snaps → SnapsOk (g.addFromGo es t e).1.snaps := by
  induction es with
  | nil => intro g h; exact h
  | cons p rest ih =>
    intro g h
    obtain ⟨u, v⟩ := p
    unfold Graph.addFromGo
    have h1 := addInteraction_snapsOk g u v t e h
    cases hr : g.addInteraction u v t e with
    | mk g' o =>
      rw [hr] at h1
      cases o with
      | none => exact ih g' h1
      | some err => exact h1

theorem step_snapsOk (g : Graph) (op : Op) (h : SnapsOk g.snaps) : SnapsOk (g.step op).1.snaps := by
  unfold Graph.step Graph.addInteractionsFrom
  split
  · exact h
  · exact addFromGo_snapsOk _ _ _ g h

theorem run_snapsOk (ops : List Op) : ∀ (g : Graph), SnapsOk g.snaps → SnapsOk (g.run ops).1.snaps := by
  induction ops with
  | nil => intro g h; exact h
  | cons op rest ih => intro g h; exact ih (g.step op).1 (step_snapsOk g op h)

theorem ids_strict_of_snapsOk {g : Graph} (h : SnapsOk g.snaps) : g.ids.Pairwise (· < ·) := by
  rw [ids_eq_sorted]; exact C18_sorted_pairwise_lt _ h.nodup

/-- **the snapshot ids of every history are strictly increasing — both classes, both modes** -/
theorem ids_strict_history (d r : Bool) (ops : List Op) : ((Graph.empty d r).run ops).1.ids.Pairwise (· < ·) :=
  ids_strict_of_snapsOk (run_snapsOk ops _ (by simpa [Graph.empty] using snapsOk_empty))

/-- after `clear()` / `clear_edges()` the invariant holds again trivially, so it survives histories that contain them -/
theorem clear_snapsOk (g : Graph) : SnapsOk g.clear.snaps ∧ SnapsOk g.clearEdges.snaps :=
  ⟨by simpa [Graph.clear] using snapsOk_empty, by simpa [Graph.clearEdges] using snapsOk_empty⟩

/-- **C12 (soundness) for every history**, removal-enabled or accumulative -/
theorem C12_sound_history (d r : Bool) (ops : List Op) (u : Node) (v : Option Node) (start stop : Option Int)
    (res : List ((Node × Node) × List TPath)) :
    let g := ((Graph.empty d r).run ops).1
    g.timeRespectingPaths u v start stop = .ok res →
    ∀ kp ∈ res, ∀ p ∈ kp.2, ValidTRP g u v (dagWindow g start stop) p ∧ kp.1 = pathKey p := by
  intro g h
  exact C12_sound g (ids_strict_history d r ops) u v start stop res h

/-- **C13 (exactness) for every history**, removal-enabled or accumulative -/
theorem C13_exact_history (d r : Bool) (ops : List Op) (u : Node) (v : Option Node) (start stop : Option Int)
    (res : List ((Node × Node) × List TPath)) :
    let g := ((Graph.empty d r).run ops).1
    g.timeRespectingPaths u v start stop = .ok res → g.hasNode u start = true →
    (∀ t ∈ dagWindow g start stop, u ∉ g.neighbors u (some t)) →
    ∀ p, (∃ kp ∈ res, p ∈ kp.2) ↔ ValidTRP g u v (dagWindow g start stop) p := by
  intro g h hu hloop p
  exact C13_exact g (ids_strict_history d r ops) u v start stop res h hu hloop p

/-- **C15 (edge times) for every history** -/
theorem C15_edge_time_history (d r : Bool) (ops : List Op) (u : Node) (v : Option Node) (start stop : Option Int)
    (dag : Dag) :
    let g := ((Graph.empty d r).run ops).1
    g.temporalDag u v start stop = .ok dag →
    ∀ e ∈ dag.edges, e.1.2 < e.2.2 ∨ (e.1 ∈ dag.sources ∧ e.1.2 = e.2.2) := by
  intro g h
  exact C15_edge_time g u v start stop dag (ids_strict_history d r ops) h

end Dynetx
