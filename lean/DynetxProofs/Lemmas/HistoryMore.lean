import DynetxProofs.Lemmas.History
namespace Dynetx

theorem goLog_nonempty (g : Graph) (t0 : Int) (e : Option Int) (es : List (Node × Node)) :
    ∀ s ∈ g.goLog t0 e es, s.2.2.1 ≤ s.2.2.2 := by
  induction es generalizing g with
  | nil => intro s hs; cases hs
  | cons p rest ih =>
    obtain ⟨u, v⟩ := p
    intro s hs
    unfold Graph.goLog at hs
    split at hs
    · rename_i g' hres
      rcases List.mem_append.mp hs with h1 | h2
      · split at h1
        · rename_i t1 hsp
          rw [List.mem_singleton] at h1; subst h1
          exact spanEnd_le hsp
        · cases h1
      · exact ih g' s h2
    · cases hs

theorem runLog_nonempty (g : Graph) (ops : List Op) : ∀ s ∈ g.runLog ops, s.2.2.1 ≤ s.2.2.2 := by
  induction ops generalizing g with
  | nil => intro s hs; cases hs
  | cons op rest ih =>
    intro s hs
    rcases List.mem_append.mp hs with h1 | h2
    · unfold Graph.stepLog at h1
      split at h1
      · cases h1
      · exact goLog_nonempty g _ _ _ s h1
    · exact ih _ s h2

/-- on a well-formed graph a stored pair is present at some instant -/
theorem WF.flat_iff_exists {g : Graph} (h : WF g) (hr : g.removal = true) (a b : Node) :
    g.hasInteraction a b none = true ↔ ∃ x, g.hasInteraction a b (some x) = true := by
  rw [hasInteraction_flat_iff]
  constructor
  · rintro ⟨e, hem, hk⟩
    obtain ⟨hne, hc⟩ := h.tl e hem
    cases htl : e.tl with
    | nil => exact absurd htl hne
    | cons s rest =>
      refine ⟨s.1, (h.hasInteraction_iff hr a b s.1).mpr ⟨e, hem, hk, ?_⟩⟩
      rw [htl] at hc ⊢
      exact ⟨s, List.mem_cons_self, Int.le_refl _, hc.head_le⟩
  · rintro ⟨x, hx⟩
    obtain ⟨e, hem, hk, _⟩ := (h.hasInteraction_iff hr a b x).mp hx
    exact ⟨e, hem, hk⟩

theorem empty_hasInteraction (d r : Bool) (a b : Node) (t : Option Int) :
    (Graph.empty d r).hasInteraction a b t = false := by
  simp [Graph.hasInteraction, Graph.findEdge, Graph.empty]

theorem findEdge_swap_undirected (g : Graph) (hd : g.directed = false) (u v : Node) :
    g.findEdge u v = g.findEdge v u := by
  unfold Graph.findEdge
  congr 1
  funext e
  rw [hd]; exact sameKey_swap_undirected _ _ _ _

/-- state after a failing bulk call = state after the elements that preceded the failing one -/
theorem addFromGo_failure_prefix (g : Graph) (es : List (Node × Node)) (t e : Option Int) (g' : Graph) (err : Err)
    (h : g.addFromGo es t e = (g', some err)) :
    ∃ k, k < es.length ∧ g.addFromGo (es.take k) t e = (g', none) ∧
      ((g.addFromGo (es.take k) t e).1.addInteraction (es[k]!).1 (es[k]!).2 t e).2 = some err := by
  induction es generalizing g with
  | nil => simp [Graph.addFromGo] at h
  | cons p rest ih =>
    obtain ⟨u, v⟩ := p
    unfold Graph.addFromGo at h
    split at h
    · rename_i g1 hres
      obtain ⟨k, hk, h1, h2⟩ := ih g1 h
      refine ⟨k + 1, by simp; omega, ?_, ?_⟩
      · simp only [List.take_succ_cons, Graph.addFromGo, hres]; exact h1
      · simp only [List.take_succ_cons, Graph.addFromGo, hres]
        simpa using h2
    · rename_i g1 err1 hres
      cases h
      have hsame := addInteraction_error_unchanged g u v t e err (by rw [hres])
      rw [hres] at hsame
      simp only at hsame
      subst hsame
      exact ⟨0, by simp, by simp [Graph.addFromGo], by simp [Graph.addFromGo, hres]⟩

end Dynetx
