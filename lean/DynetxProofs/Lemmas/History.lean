import DynetxProofs.Lemmas.Core
import DynetxProofs.Spec
/-
  From one call to bulk calls and whole histories (removal mode).
-/
namespace Dynetx

theorem addInteraction_none_or_same (g : Graph) (u v : Node) (t e : Option Int) :
    (g.addInteraction u v t e).2 = none ∨ (g.addInteraction u v t e).1 = g := by
  unfold Graph.addInteraction
  repeat' split
  all_goals simp

/-- whatever exception `add_interaction` raises, the state is the one before the call
    (both classes, both modes) -/
theorem addInteraction_error_unchanged (g : Graph) (u v : Node) (t e : Option Int) (err : Err)
    (h : (g.addInteraction u v t e).2 = some err) : (g.addInteraction u v t e).1 = g := by
  rcases addInteraction_none_or_same g u v t e with h' | h'
  · rw [h'] at h; cases h
  · exact h'

theorem inLog_append (d : Bool) (l1 l2 : List Accepted) (a b : Node) (x : Int) :
    inLog d (l1 ++ l2) a b x ↔ inLog d l1 a b x ∨ inLog d l2 a b x := by
  unfold inLog
  constructor
  · rintro ⟨s, hs, h⟩
    rcases List.mem_append.mp hs with h1 | h2
    · exact Or.inl ⟨s, h1, h⟩
    · exact Or.inr ⟨s, h2, h⟩
  · rintro (⟨s, hs, h⟩ | ⟨s, hs, h⟩)
    · exact ⟨s, List.mem_append_left _ hs, h⟩
    · exact ⟨s, List.mem_append_right _ hs, h⟩

theorem inLog_nil (d : Bool) (a b : Node) (x : Int) : ¬ inLog d [] a b x := by
  rintro ⟨s, hs, _⟩; cases hs

theorem inLog_single (d : Bool) (u v : Node) (t0 t1 : Int) (a b : Node) (x : Int) :
    inLog d [(u, v, t0, t1)] a b x ↔ (sameKey d u v a b = true ∧ t0 ≤ x ∧ x ≤ t1) := by
  unfold inLog
  constructor
  · rintro ⟨s, hs, h⟩
    rw [List.mem_singleton] at hs; subst hs; exact h
  · intro h; exact ⟨_, List.mem_singleton.mpr rfl, h⟩

/-- what a bulk call (or a single call: a one-element bulk call) does on a well-formed graph -/
structure BulkSpec (g : Graph) (log : List Accepted) (r : Graph × Option Err) : Prop where
  wf : WF r.1
  removal : r.1.removal = true
  directed : r.1.directed = g.directed
  outcome : r.2 = none ∨ r.2 = some .value
  presence : ∀ a b x, r.1.hasInteraction a b (some x) = true ↔
      g.hasInteraction a b (some x) = true ∨ inLog g.directed log a b x

theorem addFromGo_spec (g : Graph) (h : WF g) (hr : g.removal = true) (t0 : Int) (e : Option Int)
    (es : List (Node × Node)) : BulkSpec g (g.goLog t0 e es) (g.addFromGo es (some t0) e) := by
  induction es generalizing g with
  | nil =>
    exact ⟨h, hr, rfl, Or.inl rfl, fun a b x => by simp [Graph.goLog, Graph.addFromGo, inLog_nil]⟩
  | cons p rest ih =>
    obtain ⟨u, v⟩ := p
    have hE := effE_removal g hr e
    cases hs : spanEnd t0 e with
    | none =>
      have hres : g.addInteraction u v (some t0) e = (g, none) :=
        addInteraction_emptySpan g u v t0 e (by rw [hE]; exact hs)
      have := ih g h hr
      simp only [Graph.addFromGo, Graph.goLog, hres, hE, hs, List.nil_append]
      exact this
    | some t1 =>
      have sp := addInteraction_stepSpec g h hr u v t0 e t1 hs
      rcases hres : g.addInteraction u v (some t0) e with ⟨g', o⟩
      rw [hres] at sp
      cases o with
      | some err =>
        rcases sp.outcome with ho | ⟨ho, hg⟩
        · cases ho
        · simp only at ho hg; cases ho; subst hg
          simp only [Graph.addFromGo, Graph.goLog, hres]
          exact ⟨h, hr, rfl, Or.inr rfl, fun a b x => by simp [inLog_nil]⟩
      | none =>
        have hr' : g'.removal = true := by have := sp.removal; simp only at this; rw [this, hr]
        have hd' : g'.directed = g.directed := sp.directed
        have rc := ih g' sp.wf hr'
        simp only [Graph.addFromGo, Graph.goLog, hres, hE, hs]
        refine ⟨rc.wf, rc.removal, by rw [rc.directed, hd'], rc.outcome, ?_⟩
        intro a b x
        rw [rc.presence, sp.presence rfl, inLog_append, inLog_single, hd']
        constructor
        · rintro ((h1 | h2) | h3)
          · exact Or.inl h1
          · exact Or.inr (Or.inl h2)
          · exact Or.inr (Or.inr h3)
        · rintro (h1 | h2 | h3)
          · exact Or.inl (Or.inl h1)
          · exact Or.inl (Or.inr h2)
          · exact Or.inr h3

/-- one API call of the add family -/
structure StepOk (g : Graph) (op : Op) : Prop where
  wf : WF (g.step op).1
  removal : (g.step op).1.removal = true
  directed : (g.step op).1.directed = g.directed
  /-- a call is rejected by the documented rule or succeeds: no other exception -/
  outcome : (g.step op).2 = none ∨ (g.step op).2 = some .value ∨ ((g.step op).2 = some .networkx ∧ op.t = none)
  presence : ∀ a b x, (g.step op).1.hasInteraction a b (some x) = true ↔
      g.hasInteraction a b (some x) = true ∨ inLog g.directed (g.stepLog op) a b x

theorem step_ok (g : Graph) (h : WF g) (hr : g.removal = true) (op : Op) : StepOk g op := by
  cases ht : op.t with
  | none =>
    have hs : g.step op = (g, some .networkx) := by simp [Graph.step, Graph.addInteractionsFrom, ht]
    have hl : g.stepLog op = [] := by simp [Graph.stepLog, ht]
    refine ⟨by rw [hs]; exact h, by rw [hs]; exact hr, by rw [hs], Or.inr (Or.inr ⟨by rw [hs], ht⟩), ?_⟩
    intro a b x
    rw [hs, hl]; simp [inLog_nil]
  | some t0 =>
    have hs : g.step op = g.addFromGo op.pairs (some t0) op.e := by simp [Graph.step, Graph.addInteractionsFrom, ht]
    have hl : g.stepLog op = g.goLog t0 op.e op.pairs := by simp [Graph.stepLog, ht]
    have := addFromGo_spec g h hr t0 op.e op.pairs
    rw [← hs, ← hl] at this
    exact ⟨this.wf, this.removal, this.directed,
      (by rcases this.outcome with h1 | h1
          · exact Or.inl h1
          · exact Or.inr (Or.inl h1)), this.presence⟩

structure RunOk (g : Graph) (ops : List Op) : Prop where
  wf : WF (g.run ops).1
  removal : (g.run ops).1.removal = true
  directed : (g.run ops).1.directed = g.directed
  outcomes : ∀ o ∈ (g.run ops).2, o = none ∨ o = some .value ∨ o = some .networkx
  presence : ∀ a b x, (g.run ops).1.hasInteraction a b (some x) = true ↔
      g.hasInteraction a b (some x) = true ∨ inLog g.directed (g.runLog ops) a b x

theorem run_ok (g : Graph) (h : WF g) (hr : g.removal = true) (ops : List Op) : RunOk g ops := by
  induction ops generalizing g with
  | nil =>
    exact ⟨h, hr, rfl, (by intro o ho; cases ho), fun a b x => by simp [Graph.run, Graph.runLog, inLog_nil]⟩
  | cons op rest ih =>
    have s := step_ok g h hr op
    have r := ih (g.step op).1 s.wf s.removal
    refine ⟨r.wf, r.removal, by rw [show (g.run (op :: rest)).1 = ((g.step op).1.run rest).1 from rfl, r.directed, s.directed], ?_, ?_⟩
    · intro o ho
      have : o = (g.step op).2 ∨ o ∈ ((g.step op).1.run rest).2 := by
        simpa [Graph.run] using ho
      rcases this with rfl | ho'
      · rcases s.outcome with h1 | h1 | ⟨h1, _⟩
        · exact Or.inl h1
        · exact Or.inr (Or.inl h1)
        · exact Or.inr (Or.inr h1)
      · exact r.outcomes o ho'
    · intro a b x
      show ((g.step op).1.run rest).1.hasInteraction a b (some x) = true ↔ _
      rw [r.presence, s.presence, s.directed]
      show _ ↔ _ ∨ inLog g.directed (g.stepLog op ++ (g.step op).1.runLog rest) a b x
      rw [inLog_append]
      constructor
      · rintro ((h1 | h2) | h3)
        · exact Or.inl h1
        · exact Or.inr (Or.inl h2)
        · exact Or.inr (Or.inr h3)
      · rintro (h1 | h2 | h3)
        · exact Or.inl (Or.inl h1)
        · exact Or.inl (Or.inr h2)
        · exact Or.inr h3

end Dynetx
