import DynetxModel
/-
  Timelines: canonical form (latest run first, as stored by the model), membership, and the
  presence test of the code on canonical timelines.
-/
namespace Dynetx

/-- canonical timeline, latest run first: every interval non-empty, consecutive runs separated by
    at least one absent instant -/
def Canon : List Span → Prop
  | [] => True
  | [s] => s.1 ≤ s.2
  | s :: r :: rest => s.1 ≤ s.2 ∧ r.2 + 1 < s.1 ∧ Canon (r :: rest)

/-- the same for the exposed (oldest first) list -/
def CanonAsc : List Span → Prop
  | [] => True
  | [s] => s.1 ≤ s.2
  | s :: r :: rest => s.1 ≤ s.2 ∧ s.2 + 1 < r.1 ∧ CanonAsc (r :: rest)

/-- `x` lies in one of the intervals -/
def memTl (tl : List Span) (x : Int) : Prop := ∃ s ∈ tl, s.1 ≤ x ∧ x ≤ s.2

theorem Canon.tail {s : Span} {tl : List Span} (h : Canon (s :: tl)) : Canon tl := by
  cases tl with
  | nil => trivial
  | cons r rest => exact h.2.2

theorem Canon.head_le {s : Span} {tl : List Span} (h : Canon (s :: tl)) : s.1 ≤ s.2 := by
  cases tl with
  | nil => exact h
  | cons r rest => exact h.1

/-- everything below the head of a canonical timeline ends before the head starts -/
theorem Canon.below {s : Span} {tl : List Span} (h : Canon (s :: tl)) :
    ∀ r ∈ tl, r.2 + 1 < s.1 := by
  induction tl generalizing s with
  | nil => intro r hr; cases hr
  | cons q rest ih =>
    intro r hr
    have hq : q.2 + 1 < s.1 := h.2.1
    rcases List.mem_cons.mp hr with rfl | hr'
    · exact hq
    · have := ih h.2.2 r hr'
      have hq' := Canon.head_le h.2.2
      omega

theorem Canon.all_le {tl : List Span} (h : Canon tl) : ∀ r ∈ tl, r.1 ≤ r.2 := by
  induction tl with
  | nil => intro r hr; cases hr
  | cons s rest ih =>
    intro r hr
    rcases List.mem_cons.mp hr with rfl | hr'
    · exact h.head_le
    · exact ih h.tail r hr'

theorem memTl_cons (s : Span) (tl : List Span) (x : Int) :
    memTl (s :: tl) x ↔ (s.1 ≤ x ∧ x ≤ s.2) ∨ memTl tl x := by
  unfold memTl
  constructor
  · rintro ⟨r, hr, hx⟩
    rcases List.mem_cons.mp hr with rfl | hr'
    · exact Or.inl hx
    · exact Or.inr ⟨r, hr', hx⟩
  · rintro (hx | ⟨r, hr, hx⟩)
    · exact ⟨s, List.mem_cons_self, hx⟩
    · exact ⟨r, List.mem_cons_of_mem _ hr, hx⟩

theorem memTl_nil (x : Int) : ¬ memTl [] x := by
  rintro ⟨r, hr, _⟩; cases hr

theorem any_spanMem_iff (tl : List Span) (x : Int) :
    tl.any (fun s => spanMem s x) = true ↔ memTl tl x := by
  unfold memTl spanMem
  simp [List.any_eq_true]

/-- the first (oldest) interval of a canonical timeline starts no later than any member -/
theorem Canon.getLast_le {tl : List Span} (h : Canon tl) {f : Span} (hf : tl.getLast? = some f) :
    ∀ r ∈ tl, f.1 ≤ r.1 := by
  induction tl with
  | nil => intro r hr; cases hr
  | cons s rest ih =>
    intro r hr
    cases rest with
    | nil =>
      simp at hf; subst hf
      rcases List.mem_cons.mp hr with rfl | hr'
      · exact Int.le_refl _
      · cases hr'
    | cons q rest' =>
      have hf' : (q :: rest').getLast? = some f := by simpa [List.getLast?_cons_cons] using hf
      rcases List.mem_cons.mp hr with rfl | hr'
      · have h1 := ih h.tail hf' q List.mem_cons_self
        have h2 : q.2 + 1 < r.1 := h.2.1
        have h3 := Canon.head_le h.tail
        omega
      · exact ih h.tail hf' r hr'

/-- on a canonical, non-empty timeline the code's presence test (envelope first, then membership)
    decides membership -/
theorem presenceTest_iff (g : Graph) (hr : g.removal = true) (tl : List Span) (hc : Canon tl) (x : Int) :
    g.presenceTest tl x = true ↔ memTl tl x := by
  cases tl with
  | nil => simp [Graph.presenceTest, memTl]
  | cons last rest =>
    have hne : (last :: rest).getLast? ≠ none := by simp
    cases hgl : (last :: rest).getLast? with
    | none => exact absurd hgl hne
    | some first =>
      simp only [Graph.presenceTest, hgl, hr, if_true]
      rw [Bool.and_eq_true, Bool.and_eq_true, any_spanMem_iff]
      constructor
      · intro h; exact h.2
      · intro hm
        refine ⟨⟨?_, ?_⟩, hm⟩
        · obtain ⟨r, hrm, hx⟩ := hm
          have := hc.getLast_le hgl r hrm
          simp; omega
        · obtain ⟨r, hrm, hx⟩ := hm
          rcases List.mem_cons.mp hrm with rfl | hr'
          · simp; omega
          · have h1 := hc.below r hr'
            have h2 := hc.head_le
            simp; omega

theorem canonAsc_append_single {l : List Span} {s : Span} (hl : CanonAsc l) (hs : s.1 ≤ s.2)
    (hsep : ∀ r ∈ l, r.2 + 1 < s.1) : CanonAsc (l ++ [s]) := by
  induction l with
  | nil => simpa [CanonAsc] using hs
  | cons a rest ih =>
    cases rest with
    | nil =>
      have := hsep a List.mem_cons_self
      show CanonAsc [a, s]
      exact ⟨hl, this, hs⟩
    | cons b rest' =>
      have hb : CanonAsc (b :: rest') := hl.2.2
      have := ih hb (fun r hr => hsep r (List.mem_cons_of_mem _ hr))
      exact ⟨hl.1, hl.2.1, this⟩

/-- the exposed (reversed) list of a canonical timeline is canonical in the ascending sense -/
theorem Canon.reverse {tl : List Span} (h : Canon tl) : CanonAsc tl.reverse := by
  induction tl with
  | nil => trivial
  | cons s rest ih =>
    rw [List.reverse_cons]
    apply canonAsc_append_single (ih h.tail) h.head_le
    intro r hr
    exact h.below r (List.mem_reverse.mp hr)

theorem memTl_reverse (tl : List Span) (x : Int) : memTl tl.reverse x ↔ memTl tl x := by
  unfold memTl; simp

end Dynetx
