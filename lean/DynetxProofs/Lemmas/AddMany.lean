import DynetxProofs.Lemmas.HistoryMore
/-
  The library's own constructors (time_slice, to_directed, to_undirected, the readers, node_link_graph)
  build their result by a sequence of add_interaction calls on a fresh graph.  If, pair by pair, the
  calls come in non-decreasing start order, none of them is rejected and the result's presence is the
  union of the spans.
-/
namespace Dynetx

abbrev Call4 := Node × Node × Int × Option Int

/-- `x` lies in the (non-empty) span of some call of the list made for the pair `(a,b)` -/
def inCalls (d : Bool) (calls : List Call4) (a b : Node) (x : Int) : Prop :=
  ∃ c ∈ calls, sameKey d c.1 c.2.1 a b = true ∧ ∃ t1, spanEnd c.2.2.1 c.2.2.2 = some t1 ∧ c.2.2.1 ≤ x ∧ x ≤ t1

/-- per pair, starts are non-decreasing in call order -/
def CallsSorted (d : Bool) (calls : List Call4) : Prop :=
  calls.Pairwise (fun c1 c2 => sameKey d c1.1 c1.2.1 c2.1 c2.2.1 = true → c1.2.2.1 ≤ c2.2.2.1)

theorem inCalls_append (d : Bool) (l1 l2 : List Call4) (a b : Node) (x : Int) :
    inCalls d (l1 ++ l2) a b x ↔ inCalls d l1 a b x ∨ inCalls d l2 a b x := by
  unfold inCalls
  constructor
  · rintro ⟨c, hc, h⟩
    rcases List.mem_append.mp hc with h1 | h2
    · exact Or.inl ⟨c, h1, h⟩
    · exact Or.inr ⟨c, h2, h⟩
  · rintro (⟨c, hc, h⟩ | ⟨c, hc, h⟩)
    · exact ⟨c, List.mem_append_left _ hc, h⟩
    · exact ⟨c, List.mem_append_right _ hc, h⟩

/-- the head of a canonical stored timeline: its start is present, the instant before is not -/
theorem WF.head_start {g : Graph} (h : WF g) (hr : g.removal = true) {u v : Node} {ed : Edge} {a b : Int}
    {rest : List Span} (hf : g.findEdge u v = some ed) (htl : ed.tl = (a, b) :: rest) :
    g.hasInteraction u v (some a) = true ∧ g.hasInteraction u v (some (a - 1)) = false := by
  obtain ⟨hem, hek⟩ := findEdge_some hf
  obtain ⟨_, hc⟩ := h.tl ed hem
  rw [htl] at hc
  constructor
  · rw [h.hasInteraction_iff hr]
    exact ⟨ed, hem, hek, by rw [htl]; exact ⟨(a, b), List.mem_cons_self, Int.le_refl _, hc.head_le⟩⟩
  · cases hh : g.hasInteraction u v (some (a - 1)) with
    | false => rfl
    | true =>
      obtain ⟨e', hem', hek', s, hs, hx⟩ := (h.hasInteraction_iff hr u v (a - 1)).mp hh
      have : e' = ed := pairwise_unique h.keys hem' hem hek' hek
      subst this
      rw [htl] at hs
      rcases List.mem_cons.mp hs with rfl | hs'
      · simp at hx; omega
      · have := hc.below s hs'
        omega

structure ManyInv (d : Bool) (g : Graph) (done : List Call4) : Prop where
  wf : WF g
  removal : g.removal = true
  directed : g.directed = d
  presence : ∀ a b x, g.hasInteraction a b (some x) = true ↔ inCalls d done a b x

/-- one more call, whose start is not earlier than that of any earlier call of the same pair -/
theorem ManyInv.step {d : Bool} {g : Graph} {done : List Call4} (h : ManyInv d g done) (c : Call4)
    (hord : ∀ c' ∈ done, sameKey d c'.1 c'.2.1 c.1 c.2.1 = true → c'.2.2.1 ≤ c.2.2.1) :
    (g.addInteraction c.1 c.2.1 (some c.2.2.1) c.2.2.2).2 = none ∧
    ManyInv d (g.addInteraction c.1 c.2.1 (some c.2.2.1) c.2.2.2).1 (done ++ [c]) := by
  obtain ⟨u, v, t0, e⟩ := c
  simp only
  have hE := effE_removal g h.removal e
  cases hs : spanEnd t0 e with
  | none =>
    rw [addInteraction_emptySpan g u v t0 e (by rw [hE]; exact hs)]
    refine ⟨rfl, h.wf, h.removal, h.directed, ?_⟩
    intro a b x
    rw [h.presence, inCalls_append]
    constructor
    · exact Or.inl
    · rintro (h1 | ⟨c, hc, _, t1, hsp, _⟩)
      · exact h1
      · simp at hc; subst hc; simp only at hsp; rw [hs] at hsp; cases hsp
  | some t1 =>
    have sp := addInteraction_stepSpec g h.wf h.removal u v t0 e t1 hs
    have hnot : ¬ ((g.addInteraction u v (some t0) e).2 = some .value) := by
      intro hrej
      obtain ⟨ed, a, b, rest, hf, htl, hlt⟩ := sp.rejected_iff.mp hrej
      obtain ⟨hpa, hpa'⟩ := h.wf.head_start h.removal hf htl
      obtain ⟨c', hc', hk, t1', hsp', h1, h2⟩ := (h.presence u v a).mp hpa
      have hle : c'.2.2.1 ≤ t0 := hord c' hc' hk
      -- the instant before `a` would be present unless `a` is the start of that call
      by_cases hst : c'.2.2.1 < a
      · have : g.hasInteraction u v (some (a - 1)) = true :=
          (h.presence u v (a - 1)).mpr ⟨c', hc', hk, t1', hsp', by omega, by omega⟩
        rw [hpa'] at this; cases this
      · omega
    have hacc : (g.addInteraction u v (some t0) e).2 = none := by
      rcases sp.outcome with h1 | ⟨h1, _⟩
      · exact h1
      · exact absurd h1 hnot
    refine ⟨hacc, sp.wf, by rw [sp.removal]; exact h.removal, by rw [sp.directed]; exact h.directed, ?_⟩
    intro a b x
    rw [sp.presence hacc, h.presence, inCalls_append, h.directed]
    constructor
    · rintro (h1 | ⟨hk, hx⟩)
      · exact Or.inl h1
      · exact Or.inr ⟨(u, v, t0, e), List.mem_singleton.mpr rfl, hk, t1, hs, hx⟩
    · rintro (h1 | ⟨c, hc, hk, t1', hsp, hx⟩)
      · exact Or.inl h1
      · simp at hc; subst hc
        simp only at hsp hk hx
        rw [hs] at hsp; cases hsp
        exact Or.inr ⟨hk, hx⟩

/-- a sorted call sequence on a graph that satisfies the invariant is accepted in full -/
theorem ManyInv.addMany {d : Bool} {g : Graph} {done : List Call4} (h : ManyInv d g done) (calls : List Call4)
    (hs : CallsSorted d (done ++ calls)) :
    (g.addMany calls).2 = none ∧ ManyInv d (g.addMany calls).1 (done ++ calls) := by
  induction calls generalizing g done with
  | nil => exact ⟨rfl, by simpa [Graph.addMany] using h⟩
  | cons c rest ih =>
    have hord : ∀ c' ∈ done, sameKey d c'.1 c'.2.1 c.1 c.2.1 = true → c'.2.2.1 ≤ c.2.2.1 := by
      intro c' hc'
      unfold CallsSorted at hs
      rw [List.pairwise_append] at hs
      exact hs.2.2 c' hc' c List.mem_cons_self
    obtain ⟨hacc, hinv⟩ := h.step c hord
    obtain ⟨u, v, t0, e⟩ := c
    have hs' : CallsSorted d ((done ++ [(u, v, t0, e)]) ++ rest) := by simpa [List.append_assoc] using hs
    obtain ⟨r1, r2⟩ := ih hinv hs'
    simp only at hacc hinv
    rcases hres : g.addInteraction u v (some t0) e with ⟨g', o⟩
    rw [hres] at hacc hinv r1 r2
    simp only at hacc; subst hacc
    simp only [Graph.addMany, hres]
    exact ⟨r1, by simpa [List.append_assoc] using r2⟩

/-- a fresh graph (possibly with nodes and attributes already in place) satisfies the invariant -/
theorem ManyInv.fresh (g : Graph) (he : g.edges = []) (hr : g.removal = true) : ManyInv g.directed g [] := by
  refine ⟨⟨(by rw [he]; intro e h; cases h), (by rw [he]; exact List.Pairwise.nil)⟩, hr, rfl, ?_⟩
  intro a b x
  constructor
  · intro hh
    have : g.findEdge a b = none := by simp [Graph.findEdge, he]
    simp [Graph.hasInteraction, this] at hh
  · rintro ⟨c, hc, _⟩; cases hc

/-- main statement: sorted calls on a fresh graph -/
theorem addMany_fresh (g : Graph) (he : g.edges = []) (hr : g.removal = true) (calls : List Call4)
    (hs : CallsSorted g.directed calls) :
    (g.addMany calls).2 = none ∧ WF (g.addMany calls).1 ∧ (g.addMany calls).1.removal = true ∧
    (g.addMany calls).1.directed = g.directed ∧
    ∀ a b x, (g.addMany calls).1.hasInteraction a b (some x) = true ↔ inCalls g.directed calls a b x := by
  obtain ⟨h1, h2⟩ := (ManyInv.fresh g he hr).addMany calls (by simpa using hs)
  exact ⟨h1, h2.wf, h2.removal, h2.directed, by simpa using h2.presence⟩

end Dynetx
