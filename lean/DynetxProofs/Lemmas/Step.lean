import DynetxProofs.Lemmas.Fields
/-
  What one accepted add_interaction does to the timelines (removal mode), branch by branch.
-/
namespace Dynetx

/-- the new timeline of an existing pair whose latest run is `[a,b]`, for an accepted span `[t0,t1]`
    (`a ≤ t0 ≤ t1`): covered / extend / new run -/
def mergeTl (a b : Int) (rest : List Span) (t0 t1 : Int) : List Span :=
  if t1 ≤ b then (a, b) :: rest else if t0 ≤ b + 1 then (a, t1) :: rest else (t0, t1) :: (a, b) :: rest

theorem mergeTl_canon {a b : Int} {rest : List Span} {t0 t1 : Int}
    (h : Canon ((a, b) :: rest)) (h0 : a ≤ t0) (h1 : t0 ≤ t1) : Canon (mergeTl a b rest t0 t1) := by
  unfold mergeTl
  have hab : a ≤ b := h.head_le
  split
  · exact h
  · split
    · cases rest with
      | nil => show a ≤ t1; omega
      | cons r rest' =>
        have h2 : r.2 + 1 < a := h.2.1
        exact ⟨by show a ≤ t1; omega, h2, h.2.2⟩
    · exact ⟨h1, by show b + 1 < t0; omega, h⟩

theorem mergeTl_mem {a b : Int} {rest : List Span} {t0 t1 : Int}
    (h : Canon ((a, b) :: rest)) (h0 : a ≤ t0) (_h1 : t0 ≤ t1) (x : Int) :
    memTl (mergeTl a b rest t0 t1) x ↔ memTl ((a, b) :: rest) x ∨ (t0 ≤ x ∧ x ≤ t1) := by
  unfold mergeTl
  have hab : a ≤ b := h.head_le
  split
  · constructor
    · exact Or.inl
    · rintro (hm | hx)
      · exact hm
      · rw [memTl_cons]; left; show a ≤ x ∧ x ≤ b; omega
  · split
    · rw [memTl_cons, memTl_cons]
      show (a ≤ x ∧ x ≤ t1) ∨ memTl rest x ↔ ((a ≤ x ∧ x ≤ b) ∨ memTl rest x) ∨ (t0 ≤ x ∧ x ≤ t1)
      constructor
      · rintro (hx | hm)
        · by_cases hxb : x ≤ b
          · exact Or.inl (Or.inl ⟨hx.1, hxb⟩)
          · exact Or.inr ⟨by omega, hx.2⟩
        · exact Or.inl (Or.inr hm)
      · rintro ((hx | hm) | hx)
        · exact Or.inl ⟨hx.1, by omega⟩
        · exact Or.inr hm
        · exact Or.inl ⟨by omega, hx.2⟩
    · rw [memTl_cons]
      show (t0 ≤ x ∧ x ≤ t1) ∨ memTl ((a, b) :: rest) x ↔ _
      constructor
      · rintro (hx | hm)
        · exact Or.inr hx
        · exact Or.inl hm
      · rintro (hm | hx)
        · exact Or.inr hm
        · exact Or.inl hx

theorem mergeTl_ne_nil (a b : Int) (rest : List Span) (t0 t1 : Int) : mergeTl a b rest t0 t1 ≠ [] := by
  unfold mergeTl
  split
  · simp
  · split <;> simp

theorem effE_removal (g : Graph) (hr : g.removal = true) (e : Option Int) : g.effE e = e := by
  simp [Graph.effE, hr]

theorem spanEnd_le {t0 t1 : Int} {e : Option Int} (h : spanEnd t0 e = some t1) : t0 ≤ t1 := by
  unfold spanEnd at h
  cases e with
  | none => simp at h; omega
  | some e =>
    simp only at h
    split at h
    · cases h
    · simp at h; omega

theorem findEdge_some {g : Graph} {u v : Node} {ed : Edge} (h : g.findEdge u v = some ed) :
    ed ∈ g.edges ∧ sameKey g.directed ed.u ed.v u v = true := by
  unfold Graph.findEdge at h
  exact ⟨List.mem_of_find?_eq_some h, by simpa using List.find?_some h⟩

theorem findEdge_none {g : Graph} {u v : Node} (h : g.findEdge u v = none) :
    ∀ ed ∈ g.edges, sameKey g.directed ed.u ed.v u v = false := by
  unfold Graph.findEdge at h
  intro ed hed
  have := List.find?_eq_none.mp h ed hed
  simpa using this

/-- all stored edges of the pair get the timeline `tl` -/
def mapTl (g : Graph) (u v : Node) (tl : List Span) : List Edge :=
  g.edges.map (fun e' => if sameKey g.directed e'.u e'.v u v then { e' with tl := tl } else e')

/-! ### the branch functions, field by field -/

theorem addExtend_edges (g : Graph) (u v : Node) (t0 t1 a b : Int) (rest : List Span) (eR : Option Int) :
    (g.addExtend u v t0 t1 a b rest eR).edges = mapTl g u v ((a, t1) :: rest) := by
  unfold Graph.addExtend
  cases eR with
  | none =>
    simp only [bumpRange_edges]
    split
    · rfl
    · simp only [addEvent_edges]; rfl
  | some e => simp only [bumpRange_edges, addEvent_edges]; rfl

theorem addExtend_directed (g : Graph) (u v : Node) (t0 t1 a b : Int) (rest : List Span) (eR : Option Int) :
    (g.addExtend u v t0 t1 a b rest eR).directed = g.directed := by
  unfold Graph.addExtend
  cases eR with
  | none =>
    simp only [bumpRange_directed]
    split
    · rfl
    · simp only [addEvent_directed]; rfl
  | some e => simp only [bumpRange_directed, addEvent_directed]; rfl

theorem addExtend_removal (g : Graph) (u v : Node) (t0 t1 a b : Int) (rest : List Span) (eR : Option Int) :
    (g.addExtend u v t0 t1 a b rest eR).removal = g.removal := by
  unfold Graph.addExtend
  cases eR with
  | none =>
    simp only [bumpRange_removal]
    split
    · rfl
    · simp only [addEvent_removal]; rfl
  | some e => simp only [bumpRange_removal, addEvent_removal]; rfl

theorem addAppend_edges (g : Graph) (u v : Node) (t0 t1 a b : Int) (rest : List Span) (eR : Option Int) :
    (g.addAppend u v t0 t1 a b rest eR).edges = mapTl g u v ((t0, t1) :: (a, b) :: rest) := by
  unfold Graph.addAppend
  simp only [bumpRange_edges, optAddMinus_edges, addEvent_edges]; rfl

theorem addAppend_directed (g : Graph) (u v : Node) (t0 t1 a b : Int) (rest : List Span) (eR : Option Int) :
    (g.addAppend u v t0 t1 a b rest eR).directed = g.directed := by
  unfold Graph.addAppend
  simp only [bumpRange_directed, optAddMinus_directed, addEvent_directed]; rfl

theorem addAppend_removal (g : Graph) (u v : Node) (t0 t1 a b : Int) (rest : List Span) (eR : Option Int) :
    (g.addAppend u v t0 t1 a b rest eR).removal = g.removal := by
  unfold Graph.addAppend
  simp only [bumpRange_removal, optAddMinus_removal, addEvent_removal]; rfl

theorem addNew_edges (g : Graph) (u v : Node) (t0 t1 : Int) (eR : Option Int) :
    (g.addNew u v t0 t1 eR).edges = g.edges ++ [({ u := u, v := v, tl := [(t0, t1)] } : Edge)] := by
  unfold Graph.addNew
  simp only []
  split <;> simp only [bumpRange_edges, optAddMinus_edges, addEvent_edges] <;> rfl

theorem addNew_directed (g : Graph) (u v : Node) (t0 t1 : Int) (eR : Option Int) :
    (g.addNew u v t0 t1 eR).directed = g.directed := by
  unfold Graph.addNew
  simp only []
  split <;> simp only [bumpRange_directed, optAddMinus_directed, addEvent_directed] <;> rfl

theorem addNew_removal (g : Graph) (u v : Node) (t0 t1 : Int) (eR : Option Int) :
    (g.addNew u v t0 t1 eR).removal = g.removal := by
  unfold Graph.addNew
  simp only []
  split <;> simp only [bumpRange_removal, optAddMinus_removal, addEvent_removal] <;> rfl

theorem addCovered_edges (g : Graph) (u v : Node) (t1 b : Int) (eR : Option Int) :
    (g.addCovered u v t1 b eR).edges = g.edges := by
  unfold Graph.addCovered; split <;> simp

theorem addCovered_directed (g : Graph) (u v : Node) (t1 b : Int) (eR : Option Int) :
    (g.addCovered u v t1 b eR).directed = g.directed := by
  unfold Graph.addCovered; split <;> simp

theorem addCovered_removal (g : Graph) (u v : Node) (t1 b : Int) (eR : Option Int) :
    (g.addCovered u v t1 b eR).removal = g.removal := by
  unfold Graph.addCovered; split <;> simp

/-! ### which branch `add_interaction` takes (removal mode, timestamp given, non-empty span) -/

section branches
variable (g : Graph) (hr : g.removal = true) (u v : Node) (t0 : Int) (e : Option Int) (t1 : Int)
  (hs : spanEnd t0 e = some t1)
include hr hs

theorem addInteraction_new (hf : g.findEdge u v = none) :
    g.addInteraction u v (some t0) e = (g.addNew u v t0 t1 e, none) := by
  simp only [Graph.addInteraction, effE_removal g hr, hs, hf]

theorem addInteraction_reject {ed : Edge} {a b : Int} {rest : List Span} (hf : g.findEdge u v = some ed)
    (htl : ed.tl = (a, b) :: rest) (hlt : t0 < a) :
    g.addInteraction u v (some t0) e = (g, some .value) := by
  simp only [Graph.addInteraction, effE_removal g hr, hs, hf, htl, hlt, if_true]

theorem addInteraction_covered {ed : Edge} {a b : Int} {rest : List Span} (hf : g.findEdge u v = some ed)
    (htl : ed.tl = (a, b) :: rest) (hlt : ¬ t0 < a) (hc : t1 ≤ b) :
    g.addInteraction u v (some t0) e = (g.addCovered u v t1 b e, none) := by
  simp [Graph.addInteraction, effE_removal g hr, hs, hf, htl, hlt, hr, hc]

theorem addInteraction_extend {ed : Edge} {a b : Int} {rest : List Span} (hf : g.findEdge u v = some ed)
    (htl : ed.tl = (a, b) :: rest) (hlt : ¬ t0 < a) (hc : ¬ t1 ≤ b) (hx : t0 ≤ b + 1) :
    g.addInteraction u v (some t0) e = (g.addExtend u v t0 t1 a b rest e, none) := by
  simp [Graph.addInteraction, effE_removal g hr, hs, hf, htl, hlt, hr, hc, hx]

theorem addInteraction_append {ed : Edge} {a b : Int} {rest : List Span} (hf : g.findEdge u v = some ed)
    (htl : ed.tl = (a, b) :: rest) (hlt : ¬ t0 < a) (hc : ¬ t1 ≤ b) (hx : ¬ t0 ≤ b + 1) :
    g.addInteraction u v (some t0) e = (g.addAppend u v t0 t1 a b rest e, none) := by
  simp [Graph.addInteraction, effE_removal g hr, hs, hf, htl, hlt, hr, hc, hx]

end branches

theorem addInteraction_noTime (g : Graph) (u v : Node) (e : Option Int) :
    g.addInteraction u v none e = (g, some .networkx) := rfl

theorem addInteraction_emptySpan (g : Graph) (u v : Node) (t0 : Int) (e : Option Int)
    (hs : spanEnd t0 (g.effE e) = none) : g.addInteraction u v (some t0) e = (g, none) := by
  simp only [Graph.addInteraction, hs]

end Dynetx
