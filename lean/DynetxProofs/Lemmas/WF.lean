import DynetxProofs.Lemmas.Step
/-
  The structural invariant of a removal-enabled graph and the presence relation it induces.
-/
namespace Dynetx

/-- every stored pair has a non-empty canonical timeline; no pair is stored twice -/
structure WF (g : Graph) : Prop where
  tl : ∀ e ∈ g.edges, e.tl ≠ [] ∧ Canon e.tl
  keys : g.edges.Pairwise (fun e f => sameKey g.directed e.u e.v f.u f.v = false)

theorem WF.empty (d r : Bool) : WF (Graph.empty d r) :=
  ⟨(by intro e he; cases he), List.Pairwise.nil⟩

theorem pairwise_unique {d : Bool} {l : List Edge}
    (h : l.Pairwise (fun e f => sameKey d e.u e.v f.u f.v = false)) {e f : Edge} (he : e ∈ l) (hf : f ∈ l)
    {a b : Node} (hea : sameKey d e.u e.v a b = true) (hfa : sameKey d f.u f.v a b = true) : e = f := by
  induction l with
  | nil => cases he
  | cons x xs ih =>
    rw [List.pairwise_cons] at h
    have key : ∀ y ∈ xs, sameKey d y.u y.v a b = true → sameKey d x.u x.v a b = true → False := by
      intro y hy hya hxa
      have h1 := h.1 y hy
      have h2 : sameKey d x.u x.v y.u y.v = true := sameKey_trans hxa (by rw [sameKey_symm]; exact hya)
      rw [h1] at h2; cases h2
    rcases List.mem_cons.mp he with rfl | he'
    · rcases List.mem_cons.mp hf with rfl | hf'
      · rfl
      · exact (key f hf' hfa hea).elim
    · rcases List.mem_cons.mp hf with rfl | hf'
      · exact (key e he' hea hfa).elim
      · exact ih h.2 he' hf'

theorem WF.findEdge_of_mem {g : Graph} (h : WF g) {e : Edge} (he : e ∈ g.edges) {a b : Node}
    (hk : sameKey g.directed e.u e.v a b = true) : g.findEdge a b = some e := by
  cases hf : g.findEdge a b with
  | none => have := findEdge_none hf e he; rw [hk] at this; cases this
  | some f =>
    obtain ⟨hfm, hfk⟩ := findEdge_some hf
    rw [pairwise_unique h.keys he hfm hk hfk]

/-- presence as the union of the stored intervals of the pair -/
theorem WF.hasInteraction_iff {g : Graph} (h : WF g) (hr : g.removal = true) (a b : Node) (x : Int) :
    g.hasInteraction a b (some x) = true ↔
      ∃ e ∈ g.edges, sameKey g.directed e.u e.v a b = true ∧ memTl e.tl x := by
  unfold Graph.hasInteraction
  constructor
  · intro hh
    cases hf : g.findEdge a b with
    | none => simp [hf] at hh
    | some e =>
      simp only [hf] at hh
      obtain ⟨hem, hek⟩ := findEdge_some hf
      exact ⟨e, hem, hek, (presenceTest_iff g hr e.tl (h.tl e hem).2 x).mp hh⟩
  · rintro ⟨e, hem, hek, hm⟩
    rw [h.findEdge_of_mem hem hek]
    exact (presenceTest_iff g hr e.tl (h.tl e hem).2 x).mpr hm

theorem hasInteraction_flat_iff (g : Graph) (a b : Node) :
    g.hasInteraction a b none = true ↔ ∃ e ∈ g.edges, sameKey g.directed e.u e.v a b = true := by
  unfold Graph.hasInteraction
  constructor
  · intro hh
    cases hf : g.findEdge a b with
    | none => simp [hf] at hh
    | some e => exact ⟨e, (findEdge_some hf).1, (findEdge_some hf).2⟩
  · rintro ⟨e, hem, hek⟩
    cases hf : g.findEdge a b with
    | none => have := findEdge_none hf e hem; rw [hek] at this; cases this
    | some f => rfl

theorem mem_mapTl {g : Graph} {u v : Node} {tl : List Span} {e' : Edge} :
    e' ∈ mapTl g u v tl ↔
      ∃ e ∈ g.edges, e' = if sameKey g.directed e.u e.v u v then { e with tl := tl } else e := by
  unfold mapTl
  rw [List.mem_map]
  constructor
  · rintro ⟨e, he, rfl⟩; exact ⟨e, he, rfl⟩
  · rintro ⟨e, he, rfl⟩; exact ⟨e, he, rfl⟩

/-- replacing the timeline of the pair by a canonical one keeps the invariant -/
theorem wf_mapTl {g g' : Graph} (h : WF g) {u v : Node} {tl : List Span} (hne : tl ≠ []) (hc : Canon tl)
    (hd : g'.directed = g.directed) (he : g'.edges = mapTl g u v tl) : WF g' := by
  constructor
  · intro e' hm
    rw [he, mem_mapTl] at hm
    obtain ⟨e, hem, rfl⟩ := hm
    split
    · exact ⟨hne, hc⟩
    · exact h.tl e hem
  · rw [he, hd]
    unfold mapTl
    rw [List.pairwise_map]
    refine h.keys.imp ?_
    intro e f hef
    split <;> split <;> exact hef

theorem wf_append {g g' : Graph} (h : WF g) {u v : Node} {t0 t1 : Int} (h01 : t0 ≤ t1)
    (hf : g.findEdge u v = none) (hd : g'.directed = g.directed)
    (he : g'.edges = g.edges ++ [({ u := u, v := v, tl := [(t0, t1)] } : Edge)]) : WF g' := by
  constructor
  · intro e' hm
    rw [he, List.mem_append] at hm
    rcases hm with hm | hm
    · exact h.tl e' hm
    · simp at hm; subst hm
      exact ⟨by simp, h01⟩
  · rw [he, hd, List.pairwise_append]
    refine ⟨h.keys, List.pairwise_singleton _ _, ?_⟩
    intro e hem f hfm
    simp at hfm; subst hfm
    exact findEdge_none hf e hem

end Dynetx
