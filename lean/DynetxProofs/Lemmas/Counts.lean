import DynetxProofs.Lemmas.Snaps
/-
  The invariant behind interactions_per_snapshots: the counter of instant `x` is twice the number of
  stored pairs present at `x`; preserved by every accepted add_interaction (removal mode).
-/
namespace Dynetx

def presentTl (tl : List Span) (x : Int) : Bool := tl.any (fun s => spanMem s x)

theorem presentTl_iff (tl : List Span) (x : Int) : presentTl tl x = true ↔ memTl tl x :=
  any_spanMem_iff tl x

/-- number of stored pairs present at `x` -/
def Graph.countAt (g : Graph) (x : Int) : Nat := g.edges.countP (fun e => presentTl e.tl x)

structure SnapInv (g : Graph) : Prop where
  ok : SnapsOk g.snaps
  count : ∀ x, lookupSnap g.snaps x = 2 * g.countAt x

theorem SnapInv.empty (d r : Bool) : SnapInv (Graph.empty d r) :=
  ⟨⟨by simp [Graph.empty], by intro p hp; simp [Graph.empty] at hp⟩, by intro x; simp [Graph.empty, Graph.countAt, lookupSnap]⟩

/-! ### the branch functions and `snaps` -/

theorem addNew_snaps (g : Graph) (hr : g.removal = true) (u v : Node) (t0 t1 : Int) (eR : Option Int) :
    (g.addNew u v t0 t1 eR).snaps = bumpAll g.snaps (irange t0 t1) := by
  unfold Graph.addNew
  simp only []
  split
  · show bumpAll (optAddMinus _ eR u v).snaps _ = _
    simp only [optAddMinus_snaps, addEvent_snaps]
    rfl
  · rename_i hne
    exfalso; apply hne
    simp only [optAddMinus_removal, addEvent_removal]
    exact hr

theorem addCovered_snaps (g : Graph) (u v : Node) (t1 b : Int) (eR : Option Int) :
    (g.addCovered u v t1 b eR).snaps = g.snaps := by
  unfold Graph.addCovered; split <;> simp

theorem addExtend_snaps (g : Graph) (u v : Node) (t0 t1 a b : Int) (rest : List Span) (eR : Option Int) :
    (g.addExtend u v t0 t1 a b rest eR).snaps = bumpAll g.snaps (irange (b + 1) t1) := by
  unfold Graph.addExtend
  cases eR with
  | none =>
    simp only []
    split
    · rfl
    · show bumpAll (Graph.addEvent _ _ _ _ _).snaps _ = _
      simp only [addEvent_snaps]; rfl
  | some e =>
    show bumpAll (Graph.addEvent _ _ _ _ _).snaps _ = _
    simp only [addEvent_snaps]; rfl

theorem addAppend_snaps (g : Graph) (u v : Node) (t0 t1 a b : Int) (rest : List Span) (eR : Option Int) :
    (g.addAppend u v t0 t1 a b rest eR).snaps = bumpAll g.snaps (irange t0 t1) := by
  unfold Graph.addAppend
  show bumpAll (optAddMinus _ eR u v).snaps _ = _
  simp only [optAddMinus_snaps, addEvent_snaps]; rfl

/-! ### counting over the edge list -/

theorem map_nomatch {d : Bool} {u v : Node} {tl' : List Span} {l : List Edge}
    (h : ∀ f ∈ l, sameKey d f.u f.v u v = false) :
    l.map (fun e => if sameKey d e.u e.v u v then { e with tl := tl' } else e) = l := by
  induction l with
  | nil => rfl
  | cons e rest ih =>
    simp only [List.map_cons]
    rw [h e List.mem_cons_self, ih (fun f hf => h f (List.mem_cons_of_mem _ hf))]
    simp

theorem countP_map_unique {d : Bool} {u v : Node} {l : List Edge}
    (hp : l.Pairwise (fun e f => sameKey d e.u e.v f.u f.v = false)) {ed : Edge} (hed : ed ∈ l)
    (hk : sameKey d ed.u ed.v u v = true) (tl' : List Span) (x : Int) :
    (l.map (fun e => if sameKey d e.u e.v u v then { e with tl := tl' } else e)).countP (fun e => presentTl e.tl x)
        + b2n (presentTl ed.tl x)
      = l.countP (fun e => presentTl e.tl x) + b2n (presentTl tl' x) := by
  induction l with
  | nil => cases hed
  | cons e rest ih =>
    rw [List.pairwise_cons] at hp
    by_cases he : sameKey d e.u e.v u v = true
    · -- the head is the pair: nothing else matches
      have hnm : ∀ f ∈ rest, sameKey d f.u f.v u v = false := by
        intro f hf
        cases hfk : sameKey d f.u f.v u v with
        | false => rfl
        | true =>
          have h1 := hp.1 f hf
          have h2 : sameKey d e.u e.v f.u f.v = true := sameKey_trans he (by rw [sameKey_symm]; exact hfk)
          rw [h1] at h2; cases h2
      have hede : ed = e := by
        rcases List.mem_cons.mp hed with h | h
        · exact h
        · have := hnm ed h; rw [hk] at this; cases this
      subst hede
      simp only [List.map_cons, he, if_true, map_nomatch hnm, List.countP_cons]
      unfold b2n
      cases presentTl ed.tl x <;> cases presentTl tl' x <;> simp
    · have he' : sameKey d e.u e.v u v = false := by simpa using he
      have hed' : ed ∈ rest := by
        rcases List.mem_cons.mp hed with h | h
        · subst h; rw [hk] at he'; cases he'
        · exact h
      have := ih hp.2 hed'
      simp only [List.map_cons, he', Bool.false_eq_true, if_false, List.countP_cons]
      omega

/-- a timeline that gains exactly the fresh instants `lo..hi` -/
theorem presentTl_gain {old new : List Span} {lo hi : Int}
    (hmem : ∀ x, memTl new x ↔ memTl old x ∨ (lo ≤ x ∧ x ≤ hi))
    (hfresh : ∀ x, lo ≤ x ∧ x ≤ hi → ¬ memTl old x) (x : Int) :
    b2n (presentTl new x) = b2n (presentTl old x) + (if lo ≤ x ∧ x ≤ hi then 1 else 0) := by
  by_cases hx : lo ≤ x ∧ x ≤ hi
  · have h1 : presentTl new x = true := (presentTl_iff _ _).mpr ((hmem x).mpr (Or.inr hx))
    have h2 : presentTl old x = false := by
      cases h : presentTl old x with
      | false => rfl
      | true => exact absurd ((presentTl_iff _ _).mp h) (hfresh x hx)
    simp [b2n, h1, h2, hx]
  · have : presentTl new x = presentTl old x := by
      cases h : presentTl old x with
      | true => exact (presentTl_iff _ _).mpr ((hmem x).mpr (Or.inl ((presentTl_iff _ _).mp h)))
      | false =>
        cases h' : presentTl new x with
        | false => rfl
        | true =>
          rcases (hmem x).mp ((presentTl_iff _ _).mp h') with h1 | h1
          · rw [(presentTl_iff _ _).mpr h1] at h; cases h
          · exact absurd h1 hx
    simp [this, hx]

/-- one accepted call keeps the counter invariant -/
theorem addInteraction_snapInv (g : Graph) (h : WF g) (hr : g.removal = true) (hs : SnapInv g) (u v : Node)
    (t0 : Int) (e : Option Int) (t1 : Int) (hsp : spanEnd t0 e = some t1) :
    SnapInv (g.addInteraction u v (some t0) e).1 := by
  have h01 := spanEnd_le hsp
  cases hf : g.findEdge u v with
  | none =>
    rw [addInteraction_new g hr u v t0 e t1 hsp hf]
    refine ⟨by rw [addNew_snaps g hr]; exact bumpAll_ok _ _ hs.ok, ?_⟩
    intro x
    show lookupSnap (g.addNew u v t0 t1 e).snaps x = 2 * (g.addNew u v t0 t1 e).edges.countP _
    rw [addNew_snaps g hr, addNew_edges, lookupSnap_bumpAll, hs.count x, List.countP_append]
    have hc := (irange_nodup t0 t1).count (a := x)
    have hp : presentTl [(t0, t1)] x = decide (t0 ≤ x ∧ x ≤ t1) := by
      simp [presentTl, spanMem]
    simp only [hc, mem_irange, Graph.countAt, List.countP_cons, List.countP_nil, hp]
    by_cases hx : t0 ≤ x ∧ x ≤ t1 <;> simp [hx] <;> omega
  | some ed =>
    obtain ⟨hedm, hedk⟩ := findEdge_some hf
    obtain ⟨hne, hcan⟩ := h.tl ed hedm
    cases htl : ed.tl with
    | nil => exact absurd htl hne
    | cons s rest =>
      obtain ⟨a, b⟩ := s
      rw [htl] at hcan
      by_cases hlt : t0 < a
      · rw [addInteraction_reject g hr u v t0 e t1 hsp hf htl hlt]; exact hs
      · have ha0 : a ≤ t0 := by omega
        have hab := hcan.head_le
        by_cases hc : t1 ≤ b
        · rw [addInteraction_covered g hr u v t0 e t1 hsp hf htl hlt hc]
          refine ⟨by rw [addCovered_snaps]; exact hs.ok, ?_⟩
          intro x
          show lookupSnap (g.addCovered u v t1 b e).snaps x = 2 * (g.addCovered u v t1 b e).edges.countP _
          rw [addCovered_snaps, addCovered_edges]; exact hs.count x
        · -- the pair's timeline gains the fresh instants lo..t1
          have key : ∀ (g' : Graph) (lo : Int) (tl' : List Span),
              g'.snaps = bumpAll g.snaps (irange lo t1) → g'.edges = mapTl g u v tl' →
              (∀ x, memTl tl' x ↔ memTl ed.tl x ∨ (lo ≤ x ∧ x ≤ t1)) →
              (∀ x, lo ≤ x ∧ x ≤ t1 → ¬ memTl ed.tl x) → SnapInv g' := by
            intro g' lo tl' hsn hed hmem hfresh
            refine ⟨by rw [hsn]; exact bumpAll_ok _ _ hs.ok, ?_⟩
            intro x
            show lookupSnap g'.snaps x = 2 * g'.edges.countP _
            rw [hsn, hed, lookupSnap_bumpAll, hs.count x]
            have hcnt : (mapTl g u v tl').countP (fun e => presentTl e.tl x) + b2n (presentTl ed.tl x)
                = g.edges.countP (fun e => presentTl e.tl x) + b2n (presentTl tl' x) :=
              countP_map_unique h.keys hedm hedk tl' x
            have hg := presentTl_gain hmem hfresh x
            have hc' := (irange_nodup lo t1).count (a := x)
            simp only [hc', mem_irange]
            unfold Graph.countAt
            by_cases hx : lo ≤ x ∧ x ≤ t1
            · simp only [hx, and_self, if_true] at hg ⊢
              omega
            · simp only [hx, if_false] at hg ⊢
              omega
          have below : ∀ x, b < x → ¬ memTl ed.tl x := by
            intro x hx hm
            rw [htl, memTl_cons] at hm
            rcases hm with hm | ⟨r, hr', hxr⟩
            · have : x ≤ b := hm.2; omega
            · have := hcan.below r hr'
              have := hcan.head_le
              omega
          by_cases hx : t0 ≤ b + 1
          · rw [addInteraction_extend g hr u v t0 e t1 hsp hf htl hlt hc hx]
            apply key _ (b + 1) ((a, t1) :: rest) (addExtend_snaps ..) (addExtend_edges ..)
            · intro x
              rw [htl, memTl_cons, memTl_cons]
              show (a ≤ x ∧ x ≤ t1) ∨ _ ↔ ((a ≤ x ∧ x ≤ b) ∨ _) ∨ _
              constructor
              · rintro (hx' | hm)
                · by_cases hxb : x ≤ b
                  · exact Or.inl (Or.inl ⟨hx'.1, hxb⟩)
                  · exact Or.inr ⟨by omega, hx'.2⟩
                · exact Or.inl (Or.inr hm)
              · rintro ((hx' | hm) | hx')
                · exact Or.inl ⟨hx'.1, by omega⟩
                · exact Or.inr hm
                · exact Or.inl ⟨by omega, hx'.2⟩
            · intro x hx'; exact below x (by omega)
          · rw [addInteraction_append g hr u v t0 e t1 hsp hf htl hlt hc hx]
            apply key _ t0 ((t0, t1) :: (a, b) :: rest) (addAppend_snaps ..) (addAppend_edges ..)
            · intro x
              rw [htl, memTl_cons]
              constructor
              · rintro (h1 | h1)
                · exact Or.inr h1
                · exact Or.inl h1
              · rintro (h1 | h1)
                · exact Or.inr h1
                · exact Or.inl h1
            · intro x hx'; exact below x (by omega)

end Dynetx
