import DynetxProofs.Lemmas.Timeline
/-
  Which fields each helper of add_interaction touches (simp normal forms), and `sameKey` facts.
-/
namespace Dynetx

theorem sameKey_refl (d : Bool) (u v : Node) : sameKey d u v u v = true := by
  simp [sameKey]

theorem sameKey_symm (d : Bool) (u v a b : Node) : sameKey d u v a b = sameKey d a b u v := by
  cases d <;> simp [sameKey] <;> grind

theorem sameKey_trans {d : Bool} {u v a b c e : Node} (h1 : sameKey d u v a b = true)
    (h2 : sameKey d a b c e = true) : sameKey d u v c e = true := by
  cases d <;> simp [sameKey] at * <;> grind

/-- on undirected graphs the key does not depend on the endpoint order -/
theorem sameKey_swap_undirected (u v a b : Node) : sameKey false u v a b = sameKey false u v b a := by
  simp [sameKey]; grind

theorem sameKey_directed_iff (u v a b : Node) : sameKey true u v a b = true ↔ u = a ∧ v = b := by
  simp [sameKey]

section addEvent
variable (g : Graph) (t : Int) (u v : Node) (p : Bool)
@[simp] theorem addEvent_edges : (g.addEvent t u v p).edges = g.edges := by unfold Graph.addEvent; split <;> rfl
@[simp] theorem addEvent_directed : (g.addEvent t u v p).directed = g.directed := by unfold Graph.addEvent; split <;> rfl
@[simp] theorem addEvent_removal : (g.addEvent t u v p).removal = g.removal := by unfold Graph.addEvent; split <;> rfl
@[simp] theorem addEvent_nodes : (g.addEvent t u v p).nodes = g.nodes := by unfold Graph.addEvent; split <;> rfl
@[simp] theorem addEvent_snaps : (g.addEvent t u v p).snaps = g.snaps := by unfold Graph.addEvent; split <;> rfl
@[simp] theorem addEvent_gattr : (g.addEvent t u v p).gattr = g.gattr := by unfold Graph.addEvent; split <;> rfl
end addEvent

section dropEvent
variable (g : Graph) (t : Int) (u v : Node) (p : Bool)
@[simp] theorem dropEvent_edges : (g.dropEvent t u v p).edges = g.edges := rfl
@[simp] theorem dropEvent_directed : (g.dropEvent t u v p).directed = g.directed := rfl
@[simp] theorem dropEvent_removal : (g.dropEvent t u v p).removal = g.removal := rfl
@[simp] theorem dropEvent_nodes : (g.dropEvent t u v p).nodes = g.nodes := rfl
@[simp] theorem dropEvent_snaps : (g.dropEvent t u v p).snaps = g.snaps := rfl
@[simp] theorem dropEvent_gattr : (g.dropEvent t u v p).gattr = g.gattr := rfl
end dropEvent

section ensureNodes
variable (g : Graph) (u v : Node)
@[simp] theorem ensureNodes_edges : (g.ensureNodes u v).edges = g.edges := rfl
@[simp] theorem ensureNodes_directed : (g.ensureNodes u v).directed = g.directed := rfl
@[simp] theorem ensureNodes_removal : (g.ensureNodes u v).removal = g.removal := rfl
@[simp] theorem ensureNodes_events : (g.ensureNodes u v).events = g.events := rfl
@[simp] theorem ensureNodes_snaps : (g.ensureNodes u v).snaps = g.snaps := rfl
@[simp] theorem ensureNodes_gattr : (g.ensureNodes u v).gattr = g.gattr := rfl
end ensureNodes

section setTl
variable (g : Graph) (u v : Node) (tl : List Span)
@[simp] theorem setTl_directed : (g.setTl u v tl).directed = g.directed := rfl
@[simp] theorem setTl_removal : (g.setTl u v tl).removal = g.removal := rfl
@[simp] theorem setTl_events : (g.setTl u v tl).events = g.events := rfl
@[simp] theorem setTl_snaps : (g.setTl u v tl).snaps = g.snaps := rfl
@[simp] theorem setTl_nodes : (g.setTl u v tl).nodes = g.nodes := rfl
@[simp] theorem setTl_gattr : (g.setTl u v tl).gattr = g.gattr := rfl
theorem setTl_edges : (g.setTl u v tl).edges =
    g.edges.map (fun e => if sameKey g.directed e.u e.v u v then { e with tl := tl } else e) := rfl
end setTl

section bumpRange
variable (g : Graph) (lo hi : Int)
@[simp] theorem bumpRange_edges : (g.bumpRange lo hi).edges = g.edges := rfl
@[simp] theorem bumpRange_directed : (g.bumpRange lo hi).directed = g.directed := rfl
@[simp] theorem bumpRange_removal : (g.bumpRange lo hi).removal = g.removal := rfl
@[simp] theorem bumpRange_events : (g.bumpRange lo hi).events = g.events := rfl
@[simp] theorem bumpRange_nodes : (g.bumpRange lo hi).nodes = g.nodes := rfl
@[simp] theorem bumpRange_gattr : (g.bumpRange lo hi).gattr = g.gattr := rfl
end bumpRange

section optAddMinus
variable (g : Graph) (e : Option Int) (u v : Node)
@[simp] theorem optAddMinus_edges : (optAddMinus g e u v).edges = g.edges := by cases e <;> simp [optAddMinus]
@[simp] theorem optAddMinus_directed : (optAddMinus g e u v).directed = g.directed := by cases e <;> simp [optAddMinus]
@[simp] theorem optAddMinus_removal : (optAddMinus g e u v).removal = g.removal := by cases e <;> simp [optAddMinus]
@[simp] theorem optAddMinus_nodes : (optAddMinus g e u v).nodes = g.nodes := by cases e <;> simp [optAddMinus]
@[simp] theorem optAddMinus_snaps : (optAddMinus g e u v).snaps = g.snaps := by cases e <;> simp [optAddMinus]
@[simp] theorem optAddMinus_gattr : (optAddMinus g e u v).gattr = g.gattr := by cases e <;> simp [optAddMinus]
end optAddMinus

end Dynetx
