import DynetxProofs.Lemmas.History
/-
  Snapshot counters: `snapshots[x]` is twice the number of stored pairs present at `x`.
-/
namespace Dynetx

theorem mem_irange (lo hi x : Int) : x ∈ irange lo hi ↔ lo ≤ x ∧ x ≤ hi := by
  unfold irange
  simp only [List.mem_map, List.mem_range]
  constructor
  · rintro ⟨i, hi', rfl⟩
    have : (i : Int) < hi + 1 - lo := by omega
    constructor <;> simp <;> omega
  · rintro ⟨h1, h2⟩
    refine ⟨(x - lo).toNat, by omega, ?_⟩
    simp; omega

theorem irange_nodup (lo hi : Int) : (irange lo hi).Nodup := by
  unfold irange List.Nodup
  rw [List.pairwise_map]
  refine List.Pairwise.imp ?_ (List.nodup_range (n := (hi + 1 - lo).toNat))
  intro a b hab h
  apply hab
  have : (Int.ofNat a) = Int.ofNat b := by omega
  exact Int.ofNat.inj this

theorem lookupSnap_bump (s : List (Int × Nat)) (t x : Int) :
    lookupSnap (bump s t) x = lookupSnap s x + (if x = t then 2 else 0) := by
  induction s with
  | nil =>
    by_cases h : x = t
    · simp [bump, lookupSnap, h]
    · have : ¬ t = x := fun h' => h h'.symm
      simp [bump, lookupSnap, h, this]
  | cons p rest ih =>
    obtain ⟨k, c⟩ := p
    unfold bump
    by_cases hk : k = t
    · simp only [hk, beq_self_eq_true, if_true]
      by_cases hx : x = t
      · simp [lookupSnap, hx]
      · have : ¬ t = x := fun h' => hx h'.symm
        simp [lookupSnap, hx, this]
    · have hk' : (k == t) = false := by simp [hk]
      simp only [hk', Bool.false_eq_true, if_false]
      by_cases hkx : k = x
      · have : ¬ x = t := by omega
        simp [lookupSnap, hkx, this]
      · have hkx' : (k == x) = false := by simp [hkx]
        simp only [lookupSnap, hkx', Bool.false_eq_true, if_false]
        exact ih

theorem lookupSnap_bumpAll (s : List (Int × Nat)) (ts : List Int) (x : Int) :
    lookupSnap (bumpAll s ts) x = lookupSnap s x + 2 * ts.count x := by
  unfold bumpAll
  induction ts generalizing s with
  | nil => simp
  | cons t rest ih =>
    simp only [List.foldl_cons]
    rw [ih, lookupSnap_bump]
    by_cases h : x = t
    · subst h; simp; omega
    · have : ¬ t = x := fun h' => h h'.symm
      simp [h, this]

theorem lookupSnap_bumpRange (g : Graph) (lo hi x : Int) :
    lookupSnap (g.bumpRange lo hi).snaps x = lookupSnap g.snaps x + (if lo ≤ x ∧ x ≤ hi then 2 else 0) := by
  show lookupSnap (bumpAll g.snaps (irange lo hi)) x = _
  rw [lookupSnap_bumpAll]
  by_cases h : lo ≤ x ∧ x ≤ hi
  · have hm := (mem_irange lo hi x).mpr h
    have := (irange_nodup lo hi).count (a := x)
    simp [h, this, hm]
  · have hm : x ∉ irange lo hi := fun hm => h ((mem_irange lo hi x).mp hm)
    have := (irange_nodup lo hi).count (a := x)
    simp [h, this, hm]

/-- keys are distinct and every stored counter is positive -/
structure SnapsOk (s : List (Int × Nat)) : Prop where
  nodup : (s.map (·.1)).Nodup
  pos : ∀ p ∈ s, 0 < p.2

theorem bump_keys (s : List (Int × Nat)) (t : Int) :
    ∀ k, k ∈ (bump s t).map (·.1) ↔ k ∈ s.map (·.1) ∨ k = t := by
  induction s with
  | nil => intro k; simp [bump]
  | cons p rest ih =>
    obtain ⟨k0, c⟩ := p
    intro k
    unfold bump
    by_cases hk : k0 = t
    · simp only [hk, beq_self_eq_true, if_true, List.map_cons, List.mem_cons]
      constructor
      · rintro (h | h)
        · exact Or.inr h
        · exact Or.inl (Or.inr h)
      · rintro ((h | h) | h)
        · exact Or.inl h
        · exact Or.inr h
        · exact Or.inl h
    · have hk' : (k0 == t) = false := by simp [hk]
      simp only [hk', Bool.false_eq_true, if_false, List.map_cons, List.mem_cons, ih k]
      constructor
      · rintro (h | h | h)
        · exact Or.inl (Or.inl h)
        · exact Or.inl (Or.inr h)
        · exact Or.inr h
      · rintro ((h | h) | h)
        · exact Or.inl h
        · exact Or.inr (Or.inl h)
        · exact Or.inr (Or.inr h)

theorem bump_ok (s : List (Int × Nat)) (t : Int) (h : SnapsOk s) : SnapsOk (bump s t) := by
  induction s with
  | nil => exact ⟨by simp [bump], by intro p hp; simp [bump] at hp; subst hp; simp⟩
  | cons p rest ih =>
    obtain ⟨k0, c⟩ := p
    have hrest : SnapsOk rest := ⟨(List.nodup_cons.mp h.nodup).2, fun p hp => h.pos p (List.mem_cons_of_mem _ hp)⟩
    unfold bump
    by_cases hk : k0 = t
    · simp only [hk, beq_self_eq_true, if_true]
      refine ⟨?_, ?_⟩
      · have := h.nodup; simpa [hk] using this
      · intro p hp
        rcases List.mem_cons.mp hp with rfl | hp'
        · simp
        · exact h.pos p (List.mem_cons_of_mem _ hp')
    · have hk' : (k0 == t) = false := by simp [hk]
      simp only [hk', Bool.false_eq_true, if_false]
      have ih' := ih hrest
      refine ⟨?_, ?_⟩
      · simp only [List.map_cons, List.nodup_cons]
        refine ⟨?_, ih'.nodup⟩
        intro hm
        rcases (bump_keys rest t k0).mp hm with h1 | h1
        · exact (List.nodup_cons.mp h.nodup).1 h1
        · exact hk h1
      · intro p hp
        rcases List.mem_cons.mp hp with rfl | hp'
        · exact h.pos _ List.mem_cons_self
        · exact ih'.pos p hp'

theorem bumpAll_ok (s : List (Int × Nat)) (ts : List Int) (h : SnapsOk s) : SnapsOk (bumpAll s ts) := by
  unfold bumpAll
  induction ts generalizing s with
  | nil => exact h
  | cons t rest ih => exact ih _ (bump_ok s t h)

theorem lookupSnap_pos_iff {s : List (Int × Nat)} (h : SnapsOk s) (x : Int) :
    0 < lookupSnap s x ↔ x ∈ s.map (·.1) := by
  induction s with
  | nil => simp [lookupSnap]
  | cons p rest ih =>
    obtain ⟨k, c⟩ := p
    have hrest : SnapsOk rest := ⟨(List.nodup_cons.mp h.nodup).2, fun p hp => h.pos p (List.mem_cons_of_mem _ hp)⟩
    unfold lookupSnap
    by_cases hk : k = x
    · have := h.pos (k, c) List.mem_cons_self
      simp [hk]; simpa using this
    · have hk' : (k == x) = false := by simp [hk]
      have : ¬ x = k := fun h' => hk h'.symm
      simp only [hk', Bool.false_eq_true, if_false, List.map_cons, List.mem_cons, this, false_or]
      exact ih hrest

end Dynetx
