import DynetxProofs.Lemmas.History
/-
  The event log (`time_to_edge`) of a removal-enabled graph: one call keeps the log in step with the
  stored timelines (`EvInv`), and so does every bulk call and every history.

  Layout: list-level versions of `__add_event` / `__drop_event`, the per-pair invariant `KeyInv`
  (what the log says about ONE pair whose timeline is `tl`), its behaviour under the three shapes of
  update (`open a new run`, `re-open the latest run`, `close the head run`), then the lifting to
  graphs (`runs`, `evInv_of_keyInv`) and the branch analysis of `add_interaction`.
-/
namespace Dynetx

def evKey (d : Bool) (e : Ev) (u v : Node) : Bool := sameKey d e.u e.v u v

/-! ### the event list, list level -/

/-- `__add_event` on the flattened `time_to_edge` -/
def addEv (d : Bool) (V : List Ev) (t : Int) (u v : Node) (p : Bool) : List Ev :=
  if V.any (fun e => e.t == t && sameKey d e.u e.v u v && e.plus == p) then V
  else V ++ [{ t := t, u := u, v := v, plus := p }]

/-- `__drop_event` -/
def dropEv (d : Bool) (V : List Ev) (t : Int) (u v : Node) (p : Bool) : List Ev :=
  V.filter (fun e => !(e.t == t && sameKey d e.u e.v u v && e.plus == p))

def optMinus (d : Bool) (V : List Ev) (e : Option Int) (u v : Node) : List Ev :=
  match e with
  | some e => addEv d V e u v false
  | none => V

/-- no entry of `time_to_edge` is recorded twice -/
abbrev NoRep (d : Bool) (V : List Ev) : Prop :=
  V.Pairwise (fun e f => ¬ (e.t = f.t ∧ sameKey d e.u e.v f.u f.v = true ∧ e.plus = f.plus))

theorem addEvent_events (g : Graph) (t : Int) (u v : Node) (p : Bool) :
    (g.addEvent t u v p).events = addEv g.directed g.events t u v p := by
  unfold Graph.addEvent addEv; split <;> rfl

theorem dropEvent_events (g : Graph) (t : Int) (u v : Node) (p : Bool) :
    (g.dropEvent t u v p).events = dropEv g.directed g.events t u v p := rfl

theorem optAddMinus_events (g : Graph) (e : Option Int) (u v : Node) :
    (optAddMinus g e u v).events = optMinus g.directed g.events e u v := by
  cases e with
  | none => rfl
  | some e => exact addEvent_events g e u v false

theorem mem_addEv_of_mem {d : Bool} {V : List Ev} {t : Int} {u v : Node} {p : Bool} {ev : Ev}
    (h : ev ∈ V) : ev ∈ addEv d V t u v p := by
  unfold addEv; split
  · exact h
  · exact List.mem_append_left _ h

theorem mem_addEv {d : Bool} {V : List Ev} {t : Int} {u v : Node} {p : Bool} {ev : Ev}
    (h : ev ∈ addEv d V t u v p) : ev ∈ V ∨ ev = { t := t, u := u, v := v, plus := p } := by
  unfold addEv at h; split at h
  · exact Or.inl h
  · rcases List.mem_append.mp h with h | h
    · exact Or.inl h
    · exact Or.inr (List.mem_singleton.mp h)

/-- membership after `__add_event`: the old entries, plus the new one unless an equivalent entry
    (same time, same pair, same sign) was there -/
theorem mem_addEv_iff {d : Bool} {V : List Ev} {t : Int} {u v : Node} {p : Bool} {ev : Ev} :
    ev ∈ addEv d V t u v p ↔
      ev ∈ V ∨ (ev = { t := t, u := u, v := v, plus := p } ∧
        ∀ f ∈ V, ¬ (f.t = t ∧ sameKey d f.u f.v u v = true ∧ f.plus = p)) := by
  unfold addEv
  split
  · rename_i h
    constructor
    · exact Or.inl
    · rintro (h' | ⟨_, hn⟩)
      · exact h'
      · obtain ⟨x, hx, hp⟩ := List.any_eq_true.mp h
        simp only [Bool.and_eq_true, beq_iff_eq] at hp
        exact (hn x hx ⟨hp.1.1, hp.1.2, hp.2⟩).elim
  · rename_i h
    have hn : ∀ f ∈ V, ¬ (f.t = t ∧ sameKey d f.u f.v u v = true ∧ f.plus = p) := by
      intro f hf hc
      have := List.any_eq_false.mp (Bool.eq_false_iff.mpr h) f hf
      apply this
      simp only [Bool.and_eq_true, beq_iff_eq]
      exact ⟨⟨hc.1, hc.2.1⟩, hc.2.2⟩
    constructor
    · intro hm
      rcases List.mem_append.mp hm with hm | hm
      · exact Or.inl hm
      · exact Or.inr ⟨List.mem_singleton.mp hm, hn⟩
    · rintro (h' | ⟨rfl, _⟩)
      · exact List.mem_append_left _ h'
      · exact List.mem_append_right _ (List.mem_singleton.mpr rfl)

theorem mem_addEvent_iff (g : Graph) (t : Int) (u v : Node) (p : Bool) (ev : Ev) :
    ev ∈ (g.addEvent t u v p).events ↔
      ev ∈ g.events ∨ (ev = { t := t, u := u, v := v, plus := p } ∧
        ∀ f ∈ g.events, ¬ (f.t = t ∧ sameKey g.directed f.u f.v u v = true ∧ f.plus = p)) := by
  rw [addEvent_events]; exact mem_addEv_iff

/-- after `__add_event` an entry equivalent to the requested one is there -/
theorem addEv_exists (d : Bool) (V : List Ev) (t : Int) (u v : Node) (p : Bool) :
    ∃ ev ∈ addEv d V t u v p, ev.t = t ∧ sameKey d ev.u ev.v u v = true ∧ ev.plus = p := by
  unfold addEv; split
  · rename_i h
    obtain ⟨x, hx, hp⟩ := List.any_eq_true.mp h
    simp only [Bool.and_eq_true, beq_iff_eq] at hp
    exact ⟨x, hx, hp.1.1, hp.1.2, hp.2⟩
  · exact ⟨_, List.mem_append_right _ (List.mem_singleton.mpr rfl), rfl, sameKey_refl _ _ _, rfl⟩

/-- `__drop_event` removes exactly the entries equivalent to `(t, (u,v), p)` -/
theorem mem_dropEv {d : Bool} {V : List Ev} {t : Int} {u v : Node} {p : Bool} {ev : Ev} :
    ev ∈ dropEv d V t u v p ↔
      ev ∈ V ∧ ¬ (ev.t = t ∧ sameKey d ev.u ev.v u v = true ∧ ev.plus = p) := by
  unfold dropEv
  rw [List.mem_filter]
  simp only [Bool.not_eq_true', Bool.and_eq_false_iff]
  constructor
  · rintro ⟨hm, hc⟩
    refine ⟨hm, ?_⟩
    rintro ⟨h1, h2, h3⟩
    simp [h1, h2, h3] at hc
  · rintro ⟨hm, hc⟩
    refine ⟨hm, ?_⟩
    by_cases h1 : ev.t = t
    · by_cases h2 : sameKey d ev.u ev.v u v = true
      · by_cases h3 : ev.plus = p
        · exact (hc ⟨h1, h2, h3⟩).elim
        · right; simpa using h3
      · left; right; simpa using h2
    · left; left; simpa using h1

theorem mem_dropEvent_iff (g : Graph) (t : Int) (u v : Node) (p : Bool) (ev : Ev) :
    ev ∈ (g.dropEvent t u v p).events ↔
      ev ∈ g.events ∧ ¬ (ev.t = t ∧ sameKey g.directed ev.u ev.v u v = true ∧ ev.plus = p) := by
  rw [dropEvent_events]; exact mem_dropEv

theorem mem_optMinus_of_mem {d : Bool} {V : List Ev} {e : Option Int} {u v : Node} {ev : Ev}
    (h : ev ∈ V) : ev ∈ optMinus d V e u v := by
  cases e with
  | none => exact h
  | some e => exact mem_addEv_of_mem h

theorem mem_optMinus {d : Bool} {V : List Ev} {e : Option Int} {u v : Node} {ev : Ev}
    (h : ev ∈ optMinus d V e u v) :
    ev ∈ V ∨ ∃ e', e = some e' ∧ ev = { t := e', u := u, v := v, plus := false } := by
  cases e with
  | none => exact Or.inl h
  | some e =>
    rcases mem_addEv h with h | h
    · exact Or.inl h
    · exact Or.inr ⟨e, rfl, h⟩

theorem NoRep.add {d : Bool} {V : List Ev} (h : NoRep d V) (t : Int) (u v : Node) (p : Bool) :
    NoRep d (addEv d V t u v p) := by
  unfold addEv
  split
  · exact h
  · rename_i hn
    refine List.pairwise_append.mpr ⟨h, List.pairwise_singleton _ _, ?_⟩
    intro a ha b hb hc
    rw [List.mem_singleton] at hb; subst hb
    have := List.any_eq_false.mp (Bool.eq_false_iff.mpr hn) a ha
    apply this
    simp only [Bool.and_eq_true, beq_iff_eq]
    exact ⟨⟨hc.1, hc.2.1⟩, hc.2.2⟩

theorem NoRep.drop {d : Bool} {V : List Ev} (h : NoRep d V) (t : Int) (u v : Node) (p : Bool) :
    NoRep d (dropEv d V t u v p) := List.Pairwise.filter _ h

theorem NoRep.opt {d : Bool} {V : List Ev} (h : NoRep d V) (e : Option Int) (u v : Node) :
    NoRep d (optMinus d V e u v) := by
  cases e with
  | none => exact h
  | some e => exact h.add e u v false

/-! ### entries of other pairs are never touched -/

/-- `V'` and `V` hold the same entries of every pair other than `(u,v)` -/
def OtherSame (d : Bool) (u v : Node) (V V' : List Ev) : Prop :=
  ∀ ev : Ev, sameKey d u v ev.u ev.v = false → (ev ∈ V' ↔ ev ∈ V)

theorem OtherSame.refl (d : Bool) (u v : Node) (V : List Ev) : OtherSame d u v V V :=
  fun _ _ => Iff.rfl

theorem OtherSame.trans {d : Bool} {u v : Node} {V V' V'' : List Ev} (h1 : OtherSame d u v V V')
    (h2 : OtherSame d u v V' V'') : OtherSame d u v V V'' :=
  fun ev hk => (h2 ev hk).trans (h1 ev hk)

theorem OtherSame.add (d : Bool) (u v : Node) (V : List Ev) (t : Int) (p : Bool) :
    OtherSame d u v V (addEv d V t u v p) := by
  intro ev hk
  constructor
  · intro hm
    rcases mem_addEv hm with hm | rfl
    · exact hm
    · rw [sameKey_refl] at hk; cases hk
  · exact mem_addEv_of_mem

theorem OtherSame.drop (d : Bool) (u v : Node) (V : List Ev) (t : Int) (p : Bool) :
    OtherSame d u v V (dropEv d V t u v p) := by
  intro ev hk
  rw [mem_dropEv]
  constructor
  · exact fun h => h.1
  · intro hm
    refine ⟨hm, ?_⟩
    rintro ⟨_, h2, _⟩
    rw [sameKey_symm, hk] at h2; cases h2

theorem OtherSame.opt (d : Bool) (u v : Node) (V : List Ev) (e : Option Int) :
    OtherSame d u v V (optMinus d V e u v) := by
  cases e with
  | none => exact OtherSame.refl d u v V
  | some e => exact OtherSame.add d u v V e false

/-! ### the log of one pair -/

/-- what the log `V` says about the pair `(u,v)` whose stored timeline is `tl`: '+' entries are the
    run starts, '-' entries sit right after run ends, every run of three or more instants is closed -/
structure KeyInv (d : Bool) (u v : Node) (tl : List Span) (V : List Ev) : Prop where
  ps : ∀ ev ∈ V, sameKey d u v ev.u ev.v = true → ev.plus = true → ∃ s ∈ tl, s.1 = ev.t
  pc : ∀ s ∈ tl, ∃ ev ∈ V, ev.plus = true ∧ ev.t = s.1 ∧ sameKey d u v ev.u ev.v = true
  ms : ∀ ev ∈ V, sameKey d u v ev.u ev.v = true → ev.plus = false → ∃ s ∈ tl, s.2 + 1 = ev.t
  mc : ∀ s ∈ tl, s.1 + 1 < s.2 → ∃ ev ∈ V, ev.plus = false ∧ ev.t = s.2 + 1 ∧ sameKey d u v ev.u ev.v = true

/-- the same while the head run `hd` is being (re)written: its closing entry is not there (yet) -/
structure KeyInvOpen (d : Bool) (u v : Node) (hd : Span) (rest : List Span) (V : List Ev) : Prop where
  ps : ∀ ev ∈ V, sameKey d u v ev.u ev.v = true → ev.plus = true → ∃ s ∈ hd :: rest, s.1 = ev.t
  pc : ∀ s ∈ hd :: rest, ∃ ev ∈ V, ev.plus = true ∧ ev.t = s.1 ∧ sameKey d u v ev.u ev.v = true
  ms : ∀ ev ∈ V, sameKey d u v ev.u ev.v = true → ev.plus = false → ∃ s ∈ rest, s.2 + 1 = ev.t
  mc : ∀ s ∈ rest, s.1 + 1 < s.2 → ∃ ev ∈ V, ev.plus = false ∧ ev.t = s.2 + 1 ∧ sameKey d u v ev.u ev.v = true

/-- an entry of the right kind that is justified by the timeline may be added -/
theorem KeyInv.add {d : Bool} {u v : Node} {tl : List Span} {V : List Ev} (h : KeyInv d u v tl V)
    (t : Int) (p : Bool) (hp : p = true → ∃ s ∈ tl, s.1 = t) (hm : p = false → ∃ s ∈ tl, s.2 + 1 = t) :
    KeyInv d u v tl (addEv d V t u v p) := by
  constructor
  · intro ev hev hk hpl
    rcases mem_addEv hev with hev | rfl
    · exact h.ps ev hev hk hpl
    · exact hp hpl
  · intro s hs
    obtain ⟨ev, hev, h1⟩ := h.pc s hs
    exact ⟨ev, mem_addEv_of_mem hev, h1⟩
  · intro ev hev hk hpl
    rcases mem_addEv hev with hev | rfl
    · exact h.ms ev hev hk hpl
    · exact hm hpl
  · intro s hs hlen
    obtain ⟨ev, hev, h1⟩ := h.mc s hs hlen
    exact ⟨ev, mem_addEv_of_mem hev, h1⟩

/-- a new latest run `hd` is opened by its '+' entry -/
theorem KeyInv.openNew {d : Bool} {u v : Node} {tl : List Span} {V : List Ev} (h : KeyInv d u v tl V)
    (hd : Span) : KeyInvOpen d u v hd tl (addEv d V hd.1 u v true) := by
  constructor
  · intro ev hev hk hpl
    rcases mem_addEv hev with hev | rfl
    · obtain ⟨s, hs, h1⟩ := h.ps ev hev hk hpl
      exact ⟨s, List.mem_cons_of_mem _ hs, h1⟩
    · exact ⟨hd, List.mem_cons_self, rfl⟩
  · intro s hs
    rcases List.mem_cons.mp hs with rfl | hs
    · obtain ⟨ev, hev, h1, h2, h3⟩ := addEv_exists d V s.1 u v true
      exact ⟨ev, hev, h3, h1, by rw [sameKey_symm]; exact h2⟩
    · obtain ⟨ev, hev, h1⟩ := h.pc s hs
      exact ⟨ev, mem_addEv_of_mem hev, h1⟩
  · intro ev hev hk hpl
    rcases mem_addEv hev with hev | rfl
    · exact h.ms ev hev hk hpl
    · cases hpl
  · intro s hs hlen
    obtain ⟨ev, hev, h1⟩ := h.mc s hs hlen
    exact ⟨ev, mem_addEv_of_mem hev, h1⟩

/-- the latest run `[a,b]` is re-opened (it will end at `t1`): its closing entry at `b+1` goes, nothing
    else does, because every older run ends before `a - 1` -/
theorem KeyInv.openExt {d : Bool} {u v : Node} {a b : Int} {rest : List Span} {V : List Ev}
    (h : KeyInv d u v ((a, b) :: rest) V) (hc : Canon ((a, b) :: rest)) (t1 : Int) :
    KeyInvOpen d u v (a, t1) rest (dropEv d V (b + 1) u v false) := by
  have hab : a ≤ b := hc.head_le
  constructor
  · intro ev hev hk hpl
    obtain ⟨s, hs, h1⟩ := h.ps ev (mem_dropEv.mp hev).1 hk hpl
    rcases List.mem_cons.mp hs with rfl | hs
    · exact ⟨(a, t1), List.mem_cons_self, h1⟩
    · exact ⟨s, List.mem_cons_of_mem _ hs, h1⟩
  · intro s hs
    have key : ∀ s' ∈ (a, b) :: rest, ∃ ev ∈ dropEv d V (b + 1) u v false,
        ev.plus = true ∧ ev.t = s'.1 ∧ sameKey d u v ev.u ev.v = true := by
      intro s' hs'
      obtain ⟨ev, hev, h1, h2, h3⟩ := h.pc s' hs'
      refine ⟨ev, mem_dropEv.mpr ⟨hev, ?_⟩, h1, h2, h3⟩
      rintro ⟨_, _, h4⟩
      rw [h1] at h4; cases h4
    rcases List.mem_cons.mp hs with rfl | hs
    · exact key (a, b) List.mem_cons_self
    · exact key s (List.mem_cons_of_mem _ hs)
  · intro ev hev hk hpl
    obtain ⟨hev', hnd⟩ := mem_dropEv.mp hev
    obtain ⟨s, hs, h1⟩ := h.ms ev hev' hk hpl
    rcases List.mem_cons.mp hs with rfl | hs
    · exact (hnd ⟨h1.symm, by rw [sameKey_symm]; exact hk, hpl⟩).elim
    · exact ⟨s, hs, h1⟩
  · intro s hs hlen
    obtain ⟨ev, hev, h1, h2, h3⟩ := h.mc s (List.mem_cons_of_mem _ hs) hlen
    refine ⟨ev, mem_dropEv.mpr ⟨hev, ?_⟩, h1, h2, h3⟩
    rintro ⟨h4, _, _⟩
    have := hc.below s hs
    simp only at this
    omega

/-- the head run is closed by a '-' entry right after its end -/
theorem KeyInvOpen.close {d : Bool} {u v : Node} {hd : Span} {rest : List Span} {V : List Ev}
    (h : KeyInvOpen d u v hd rest V) : KeyInv d u v (hd :: rest) (addEv d V (hd.2 + 1) u v false) := by
  constructor
  · intro ev hev hk hpl
    rcases mem_addEv hev with hev | rfl
    · exact h.ps ev hev hk hpl
    · cases hpl
  · intro s hs
    obtain ⟨ev, hev, h1⟩ := h.pc s hs
    exact ⟨ev, mem_addEv_of_mem hev, h1⟩
  · intro ev hev hk hpl
    rcases mem_addEv hev with hev | rfl
    · obtain ⟨s, hs, h1⟩ := h.ms ev hev hk hpl
      exact ⟨s, List.mem_cons_of_mem _ hs, h1⟩
    · exact ⟨hd, List.mem_cons_self, rfl⟩
  · intro s hs hlen
    rcases List.mem_cons.mp hs with rfl | hs
    · obtain ⟨ev, hev, h1, h2, h3⟩ := addEv_exists d V (s.2 + 1) u v false
      exact ⟨ev, hev, h3, h1, by rw [sameKey_symm]; exact h2⟩
    · obtain ⟨ev, hev, h1⟩ := h.mc s hs hlen
      exact ⟨ev, mem_addEv_of_mem hev, h1⟩

/-- a head run of at most two instants may stay without closing entry -/
theorem KeyInvOpen.keep {d : Bool} {u v : Node} {hd : Span} {rest : List Span} {V : List Ev}
    (h : KeyInvOpen d u v hd rest V) (hshort : ¬ hd.1 + 1 < hd.2) : KeyInv d u v (hd :: rest) V := by
  constructor
  · exact h.ps
  · exact h.pc
  · intro ev hev hk hpl
    obtain ⟨s, hs, h1⟩ := h.ms ev hev hk hpl
    exact ⟨s, List.mem_cons_of_mem _ hs, h1⟩
  · intro s hs hlen
    rcases List.mem_cons.mp hs with rfl | hs
    · exact (hshort hlen).elim
    · exact h.mc s hs hlen

theorem spanEnd_some_eq {t0 e t1 : Int} (h : spanEnd t0 (some e) = some t1) : t1 + 1 = e := by
  unfold spanEnd at h
  simp only at h
  split at h
  · cases h
  · simp at h; omega

theorem spanEnd_none_eq {t0 t1 : Int} (h : spanEnd t0 none = some t1) : t1 = t0 := by
  unfold spanEnd at h
  simp at h; omega

/-- new pair / new run: `'+'@t0`, and `'-'@e` when a vanishing time is given -/
theorem KeyInv.push {d : Bool} {u v : Node} {tl : List Span} {V : List Ev} (h : KeyInv d u v tl V)
    {t0 t1 : Int} {e : Option Int} (hs : spanEnd t0 e = some t1) :
    KeyInv d u v ((t0, t1) :: tl) (optMinus d (addEv d V t0 u v true) e u v) := by
  have ho := h.openNew (t0, t1)
  cases e with
  | none =>
    have := spanEnd_none_eq hs
    exact ho.keep (by show ¬ t0 + 1 < t1; omega)
  | some e =>
    have he := spanEnd_some_eq hs
    have := ho.close
    simp only at this
    rw [he] at this
    exact this

/-! ### lifting to graphs -/

/-- the event-log invariant: no entry twice; '+' entries are exactly the run starts; '-' entries sit
    right after run ends; every run of at least three instants has its closing entry.
    (`minus_complete` cannot be had for two-instant runs: see `C05_D5_witness`.) -/
structure EvInv (g : Graph) : Prop where
  nodup : g.events.Pairwise (fun e f => ¬ (e.t = f.t ∧ sameKey g.directed e.u e.v f.u f.v = true ∧ e.plus = f.plus))
  plus_sound : ∀ ev ∈ g.events, ev.plus = true →
    ∃ ed ∈ g.edges, sameKey g.directed ed.u ed.v ev.u ev.v = true ∧ ∃ s ∈ ed.tl, s.1 = ev.t
  plus_complete : ∀ ed ∈ g.edges, ∀ s ∈ ed.tl,
    ∃ ev ∈ g.events, ev.plus = true ∧ ev.t = s.1 ∧ sameKey g.directed ed.u ed.v ev.u ev.v = true
  minus_sound : ∀ ev ∈ g.events, ev.plus = false →
    ∃ ed ∈ g.edges, sameKey g.directed ed.u ed.v ev.u ev.v = true ∧ ∃ s ∈ ed.tl, s.2 + 1 = ev.t
  minus_complete : ∀ ed ∈ g.edges, ∀ s ∈ ed.tl, s.1 + 1 < s.2 →
    ∃ ev ∈ g.events, ev.plus = false ∧ ev.t = s.2 + 1 ∧ sameKey g.directed ed.u ed.v ev.u ev.v = true

theorem EvInv.empty (d r : Bool) : EvInv (Graph.empty d r) :=
  ⟨List.Pairwise.nil, (by intro ev h; cases h), (by intro ed h; cases h), (by intro ev h; cases h),
    (by intro ed h; cases h)⟩

/-- `s` is a stored run of the pair `(x,y)` -/
def runs (g : Graph) (x y : Node) (s : Span) : Prop :=
  ∃ ed ∈ g.edges, sameKey g.directed ed.u ed.v x y = true ∧ s ∈ ed.tl

theorem runs_none {g : Graph} {u v : Node} (hf : g.findEdge u v = none) {x y : Node} {s : Span}
    (hk : sameKey g.directed u v x y = true) : ¬ runs g x y s := by
  rintro ⟨ed, hm, hk', _⟩
  have := findEdge_none hf ed hm
  grind [sameKey]

theorem runs_some {g : Graph} (h : WF g) {u v : Node} {ed : Edge} (hf : g.findEdge u v = some ed)
    {x y : Node} {s : Span} (hk : sameKey g.directed u v x y = true) : runs g x y s ↔ s ∈ ed.tl := by
  obtain ⟨hedm, hedk⟩ := findEdge_some hf
  constructor
  · rintro ⟨ed', hm, hk', hs⟩
    have hk'' : sameKey g.directed ed'.u ed'.v u v = true := by grind [sameKey]
    rw [← pairwise_unique h.keys hm hedm hk'' hedk]; exact hs
  · intro hs
    exact ⟨ed, hedm, sameKey_trans hedk hk, hs⟩

theorem runs_congr {g g' : Graph} (hd : g'.directed = g.directed) (he : g'.edges = g.edges) (x y : Node)
    (s : Span) : runs g' x y s ↔ runs g x y s := by
  unfold runs; rw [hd, he]

theorem runs_append_key {g g' : Graph} {u v : Node} {tl : List Span} (hd : g'.directed = g.directed)
    (he : g'.edges = g.edges ++ [({ u := u, v := v, tl := tl } : Edge)]) (hf : g.findEdge u v = none)
    {x y : Node} {s : Span} (hk : sameKey g.directed u v x y = true) : runs g' x y s ↔ s ∈ tl := by
  constructor
  · rintro ⟨ed, hm, hk', hs⟩
    rw [he, List.mem_append] at hm
    rcases hm with hm | hm
    · rw [hd] at hk'
      exact (runs_none hf hk ⟨ed, hm, hk', hs⟩).elim
    · rw [List.mem_singleton] at hm; subst hm; exact hs
  · intro hs
    refine ⟨{ u := u, v := v, tl := tl }, ?_, ?_, hs⟩
    · rw [he]; exact List.mem_append_right _ (List.mem_singleton.mpr rfl)
    · rw [hd]; exact hk

theorem runs_append_other {g g' : Graph} {u v : Node} {tl : List Span} (hd : g'.directed = g.directed)
    (he : g'.edges = g.edges ++ [({ u := u, v := v, tl := tl } : Edge)])
    {x y : Node} {s : Span} (hk : sameKey g.directed u v x y = false) : runs g' x y s ↔ runs g x y s := by
  constructor
  · rintro ⟨ed, hm, hk', hs⟩
    rw [he, List.mem_append] at hm
    rw [hd] at hk'
    rcases hm with hm | hm
    · exact ⟨ed, hm, hk', hs⟩
    · rw [List.mem_singleton] at hm; subst hm
      simp only at hk'
      rw [hk] at hk'; cases hk'
  · rintro ⟨ed, hm, hk', hs⟩
    refine ⟨ed, ?_, ?_, hs⟩
    · rw [he]; exact List.mem_append_left _ hm
    · rw [hd]; exact hk'

theorem runs_mapTl_key {g g' : Graph} {u v : Node} {ed : Edge} {tl' : List Span}
    (hd : g'.directed = g.directed) (he : g'.edges = mapTl g u v tl') (hf : g.findEdge u v = some ed)
    {x y : Node} {s : Span} (hk : sameKey g.directed u v x y = true) : runs g' x y s ↔ s ∈ tl' := by
  obtain ⟨hedm, hedk⟩ := findEdge_some hf
  constructor
  · rintro ⟨ed', hm, hk', hs⟩
    rw [he, mem_mapTl] at hm
    rw [hd] at hk'
    obtain ⟨e0, hem, rfl⟩ := hm
    by_cases h0 : sameKey g.directed e0.u e0.v u v = true
    · simpa [h0] using hs
    · simp only [h0] at hk'
      grind [sameKey]
  · intro hs
    refine ⟨{ ed with tl := tl' }, ?_, ?_, hs⟩
    · rw [he, mem_mapTl]; exact ⟨ed, hedm, by simp [hedk]⟩
    · rw [hd]; exact sameKey_trans hedk hk

theorem runs_mapTl_other {g g' : Graph} {u v : Node} {tl' : List Span}
    (hd : g'.directed = g.directed) (he : g'.edges = mapTl g u v tl')
    {x y : Node} {s : Span} (hk : sameKey g.directed u v x y = false) : runs g' x y s ↔ runs g x y s := by
  constructor
  · rintro ⟨ed', hm, hk', hs⟩
    rw [he, mem_mapTl] at hm
    rw [hd] at hk'
    obtain ⟨e0, hem, rfl⟩ := hm
    by_cases h0 : sameKey g.directed e0.u e0.v u v = true
    · simp only [h0, if_true] at hk'
      grind [sameKey]
    · simp only [h0] at hk' hs
      exact ⟨e0, hem, hk', hs⟩
  · rintro ⟨e0, hem, hk', hs⟩
    have h0 : ¬ sameKey g.directed e0.u e0.v u v = true := by grind [sameKey]
    refine ⟨e0, ?_, ?_, hs⟩
    · rw [he, mem_mapTl]; exact ⟨e0, hem, by simp [h0]⟩
    · rw [hd]; exact hk'

/-- the graph invariant, seen from one pair whose runs are `tl` -/
theorem EvInv.keyInv {g : Graph} (hev : EvInv g) {u v : Node} {tl : List Span}
    (hr : ∀ x y s, sameKey g.directed u v x y = true → (runs g x y s ↔ s ∈ tl)) :
    KeyInv g.directed u v tl g.events := by
  constructor
  · intro ev hm hk hp
    obtain ⟨ed, hedm, hedk, s, hs, h1⟩ := hev.plus_sound ev hm hp
    exact ⟨s, (hr ev.u ev.v s hk).mp ⟨ed, hedm, hedk, hs⟩, h1⟩
  · intro s hs
    obtain ⟨ed, hedm, hedk, hs'⟩ := (hr u v s (sameKey_refl _ _ _)).mpr hs
    obtain ⟨ev, hm, h1, h2, h3⟩ := hev.plus_complete ed hedm s hs'
    exact ⟨ev, hm, h1, h2, by grind [sameKey]⟩
  · intro ev hm hk hp
    obtain ⟨ed, hedm, hedk, s, hs, h1⟩ := hev.minus_sound ev hm hp
    exact ⟨s, (hr ev.u ev.v s hk).mp ⟨ed, hedm, hedk, hs⟩, h1⟩
  · intro s hs hlen
    obtain ⟨ed, hedm, hedk, hs'⟩ := (hr u v s (sameKey_refl _ _ _)).mpr hs
    obtain ⟨ev, hm, h1, h2, h3⟩ := hev.minus_complete ed hedm s hs' hlen
    exact ⟨ev, hm, h1, h2, by grind [sameKey]⟩

/-- a call on the pair `(u,v)` keeps the invariant as soon as it keeps the log of `(u,v)` in step with
    the new timeline `tl'` of `(u,v)` and touches neither the runs nor the entries of any other pair -/
theorem evInv_of_keyInv {g g' : Graph} (hev : EvInv g) (hd : g'.directed = g.directed) {u v : Node}
    {tl' : List Span} (hnd : NoRep g.directed g'.events)
    (hos : OtherSame g.directed u v g.events g'.events)
    (hr1 : ∀ x y s, sameKey g.directed u v x y = true → (runs g' x y s ↔ s ∈ tl'))
    (hr2 : ∀ x y s, sameKey g.directed u v x y = false → (runs g' x y s ↔ runs g x y s))
    (hk : KeyInv g.directed u v tl' g'.events) : EvInv g' := by
  constructor
  · rw [hd]; exact hnd
  · intro ev hm hp
    rw [hd]
    by_cases hkey : sameKey g.directed u v ev.u ev.v = true
    · obtain ⟨s, hs, h1⟩ := hk.ps ev hm hkey hp
      obtain ⟨ed, hedm, hedk, hs'⟩ := (hr1 ev.u ev.v s hkey).mpr hs
      rw [hd] at hedk
      exact ⟨ed, hedm, hedk, s, hs', h1⟩
    · have hkey' : sameKey g.directed u v ev.u ev.v = false := by simpa using hkey
      obtain ⟨ed, hedm, hedk, s, hs, h1⟩ := hev.plus_sound ev ((hos ev hkey').mp hm) hp
      obtain ⟨ed', hedm', hedk', hs'⟩ := (hr2 ev.u ev.v s hkey').mpr ⟨ed, hedm, hedk, hs⟩
      rw [hd] at hedk'
      exact ⟨ed', hedm', hedk', s, hs', h1⟩
  · intro ed hedm s hs
    rw [hd]
    have hrun : runs g' ed.u ed.v s := ⟨ed, hedm, sameKey_refl _ _ _, hs⟩
    by_cases hkey : sameKey g.directed u v ed.u ed.v = true
    · obtain ⟨ev, hm, h1, h2, h3⟩ := hk.pc s ((hr1 ed.u ed.v s hkey).mp hrun)
      exact ⟨ev, hm, h1, h2, by grind [sameKey]⟩
    · have hkey' : sameKey g.directed u v ed.u ed.v = false := by simpa using hkey
      obtain ⟨e0, he0m, he0k, hs0⟩ := (hr2 ed.u ed.v s hkey').mp hrun
      obtain ⟨ev, hm, h1, h2, h3⟩ := hev.plus_complete e0 he0m s hs0
      have hevk : sameKey g.directed u v ev.u ev.v = false := by grind [sameKey]
      exact ⟨ev, (hos ev hevk).mpr hm, h1, h2, by grind [sameKey]⟩
  · intro ev hm hp
    rw [hd]
    by_cases hkey : sameKey g.directed u v ev.u ev.v = true
    · obtain ⟨s, hs, h1⟩ := hk.ms ev hm hkey hp
      obtain ⟨ed, hedm, hedk, hs'⟩ := (hr1 ev.u ev.v s hkey).mpr hs
      rw [hd] at hedk
      exact ⟨ed, hedm, hedk, s, hs', h1⟩
    · have hkey' : sameKey g.directed u v ev.u ev.v = false := by simpa using hkey
      obtain ⟨ed, hedm, hedk, s, hs, h1⟩ := hev.minus_sound ev ((hos ev hkey').mp hm) hp
      obtain ⟨ed', hedm', hedk', hs'⟩ := (hr2 ev.u ev.v s hkey').mpr ⟨ed, hedm, hedk, hs⟩
      rw [hd] at hedk'
      exact ⟨ed', hedm', hedk', s, hs', h1⟩
  · intro ed hedm s hs hlen
    rw [hd]
    have hrun : runs g' ed.u ed.v s := ⟨ed, hedm, sameKey_refl _ _ _, hs⟩
    by_cases hkey : sameKey g.directed u v ed.u ed.v = true
    · obtain ⟨ev, hm, h1, h2, h3⟩ := hk.mc s ((hr1 ed.u ed.v s hkey).mp hrun) hlen
      exact ⟨ev, hm, h1, h2, by grind [sameKey]⟩
    · have hkey' : sameKey g.directed u v ed.u ed.v = false := by simpa using hkey
      obtain ⟨e0, he0m, he0k, hs0⟩ := (hr2 ed.u ed.v s hkey').mp hrun
      obtain ⟨ev, hm, h1, h2, h3⟩ := hev.minus_complete e0 he0m s hs0 hlen
      have hevk : sameKey g.directed u v ev.u ev.v = false := by grind [sameKey]
      exact ⟨ev, (hos ev hevk).mpr hm, h1, h2, by grind [sameKey]⟩

/-! ### the log after each branch of `add_interaction` -/

theorem addNew_events (g : Graph) (u v : Node) (t0 t1 : Int) (eR : Option Int) :
    (g.addNew u v t0 t1 eR).events = optMinus g.directed (addEv g.directed g.events t0 u v true) eR u v := by
  unfold Graph.addNew
  simp only []
  split <;> simp only [bumpRange_events, optAddMinus_events, addEvent_events, addEvent_directed] <;> rfl

theorem addCovered_events (g : Graph) (u v : Node) (t1 b : Int) (eR : Option Int) :
    (g.addCovered u v t1 b eR).events = if t1 = b then optMinus g.directed g.events eR u v else g.events := by
  unfold Graph.addCovered
  by_cases h : t1 = b
  · simp [h, optAddMinus_events]
  · simp [h]

theorem addAppend_events (g : Graph) (u v : Node) (t0 t1 a b : Int) (rest : List Span) (eR : Option Int) :
    (g.addAppend u v t0 t1 a b rest eR).events =
      optMinus g.directed (addEv g.directed g.events t0 u v true) eR u v := by
  unfold Graph.addAppend
  simp only [bumpRange_events, optAddMinus_events, addEvent_events, addEvent_directed]; rfl

theorem addExtend_events (g : Graph) (u v : Node) (t0 t1 a b : Int) (rest : List Span) (eR : Option Int) :
    (g.addExtend u v t0 t1 a b rest eR).events =
      match eR with
      | some e => addEv g.directed (dropEv g.directed g.events (b + 1) u v false) e u v false
      | none =>
        if (b == a && t0 == b + 1) = true then dropEv g.directed g.events (b + 1) u v false
        else addEv g.directed (dropEv g.directed g.events (b + 1) u v false) (t1 + 1) u v false := by
  unfold Graph.addExtend
  cases eR with
  | some e => simp only [bumpRange_events, addEvent_events]; rfl
  | none =>
    simp only [bumpRange_events]
    split
    · rfl
    · simp only [addEvent_events]; rfl

/-- **one call keeps the event log in step with the timelines** -/
theorem addInteraction_evInv (g : Graph) (h : WF g) (hr : g.removal = true) (hev : EvInv g) (u v : Node)
    (t0 : Int) (e : Option Int) (t1 : Int) (hsp : spanEnd t0 e = some t1) :
    EvInv (g.addInteraction u v (some t0) e).1 := by
  have hnr : NoRep g.directed g.events := hev.nodup
  cases hf : g.findEdge u v with
  | none =>
    rw [addInteraction_new g hr u v t0 e t1 hsp hf]
    have hd := addNew_directed g u v t0 t1 e
    have hed := addNew_edges g u v t0 t1 e
    have hvs := addNew_events g u v t0 t1 e
    have hold : KeyInv g.directed u v [] g.events :=
      hev.keyInv (fun x y s hk => ⟨fun hrun => (runs_none hf hk hrun).elim, fun hs => by cases hs⟩)
    refine evInv_of_keyInv (u := u) (v := v) (tl' := [(t0, t1)]) hev hd ?_ ?_ ?_ ?_ ?_
    · rw [hvs]; exact (hnr.add t0 u v true).opt e u v
    · rw [hvs]; exact (OtherSame.add _ u v _ t0 true).trans (OtherSame.opt _ u v _ e)
    · intro x y s hk; exact runs_append_key hd hed hf hk
    · intro x y s hk; exact runs_append_other hd hed hk
    · rw [hvs]; exact hold.push hsp
  | some ed =>
    obtain ⟨hedm, hedk⟩ := findEdge_some hf
    obtain ⟨hne, hcan⟩ := h.tl ed hedm
    have hold : KeyInv g.directed u v ed.tl g.events := hev.keyInv (fun x y s hk => runs_some h hf hk)
    cases htl : ed.tl with
    | nil => exact absurd htl hne
    | cons s rest =>
      obtain ⟨a, b⟩ := s
      rw [htl] at hcan hold
      have hab : a ≤ b := hcan.head_le
      have h01 := spanEnd_le hsp
      by_cases hlt : t0 < a
      · rw [addInteraction_reject g hr u v t0 e t1 hsp hf htl hlt]; exact hev
      · by_cases hc : t1 ≤ b
        · rw [addInteraction_covered g hr u v t0 e t1 hsp hf htl hlt hc]
          have hd := addCovered_directed g u v t1 b e
          have hed := addCovered_edges g u v t1 b e
          have hvs := addCovered_events g u v t1 b e
          refine evInv_of_keyInv (u := u) (v := v) (tl' := (a, b) :: rest) hev hd ?_ ?_ ?_ ?_ ?_
          · rw [hvs]; split
            · exact hnr.opt e u v
            · exact hev.nodup
          · rw [hvs]; split
            · exact OtherSame.opt _ u v _ e
            · exact OtherSame.refl _ u v _
          · intro x y s hk
            rw [runs_congr hd hed, runs_some h hf hk, htl]
          · intro x y s _; exact runs_congr hd hed x y s
          · rw [hvs]; split
            · rename_i hb
              cases e with
              | none => exact hold
              | some e' =>
                have := spanEnd_some_eq hsp
                exact hold.add e' false (by intro hh; cases hh)
                  (fun _ => ⟨(a, b), List.mem_cons_self, by show b + 1 = e'; omega⟩)
            · exact hold
        · by_cases hx : t0 ≤ b + 1
          · rw [addInteraction_extend g hr u v t0 e t1 hsp hf htl hlt hc hx]
            have hd := addExtend_directed g u v t0 t1 a b rest e
            have hed := addExtend_edges g u v t0 t1 a b rest e
            have hvs := addExtend_events g u v t0 t1 a b rest e
            have hopen := hold.openExt hcan t1
            refine evInv_of_keyInv (u := u) (v := v) (tl' := (a, t1) :: rest) hev hd ?_ ?_ ?_ ?_ ?_
            · rw [hvs]
              cases e with
              | some e' => exact (hnr.drop _ u v false).add _ u v false
              | none =>
                simp only
                split
                · exact hnr.drop _ u v false
                · exact (hnr.drop _ u v false).add _ u v false
            · rw [hvs]
              cases e with
              | some e' => exact (OtherSame.drop _ u v _ _ false).trans (OtherSame.add _ u v _ _ false)
              | none =>
                simp only
                split
                · exact OtherSame.drop _ u v _ _ false
                · exact (OtherSame.drop _ u v _ _ false).trans (OtherSame.add _ u v _ _ false)
            · intro x y s hk; exact runs_mapTl_key hd hed hf hk
            · intro x y s hk; exact runs_mapTl_other hd hed hk
            · rw [hvs]
              cases e with
              | some e' =>
                have he' := spanEnd_some_eq hsp
                have := hopen.close
                simp only at this
                rw [he'] at this
                exact this
              | none =>
                have ht := spanEnd_none_eq hsp
                simp only
                split
                · rename_i hsingle
                  simp only [Bool.and_eq_true, beq_iff_eq] at hsingle
                  exact hopen.keep (by show ¬ a + 1 < t1; omega)
                · exact hopen.close
          · rw [addInteraction_append g hr u v t0 e t1 hsp hf htl hlt hc hx]
            have hd := addAppend_directed g u v t0 t1 a b rest e
            have hed := addAppend_edges g u v t0 t1 a b rest e
            have hvs := addAppend_events g u v t0 t1 a b rest e
            refine evInv_of_keyInv (u := u) (v := v) (tl' := (t0, t1) :: (a, b) :: rest) hev hd ?_ ?_ ?_ ?_ ?_
            · rw [hvs]; exact (hnr.add t0 u v true).opt e u v
            · rw [hvs]; exact (OtherSame.add _ u v _ t0 true).trans (OtherSame.opt _ u v _ e)
            · intro x y s hk; exact runs_mapTl_key hd hed hf hk
            · intro x y s hk; exact runs_mapTl_other hd hed hk
            · rw [hvs]; exact hold.push hsp

/-! ### bulk calls and histories -/

theorem addFromGo_evInv (g : Graph) (h : WF g) (hr : g.removal = true) (hev : EvInv g) (t0 : Int)
    (e : Option Int) (es : List (Node × Node)) : EvInv (g.addFromGo es (some t0) e).1 := by
  induction es generalizing g with
  | nil => exact hev
  | cons p rest ih =>
    obtain ⟨u, v⟩ := p
    have hE := effE_removal g hr e
    cases hsp : spanEnd t0 e with
    | none =>
      have hres : g.addInteraction u v (some t0) e = (g, none) :=
        addInteraction_emptySpan g u v t0 e (by rw [hE]; exact hsp)
      simp only [Graph.addFromGo, hres]
      exact ih g h hr hev
    | some t1 =>
      have sp := addInteraction_stepSpec g h hr u v t0 e t1 hsp
      have si := addInteraction_evInv g h hr hev u v t0 e t1 hsp
      rcases hres : g.addInteraction u v (some t0) e with ⟨g', o⟩
      rw [hres] at sp si
      cases o with
      | some err => simp only [Graph.addFromGo, hres]; exact si
      | none =>
        simp only [Graph.addFromGo, hres]
        have hr' : g'.removal = true := by have := sp.removal; simp only at this; rw [this, hr]
        exact ih g' sp.wf hr' si

theorem step_evInv (g : Graph) (h : WF g) (hr : g.removal = true) (hev : EvInv g) (op : Op) :
    EvInv (g.step op).1 := by
  unfold Graph.step Graph.addInteractionsFrom
  cases op.t with
  | none => exact hev
  | some t0 => exact addFromGo_evInv g h hr hev t0 op.e op.pairs

theorem run_evInv (g : Graph) (h : WF g) (hr : g.removal = true) (hev : EvInv g) (ops : List Op) :
    EvInv (g.run ops).1 := by
  induction ops generalizing g with
  | nil => exact hev
  | cons op rest ih =>
    have s := step_ok g h hr op
    exact ih (g.step op).1 s.wf s.removal (step_evInv g h hr hev op)

end Dynetx
