import DynetxProofs.Lemmas.Counts
import DynetxProofs.C18
/-
  The counter invariant along histories, and what `temporal_snapshots_ids` is.
-/
namespace Dynetx

theorem addFromGo_snapInv (g : Graph) (h : WF g) (hr : g.removal = true) (hs : SnapInv g) (t0 : Int)
    (e : Option Int) (es : List (Node × Node)) : SnapInv (g.addFromGo es (some t0) e).1 := by
  induction es generalizing g with
  | nil => exact hs
  | cons p rest ih =>
    obtain ⟨u, v⟩ := p
    have hE := effE_removal g hr e
    cases hsp : spanEnd t0 e with
    | none =>
      have hres : g.addInteraction u v (some t0) e = (g, none) :=
        addInteraction_emptySpan g u v t0 e (by rw [hE]; exact hsp)
      simp only [Graph.addFromGo, hres]
      exact ih g h hr hs
    | some t1 =>
      have sp := addInteraction_stepSpec g h hr u v t0 e t1 hsp
      have si := addInteraction_snapInv g h hr hs u v t0 e t1 hsp
      rcases hres : g.addInteraction u v (some t0) e with ⟨g', o⟩
      rw [hres] at sp si
      cases o with
      | some err => simp only [Graph.addFromGo, hres]; exact si
      | none =>
        simp only [Graph.addFromGo, hres]
        have hr' : g'.removal = true := by have := sp.removal; simp only at this; rw [this, hr]
        exact ih g' sp.wf hr' si

theorem step_snapInv (g : Graph) (h : WF g) (hr : g.removal = true) (hs : SnapInv g) (op : Op) :
    SnapInv (g.step op).1 := by
  unfold Graph.step Graph.addInteractionsFrom
  cases op.t with
  | none => exact hs
  | some t0 => exact addFromGo_snapInv g h hr hs t0 op.e op.pairs

theorem run_snapInv (g : Graph) (h : WF g) (hr : g.removal = true) (hs : SnapInv g) (ops : List Op) :
    SnapInv (g.run ops).1 := by
  induction ops generalizing g with
  | nil => exact hs
  | cons op rest ih =>
    have s := step_ok g h hr op
    exact ih (g.step op).1 s.wf s.removal (step_snapInv g h hr hs op)

/-- a stored pair is counted at `x` exactly when `has_interaction` reports it at `x` -/
theorem WF.present_edge_iff {g : Graph} (h : WF g) (hr : g.removal = true) {e : Edge} (he : e ∈ g.edges) (x : Int) :
    presentTl e.tl x = true ↔ g.hasInteraction e.u e.v (some x) = true := by
  rw [presentTl_iff, h.hasInteraction_iff hr]
  constructor
  · intro hm; exact ⟨e, he, sameKey_refl _ _ _, hm⟩
  · rintro ⟨e', he', hk, hm⟩
    rw [pairwise_unique h.keys he he' (sameKey_refl _ _ _) hk]; exact hm

theorem countAt_pos_iff {g : Graph} (h : WF g) (hr : g.removal = true) (x : Int) :
    0 < g.countAt x ↔ ∃ a b, g.hasInteraction a b (some x) = true := by
  unfold Graph.countAt
  rw [List.countP_pos_iff]
  constructor
  · rintro ⟨e, he, hp⟩
    exact ⟨e.u, e.v, (h.present_edge_iff hr he x).mp hp⟩
  · rintro ⟨a, b, hab⟩
    obtain ⟨e, he, _, hm⟩ := (h.hasInteraction_iff hr a b x).mp hab
    exact ⟨e, he, (presentTl_iff _ _).mpr hm⟩

theorem ids_eq_sorted (g : Graph) : g.ids = C18_sorted (g.snaps.map (·.1)) := rfl

theorem mem_ids_iff {g : Graph} (h : WF g) (hr : g.removal = true) (hs : SnapInv g) (x : Int) :
    x ∈ g.ids ↔ ∃ a b, g.hasInteraction a b (some x) = true := by
  rw [ids_eq_sorted, (C18_sorted_perm _).mem_iff, ← lookupSnap_pos_iff hs.ok, hs.count x, ← countAt_pos_iff h hr]
  omega

theorem ids_strictly_increasing {g : Graph} (hs : SnapInv g) : g.ids.Pairwise (fun a b => a < b) := by
  rw [ids_eq_sorted]; exact C18_sorted_pairwise_lt _ hs.ok.nodup

theorem ids_length (g : Graph) : g.ids.length = g.snaps.length := by
  rw [ids_eq_sorted]; unfold C18_sorted; simp

end Dynetx
