import DynetxProofs.Lemmas.CountsHistory
/-
  Accumulative mode (edge_removal = False).
-/
namespace Dynetx

def oldestStart (tl : List Span) : Int := (tl.getLast?.map (·.1)).getD 0

/-- the time of the first accepted add of the pair -/
def firstLogged (d : Bool) (log : List Accepted) (a b : Node) : Option Int :=
  (log.find? (fun s => sameKey d s.1 s.2.1 a b)).map (·.2.2.1)

theorem effE_accum (g : Graph) (hr : g.removal = false) (e : Option Int) : g.effE e = none := by
  simp [Graph.effE, hr]

section branches
variable (g : Graph) (hr : g.removal = false) (u v : Node) (t0 : Int) (e : Option Int)
include hr

theorem addInteraction_accum_new (hf : g.findEdge u v = none) :
    g.addInteraction u v (some t0) e = (g.addNew u v t0 t0 none, none) := by
  simp only [Graph.addInteraction, effE_accum g hr, spanEnd, hf]

theorem addInteraction_accum_reject {ed : Edge} {a b : Int} {rest : List Span} (hf : g.findEdge u v = some ed)
    (htl : ed.tl = (a, b) :: rest) (hlt : t0 < a) :
    g.addInteraction u v (some t0) e = (g, some .value) := by
  simp only [Graph.addInteraction, effE_accum g hr, spanEnd, hf, htl, hlt, if_true]

theorem addInteraction_accum_ok {ed : Edge} {a b : Int} {rest : List Span} (hf : g.findEdge u v = some ed)
    (htl : ed.tl = (a, b) :: rest) (hlt : ¬ t0 < a) :
    g.addInteraction u v (some t0) e = (g.addAccum u v t0 a b rest, none) := by
  simp [Graph.addInteraction, effE_accum g hr, spanEnd, hf, htl, hlt, hr]

end branches

def accumTl (t0 a b : Int) (rest : List Span) : List Span :=
  if t0 ≤ b + 1 then (a, max b t0) :: rest else (t0, t0) :: (a, b) :: rest

theorem addAccum_edges (g : Graph) (u v : Node) (t0 a b : Int) (rest : List Span) :
    (g.addAccum u v t0 a b rest).edges = mapTl g u v (accumTl t0 a b rest) := by
  unfold Graph.addAccum accumTl
  simp only [bumpRange_edges]
  split <;> rfl

theorem addAccum_directed (g : Graph) (u v : Node) (t0 a b : Int) (rest : List Span) :
    (g.addAccum u v t0 a b rest).directed = g.directed := by
  unfold Graph.addAccum; simp only [bumpRange_directed]; split <;> rfl

theorem addAccum_removal (g : Graph) (u v : Node) (t0 a b : Int) (rest : List Span) :
    (g.addAccum u v t0 a b rest).removal = g.removal := by
  unfold Graph.addAccum; simp only [bumpRange_removal]; split <;> rfl

theorem addAccum_events (g : Graph) (u v : Node) (t0 a b : Int) (rest : List Span) :
    (g.addAccum u v t0 a b rest).events = g.events := by
  unfold Graph.addAccum; simp only [bumpRange_events]; split <;> rfl

theorem irange_single (t : Int) : irange t t = [t] := by
  unfold irange
  have : (t + 1 - t).toNat = 1 := by omega
  rw [this]; simp [List.range_succ]

theorem addAccum_snaps (g : Graph) (u v : Node) (t0 a b : Int) (rest : List Span) :
    (g.addAccum u v t0 a b rest).snaps = bump g.snaps t0 := by
  unfold Graph.addAccum
  show bumpAll _ (irange t0 t0) = _
  rw [irange_single]
  split <;> rfl

theorem oldestStart_accumTl (t0 a b : Int) (rest : List Span) :
    oldestStart (accumTl t0 a b rest) = oldestStart ((a, b) :: rest) := by
  unfold accumTl oldestStart
  split
  · cases rest <;> simp [List.getLast?_cons_cons]
  · simp [List.getLast?_cons_cons]

theorem addNew_accum_snaps (g : Graph) (hr : g.removal = false) (u v : Node) (t0 : Int) :
    (g.addNew u v t0 t0 none).snaps = bump g.snaps t0 := by
  unfold Graph.addNew
  simp only []
  split
  · rename_i h
    simp only [optAddMinus, addEvent_removal] at h
    rw [show ({ g.ensureNodes u v with edges := (g.ensureNodes u v).edges ++ [({ u := u, v := v, tl := [(t0, t0)] } : Edge)] } : Graph).removal = g.removal from rfl, hr] at h
    cases h
  · show bumpAll (optAddMinus _ none u v).snaps (irange t0 t0) = _
    rw [irange_single]; simp only [optAddMinus, addEvent_snaps]; rfl

theorem addNew_accum_events (g : Graph) (u v : Node) (t0 : Int)
    (hfresh : ∀ ev ∈ g.events, sameKey g.directed ev.u ev.v u v = false) :
    (g.addNew u v t0 t0 none).events = g.events ++ [({ t := t0, u := u, v := v, plus := true } : Ev)] := by
  have hno : (g.events.any (fun e => e.t == t0 && sameKey g.directed e.u e.v u v && e.plus == true)) = false := by
    rw [List.any_eq_false]
    intro ev hev
    simp [hfresh ev hev]
  have hev : ∀ (g' : Graph), g'.events = g.events → g'.directed = g.directed →
      (g'.addEvent t0 u v true).events = g.events ++ [({ t := t0, u := u, v := v, plus := true } : Ev)] := by
    intro g' h1 h2
    unfold Graph.addEvent
    rw [h1, h2, hno]; simp
  unfold Graph.addNew
  simp only []
  split <;> simp only [bumpRange_events, optAddMinus] <;> exact hev _ rfl rfl

theorem find?_congr' {α} {p q : α → Bool} {l : List α} (h : ∀ x ∈ l, p x = q x) : l.find? p = l.find? q := by
  induction l with
  | nil => rfl
  | cons a rest ih =>
    simp only [List.find?_cons, h a List.mem_cons_self]
    rw [ih (fun x hx => h x (List.mem_cons_of_mem _ hx))]

/-- the accumulative invariant, relative to the log of accepted calls -/
structure AccInv (g : Graph) (log : List Accepted) : Prop where
  keys : g.edges.Pairwise (fun e f => sameKey g.directed e.u e.v f.u f.v = false)
  first : ∀ e ∈ g.edges, e.tl ≠ [] ∧ firstLogged g.directed log e.u e.v = some (oldestStart e.tl)
  logged : ∀ s ∈ log, ∃ e ∈ g.edges, sameKey g.directed e.u e.v s.1 s.2.1 = true
  events : g.events = g.edges.map (fun e => ({ t := oldestStart e.tl, u := e.u, v := e.v, plus := true } : Ev))
  snaps : ∀ x, x ∈ g.snaps.map (·.1) ↔ ∃ s ∈ log, s.2.2.1 = x

theorem AccInv.empty (d : Bool) : AccInv (Graph.empty d false) [] :=
  ⟨List.Pairwise.nil, (by intro e he; cases he), (by intro s hs; cases hs), rfl,
   by intro x; simp [Graph.empty]⟩

theorem firstLogged_append (d : Bool) (log : List Accepted) (s : Accepted) (a b : Node) :
    firstLogged d (log ++ [s]) a b =
      match firstLogged d log a b with
      | some t => some t
      | none => if sameKey d s.1 s.2.1 a b then some s.2.2.1 else none := by
  unfold firstLogged
  rw [List.find?_append]
  cases h : List.find? (fun s => sameKey d s.1 s.2.1 a b) log with
  | some x => simp
  | none =>
    simp only [Option.none_or, Option.map_none]
    by_cases hk : sameKey d s.1 s.2.1 a b = true
    · simp [List.find?, hk]
    · have : sameKey d s.1 s.2.1 a b = false := by simpa using hk
      simp [List.find?, this]

theorem firstLogged_congr {d : Bool} {log : List Accepted} {a b a' b' : Node}
    (h : sameKey d a b a' b' = true) : firstLogged d log a b = firstLogged d log a' b' := by
  unfold firstLogged
  congr 1
  apply find?_congr'
  intro s _
  cases h1 : sameKey d s.1 s.2.1 a b with
  | true =>
    exact (sameKey_trans h1 h).symm
  | false =>
    cases h2 : sameKey d s.1 s.2.1 a' b' with
    | false => rfl
    | true =>
      have := sameKey_trans h2 (by rw [sameKey_symm]; exact h)
      rw [h1] at this; cases this

theorem bump_keys' (s : List (Int × Nat)) (t x : Int) : x ∈ (bump s t).map (·.1) ↔ x ∈ s.map (·.1) ∨ x = t :=
  bump_keys s t x

/-- one accepted call in accumulative mode -/
theorem addInteraction_accInv (g : Graph) (hr : g.removal = false) (log : List Accepted) (h : AccInv g log)
    (u v : Node) (t0 : Int) (e : Option Int) :
    let r := g.addInteraction u v (some t0) e
    r.1.removal = false ∧ r.1.directed = g.directed ∧
    ((r.2 = none ∧ AccInv r.1 (log ++ [(u, v, t0, t0)])) ∨ (r.2 = some .value ∧ r.1 = g)) := by
  intro r
  cases hf : g.findEdge u v with
  | none =>
    have hres : r = (g.addNew u v t0 t0 none, none) := addInteraction_accum_new g hr u v t0 e hf
    rw [hres]
    have hd := addNew_directed g u v t0 t0 none
    have hed := addNew_edges g u v t0 t0 none
    have hnone := findEdge_none hf
    have hfresh : ∀ ev ∈ g.events, sameKey g.directed ev.u ev.v u v = false := by
      intro ev hev
      rw [h.events, List.mem_map] at hev
      obtain ⟨e', he', rfl⟩ := hev
      exact hnone e' he'
    refine ⟨by rw [addNew_removal]; exact hr, hd, Or.inl ⟨rfl, ?_⟩⟩
    have hfl : firstLogged g.directed log u v = none := by
      cases hfl : firstLogged g.directed log u v with
      | none => rfl
      | some t =>
        unfold firstLogged at hfl
        cases hfind : List.find? (fun s => sameKey g.directed s.1 s.2.1 u v) log with
        | none => rw [hfind] at hfl; cases hfl
        | some s =>
          have hs := List.mem_of_find?_eq_some hfind
          have hk : sameKey g.directed s.1 s.2.1 u v = true := by simpa using List.find?_some hfind
          obtain ⟨e', he', hk'⟩ := h.logged s hs
          have := hnone e' he'
          rw [sameKey_trans hk' hk] at this; cases this
    refine ⟨?_, ?_, ?_, ?_, ?_⟩
    · rw [hed, hd, List.pairwise_append]
      exact ⟨h.keys, List.pairwise_singleton _ _, by intro a ha b hb; simp at hb; subst hb; exact hnone a ha⟩
    · intro e' he'
      rw [hed, List.mem_append] at he'
      rw [hd, firstLogged_append]
      rcases he' with he' | he'
      · obtain ⟨hne, hfe⟩ := h.first e' he'
        rw [hfe]; exact ⟨hne, rfl⟩
      · simp at he'; subst he'
        simp only [hfl, sameKey_refl, if_true]
        exact ⟨by simp, by simp [oldestStart]⟩
    · intro s hs
      rw [hed, hd]
      rcases List.mem_append.mp hs with hs | hs
      · obtain ⟨e', he', hk⟩ := h.logged s hs
        exact ⟨e', List.mem_append_left _ he', hk⟩
      · simp at hs; subst hs
        exact ⟨_, List.mem_append_right _ (List.mem_singleton.mpr rfl), sameKey_refl _ _ _⟩
    · rw [addNew_accum_events g u v t0 hfresh, hed, h.events]
      simp [oldestStart]
    · intro x
      rw [addNew_accum_snaps g hr, bump_keys', h.snaps x]
      constructor
      · rintro (⟨s, hs, rfl⟩ | rfl)
        · exact ⟨s, List.mem_append_left _ hs, rfl⟩
        · exact ⟨_, List.mem_append_right _ (List.mem_singleton.mpr rfl), rfl⟩
      · rintro ⟨s, hs, rfl⟩
        rcases List.mem_append.mp hs with hs | hs
        · exact Or.inl ⟨s, hs, rfl⟩
        · simp at hs; subst hs; exact Or.inr rfl
  | some ed =>
    obtain ⟨hedm, hedk⟩ := findEdge_some hf
    obtain ⟨hne, hfe⟩ := h.first ed hedm
    cases htl : ed.tl with
    | nil => exact absurd htl hne
    | cons s rest =>
      obtain ⟨a, b⟩ := s
      by_cases hlt : t0 < a
      · have hres : r = (g, some .value) := addInteraction_accum_reject g hr u v t0 e hf htl hlt
        rw [hres]; exact ⟨hr, rfl, Or.inr ⟨rfl, rfl⟩⟩
      · have hres : r = (g.addAccum u v t0 a b rest, none) := addInteraction_accum_ok g hr u v t0 e hf htl hlt
        rw [hres]
        have hd := addAccum_directed g u v t0 a b rest
        have hed := addAccum_edges g u v t0 a b rest
        have hold : ∀ e' ∈ g.edges, oldestStart (if sameKey g.directed e'.u e'.v u v then accumTl t0 a b rest else e'.tl) = oldestStart e'.tl := by
          intro e' he'
          split
          · rename_i hk
            have : e' = ed := pairwise_unique h.keys he' hedm hk hedk
            subst this
            rw [oldestStart_accumTl, htl]
          · rfl
        have hlogged_uv : firstLogged g.directed log u v ≠ none := by
          rw [← firstLogged_congr hedk, hfe]; simp
        refine ⟨by rw [addAccum_removal]; exact hr, hd, Or.inl ⟨rfl, ?_⟩⟩
        refine ⟨?_, ?_, ?_, ?_, ?_⟩
        · rw [hed, hd]; unfold mapTl; rw [List.pairwise_map]
          refine h.keys.imp ?_
          intro e1 e2 h12; split <;> split <;> exact h12
        · intro e' he'
          rw [hed, mem_mapTl] at he'
          obtain ⟨e0, he0, rfl⟩ := he'
          obtain ⟨hne0, hfe0⟩ := h.first e0 he0
          rw [hd, firstLogged_append]
          have huv : (if sameKey g.directed e0.u e0.v u v then ({ e0 with tl := accumTl t0 a b rest } : Edge) else e0).u = e0.u := by split <;> rfl
          have hvv : (if sameKey g.directed e0.u e0.v u v then ({ e0 with tl := accumTl t0 a b rest } : Edge) else e0).v = e0.v := by split <;> rfl
          have htl' : (if sameKey g.directed e0.u e0.v u v then ({ e0 with tl := accumTl t0 a b rest } : Edge) else e0).tl
              = if sameKey g.directed e0.u e0.v u v then accumTl t0 a b rest else e0.tl := by split <;> rfl
          rw [huv, hvv, htl', hfe0, hold e0 he0]
          refine ⟨?_, rfl⟩
          split
          · unfold accumTl; split <;> simp
          · exact hne0
        · intro s hs
          rw [hed, hd]
          have : ∃ e0 ∈ g.edges, sameKey g.directed e0.u e0.v s.1 s.2.1 = true := by
            rcases List.mem_append.mp hs with hs | hs
            · exact h.logged s hs
            · simp at hs; subst hs; exact ⟨ed, hedm, hedk⟩
          obtain ⟨e0, he0, hk⟩ := this
          refine ⟨_, mem_mapTl.mpr ⟨e0, he0, rfl⟩, ?_⟩
          split <;> exact hk
        · rw [addAccum_events, hed, h.events]
          unfold mapTl
          rw [List.map_map]
          apply List.map_congr_left
          intro e0 he0
          have := hold e0 he0
          simp only [Function.comp]
          split
          · rename_i hk; simp only [hk, if_true] at this; simp [this]
          · rfl
        · intro x
          rw [addAccum_snaps, bump_keys', h.snaps x]
          constructor
          · rintro (⟨s, hs, rfl⟩ | rfl)
            · exact ⟨s, List.mem_append_left _ hs, rfl⟩
            · exact ⟨_, List.mem_append_right _ (List.mem_singleton.mpr rfl), rfl⟩
          · rintro ⟨s, hs, rfl⟩
            rcases List.mem_append.mp hs with hs | hs
            · exact Or.inl ⟨s, hs, rfl⟩
            · simp at hs; subst hs; exact Or.inr rfl

end Dynetx
