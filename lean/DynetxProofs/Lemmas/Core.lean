import DynetxProofs.Lemmas.WF
/-
  One add_interaction on a well-formed removal-enabled graph: the invariant is kept and presence
  grows by exactly the span of the call (for the pair of the call, nothing else).
-/
namespace Dynetx

theorem hasInteraction_congr {g g' : Graph} (he : g'.edges = g.edges) (hd : g'.directed = g.directed)
    (hr : g.removal = true) (hr' : g'.removal = true) (a b : Node) (t : Option Int) :
    g'.hasInteraction a b t = g.hasInteraction a b t := by
  unfold Graph.hasInteraction Graph.findEdge
  rw [he, hd]
  cases List.find? (fun e => sameKey g.directed e.u e.v a b) g.edges with
  | none => rfl
  | some e =>
    cases t with
    | none => rfl
    | some t =>
      show g'.presenceTest e.tl t = g.presenceTest e.tl t
      unfold Graph.presenceTest
      rw [hr, hr']
      split <;> simp

theorem wf_congr {g g' : Graph} (h : WF g) (he : g'.edges = g.edges) (hd : g'.directed = g.directed) : WF g' :=
  ⟨by rw [he]; exact h.tl, by rw [he, hd]; exact h.keys⟩

/-- presence after the timeline of the (existing) pair `(u,v)` has been replaced -/
theorem presence_mapTl {g g' : Graph} (h : WF g) (hr : g.removal = true) {u v : Node} {ed : Edge}
    {tl' : List Span} (hd : g'.directed = g.directed) (hr' : g'.removal = true)
    (he : g'.edges = mapTl g u v tl') (hf : g.findEdge u v = some ed) (hne : tl' ≠ []) (hc : Canon tl')
    (P : Int → Prop) (hmem : ∀ x, memTl tl' x ↔ memTl ed.tl x ∨ P x) (a b : Node) (x : Int) :
    g'.hasInteraction a b (some x) = true ↔
      g.hasInteraction a b (some x) = true ∨ (sameKey g.directed u v a b = true ∧ P x) := by
  have hwf' : WF g' := wf_mapTl h hne hc hd he
  obtain ⟨hedm, hedk⟩ := findEdge_some hf
  rw [hwf'.hasInteraction_iff hr', h.hasInteraction_iff hr, hd, he]
  constructor
  · rintro ⟨e', hm, hk, hx⟩
    rw [mem_mapTl] at hm
    obtain ⟨e, hem, rfl⟩ := hm
    by_cases hs : sameKey g.directed e.u e.v u v = true
    · simp only [hs, if_true] at hk hx
      have heq : e = ed := pairwise_unique h.keys hem hedm hs hedk
      subst heq
      have huvab : sameKey g.directed u v a b = true := by
        have := hs; rw [sameKey_symm] at this; exact sameKey_trans this hk
      rcases (hmem x).mp hx with hx' | hp
      · exact Or.inl ⟨e, hem, hk, hx'⟩
      · exact Or.inr ⟨huvab, hp⟩
    · simp only [hs] at hk hx
      exact Or.inl ⟨e, hem, hk, hx⟩
  · rintro (⟨e, hem, hk, hx⟩ | ⟨huv, hp⟩)
    · refine ⟨if sameKey g.directed e.u e.v u v then { e with tl := tl' } else e, ?_, ?_, ?_⟩
      · rw [mem_mapTl]; exact ⟨e, hem, rfl⟩
      · split <;> exact hk
      · by_cases hs : sameKey g.directed e.u e.v u v = true
        · simp only [hs, if_true]
          have heq : e = ed := pairwise_unique h.keys hem hedm hs hedk
          subst heq
          exact (hmem x).mpr (Or.inl hx)
        · simp only [hs]; exact hx
    · refine ⟨{ ed with tl := tl' }, ?_, ?_, ?_⟩
      · rw [mem_mapTl]; exact ⟨ed, hedm, by simp [hedk]⟩
      · exact sameKey_trans hedk huv
      · exact (hmem x).mpr (Or.inr hp)

/-- presence after a new pair has been appended -/
theorem presence_append {g g' : Graph} (h : WF g) (hr : g.removal = true) {u v : Node} {t0 t1 : Int}
    (h01 : t0 ≤ t1) (hd : g'.directed = g.directed) (hr' : g'.removal = true)
    (he : g'.edges = g.edges ++ [({ u := u, v := v, tl := [(t0, t1)] } : Edge)])
    (hf : g.findEdge u v = none) (a b : Node) (x : Int) :
    g'.hasInteraction a b (some x) = true ↔
      g.hasInteraction a b (some x) = true ∨ (sameKey g.directed u v a b = true ∧ t0 ≤ x ∧ x ≤ t1) := by
  have hwf' : WF g' := wf_append h h01 hf hd he
  rw [hwf'.hasInteraction_iff hr', h.hasInteraction_iff hr, hd, he]
  constructor
  · rintro ⟨e', hm, hk, hx⟩
    rcases List.mem_append.mp hm with hm | hm
    · exact Or.inl ⟨e', hm, hk, hx⟩
    · simp at hm; subst hm
      right
      refine ⟨hk, ?_⟩
      obtain ⟨s, hs, hsx⟩ := hx
      simp at hs; subst hs; exact hsx
  · rintro (⟨e, hem, hk, hx⟩ | ⟨huv, hp⟩)
    · exact ⟨e, List.mem_append_left _ hem, hk, hx⟩
    · exact ⟨_, List.mem_append_right _ (List.mem_singleton.mpr rfl), huv, ⟨(t0, t1), List.mem_singleton.mpr rfl, hp⟩⟩

/-- summary of one `add_interaction(u, v, t0, e)` with a non-empty span on a well-formed graph -/
structure StepSpec (g : Graph) (u v : Node) (t0 t1 : Int) (r : Graph × Option Err) : Prop where
  directed : r.1.directed = g.directed
  removal : r.1.removal = g.removal
  wf : WF r.1
  /-- the only possible exception is the documented one -/
  outcome : r.2 = none ∨ (r.2 = some .value ∧ r.1 = g)
  /-- rejected exactly when the span starts before the start of the pair's latest run -/
  rejected_iff : r.2 = some .value ↔ ∃ ed a b rest, g.findEdge u v = some ed ∧ ed.tl = (a, b) :: rest ∧ t0 < a
  presence : r.2 = none → ∀ a b x, r.1.hasInteraction a b (some x) = true ↔
      g.hasInteraction a b (some x) = true ∨ (sameKey g.directed u v a b = true ∧ t0 ≤ x ∧ x ≤ t1)

theorem addInteraction_stepSpec (g : Graph) (h : WF g) (hr : g.removal = true) (u v : Node) (t0 : Int)
    (e : Option Int) (t1 : Int) (hs : spanEnd t0 e = some t1) :
    StepSpec g u v t0 t1 (g.addInteraction u v (some t0) e) := by
  have h01 := spanEnd_le hs
  cases hf : g.findEdge u v with
  | none =>
    rw [addInteraction_new g hr u v t0 e t1 hs hf]
    have hd := addNew_directed g u v t0 t1 e
    have hrm := addNew_removal g u v t0 t1 e
    have hed := addNew_edges g u v t0 t1 e
    exact ⟨hd, hrm, wf_append h h01 hf hd hed, Or.inl rfl,
      ⟨(by intro hh; cases hh), (by rintro ⟨ed, a, b, rest, hf', _⟩; rw [hf] at hf'; cases hf')⟩,
      fun _ a b x => presence_append h hr h01 hd (by rw [hrm, hr]) hed hf a b x⟩
  | some ed =>
    obtain ⟨hedm, hedk⟩ := findEdge_some hf
    obtain ⟨hne, hcan⟩ := h.tl ed hedm
    cases htl : ed.tl with
    | nil => exact absurd htl hne
    | cons s rest =>
      obtain ⟨a, b⟩ := s
      rw [htl] at hcan
      by_cases hlt : t0 < a
      · rw [addInteraction_reject g hr u v t0 e t1 hs hf htl hlt]
        exact ⟨rfl, rfl, h, Or.inr ⟨rfl, rfl⟩, ⟨fun _ => ⟨ed, a, b, rest, hf, htl, hlt⟩, fun _ => rfl⟩,
          by intro hh; cases hh⟩
      · have ha0 : a ≤ t0 := by omega
        have notrej : ¬ ∃ ed' a' b' rest', g.findEdge u v = some ed' ∧ ed'.tl = (a', b') :: rest' ∧ t0 < a' := by
          rintro ⟨ed', a', b', rest', h1, h2, h3⟩
          rw [hf] at h1; cases h1; rw [htl] at h2; cases h2; exact hlt h3
        by_cases hc : t1 ≤ b
        · rw [addInteraction_covered g hr u v t0 e t1 hs hf htl hlt hc]
          have hd := addCovered_directed g u v t1 b e
          have hrm := addCovered_removal g u v t1 b e
          have hed := addCovered_edges g u v t1 b e
          refine ⟨hd, hrm, wf_congr h hed hd, Or.inl rfl, ⟨(by intro hh; cases hh), fun hh => (notrej hh).elim⟩, ?_⟩
          intro _ a' b' x
          rw [hasInteraction_congr hed hd hr (by rw [hrm, hr])]
          constructor
          · exact Or.inl
          · rintro (hh | ⟨hk, hx⟩)
            · exact hh
            · rw [h.hasInteraction_iff hr]
              refine ⟨ed, hedm, sameKey_trans hedk hk, ?_⟩
              rw [htl, memTl_cons]; left; show a ≤ x ∧ x ≤ b; omega
        · have hmerge : mergeTl a b rest t0 t1 = if t0 ≤ b + 1 then (a, t1) :: rest else (t0, t1) :: (a, b) :: rest := by
            simp [mergeTl, hc]
          have hmc := mergeTl_canon hcan ha0 h01
          have hmm : ∀ x, memTl (mergeTl a b rest t0 t1) x ↔ memTl ed.tl x ∨ (t0 ≤ x ∧ x ≤ t1) := by
            intro x; rw [htl]; exact mergeTl_mem hcan ha0 h01 x
          by_cases hx : t0 ≤ b + 1
          · rw [addInteraction_extend g hr u v t0 e t1 hs hf htl hlt hc hx]
            have hd := addExtend_directed g u v t0 t1 a b rest e
            have hrm := addExtend_removal g u v t0 t1 a b rest e
            have hed := addExtend_edges g u v t0 t1 a b rest e
            simp only [hx, if_true] at hmerge
            rw [← hmerge] at hed
            exact ⟨hd, hrm, wf_mapTl h (mergeTl_ne_nil _ _ _ _ _) hmc hd hed, Or.inl rfl,
              ⟨(by intro hh; cases hh), fun hh => (notrej hh).elim⟩,
              fun _ a' b' x => presence_mapTl h hr hd (by rw [hrm, hr]) hed hf (mergeTl_ne_nil _ _ _ _ _) hmc _ hmm a' b' x⟩
          · rw [addInteraction_append g hr u v t0 e t1 hs hf htl hlt hc hx]
            have hd := addAppend_directed g u v t0 t1 a b rest e
            have hrm := addAppend_removal g u v t0 t1 a b rest e
            have hed := addAppend_edges g u v t0 t1 a b rest e
            simp only [hx, if_false] at hmerge
            rw [← hmerge] at hed
            exact ⟨hd, hrm, wf_mapTl h (mergeTl_ne_nil _ _ _ _ _) hmc hd hed, Or.inl rfl,
              ⟨(by intro hh; cases hh), fun hh => (notrej hh).elim⟩,
              fun _ a' b' x => presence_mapTl h hr hd (by rw [hrm, hr]) hed hf (mergeTl_ne_nil _ _ _ _ _) hmc _ hmm a' b' x⟩

end Dynetx
