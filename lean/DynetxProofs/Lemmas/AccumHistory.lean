import DynetxProofs.Lemmas.Accum
import DynetxProofs.C15
/-
  Accumulative mode along bulk calls and histories; presence in terms of the log.
-/
namespace Dynetx

theorem maxList_same_mem {l1 l2 : List Int} (h : ∀ x, x ∈ l1 ↔ x ∈ l2) : maxList l1 = maxList l2 := by
  cases h1 : maxList l1 with
  | none =>
    have : l1 = [] := maxList_eq_none.mp h1
    subst this
    have : l2 = [] := by
      cases l2 with
      | nil => rfl
      | cons a r => exact absurd ((h a).mpr List.mem_cons_self) (by simp)
    subst this; rfl
  | some m1 =>
    cases h2 : maxList l2 with
    | none =>
      have : l2 = [] := maxList_eq_none.mp h2
      subst this
      have hm := (maxList_spec h1).1
      exact absurd ((h m1).mp hm) (by simp)
    | some m2 =>
      have s1 := maxList_spec h1
      have s2 := maxList_spec h2
      have a1 := s2.2 m1 ((h m1).mp s1.1)
      have a2 := s1.2 m2 ((h m2).mpr s2.1)
      congr 1; omega

structure AccBulk (g : Graph) (log log' : List Accepted) (r : Graph × Option Err) : Prop where
  removal : r.1.removal = false
  directed : r.1.directed = g.directed
  inv : AccInv r.1 (log ++ log')
  outcome : r.2 = none ∨ r.2 = some .value

theorem addFromGo_accInv (g : Graph) (hr : g.removal = false) (log : List Accepted) (h : AccInv g log)
    (t0 : Int) (e : Option Int) (es : List (Node × Node)) :
    AccBulk g log (g.goLog t0 e es) (g.addFromGo es (some t0) e) := by
  induction es generalizing g log with
  | nil => exact ⟨hr, rfl, by simpa [Graph.goLog, Graph.addFromGo] using h, Or.inl rfl⟩
  | cons p rest ih =>
    obtain ⟨u, v⟩ := p
    have st := addInteraction_accInv g hr log h u v t0 e
    simp only at st
    rcases hres : g.addInteraction u v (some t0) e with ⟨g', o⟩
    rw [hres] at st
    obtain ⟨hr', hd', hcase⟩ := st
    rcases hcase with ⟨ho, hinv⟩ | ⟨ho, hg⟩
    · simp only at ho; subst ho
      have rc := ih g' hr' _ hinv
      have hsp : spanEnd t0 (g.effE e) = some t0 := by rw [effE_accum g hr]; rfl
      simp only [Graph.addFromGo, Graph.goLog, hres, hsp]
      refine ⟨rc.removal, by rw [rc.directed]; exact hd', ?_, rc.outcome⟩
      have := rc.inv
      simpa [List.append_assoc] using this
    · simp only at ho hg; subst ho; subst hg
      simp only [Graph.addFromGo, Graph.goLog, hres]
      exact ⟨hr, rfl, by simpa using h, Or.inr rfl⟩

theorem step_accInv (g : Graph) (hr : g.removal = false) (log : List Accepted) (h : AccInv g log) (op : Op) :
    (g.step op).1.removal = false ∧ (g.step op).1.directed = g.directed ∧ AccInv (g.step op).1 (log ++ g.stepLog op) ∧
      ((g.step op).2 = none ∨ (g.step op).2 = some .value ∨ (g.step op).2 = some .networkx) := by
  cases ht : op.t with
  | none =>
    have hs : g.step op = (g, some .networkx) := by simp [Graph.step, Graph.addInteractionsFrom, ht]
    have hl : g.stepLog op = [] := by simp [Graph.stepLog, ht]
    rw [hs, hl]; exact ⟨hr, rfl, by simpa using h, Or.inr (Or.inr rfl)⟩
  | some t0 =>
    have hs : g.step op = g.addFromGo op.pairs (some t0) op.e := by simp [Graph.step, Graph.addInteractionsFrom, ht]
    have hl : g.stepLog op = g.goLog t0 op.e op.pairs := by simp [Graph.stepLog, ht]
    have := addFromGo_accInv g hr log h t0 op.e op.pairs
    rw [hs, hl]
    exact ⟨this.removal, this.directed, this.inv, by rcases this.outcome with h1 | h1 <;> simp [h1]⟩

theorem run_accInv (g : Graph) (hr : g.removal = false) (log : List Accepted) (h : AccInv g log) (ops : List Op) :
    (g.run ops).1.removal = false ∧ (g.run ops).1.directed = g.directed ∧ AccInv (g.run ops).1 (log ++ g.runLog ops) ∧
      ∀ o ∈ (g.run ops).2, o = none ∨ o = some .value ∨ o = some .networkx := by
  induction ops generalizing g log with
  | nil => exact ⟨hr, rfl, by simpa [Graph.run, Graph.runLog] using h, by intro o ho; cases ho⟩
  | cons op rest ih =>
    obtain ⟨s1, s2, s3, s4⟩ := step_accInv g hr log h op
    obtain ⟨r1, r2, r3, r4⟩ := ih (g.step op).1 s1 _ s3
    refine ⟨r1, by rw [show (g.run (op :: rest)).1 = ((g.step op).1.run rest).1 from rfl, r2, s2], ?_, ?_⟩
    · show AccInv ((g.step op).1.run rest).1 (log ++ (g.stepLog op ++ (g.step op).1.runLog rest))
      simpa [List.append_assoc] using r3
    · intro o ho
      have : o = (g.step op).2 ∨ o ∈ ((g.step op).1.run rest).2 := by simpa [Graph.run] using ho
      rcases this with rfl | ho'
      · exact s4
      · exact r4 o ho'

/-- presence in accumulative mode, from the invariant -/
theorem AccInv.presence {g : Graph} {log : List Accepted} (h : AccInv g log) (hr : g.removal = false)
    (a b : Node) (x : Int) :
    g.hasInteraction a b (some x) = true ↔
      ∃ t0 m, firstLogged g.directed log a b = some t0 ∧ maxList (log.map (·.2.2.1)) = some m ∧ t0 ≤ x ∧ x ≤ m := by
  have hmax : maxList (g.snaps.map (·.1)) = maxList (log.map (·.2.2.1)) := by
    apply maxList_same_mem
    intro y
    rw [h.snaps y]
    simp only [List.mem_map]
  unfold Graph.hasInteraction
  cases hf : g.findEdge a b with
  | none =>
    simp only [Bool.false_eq_true, false_iff]
    rintro ⟨t0, m, hfl, _⟩
    unfold firstLogged at hfl
    cases hfind : List.find? (fun s => sameKey g.directed s.1 s.2.1 a b) log with
    | none => rw [hfind] at hfl; cases hfl
    | some s =>
      have hs := List.mem_of_find?_eq_some hfind
      have hk : sameKey g.directed s.1 s.2.1 a b = true := by simpa using List.find?_some hfind
      obtain ⟨e', he', hk'⟩ := h.logged s hs
      have := findEdge_none hf e' he'
      rw [sameKey_trans hk' hk] at this; cases this
  | some ed =>
    obtain ⟨hedm, hedk⟩ := findEdge_some hf
    obtain ⟨hne, hfe⟩ := h.first ed hedm
    rw [firstLogged_congr hedk] at hfe
    simp only
    cases htl : ed.tl with
    | nil => exact absurd htl hne
    | cons last rest =>
      have hgl : ∃ first, (last :: rest).getLast? = some first := by
        cases hh : (last :: rest).getLast? with
        | none => simp at hh
        | some f => exact ⟨f, rfl⟩
      obtain ⟨first, hfirst⟩ := hgl
      have hos : oldestStart ed.tl = first.1 := by rw [htl]; simp [oldestStart, hfirst]
      simp only [Graph.presenceTest, hfirst, hr, Bool.false_eq_true, if_false, hmax]
      cases hm : maxList (log.map (·.2.2.1)) with
      | none => simp
      | some m =>
        simp only [Bool.and_eq_true, decide_eq_true_eq]
        constructor
        · rintro ⟨h1, h2⟩
          exact ⟨first.1, m, by rw [hfe, hos], rfl, h1, h2⟩
        · rintro ⟨t0, m', h1, h2, h3, h4⟩
          rw [hfe, hos] at h1
          cases h1; cases h2
          exact ⟨h3, h4⟩

end Dynetx
