import DynetxProofs.C12
/-
  C13 — completeness of `Graph.timeRespectingPaths` / `Graph.allTimeRespectingPaths`
  (algorithms/paths.py `time_respecting_paths`, `all_time_respecting_paths`): no time-respecting path is missed,
  provided the first hop of the path is not a self-loop of the root (finding D21).

  Plan: (1) a fold invariant of the DAG construction saying that every head of an edge stays active as long as
  it interacts, hence that every admissible continuation edge is present; (2) the lifting of a valid hop list to
  its chain of occurrences, which is a simple path of the DAG from a source to a target; (3) the ping-pong
  filter accepts valid hop lists; (4) the main theorems; (5) absent root; (6) the aggregation identity of the
  all-pairs variant; (7) the witness that the hypothesis on the first hop is needed.
-/
namespace Dynetx

/-! ### 1. DAG completeness -/

theorem c13_inner_toAdd (g : Graph) (v : Option Node) (tid : Int) (act : List Occ) (acc : StepAcc) (o : Occ) :
    o ∈ (act.foldl (innerF g v tid) acc).2.2.1 ↔
      o ∈ acc.2.2.1 ∨ ∃ an ∈ act, ∃ n ∈ g.neighbors an.1 (some tid), o = (n, tid) := by
  induction act generalizing acc with
  | nil => simp
  | cons a act ih =>
    rw [List.foldl_cons, ih]
    simp only [innerF, List.mem_append, List.mem_map, List.mem_cons]
    constructor
    · rintro ((h | ⟨n, hn, rfl⟩) | ⟨an, han, n, hn, rfl⟩)
      · exact Or.inl h
      · exact Or.inr ⟨a, Or.inl rfl, n, hn, rfl⟩
      · exact Or.inr ⟨an, Or.inr han, n, hn, rfl⟩
    · rintro (h | ⟨an, rfl | han, n, hn, rfl⟩)
      · exact Or.inl (Or.inl h)
      · exact Or.inl (Or.inr ⟨n, hn, rfl⟩)
      · exact Or.inr ⟨an, han, n, hn, rfl⟩

/-- exact description of the active occurrences after one step: the old ones and the heads of the new edges,
    minus the old ones without neighbour at `tid` -/
theorem c13_dagStep_active_iff (g : Graph) (u : Node) (v : Option Node) (st : Dag) (tid : Int) (a : Occ) :
    a ∈ (dagStep g u v st tid).active ↔
      (a ∈ st.active ∨ (∃ n ∈ g.neighbors u (some tid), a = (n, tid)) ∨
        ∃ an ∈ st.active, ∃ n ∈ g.neighbors an.1 (some tid), a = (n, tid)) ∧
      ¬ (a ∈ st.active ∧ g.neighbors a.1 (some tid) = []) := by
  rw [dagStep_eq]
  simp only [List.mem_filter, mem_foldl_insertNew, c13_inner_toAdd, rootAcc, List.mem_map, Bool.not_eq_true']
  constructor
  · rintro ⟨h1, h2⟩
    refine ⟨?_, ?_⟩
    · rcases h1 with h | ⟨n, hn, rfl⟩ | h
      · exact Or.inl h
      · exact Or.inr (Or.inl ⟨n, hn, rfl⟩)
      · exact Or.inr (Or.inr h)
    · intro hrem
      have hm : a ∈ (st.active.foldl (innerF g v tid) (rootAcc g u v st tid)).2.2.2 :=
        (c12_inner_toRemove ..).mpr (Or.inr hrem)
      rw [rootAcc] at hm
      rw [List.contains_iff_mem.mpr hm] at h2
      cases h2
  · rintro ⟨h1, h2⟩
    refine ⟨?_, ?_⟩
    · rcases h1 with h | ⟨n, hn, rfl⟩ | h
      · exact Or.inl h
      · exact Or.inr (Or.inl ⟨n, hn, rfl⟩)
      · exact Or.inr (Or.inr h)
    · cases hc : List.contains (st.active.foldl (innerF g v tid)
          ((((g.neighbors u (some tid)).map (fun n => ((u, tid), (n, tid)))).foldl insertNew st.edges),
           ((newTargets v (g.neighbors u (some tid)) tid).foldl insertNew st.targets),
           ((g.neighbors u (some tid)).map (fun n => (n, tid))), [])).2.2.2 a with
      | false => rfl
      | true =>
        have hm := List.contains_iff_mem.mp hc
        rw [c12_inner_toRemove] at hm
        rcases hm with hm | hm
        · simp at hm
        · exact absurd hm h2

/-- the completeness part of the invariant (strictly increasing instants): the head of an edge is active as long
    as it has a neighbour at every later processed instant; hence every continuation edge is present -/
structure c13_DagInvC (g : Graph) (done : List Int) (d : Dag) : Prop where
  head_active : ∀ e ∈ d.edges, (∀ w' ∈ done, e.2.2 < w' → g.neighbors e.2.1 (some w') ≠ []) → e.2 ∈ d.active
  edge_complete : ∀ e ∈ d.edges, ∀ t' ∈ done, e.2.2 < t' →
    (∀ w' ∈ done, e.2.2 < w' → w' < t' → g.neighbors e.2.1 (some w') ≠ []) →
    ∀ n ∈ g.neighbors e.2.1 (some t'), (e.2, (n, t')) ∈ d.edges

theorem c13_DagInvC.empty (g : Graph) : c13_DagInvC g [] Dag.empty := by
  constructor <;> simp [Dag.empty]

theorem c13_DagInvC.step {g : Graph} {u : Node} {v : Option Node} {done : List Int} {st : Dag}
    (h : c13_DagInvC g done st) (h0 : DagInv g u v done st) (hT : DagInvT done st)
    (tid : Int) (hlt : ∀ t ∈ done, t < tid) :
    c13_DagInvC g (done ++ [tid]) (dagStep g u v st tid) := by
  constructor
  · intro e he hact
    rw [c13_dagStep_active_iff]
    rcases (dagStep_edges ..).mp he with he' | ⟨n, hn, rfl⟩ | ⟨an, han, n, hn, rfl⟩
    · have hin : e.2 ∈ st.active := h.head_active e he' (fun w' hw' hlt' =>
        hact w' (List.mem_append_left _ hw') hlt')
      refine ⟨Or.inl hin, ?_⟩
      rintro ⟨_, hemp⟩
      exact hact tid (List.mem_append_right _ (List.mem_singleton.mpr rfl)) (hlt _ (h0.edge_win e he')) hemp
    · refine ⟨Or.inr (Or.inl ⟨n, hn, rfl⟩), ?_⟩
      rintro ⟨hin, _⟩
      have := hlt _ (hT.active_win _ hin)
      simp at this
    · refine ⟨Or.inr (Or.inr ⟨an, han, n, hn, rfl⟩), ?_⟩
      rintro ⟨hin, _⟩
      have := hlt _ (hT.active_win _ hin)
      simp at this
  · intro e he t' ht' hlt' hact n hn
    rw [List.mem_append, List.mem_singleton] at ht'
    have hold : e ∈ st.edges ∨ e.2.2 = tid := by
      rcases (dagStep_edges ..).mp he with he' | ⟨n, hn, rfl⟩ | ⟨an, han, n, hn, rfl⟩
      · exact Or.inl he'
      · exact Or.inr rfl
      · exact Or.inr rfl
    rcases ht' with ht' | rfl
    · have hlt2 := hlt _ ht'
      rcases hold with he' | heq
      · refine (dagStep_edges ..).mpr (Or.inl (h.edge_complete e he' t' ht' hlt' ?_ n hn))
        intro w' hw' h1 h2
        exact hact w' (List.mem_append_left _ hw') h1 h2
      · omega
    · rcases hold with he' | heq
      · have hin : e.2 ∈ st.active := h.head_active e he' (fun w' hw' h1 =>
          hact w' (List.mem_append_left _ hw') h1 (hlt _ hw'))
        exact (dagStep_edges ..).mpr (Or.inr (Or.inr ⟨e.2, hin, n, hn, rfl⟩))
      · omega

theorem c13_DagInvC.foldl {g : Graph} {u : Node} {v : Option Node} (w : List Int) :
    ∀ (done : List Int) (d : Dag), c13_DagInvC g done d → DagInv g u v done d → DagInvT done d →
      (done ++ w).Pairwise (· < ·) → c13_DagInvC g (done ++ w) (w.foldl (dagStep g u v) d) := by
  induction w with
  | nil => intro done d h _ _ _; simpa using h
  | cons t w ih =>
    intro done d h h0 hT hp
    have hlt : ∀ s ∈ done, s < t := by
      intro s hs
      exact (List.pairwise_append.mp hp).2.2 s hs t (List.mem_cons_self)
    have hp' : ((done ++ [t]) ++ w).Pairwise (· < ·) := by simpa [List.append_assoc] using hp
    have := ih (done ++ [t]) _ (h.step h0 hT t hlt) (h0.step t) (hT.step t hlt) hp'
    simpa [List.append_assoc] using this

theorem c13_invC_fold (g : Graph) (u : Node) (v : Option Node) (w : List Int) (hw : w.Pairwise (· < ·)) :
    c13_DagInvC g w (w.foldl (dagStep g u v) Dag.empty) := by
  simpa using c13_DagInvC.foldl (g := g) (u := u) (v := v) w [] Dag.empty (c13_DagInvC.empty g)
    (DagInv.empty g u v) DagInvT.empty (by simpa using hw)

/-- **edge completeness**: if `y@t` is the head of an edge of the DAG, `t < t'` are window instants, `y` has a
    neighbour at every window instant strictly between them and `n` is a neighbour of `y` at `t'`, then
    `y@t → n@t'` is an edge of the DAG -/
theorem c13_edge_complete {g : Graph} {u : Node} {v : Option Node} {start stop : Option Int} {d : Dag}
    (hids : g.ids.Pairwise (· < ·)) (h : g.temporalDag u v start stop = .ok d) :
    ∀ e ∈ d.edges, ∀ t' ∈ dagWindow g start stop, e.2.2 < t' →
      (∀ w' ∈ dagWindow g start stop, e.2.2 < w' → w' < t' → g.neighbors e.2.1 (some w') ≠ []) →
      ∀ n ∈ g.neighbors e.2.1 (some t'), (e.2, (n, t')) ∈ d.edges := by
  rw [temporalDag_ok h]
  exact (c13_invC_fold g u v _ (dagWindow_pairwise hids start stop)).edge_complete

/-- the head of an edge that interacts at every later window instant is still active at the end -/
theorem c13_head_active {g : Graph} {u : Node} {v : Option Node} {start stop : Option Int} {d : Dag}
    (hids : g.ids.Pairwise (· < ·)) (h : g.temporalDag u v start stop = .ok d) :
    ∀ e ∈ d.edges, (∀ w' ∈ dagWindow g start stop, e.2.2 < w' → g.neighbors e.2.1 (some w') ≠ []) →
      e.2 ∈ d.active := by
  rw [temporalDag_ok h]
  exact (c13_invC_fold g u v _ (dagWindow_pairwise hids start stop)).head_active


/-! ### 2. lifting a hop list to its chain of occurrences -/

/-- the occurrence reached by a hop -/
def c13_occF (h : Hop) : Occ := (h.2.1, h.2.2)

/-- the occurrence chain of a hop list: the tail of the first hop at the instant of the first hop (the source),
    then the occurrence reached by each hop -/
def c13_occs : TPath → List Occ
  | [] => []
  | h :: rest => (h.1, h.2.2) :: (h :: rest).map c13_occF

theorem c13_hopsOf_tail (g : Graph) (W : List Int) :
    ∀ (rest : TPath) (a : Node) (o : Occ), c12_linked g W ((a, o.1, o.2) :: rest) →
      hopsOf (o :: rest.map c13_occF) = rest := by
  intro rest
  induction rest with
  | nil => intro a o _; rfl
  | cons h rest ih =>
    intro a o hl
    obtain ⟨h1, _, _, _, hl'⟩ := hl
    simp only at h1
    rw [List.map_cons, c12_hopsOf_cons2, ih h.1 (c13_occF h) hl']
    simp only [c13_occF, h1]

/-- the hops of the occurrence chain are the hop list itself -/
theorem c13_hopsOf_occs (g : Graph) (W : List Int) (p : TPath) (hl : c12_linked g W p) :
    hopsOf (c13_occs p) = p := by
  cases p with
  | nil => rfl
  | cons h rest =>
    simp only [c13_occs, List.map_cons]
    rw [c12_hopsOf_cons2, c13_hopsOf_tail g W rest h.1 (c13_occF h) hl]
    rfl

/-- from the head `o` of an edge, the occurrences reached by a linked hop list form a chain of edges -/
theorem c13_chain_tail {g : Graph} {u : Node} {v : Option Node} {start stop : Option Int} {d : Dag}
    (hids : g.ids.Pairwise (· < ·)) (hd : g.temporalDag u v start stop = .ok d) :
    ∀ (rest : TPath) (a : Node) (o : Occ), (∃ e ∈ d.edges, e.2 = o) →
      (∀ h ∈ rest, h.2.2 ∈ dagWindow g start stop ∧ h.2.1 ∈ g.neighbors h.1 (some h.2.2)) →
      c12_linked g (dagWindow g start stop) ((a, o.1, o.2) :: rest) →
      c12_consec (fun a b => (a, b) ∈ d.edges) (o :: rest.map c13_occF) := by
  intro rest
  induction rest with
  | nil => intro a o _ _ _; trivial
  | cons h rest ih =>
    intro a o ho hops hl
    obtain ⟨e, he, rfl⟩ := ho
    obtain ⟨h1, h2, _, hact, hl'⟩ := hl
    simp only at h1 h2 hact
    have hh := hops h List.mem_cons_self
    have hedge : (e.2, (h.2.1, h.2.2)) ∈ d.edges := by
      refine c13_edge_complete hids hd e he h.2.2 hh.1 h2 ?_ h.2.1 ?_
      · intro w' hw' h3 h4
        rw [h1]
        exact hact w' hw' h3 h4
      · rw [h1]
        exact hh.2
    rw [List.map_cons, c12_consec_cons2]
    refine ⟨hedge, ih h.1 (c13_occF h) ⟨_, hedge, rfl⟩ (fun x hx => hops x (List.mem_cons_of_mem _ hx)) hl'⟩

/-- the times strictly increase along the occurrences reached by a linked hop list: no repetition -/
theorem c13_nodup_tail (g : Graph) (W : List Int) :
    ∀ (rest : TPath) (a : Node) (o : Occ), c12_linked g W ((a, o.1, o.2) :: rest) →
      (∀ x ∈ rest.map c13_occF, o.2 < x.2) ∧ (o :: rest.map c13_occF).Nodup := by
  intro rest
  induction rest with
  | nil => intro a o _; simp
  | cons h rest ih =>
    intro a o hl
    obtain ⟨_, h2, _, _, hl'⟩ := hl
    simp only at h2
    obtain ⟨ih1, ih2⟩ := ih h.1 (c13_occF h) hl'
    have hall : ∀ x ∈ (h :: rest).map c13_occF, o.2 < x.2 := by
      intro x hx
      rw [List.map_cons, List.mem_cons] at hx
      rcases hx with rfl | hx
      · exact h2
      · exact Int.lt_trans h2 (ih1 x hx)
    refine ⟨hall, ?_⟩
    rw [List.nodup_cons]
    refine ⟨?_, ih2⟩
    intro hm
    exact Int.lt_irrefl _ (hall o hm)

theorem c13_occs_head (h : Hop) (rest : TPath) : (c13_occs (h :: rest)).head? = some (h.1, h.2.2) := rfl

theorem c13_occs_getLast : ∀ (p : TPath) (hl : Hop), p.getLast? = some hl →
    (c13_occs p).getLast? = some (c13_occF hl) := by
  intro p hl h
  cases p with
  | nil => simp at h
  | cons a rest =>
    simp only [c13_occs]
    rw [List.map_cons, List.getLast?_cons_cons, ← List.map_cons, List.getLast?_map, h]
    rfl

/-- the last element of a chain of length at least two is related to its predecessor -/
theorem c13_consec_last {α : Type} {R : α → α → Prop} :
    ∀ (l : List α) (a t : α), c12_consec R (a :: l) → l ≠ [] → (a :: l).getLast? = some t → ∃ b, R b t
  | [], _, _, _, hne, _ => absurd rfl hne
  | [b], a, t, hc, _, hl => by
    simp only [List.getLast?_cons_cons, List.getLast?_singleton, Option.some.injEq] at hl
    subst hl
    exact ⟨a, hc.1⟩
  | b :: c :: r, a, t, hc, _, hl => by
    rw [List.getLast?_cons_cons] at hl
    exact c13_consec_last (c :: r) b t hc.2 (by simp) hl

/-- **path lifting**: the occurrence chain of a valid time-respecting path whose first hop does not come back to
    the root is a simple path of the DAG from a source to a target -/
theorem c13_lift {g : Graph} {u : Node} {v : Option Node} {start stop : Option Int} {d : Dag}
    (hids : g.ids.Pairwise (· < ·)) (hd : g.temporalDag u v start stop = .ok d)
    {p : TPath} (hp : ValidTRP g u v (dagWindow g start stop) p)
    (hfirst : ∀ hop, p.head? = some hop → hop.2.1 ≠ u) :
    ∃ s ∈ d.sources, ∃ t ∈ d.targets, c13_occs p ∈ simplePaths d s t := by
  cases p with
  | nil => exact absurd rfl hp.nonempty
  | cons h rest =>
    have hu : h.1 = u := hp.starts h rfl
    have hne : h.2.1 ≠ u := hfirst h rfl
    have hh := hp.hops h List.mem_cons_self
    have hroot : ((u, h.2.2), (h.2.1, h.2.2)) ∈ d.edges :=
      C15_root_edges g u v start stop d hd h.2.2 hh.1 h.2.1 (hu ▸ hh.2)
    have hsrc : (u, h.2.2) ∈ d.sources :=
      (C15_sources g u v start stop d hd (u, h.2.2)).mpr ⟨rfl, hh.1, List.ne_nil_of_mem (hu ▸ hh.2)⟩
    have hchain : c12_consec (fun a b => (a, b) ∈ d.edges) (c13_occs (h :: rest)) := by
      simp only [c13_occs, List.map_cons]
      rw [c12_consec_cons2]
      refine ⟨?_, c13_chain_tail hids hd rest h.1 (c13_occF h) ⟨_, hroot, rfl⟩
        (fun x hx => hp.hops x (List.mem_cons_of_mem _ hx)) hp.linked⟩
      rw [hu]
      exact hroot
    have hnd : (c13_occs (h :: rest)).Nodup := by
      obtain ⟨h1, h2⟩ := c13_nodup_tail g _ rest h.1 (c13_occF h) hp.linked
      simp only [c13_occs, List.map_cons]
      rw [List.nodup_cons]
      refine ⟨?_, h2⟩
      intro hm
      rw [List.mem_cons] at hm
      rcases hm with hm | hm
      · simp only [c13_occF, Prod.mk.injEq] at hm
        exact hne (hu ▸ hm.1.symm)
      · have hlt := h1 _ hm
        exact Int.lt_irrefl _ hlt
    obtain ⟨hl, hhl⟩ : ∃ hl, (h :: rest).getLast? = some hl :=
      ⟨(h :: rest).getLast (by simp), List.getLast?_eq_some_getLast (by simp)⟩
    have hlast := c13_occs_getLast (h :: rest) hl hhl
    have htgt : c13_occF hl ∈ d.targets := by
      rw [C15_targets_iff g u v start stop d hd]
      refine ⟨?_, fun w hw => hp.ends w hw hl hhl⟩
      have hlast' := hlast
      simp only [c13_occs] at hlast' hchain
      obtain ⟨b, hb⟩ := c13_consec_last _ _ _ hchain (by simp) hlast'
      exact ⟨_, hb, rfl⟩
    refine ⟨(u, h.2.2), hsrc, c13_occF hl, htgt, ?_⟩
    rw [c12_simplePaths_iff]
    refine ⟨?_, hlast, hnd, hchain⟩
    rw [c13_occs_head, hu]

/-! ### 3. the filter accepts valid hop lists -/

theorem c13_pingPong_of_linked (g : Graph) (W : List Int) : ∀ p : TPath, c12_linked g W p → pingPongOk p = true
  | [], _ => rfl
  | [_], _ => rfl
  | a :: b :: rest, hl => by
    rw [c12_pingPongOk_iff, c12_consec_cons2, ← c12_pingPongOk_iff]
    obtain ⟨_, h2, h3, _, hl'⟩ := hl
    refine ⟨⟨fun hh => h3 hh.2, ?_⟩, c13_pingPong_of_linked g W (b :: rest) hl'⟩
    omega

theorem c13_valid_kept {g : Graph} {u : Node} {v : Option Node} {W : List Int} {p : TPath}
    (hp : ValidTRP g u v W p) : pingPongOk p = true ∧ p ≠ [] :=
  ⟨c13_pingPong_of_linked g W p hp.linked, hp.nonempty⟩

/-! ### 4. the main theorems -/

/-- `groupPaths` files every path under its key -/
theorem c13_groupPaths_mem_fold (ps : List TPath) :
    ∀ (acc : List ((Node × Node) × List TPath)) (p : TPath),
      (p ∈ ps ∨ ∃ kp ∈ acc, kp.1 = pathKey p ∧ p ∈ kp.2) →
      ∃ kp ∈ ps.foldl c12_groupStep acc, kp.1 = pathKey p ∧ p ∈ kp.2 := by
  induction ps with
  | nil =>
    intro acc p h
    rcases h with h | h
    · simp at h
    · exact h
  | cons q ps ih =>
    intro acc p h
    rw [List.foldl_cons]
    apply ih
    rcases h with h | ⟨kp, hkp, hk, hm⟩
    · rw [List.mem_cons] at h
      rcases h with rfl | h
      · right
        unfold c12_groupStep
        split
        · rename_i hany
          rw [List.any_eq_true] at hany
          obtain ⟨e, he, hek⟩ := hany
          refine ⟨(e.1, e.2 ++ [p]), ?_, eq_of_beq hek, by simp⟩
          rw [List.mem_map]
          exact ⟨e, he, by rw [if_pos hek]⟩
        · exact ⟨(pathKey p, [p]), by simp, rfl, by simp⟩
      · exact Or.inl h
    · right
      unfold c12_groupStep
      split
      · by_cases hkq : (kp.1 == pathKey q) = true
        · refine ⟨(kp.1, kp.2 ++ [q]), ?_, hk, by simp [hm]⟩
          rw [List.mem_map]
          exact ⟨kp, hkp, by rw [if_pos hkq]⟩
        · refine ⟨kp, ?_, hk, hm⟩
          rw [List.mem_map]
          exact ⟨kp, hkp, by rw [if_neg hkq]⟩
      · exact ⟨kp, List.mem_append_left _ hkp, hk, hm⟩

theorem c13_groupPaths_mem {ps : List TPath} {p : TPath} (h : p ∈ ps) :
    ∃ kp ∈ groupPaths ps, kp.1 = pathKey p ∧ p ∈ kp.2 := by
  rw [c12_groupPaths_eq]
  exact c13_groupPaths_mem_fold ps [] p (Or.inl h)

/-- **C13 (completeness).** Every genuine time-respecting path from `u` (to `v`) inside the window whose first hop
    is not a self-loop of the root `(u, u, t)` is returned, filed under its key (first node, last node). -/
theorem C13_complete (g : Graph) (hids : g.ids.Pairwise (· < ·)) (u : Node) (v : Option Node)
    (start stop : Option Int) (res : List ((Node × Node) × List TPath))
    (h : g.timeRespectingPaths u v start stop = .ok res) (hu : g.hasNode u start = true)
    (p : TPath) (hp : ValidTRP g u v (dagWindow g start stop) p)
    (hfirst : ∀ hop, p.head? = some hop → hop.2.1 ≠ u) :
    ∃ kp ∈ res, kp.1 = pathKey p ∧ p ∈ kp.2 := by
  unfold Graph.timeRespectingPaths at h
  rw [hu] at h
  simp only [Bool.not_true, Bool.false_eq_true, if_false] at h
  split at h
  · cases h
  · rename_i d hd
    simp only [Except.ok.injEq] at h
    subst h
    obtain ⟨s, hs, t, ht, hq⟩ := c13_lift hids hd hp hfirst
    obtain ⟨hpp, hne⟩ := c13_valid_kept hp
    apply c13_groupPaths_mem
    rw [mem_foldl_insertNew]
    right
    simp only [List.mem_filter, List.mem_flatMap, List.mem_map, Bool.and_eq_true, Bool.not_eq_true',
      List.isEmpty_eq_false_iff]
    exact ⟨⟨(s, t), ⟨s, hs, t, ht, rfl⟩, c13_occs p, hq, c13_hopsOf_occs g _ p hp.linked⟩, hpp, hne⟩

/-- the hypothesis on the first hop follows from the absence of a self-loop of the root inside the window -/
theorem c13_first_of_noloop {g : Graph} {u : Node} {v : Option Node} {W : List Int} {p : TPath}
    (hp : ValidTRP g u v W p) (hloop : ∀ t ∈ W, u ∉ g.neighbors u (some t)) :
    ∀ hop, p.head? = some hop → hop.2.1 ≠ u := by
  intro hop hh heq
  have hm : hop ∈ p := List.mem_of_head? hh
  have h1 := hp.hops hop hm
  rw [hp.starts hop hh, heq] at h1
  exact hloop _ h1.1 h1.2

/-- **C13 (completeness, root without self-loop in the window).** -/
theorem C13_complete_noloop (g : Graph) (hids : g.ids.Pairwise (· < ·)) (u : Node) (v : Option Node)
    (start stop : Option Int) (res : List ((Node × Node) × List TPath))
    (h : g.timeRespectingPaths u v start stop = .ok res) (hu : g.hasNode u start = true)
    (hloop : ∀ t ∈ dagWindow g start stop, u ∉ g.neighbors u (some t))
    (p : TPath) (hp : ValidTRP g u v (dagWindow g start stop) p) :
    ∃ kp ∈ res, kp.1 = pathKey p ∧ p ∈ kp.2 :=
  C13_complete g hids u v start stop res h hu p hp (c13_first_of_noloop hp hloop)

/-- **C13 (exactness).** When the root has no self-loop inside the window, the returned paths are exactly the
    genuine time-respecting paths. -/
theorem C13_exact (g : Graph) (hids : g.ids.Pairwise (· < ·)) (u : Node) (v : Option Node)
    (start stop : Option Int) (res : List ((Node × Node) × List TPath))
    (h : g.timeRespectingPaths u v start stop = .ok res) (hu : g.hasNode u start = true)
    (hloop : ∀ t ∈ dagWindow g start stop, u ∉ g.neighbors u (some t)) (p : TPath) :
    (∃ kp ∈ res, p ∈ kp.2) ↔ ValidTRP g u v (dagWindow g start stop) p := by
  constructor
  · rintro ⟨kp, hkp, hm⟩
    exact (C12_sound g hids u v start stop res h kp hkp p hm).1
  · intro hp
    obtain ⟨kp, hkp, _, hm⟩ := C13_complete_noloop g hids u v start stop res h hu hloop p hp
    exact ⟨kp, hkp, hm⟩

/-! ### 5. absent root -/

/-- when `u` has no interaction at `start` (for `start = none`: when `u` is not a node) the result is empty -/
theorem C13_absent_root (g : Graph) (u : Node) (v : Option Node) (start stop : Option Int)
    (hu : g.hasNode u start = false) : g.timeRespectingPaths u v start stop = .ok [] := by
  unfold Graph.timeRespectingPaths
  rw [hu]
  rfl


/-! ### 6. the aggregation identity of `allTimeRespectingPaths` -/

abbrev c13_Res := List ((Node × Node) × List TPath)

/-- every group of `groupPaths` is non-empty -/
theorem c13_groupPaths_ne_fold (ps : List TPath) :
    ∀ acc : c13_Res, (∀ e ∈ acc, e.2 ≠ []) → ∀ e ∈ ps.foldl c12_groupStep acc, e.2 ≠ [] := by
  induction ps with
  | nil => intro acc h; exact h
  | cons q ps ih =>
    intro acc h
    rw [List.foldl_cons]
    apply ih
    intro e he
    unfold c12_groupStep at he
    split at he
    · rw [List.mem_map] at he
      obtain ⟨e0, he0, rfl⟩ := he
      split
      · simp
      · exact h e0 he0
    · rw [List.mem_append, List.mem_singleton] at he
      rcases he with he | rfl
      · exact h e he
      · simp

theorem c13_groupPaths_ne (ps : List TPath) : ∀ e ∈ groupPaths ps, e.2 ≠ [] := by
  rw [c12_groupPaths_eq]
  exact c13_groupPaths_ne_fold ps [] (by simp)

/-- every key returned for the root `u` has first component `u` -/
theorem c13_trp_key_fst {g : Graph} (hids : g.ids.Pairwise (· < ·)) {u : Node} {v : Option Node}
    {start stop : Option Int} {r : c13_Res} (h : g.timeRespectingPaths u v start stop = .ok r) :
    ∀ kp ∈ r, kp.1.1 = u := by
  intro kp hkp
  have hne : kp.2 ≠ [] := by
    rcases c12_trp_ok h with rfl | ⟨_, _, kept, rfl, _⟩
    · simp at hkp
    · exact c13_groupPaths_ne _ kp hkp
  obtain ⟨p, hp⟩ := List.exists_mem_of_ne_nil _ hne
  obtain ⟨hv, hk⟩ := C12_sound g hids u v start stop r h kp hkp p hp
  rw [hk]
  exact c12_pathKey_fst hv

/-- the merge of one entry of the result for the root `u` into the accumulated dictionary -/
def c13_mergeStep (u : Node) (res : c13_Res) (kp : (Node × Node) × List TPath) : c13_Res :=
  if res.any (fun e => e.1 == (u, kp.1.2)) then res.map (fun e => if e.1 == (u, kp.1.2) then ((u, kp.1.2), kp.2) else e)
  else res ++ [((u, kp.1.2), kp.2)]

/-- one iteration of the loop over the roots -/
def c13_allStep (g : Graph) (start stop : Option Int) (res : c13_Res) (u : Node) : Except Err c13_Res :=
  match g.timeRespectingPaths u none start stop with
  | .error e => .error e
  | .ok paths => .ok (paths.foldl (c13_mergeStep u) res)

theorem c13_all_eq_foldlM (g : Graph) (start stop minT : Option Int) :
    g.allTimeRespectingPaths start stop minT = (g.nodesAt minT).foldlM (c13_allStep g start stop) [] := rfl

/-- with fresh pairwise distinct keys the merge only appends -/
theorem c13_merge_eq (u : Node) :
    ∀ (paths res : c13_Res), (paths.map (fun kp => (u, kp.1.2))).Nodup →
      (∀ kp ∈ paths, ∀ e ∈ res, e.1 ≠ (u, kp.1.2)) →
      paths.foldl (c13_mergeStep u) res = res ++ paths.map (fun kp => ((u, kp.1.2), kp.2)) := by
  intro paths
  induction paths with
  | nil => intro res _ _; simp
  | cons kp paths ih =>
    intro res hnd hfresh
    rw [List.map_cons, List.nodup_cons] at hnd
    have hstep : c13_mergeStep u res kp = res ++ [((u, kp.1.2), kp.2)] := by
      unfold c13_mergeStep
      rw [if_neg]
      intro hany
      rw [List.any_eq_true] at hany
      obtain ⟨e, he, hek⟩ := hany
      exact hfresh kp List.mem_cons_self e he (eq_of_beq hek)
    rw [List.foldl_cons, hstep, ih _ hnd.2]
    · simp
    · intro kp' hkp' e he
      rw [List.mem_append, List.mem_singleton] at he
      rcases he with he | rfl
      · exact hfresh kp' (List.mem_cons_of_mem _ hkp') e he
      · intro heq
        apply hnd.1
        rw [List.mem_map]
        exact ⟨kp', hkp', heq.symm⟩

/-- the result for one root, `[]` when the call fails -/
def c13_rOf (g : Graph) (start stop : Option Int) (u : Node) : c13_Res :=
  match g.timeRespectingPaths u none start stop with
  | .ok r => r
  | .error _ => []

theorem c13_rOf_eq {g : Graph} {start stop : Option Int} {u : Node} {r : c13_Res}
    (h : g.timeRespectingPaths u none start stop = .ok r) : c13_rOf g start stop u = r := by
  unfold c13_rOf
  rw [h]

/-- the loop over duplicate-free roots whose keys are fresh concatenates the per-root results -/
theorem c13_all_fold (g : Graph) (hids : g.ids.Pairwise (· < ·)) (start stop : Option Int) :
    ∀ (nodes : List Node) (res0 res : c13_Res), nodes.Nodup → (∀ e ∈ res0, e.1.1 ∉ nodes) →
      nodes.foldlM (c13_allStep g start stop) res0 = .ok res →
      (∀ u ∈ nodes, ∃ r, g.timeRespectingPaths u none start stop = .ok r) ∧
        res = res0 ++ nodes.flatMap (c13_rOf g start stop) := by
  intro nodes
  induction nodes with
  | nil =>
    intro res0 res _ _ h
    simp only [List.foldlM_nil, pure, Except.pure, Except.ok.injEq] at h
    simp [h]
  | cons u nodes ih =>
    intro res0 res hnd hfresh h
    rw [List.nodup_cons] at hnd
    rw [List.foldlM_cons] at h
    cases hr : g.timeRespectingPaths u none start stop with
    | error e =>
      have : c13_allStep g start stop res0 u = .error e := by unfold c13_allStep; rw [hr]
      rw [this] at h
      cases h
    | ok r =>
      have hfst := c13_trp_key_fst hids hr
      have hkeys := (c12_nodup g u none start stop r hr).2
      have hmapid : r.map (fun kp => ((u, kp.1.2), kp.2)) = r := by
        conv => rhs; rw [← List.map_id r]
        apply List.map_congr_left
        intro kp hkp
        have := hfst kp hkp
        rw [← this]
        rfl
      have hmerge : r.foldl (c13_mergeStep u) res0 = res0 ++ r := by
        rw [c13_merge_eq u r res0, hmapid]
        · have : r.map (fun kp => (u, kp.1.2)) = r.map (·.1) := by
            apply List.map_congr_left
            intro kp hkp
            have := hfst kp hkp
            rw [← this]
          rw [this]
          exact hkeys
        · intro kp _ e he heq
          apply hfresh e he
          rw [heq]
          exact List.mem_cons_self
      have hstep : c13_allStep g start stop res0 u = .ok (res0 ++ r) := by
        unfold c13_allStep; rw [hr]; simp only; rw [hmerge]
      rw [hstep] at h
      have hfresh' : ∀ e ∈ res0 ++ r, e.1.1 ∉ nodes := by
        intro e he
        rw [List.mem_append] at he
        rcases he with he | he
        · exact fun hm => hfresh e he (List.mem_cons_of_mem _ hm)
        · rw [hfst e he]
          exact hnd.1
      obtain ⟨h1, h2⟩ := ih (res0 ++ r) res hnd.2 hfresh' h
      refine ⟨?_, ?_⟩
      · intro u' hu'
        rw [List.mem_cons] at hu'
        rcases hu' with rfl | hu'
        · exact ⟨r, hr⟩
        · exact h1 u' hu'
      · rw [h2, List.flatMap_cons, c13_rOf_eq hr, List.append_assoc]

/-- **C13 (all pairs, aggregation identity).** With duplicate-free roots, no call fails and the result is the
    concatenation, in the order of the roots, of the results of the single-root calls. -/
theorem C13_all_eq (g : Graph) (hids : g.ids.Pairwise (· < ·)) (start stop minT : Option Int) (res : c13_Res)
    (h : g.allTimeRespectingPaths start stop minT = .ok res) (hnd : (g.nodesAt minT).Nodup) :
    (∀ u ∈ g.nodesAt minT, ∃ r, g.timeRespectingPaths u none start stop = .ok r) ∧
      res = (g.nodesAt minT).flatMap (c13_rOf g start stop) := by
  rw [c13_all_eq_foldlM] at h
  simpa using c13_all_fold g hids start stop (g.nodesAt minT) [] res hnd (by simp) h

theorem c13_flatMap_keys_nodup (f : Node → c13_Res) :
    ∀ nodes : List Node, nodes.Nodup → (∀ u ∈ nodes, ((f u).map (·.1)).Nodup ∧ ∀ kp ∈ f u, kp.1.1 = u) →
      ((nodes.flatMap f).map (·.1)).Nodup := by
  intro nodes
  induction nodes with
  | nil => intro _ _; simp
  | cons u nodes ih =>
    intro hnd hf
    rw [List.nodup_cons] at hnd
    rw [List.flatMap_cons, List.map_append, List.nodup_append]
    refine ⟨(hf u List.mem_cons_self).1, ih hnd.2 (fun u' hu' => hf u' (List.mem_cons_of_mem _ hu')), ?_⟩
    intro a ha b hb hab
    subst hab
    rw [List.mem_map] at ha hb
    obtain ⟨kp, hkp, rfl⟩ := ha
    obtain ⟨kp', hkp', hk⟩ := hb
    rw [List.mem_flatMap] at hkp'
    obtain ⟨u', hu', hkp'⟩ := hkp'
    have h1 := (hf u List.mem_cons_self).2 kp hkp
    have h2 := (hf u' (List.mem_cons_of_mem _ hu')).2 kp' hkp'
    rw [hk, h1] at h2
    rw [h2] at hnd
    exact hnd.1 hu'

/-- **C13 (all pairs).** For every root `u` the single-root call succeeds and each of its entries `kp` (whose key
    starts with `u`) is stored in `res` under the key `(u, kp.1.2)` with the value `kp.2`; every entry of `res`
    arises this way; and the keys of `res` are pairwise distinct (so "the entry under the key" is well defined). -/
theorem C13_all (g : Graph) (hids : g.ids.Pairwise (· < ·)) (start stop minT : Option Int) (res : c13_Res)
    (h : g.allTimeRespectingPaths start stop minT = .ok res) (hnd : (g.nodesAt minT).Nodup) :
    (∀ u ∈ g.nodesAt minT, ∃ r, g.timeRespectingPaths u none start stop = .ok r ∧
      ∀ kp ∈ r, kp.1.1 = u ∧ ((u, kp.1.2), kp.2) ∈ res) ∧
    (∀ e ∈ res, ∃ u ∈ g.nodesAt minT, ∃ r, g.timeRespectingPaths u none start stop = .ok r ∧
      ∃ kp ∈ r, e = ((u, kp.1.2), kp.2)) ∧
    (res.map (·.1)).Nodup := by
  obtain ⟨hok, hres⟩ := C13_all_eq g hids start stop minT res h hnd
  refine ⟨?_, ?_, ?_⟩
  · intro u hu
    obtain ⟨r, hr⟩ := hok u hu
    refine ⟨r, hr, ?_⟩
    intro kp hkp
    have hfst := c13_trp_key_fst hids hr kp hkp
    refine ⟨hfst, ?_⟩
    rw [hres, List.mem_flatMap]
    refine ⟨u, hu, ?_⟩
    rw [c13_rOf_eq hr]
    have : ((u, kp.1.2), kp.2) = kp := by rw [← hfst]
    rw [this]
    exact hkp
  · intro e he
    rw [hres, List.mem_flatMap] at he
    obtain ⟨u, hu, he⟩ := he
    obtain ⟨r, hr⟩ := hok u hu
    rw [c13_rOf_eq hr] at he
    refine ⟨u, hu, r, hr, e, he, ?_⟩
    rw [← c13_trp_key_fst hids hr e he]
  · rw [hres]
    apply c13_flatMap_keys_nodup _ _ hnd
    intro u hu
    obtain ⟨r, hr⟩ := hok u hu
    rw [c13_rOf_eq hr]
    exact ⟨(c12_nodup g u none start stop r hr).2, c13_trp_key_fst hids hr⟩

/-- corollary: the all-pairs result is exact for the roots without self-loop in the window: under the keys
    `(u, ·)` are stored exactly the genuine time-respecting paths from `u`, each under its own key -/
theorem C13_all_exact (g : Graph) (hids : g.ids.Pairwise (· < ·)) (start stop minT : Option Int) (res : c13_Res)
    (h : g.allTimeRespectingPaths start stop minT = .ok res) (hnd : (g.nodesAt minT).Nodup)
    (u : Node) (hu : u ∈ g.nodesAt minT) (hun : g.hasNode u start = true)
    (hloop : ∀ t ∈ dagWindow g start stop, u ∉ g.neighbors u (some t)) (p : TPath) :
    (∃ e ∈ res, e.1.1 = u ∧ p ∈ e.2) ↔ ValidTRP g u none (dagWindow g start stop) p := by
  constructor
  · rintro ⟨e, he, hk, hm⟩
    rw [← hk]
    exact (C12_all_sound g hids start stop minT res h e he p hm).1
  · intro hp
    obtain ⟨h1, _, _⟩ := C13_all g hids start stop minT res h hnd
    obtain ⟨r, hr, hall⟩ := h1 u hu
    obtain ⟨kp, hkp, _, hm⟩ := C13_complete_noloop g hids u none start stop r hr hun hloop p hp
    exact ⟨((u, kp.1.2), kp.2), (hall kp hkp).2, rfl, hm⟩

/-! ### 7. the hypothesis on the first hop is needed (finding D21) -/

/-- undirected accumulative graph with the loop 1–1 from instant 0 and 1–2 from instant 1 -/
def c13G : Graph :=
  (((Graph.empty false false).addInteraction 1 1 (some 0) none).1.addInteraction 1 2 (some 1) none).1

theorem c13G_ids : c13G.ids = [0, 1] := by
  have : c13G.snaps.map (·.1) = [0, 1] := by decide
  rw [Graph.ids, this]
  simp [List.mergeSort]

theorem c13G_window : dagWindow c13G none none = [0, 1] := by
  unfold dagWindow winLo winHi
  rw [c13G_ids]
  decide

theorem c13G_window0 : dagWindow c13G (some 0) (some 0) = [0] := by
  unfold dagWindow winLo winHi
  rw [c13G_ids]
  decide

local instance c13_decGroup : DecidableEq ((Node × Node) × List TPath) := inferInstance

theorem c13G_result : c13G.timeRespectingPaths 1 none none none =
    .ok [((1, 1), [[(1, 1, 1)]]), ((1, 2), [[(1, 2, 1)]])] := by
  unfold Graph.timeRespectingPaths Graph.temporalDag
  rw [c13G_ids]
  rfl

theorem c13G_result0 : c13G.timeRespectingPaths 1 none (some 0) (some 0) = .ok [] := by
  unfold Graph.timeRespectingPaths Graph.temporalDag
  rw [c13G_ids]
  rfl

theorem c13G_valid (start stop : Option Int) (hw : (0 : Int) ∈ dagWindow c13G start stop) :
    ValidTRP c13G 1 none (dagWindow c13G start stop) [(1, 1, 0)] := by
  refine ⟨by simp, ?_, ?_, trivial, ?_⟩
  · intro h hh
    simp only [List.head?_cons, Option.some.injEq] at hh
    subst hh
    rfl
  · intro h hm
    rw [List.mem_singleton] at hm
    subst hm
    exact ⟨hw, by decide⟩
  · intro w hw
    cases hw

/-- **D21 witness.** On the graph with the loop 1–1 at instant 0 and 1–2 at instant 1 (snapshot ids strictly
    increasing, 1 a node), the hop list `[(1,1,0)]` is a genuine time-respecting path from the root 1 but it is
    not returned, neither for the whole window (where `[(1,1,1)]` and `[(1,2,1)]` are) nor for the window `[0,0]`
    (where nothing is): completeness fails for a first hop `(u,u,t)`. -/
theorem C13_D21_witness :
    c13G.ids.Pairwise (· < ·) ∧ c13G.hasNode 1 none = true ∧ c13G.hasNode 1 (some 0) = true ∧
    ValidTRP c13G 1 none (dagWindow c13G none none) [(1, 1, 0)] ∧
    (∃ res, c13G.timeRespectingPaths 1 none none none = .ok res ∧ ¬ ∃ kp ∈ res, [(1, 1, 0)] ∈ kp.2) ∧
    ValidTRP c13G 1 none (dagWindow c13G (some 0) (some 0)) [(1, 1, 0)] ∧
    c13G.timeRespectingPaths 1 none (some 0) (some 0) = .ok [] := by
  refine ⟨by rw [c13G_ids]; decide, by decide, by decide, c13G_valid none none (by rw [c13G_window]; decide),
    ⟨_, c13G_result, by decide⟩, c13G_valid (some 0) (some 0) (by rw [c13G_window0]; decide), c13G_result0⟩

/-- the same at the level of the path search: in a DAG with the edge `1@0 → 1@0` the only path from `1@0` to itself
    is the one-node path, which has no hop -/
theorem C13_D21_witness_dag :
    simplePaths ⟨[((1, 0), (1, 0))], [(1, 0)], [(1, 0)], [(1, 0)]⟩ (1, 0) (1, 0) = [[(1, 0)]] ∧
    hopsOf [((1 : Node), (0 : Int))] = [] := by decide

/-- the hypothesis `hasNode u start` of `C13_complete` is needed too: on `c15G` (1–2 from instant 0, 2–3 from
    instant 1) the node 3 has no interaction at `start = 0`, so nothing is returned for the window `[0,1]`, although
    `[(3,2,1)]` is a genuine time-respecting path from 3 inside that window -/
theorem C13_start_witness :
    c15G.hasNode 3 (some 0) = false ∧
    ValidTRP c15G 3 none (dagWindow c15G (some 0) (some 1)) [(3, 2, 1)] ∧
    c15G.timeRespectingPaths 3 none (some 0) (some 1) = .ok [] := by
  have hw : dagWindow c15G (some 0) (some 1) = [0, 1] := by
    unfold dagWindow winLo winHi
    rw [c15G_ids]
    decide
  refine ⟨by decide, ⟨by simp, ?_, ?_, trivial, ?_⟩, C13_absent_root c15G 3 none (some 0) (some 1) (by decide)⟩
  · intro h hh
    simp only [List.head?_cons, Option.some.injEq] at hh
    subst hh
    rfl
  · intro h hm
    rw [List.mem_singleton] at hm
    subst hm
    exact ⟨by rw [hw]; decide, by decide⟩
  · intro w hw
    cases hw

end Dynetx
