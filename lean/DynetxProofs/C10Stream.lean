import DynetxProofs.C10
/-
  C10, the "same stream" clause: reading back what `write_interactions` wrote gives a graph whose
  `stream_interactions()` is the written stream, as a list (same events, same order, same stored
  orientation of every event).

  Why it holds.  The reader replays the rows in stream order.  A `'+'` row at `t` always opens a new
  run `[t,t]` (the pair is new, or its latest run ended before `t - 1`) and records exactly the event
  `(t, u, v, '+')` with the endpoints in the order of the row; a `'-'` row at `t` always finds the
  latest run `[a,b]` of its pair with `b < t`, stretches it to `[a, t-1]` (or leaves it when
  `b = t - 1`), drops nothing from the log and records exactly `(t, u, v, '-')`.  So the event log of
  the re-read graph IS the list of rows (`c10s_reread_events`), and sorting a chronological list by
  time changes nothing.

  No closedness hypothesis is needed for this clause (`C10_stream_reread`): the D5 histories lose
  presence on the round trip (`C10_D5_witness`) but not the stream (`C10_stream_reread_D5_witness`).
-/
namespace Dynetx

/-! ### list-level facts on `__add_event` / `__drop_event` -/

theorem c10s_addEv_fresh {d : Bool} {V : List Ev} {t : Int} {u v : Node} {p : Bool}
    (h : ∀ f ∈ V, ¬ (f.t = t ∧ sameKey d f.u f.v u v = true ∧ f.plus = p)) :
    addEv d V t u v p = V ++ [{ t := t, u := u, v := v, plus := p }] := by
  unfold addEv
  split
  · rename_i hc
    obtain ⟨x, hx, hp⟩ := List.any_eq_true.mp hc
    simp only [Bool.and_eq_true, beq_iff_eq] at hp
    exact (h x hx ⟨hp.1.1, hp.1.2, hp.2⟩).elim
  · rfl

theorem c10s_dropEv_none {d : Bool} {V : List Ev} {t : Int} {u v : Node} {p : Bool}
    (h : ∀ f ∈ V, ¬ (f.t = t ∧ sameKey d f.u f.v u v = true ∧ f.plus = p)) :
    dropEv d V t u v p = V := by
  unfold dropEv
  rw [List.filter_eq_self]
  intro f hf
  have := h f hf
  cases h1 : (f.t == t) <;> cases h2 : sameKey d f.u f.v u v <;> cases h3 : (f.plus == p) <;> simp_all

/-! ### what a chronological log that records runs says about one row and the rows before it -/

section rowfacts
variable {d : Bool} {S P post : List Ev} {r : Ev} {R : Span → Prop}

theorem c10s_before_le (hpl : c10_PairLog d S r.u r.v R) (hS : S = P ++ r :: post) :
    ∀ ev ∈ P, ev.t ≤ r.t := by
  intro ev hev
  have hch := hpl.chrono
  rw [hS, List.map_append, List.pairwise_append] at hch
  exact hch.2.2 ev.t (List.mem_map.mpr ⟨ev, hev, rfl⟩) r.t (by simp)

theorem c10s_mem_before (hpl : c10_PairLog d S r.u r.v R) (hS : S = P ++ r :: post) {ev : Ev}
    (hev : ev ∈ S) (hlt : ev.t < r.t) : ev ∈ P := by
  have hch := hpl.chrono
  rw [hS, List.map_append, List.pairwise_append, List.map_cons, List.pairwise_cons] at hch
  rw [hS, List.mem_append, List.mem_cons] at hev
  rcases hev with h | rfl | h
  · exact h
  · omega
  · have := hch.2.1.1 ev.t (List.mem_map.mpr ⟨ev, h, rfl⟩); omega

theorem c10s_fresh (hnr : NoRep d S) (hS : S = P ++ r :: post) :
    ∀ f ∈ P, ¬ (f.t = r.t ∧ sameKey d f.u f.v r.u r.v = true ∧ f.plus = r.plus) := by
  intro f hf
  rw [hS] at hnr
  exact (List.pairwise_append.mp hnr).2.2 f hf r List.mem_cons_self

/-- before a `'+'` row of a pair, every `'+'` row of the pair is at least two instants earlier and
    every `'-'` row strictly earlier -/
theorem c10s_plus_gap (hpl : c10_PairLog d S r.u r.v R) (hnr : NoRep d S) (hS : S = P ++ r :: post)
    (hp : r.plus = true) {ev : Ev} (hev : ev ∈ P) (hk : sameKey d ev.u ev.v r.u r.v = true) :
    (ev.plus = true → ev.t + 1 < r.t) ∧ (ev.plus = false → ev.t < r.t) := by
  have hrS : r ∈ S := by rw [hS]; simp
  have hevS : ev ∈ S := by rw [hS]; exact List.mem_append_left _ hev
  have hle := c10s_before_le hpl hS ev hev
  obtain ⟨q, hq, hqt⟩ := hpl.ps r hrS hp (sameKey_refl _ _ _)
  have hqle := hpl.le q hq
  constructor
  · intro hep
    obtain ⟨q', hq', hq't⟩ := hpl.ps ev hevS hep hk
    have hq'le := hpl.le q' hq'
    rcases hpl.sep q' q hq' hq with rfl | h | h
    · exact (c10s_fresh hnr hS ev hev ⟨by omega, hk, by rw [hep, hp]⟩).elim
    · omega
    · omega
  · intro hem
    obtain ⟨q', hq', hq't⟩ := hpl.ms ev hevS hem hk
    have hq'le := hpl.le q' hq'
    rcases hpl.sep q' q hq' hq with rfl | h | h <;> omega

/-- before a `'-'` row of a pair, every `'+'` row of the pair is strictly earlier -/
theorem c10s_minus_after_plus (hpl : c10_PairLog d S r.u r.v R) (hS : S = P ++ r :: post)
    (hm : r.plus = false) {ev : Ev} (hev : ev ∈ P) (hk : sameKey d ev.u ev.v r.u r.v = true)
    (hep : ev.plus = true) : ev.t < r.t := by
  have hrS : r ∈ S := by rw [hS]; simp
  have hevS : ev ∈ S := by rw [hS]; exact List.mem_append_left _ hev
  have hle := c10s_before_le hpl hS ev hev
  obtain ⟨q, hq, hqt⟩ := hpl.ms r hrS hm (sameKey_refl _ _ _)
  have hqle := hpl.le q hq
  obtain ⟨q', hq', hq't⟩ := hpl.ps ev hevS hep hk
  have hq'le := hpl.le q' hq'
  rcases hpl.sep q' q hq' hq with rfl | h | h <;> omega

/-- between two `'-'` rows of a pair there is a `'+'` row of the pair -/
theorem c10s_minus_minus (hpl : c10_PairLog d S r.u r.v R) (hS : S = P ++ r :: post)
    (hm : r.plus = false) {ev : Ev} (hev : ev ∈ P) (hk : sameKey d ev.u ev.v r.u r.v = true)
    (hem : ev.plus = false) (hlt : ev.t < r.t) :
    ∃ e ∈ P, e.plus = true ∧ sameKey d e.u e.v r.u r.v = true ∧ ev.t < e.t := by
  have hrS : r ∈ S := by rw [hS]; simp
  have hevS : ev ∈ S := by rw [hS]; exact List.mem_append_left _ hev
  obtain ⟨q, hq, hqt⟩ := hpl.ms r hrS hm (sameKey_refl _ _ _)
  have hqle := hpl.le q hq
  obtain ⟨q', hq', hq't⟩ := hpl.ms ev hevS hem hk
  have hq'le := hpl.le q' hq'
  obtain ⟨e, heS, hep, hek, het⟩ := hpl.pc q hq
  refine ⟨e, c10s_mem_before hpl hS heS (by omega), hep, hek, ?_⟩
  rcases hpl.sep q' q hq' hq with rfl | h | h <;> omega

end rowfacts

/-! ### the reader's state: the log is the list of rows read, and the latest run of every pair ends
    where the pair's last row says -/

/-- end of the latest run of a stored pair -/
def c10s_hdEnd (ed : Edge) : Int :=
  match ed.tl with
  | [] => 0
  | s :: _ => s.2

/-- the latest run of the pair `(u,v)` ends at `b`: some row of the pair says so (`'+'` at `b` or
    `'-'` at `b + 1`) and no row of the pair is later than `b + 1` -/
def c10s_Head (d : Bool) (P : List Ev) (u v : Node) (b : Int) : Prop :=
  (∃ ev ∈ P, sameKey d u v ev.u ev.v = true ∧
    ((ev.plus = true ∧ ev.t = b) ∨ (ev.plus = false ∧ ev.t = b + 1))) ∧
  ∀ ev ∈ P, sameKey d u v ev.u ev.v = true → ev.t ≤ b + 1

/-- the new row `r` ends the latest run of its pair at `r.t` (`'+'`) resp. `r.t - 1` (`'-'`) -/
def c10s_newEnd (r : Ev) : Int := if r.plus then r.t else r.t - 1

/-- heads after one row: the stored pairs are the old ones with their old heads, except the pair of
    the row, whose head ends at `c10s_newEnd r` -/
theorem c10s_head_preserve {d : Bool} {P : List Ev} {r : Ev} {E E' : List Edge}
    (hchr : ∀ ev ∈ P, ev.t ≤ r.t)
    (hold : ∀ ed ∈ E, c10s_Head d P ed.u ed.v (c10s_hdEnd ed))
    (hnew : ∀ ed' ∈ E',
      (sameKey d ed'.u ed'.v r.u r.v = true ∧ c10s_hdEnd ed' = c10s_newEnd r) ∨
      (sameKey d ed'.u ed'.v r.u r.v = false ∧
        ∃ ed ∈ E, ed.u = ed'.u ∧ ed.v = ed'.v ∧ c10s_hdEnd ed = c10s_hdEnd ed')) :
    ∀ ed' ∈ E', c10s_Head d (P ++ [r]) ed'.u ed'.v (c10s_hdEnd ed') := by
  intro ed' hed'
  rcases hnew ed' hed' with ⟨hk, hend⟩ | ⟨hk, ed, hed, hu, hv, hend⟩
  · rw [hend]
    refine ⟨⟨r, by simp, hk, ?_⟩, ?_⟩
    · unfold c10s_newEnd
      cases hp : r.plus with
      | true => left; simp
      | false => right; simp
    · intro ev hev _
      have : ev.t ≤ r.t := by
        rcases List.mem_append.mp hev with h | h
        · exact hchr ev h
        · rw [List.mem_singleton] at h; subst h; omega
      unfold c10s_newEnd
      split <;> omega
  · obtain ⟨⟨ev, hev, hevk, hevw⟩, hbound⟩ := hold ed hed
    rw [hu, hv] at hevk hbound
    rw [hend] at hevw hbound
    refine ⟨⟨ev, List.mem_append_left _ hev, hevk, hevw⟩, ?_⟩
    intro ev' hev' hk'
    rcases List.mem_append.mp hev' with h | h
    · exact hbound ev' h hk'
    · rw [List.mem_singleton] at h; subst h
      rw [hk] at hk'; cases hk'

/-- the state of the reader after the rows `P`, for the stream clause -/
structure c10s_Inv (d : Bool) (g : Graph) (P : List Ev) : Prop where
  base : c10_Inv d g P
  events : g.events = P
  head : ∀ ed ∈ g.edges, c10s_Head d P ed.u ed.v (c10s_hdEnd ed)

theorem c10s_Inv_empty (d : Bool) : c10s_Inv d (Graph.empty d true) [] :=
  ⟨c10_Inv_empty d, rfl, by intro ed h; cases h⟩

theorem c10s_ev_eta (r : Ev) {p : Bool} (hp : r.plus = p) :
    ({ t := r.t, u := r.u, v := r.v, plus := p } : Ev) = r := by
  cases r; simp_all

/-- heads after a `mapTl` on the pair of the row -/
theorem c10s_mapTl_heads {g : Graph} {r : Ev} {s : Span} {rest : List Span} (hend : s.2 = c10s_newEnd r) :
    ∀ ed' ∈ mapTl g r.u r.v (s :: rest),
      (sameKey g.directed ed'.u ed'.v r.u r.v = true ∧ c10s_hdEnd ed' = c10s_newEnd r) ∨
      (sameKey g.directed ed'.u ed'.v r.u r.v = false ∧
        ∃ ed ∈ g.edges, ed.u = ed'.u ∧ ed.v = ed'.v ∧ c10s_hdEnd ed = c10s_hdEnd ed') := by
  intro ed' hed'
  obtain ⟨e, he, rfl⟩ := mem_mapTl.mp hed'
  by_cases hk : sameKey g.directed e.u e.v r.u r.v = true
  · left
    simp only [hk, if_true]
    exact ⟨trivial, hend⟩
  · right
    simp only [hk]
    exact ⟨by simpa using hk, e, he, rfl, rfl, rfl⟩

/-- **one row**: the reader records exactly the row (same time, same endpoint order, same sign) at
    the end of its log and drops nothing -/
theorem c10s_step {d : Bool} {g : Graph} {S P post : List Ev} {r : Ev} {R : Span → Prop}
    (inv : c10s_Inv d g P) (hS : S = P ++ r :: post) (hwf : c10_wellFormed d S) (hnr : NoRep d S)
    (hpl : c10_PairLog d S r.u r.v R) :
    ∃ H, g.replayRow r = (H, none) ∧ c10s_Inv d H (P ++ [r]) := by
  have hwf' : c10_wellFormed d (P ++ [r]) :=
    c10_wellFormed_prefix (L2 := post) (by rw [List.append_assoc]; simpa [hS] using hwf)
  obtain ⟨H, hrow, invH⟩ := c10_step inv.base r hwf'
  refine ⟨H, hrow, ?_⟩
  have hH : H = (g.replayRow r).1 := by rw [hrow]
  have hgwf := inv.base.wf
  have hr := inv.base.removal
  have hd := inv.base.directed
  have hevs := inv.events
  have hhead := inv.head
  subst hd
  have hchr := c10s_before_le hpl hS
  have hfresh := c10s_fresh hnr hS
  -- it suffices to describe the log and the heads of `(g.replayRow r).1`
  suffices hgoal : (g.replayRow r).1.events = P ++ [r] ∧
      ∀ ed' ∈ (g.replayRow r).1.edges,
        (sameKey g.directed ed'.u ed'.v r.u r.v = true ∧ c10s_hdEnd ed' = c10s_newEnd r) ∨
        (sameKey g.directed ed'.u ed'.v r.u r.v = false ∧
          ∃ ed ∈ g.edges, ed.u = ed'.u ∧ ed.v = ed'.v ∧ c10s_hdEnd ed = c10s_hdEnd ed') by
    refine ⟨invH, ?_, ?_⟩
    · rw [hH]; exact hgoal.1
    · rw [hH]; exact c10s_head_preserve hchr hhead hgoal.2
  cases hp : r.plus with
  | true =>
    have hrr : g.replayRow r = g.addInteraction r.u r.v (some r.t) none := by
      simp [Graph.replayRow, hp]
    have hs : spanEnd r.t none = some r.t := rfl
    have hnewEnd : c10s_newEnd r = r.t := by simp [c10s_newEnd, hp]
    have hev' : addEv g.directed P r.t r.u r.v true = P ++ [r] := by
      rw [c10s_addEv_fresh (by intro f hf; have := hfresh f hf; rwa [hp] at this), c10s_ev_eta r hp]
    rw [hrr]
    cases hf : g.findEdge r.u r.v with
    | none =>
      rw [addInteraction_new g hr r.u r.v r.t none r.t hs hf]
      refine ⟨?_, ?_⟩
      · rw [addNew_events, hevs]; exact hev'
      · intro ed' hed'
        simp only [addNew_edges, List.mem_append, List.mem_singleton] at hed'
        rcases hed' with h | rfl
        · exact Or.inr ⟨findEdge_none hf ed' h, ed', h, rfl, rfl, rfl⟩
        · exact Or.inl ⟨sameKey_refl _ _ _, by rw [hnewEnd]; rfl⟩
    | some ed =>
      obtain ⟨hedm, hedk⟩ := findEdge_some hf
      obtain ⟨hne, hcan⟩ := hgwf.tl ed hedm
      cases htl : ed.tl with
      | nil => exact absurd htl hne
      | cons s rest =>
        obtain ⟨a, b⟩ := s
        rw [htl] at hcan
        have hab : a ≤ b := hcan.head_le
        have hb : c10s_hdEnd ed = b := by simp [c10s_hdEnd, htl]
        -- the latest run ended before `r.t - 1`
        have hgap : b + 1 < r.t := by
          obtain ⟨⟨ev, hev, hevk, hevw⟩, _⟩ := hhead ed hedm
          rw [hb] at hevw
          have hk' : sameKey g.directed ev.u ev.v r.u r.v = true :=
            sameKey_trans (by rw [sameKey_symm]; exact hevk) hedk
          have := c10s_plus_gap hpl hnr hS hp hev hk'
          rcases hevw with ⟨h1, h2⟩ | ⟨h1, h2⟩
          · have := this.1 h1; omega
          · have := this.2 h1; omega
        rw [addInteraction_append g hr r.u r.v r.t none r.t hs hf htl (by omega) (by omega) (by omega)]
        refine ⟨?_, ?_⟩
        · rw [addAppend_events, hevs]; exact hev'
        · rw [addAppend_edges]
          exact c10s_mapTl_heads (by rw [hnewEnd])
  | false =>
    have hnewEnd : c10s_newEnd r = r.t - 1 := by simp [c10s_newEnd, hp]
    have hev' : addEv g.directed P r.t r.u r.v false = P ++ [r] := by
      rw [c10s_addEv_fresh (by intro f hf; have := hfresh f hf; rwa [hp] at this), c10s_ev_eta r hp]
    cases hf : g.findEdge r.u r.v with
    | none =>
      have : g.replayRow r = (g, some .key) := by simp [Graph.replayRow, hp, hf]
      rw [this] at hrow; cases hrow
    | some ed =>
      obtain ⟨hedm, hedk⟩ := findEdge_some hf
      obtain ⟨hne, hcan⟩ := hgwf.tl ed hedm
      cases htl : ed.tl with
      | nil => exact absurd htl hne
      | cons s rest =>
        obtain ⟨a, b⟩ := s
        rw [htl] at hcan
        have hab : a ≤ b := hcan.head_le
        have hb : c10s_hdEnd ed = b := by simp [c10s_hdEnd, htl]
        obtain ⟨⟨ev, hev, hevk, hevw⟩, hbound⟩ := hhead ed hedm
        rw [hb] at hevw hbound
        have hk' : sameKey g.directed ev.u ev.v r.u r.v = true :=
          sameKey_trans (by rw [sameKey_symm]; exact hevk) hedk
        -- the latest run ends before the row
        have hbt : b < r.t := by
          rcases hevw with ⟨h1, h2⟩ | ⟨h1, h2⟩
          · have := c10s_minus_after_plus hpl hS hp hev hk' h1; omega
          · have := hchr ev hev; omega
        have hrr : g.replayRow r = g.addInteraction r.u r.v (some b) (some r.t) := by
          simp [Graph.replayRow, hp, hf, htl, hbt]
        have hs : spanEnd b (some r.t) = some (r.t - 1) := by simp [spanEnd]; omega
        rw [hrr]
        by_cases hc : r.t - 1 ≤ b
        · have hbe : r.t - 1 = b := by omega
          rw [addInteraction_covered g hr r.u r.v b (some r.t) (r.t - 1) hs hf htl (by omega) hc]
          refine ⟨?_, ?_⟩
          · rw [addCovered_events, if_pos hbe, hevs]; exact hev'
          · rw [addCovered_edges]
            intro ed' hed'
            by_cases hk : sameKey g.directed ed'.u ed'.v r.u r.v = true
            · have : ed' = ed := pairwise_unique hgwf.keys hed' hedm hk hedk
              subst this
              exact Or.inl ⟨hk, by rw [hb, hnewEnd]; omega⟩
            · exact Or.inr ⟨by simpa using hk, ed', hed', rfl, rfl, rfl⟩
        · rw [addInteraction_extend g hr r.u r.v b (some r.t) (r.t - 1) hs hf htl (by omega) hc (by omega)]
          refine ⟨?_, ?_⟩
          · rw [addExtend_events, hevs]
            -- no `'-'` entry of the pair sits at `b + 1`: a later `'+'` row would follow it
            have hnodrop : dropEv g.directed P (b + 1) r.u r.v false = P := by
              apply c10s_dropEv_none
              rintro f hfP ⟨h1, h2, h3⟩
              obtain ⟨e, heP, _, hek, het⟩ := c10s_minus_minus hpl hS hp hfP h2 h3 (by omega)
              have := hbound e heP (sameKey_trans hedk (by rw [sameKey_symm]; exact hek))
              omega
            simp only [hnodrop]
            exact hev'
          · rw [addExtend_edges]
            exact c10s_mapTl_heads (by rw [hnewEnd])

theorem c10s_replay_go {d : Bool} {S : List Ev} (hwf : c10_wellFormed d S) (hnr : NoRep d S)
    (hpl : ∀ a b, ∃ R, c10_PairLog d S a b R) (post : List Ev) :
    ∀ (P : List Ev) (g : Graph), S = P ++ post → c10s_Inv d g P →
      ∃ H, g.replayRows post = (H, none) ∧ c10s_Inv d H S := by
  induction post with
  | nil =>
    intro P g hS inv
    rw [List.append_nil] at hS
    subst hS
    exact ⟨g, rfl, inv⟩
  | cons r post ih =>
    intro P g hS inv
    obtain ⟨R, hR⟩ := hpl r.u r.v
    obtain ⟨g', hrow, inv'⟩ := c10s_step inv hS hwf hnr hR
    obtain ⟨H, hH, invH⟩ := ih (P ++ [r]) g' (by rw [hS]; simp) inv'
    refine ⟨H, ?_, invH⟩
    simp only [Graph.replayRows, hrow]
    exact hH

/-- the stream of any graph is already sorted, so sorting it again changes nothing -/
theorem c10s_stream_sorted (g : Graph) :
    g.stream.mergeSort (fun a b => decide (a.t ≤ b.t)) = g.stream := by
  apply List.mergeSort_of_pairwise
  exact List.pairwise_mergeSort (le := fun (a b : Ev) => decide (a.t ≤ b.t))
    (by intro a b c h1 h2; simp only [decide_eq_true_eq] at *; omega)
    (by intro a b; simp only [Bool.or_eq_true, decide_eq_true_eq]; omega) g.events

/-- **the stream clause for any graph with the invariants** (`WF`, removal mode, `EvInv`; no
    closedness hypothesis): the rows written for `g` are read back without exception into a graph
    whose event log is the list of rows, hence whose stream is the stream of `g` -/
theorem c10s_reread_of_inv {g : Graph} (hwf : WF g) (_hr : g.removal = true) (hev : EvInv g) :
    ∃ H, parseInteractions g.directed g.genInteractions = (H, none) ∧
      H.events = g.stream ∧ H.stream = g.stream := by
  have h1 := c10_stream_wellFormed hwf hev
  have hnr : NoRep g.directed g.stream := by
    have hn := hev.nodup
    refine (List.Perm.pairwise_iff ?_ (List.mergeSort_perm _ _)).mpr hn
    intro x y hxy hc
    exact hxy ⟨hc.1.symm, by rw [sameKey_symm]; exact hc.2.1, hc.2.2.symm⟩
  obtain ⟨H, hH, inv⟩ := c10s_replay_go h1 hnr
    (fun a b => ⟨runs g a b, c10_pairLog_of_graph hwf hev a b⟩) g.stream [] (Graph.empty g.directed true)
    rfl (c10s_Inv_empty g.directed)
  refine ⟨H, hH, inv.events, ?_⟩
  show H.events.mergeSort _ = g.stream
  rw [inv.events]
  exact c10s_stream_sorted g

/-! ### the statements -/

/-- **C10, stream clause, no hypothesis**: for every history, reading back the written rows raises
    nothing and gives a graph whose event log is the written list of rows and whose stream is, as a
    list, the stream of the written graph (same events, same order, same stored orientation). -/
theorem C10_stream_reread (d : Bool) (ops : List Op) :
    let g := ((Graph.empty d true).run ops).1
    ∃ H, parseInteractions d g.genInteractions = (H, none) ∧
      H.events = g.stream ∧ H.stream = g.stream := by
  intro g
  obtain ⟨hwf, hr, hd, hev⟩ := C05_reached d ops
  change WF g at hwf; change g.removal = true at hr; change g.directed = d at hd; change EvInv g at hev
  have := c10s_reread_of_inv hwf hr hev
  rw [hd] at this
  exact this

/-- **C10, stream clause** (variant (a): the same list).  Under the closedness hypothesis of
    `C10_roundtrip_partial` (which is not used for the stream: see `C10_stream_reread`) the re-read
    graph has the same stream as the written one, and, jointly, the same presence relation. -/
theorem C10_stream_reread_partial (d : Bool) (ops : List Op) :
    let g := ((Graph.empty d true).run ops).1
    (∀ ed ∈ g.edges, ∀ s ∈ ed.tl, s.1 < s.2 →
      ∃ ev ∈ g.stream, ev.plus = false ∧ ev.t = s.2 + 1 ∧ sameKey d ed.u ed.v ev.u ev.v = true) →
    (parseInteractions d g.genInteractions).2 = none ∧
    (parseInteractions d g.genInteractions).1.stream = g.stream ∧
    (∀ a b x, (parseInteractions d g.genInteractions).1.hasInteraction a b (some x) =
      g.hasInteraction a b (some x)) := by
  intro g hclosed
  obtain ⟨H, hH, _, hst⟩ := C10_stream_reread d ops
  obtain ⟨_, _, H', hH', _, _, hpres⟩ := C10_roundtrip_partial d ops hclosed
  change parseInteractions d g.genInteractions = (H, none) at hH
  change parseInteractions d g.genInteractions = (H', none) at hH'
  have : H' = H := by rw [hH] at hH'; injection hH' with h; exact h.symm
  subst this
  rw [hH']
  exact ⟨rfl, hst, hpres⟩

/-- `mergeSort` is defined by well-founded recursion, which `decide` cannot unfold: a concrete
    stream is computed from the event log (`decide`) and the sort of that literal list (`simp`) -/
theorem c10s_stream_of_events {g : Graph} {E L : List Ev} (h : g.events = E)
    (hs : E.mergeSort (fun a b => decide (a.t ≤ b.t)) = L) : g.stream = L := by
  unfold Graph.stream; rw [h]; exact hs

/-- the known finding D5 does NOT touch the stream clause: after `add(1,2,18)`, `add(1,2,19)` the
    written stream is the single row `+ 1 2 18` and the re-read graph has exactly this stream (while
    its presence differs at 19, `C10_D5_witness`) -/
theorem C10_stream_reread_D5_witness :
    let g := ((Graph.empty false true).run [Op.add 1 2 (some 18) none, Op.add 1 2 (some 19) none]).1
    let H := (parseInteractions false g.genInteractions).1
    g.stream = [⟨18, 1, 2, true⟩] ∧ H.stream = [⟨18, 1, 2, true⟩] ∧ H.stream = g.stream ∧
    g.hasInteraction 1 2 (some 19) = true ∧ H.hasInteraction 1 2 (some 19) = false := by
  intro g H
  have hst : g.stream = [⟨18, 1, 2, true⟩] := C05_D5_witness_stream.1
  have hHdef : H = (parseInteractions false [⟨18, 1, 2, true⟩]).1 := by
    show (parseInteractions false g.stream).1 = _
    rw [hst]
  have hHev : H.events = [⟨18, 1, 2, true⟩] := by rw [hHdef]; decide
  have hHst : H.stream = [⟨18, 1, 2, true⟩] :=
    c10s_stream_of_events hHev (List.mergeSort_singleton _)
  refine ⟨hst, hHst, by rw [hHst, hst], C05_D5_witness.2.2.2.1, ?_⟩
  rw [hHdef]; decide

/-- undirected graph, both endpoint orders, several pairs at one instant, a re-add after a gap: the
    re-read stream keeps the stored orientation of every event (`(2,1,'+')@12` stays `(2,1)` although
    the pair was first stored as `(1,2)`) and the insertion order inside an instant -/
theorem C10_stream_reread_orientation_witness :
    let g := ((Graph.empty false true).run
      [Op.add 1 2 (some 5) (some 8), Op.add 2 1 (some 12) none, Op.add 3 4 (some 5) none,
       Op.add 4 3 (some 9) (some 11), Op.add 1 2 (some 12) (some 15)]).1
    let H := (parseInteractions false g.genInteractions).1
    g.stream = [⟨5, 1, 2, true⟩, ⟨5, 3, 4, true⟩, ⟨8, 1, 2, false⟩, ⟨9, 4, 3, true⟩, ⟨11, 4, 3, false⟩,
      ⟨12, 2, 1, true⟩, ⟨15, 1, 2, false⟩] ∧ H.stream = g.stream := by
  intro g H
  have hev : g.events = [⟨5, 1, 2, true⟩, ⟨8, 1, 2, false⟩, ⟨12, 2, 1, true⟩, ⟨5, 3, 4, true⟩,
      ⟨9, 4, 3, true⟩, ⟨11, 4, 3, false⟩, ⟨15, 1, 2, false⟩] := by decide
  have hst : g.stream = [⟨5, 1, 2, true⟩, ⟨5, 3, 4, true⟩, ⟨8, 1, 2, false⟩, ⟨9, 4, 3, true⟩,
      ⟨11, 4, 3, false⟩, ⟨12, 2, 1, true⟩, ⟨15, 1, 2, false⟩] :=
    c10s_stream_of_events hev (by simp [List.mergeSort, List.MergeSort.Internal.splitInTwo])
  refine ⟨hst, ?_⟩
  have hHev : H.events = [⟨5, 1, 2, true⟩, ⟨5, 3, 4, true⟩, ⟨8, 1, 2, false⟩, ⟨9, 4, 3, true⟩,
      ⟨11, 4, 3, false⟩, ⟨12, 2, 1, true⟩, ⟨15, 1, 2, false⟩] := by
    show (parseInteractions false g.stream).1.events = _
    rw [hst]; decide
  rw [hst]
  exact c10s_stream_of_events hHev (by simp [List.mergeSort, List.MergeSort.Internal.splitInTwo])

/-- non-vacuity of `C10_stream_reread_partial`: an interval add `[5,7]`, an interval add that extends
    the run to `[5,9]`, a re-add after a gap at 12 (other endpoint order) closed at 15, and a second
    pair; `hclosed` holds, and the conclusion is checked directly on the concrete graphs -/
example :
    let g := ((Graph.empty false true).run
      [Op.add 1 2 (some 5) (some 8), Op.add 1 2 (some 8) (some 10), Op.add 3 4 (some 5) none,
       Op.add 2 1 (some 12) (some 15)]).1
    (∀ ed ∈ g.edges, ∀ s ∈ ed.tl, s.1 < s.2 →
      ∃ ev ∈ g.stream, ev.plus = false ∧ ev.t = s.2 + 1 ∧ sameKey false ed.u ed.v ev.u ev.v = true) ∧
    g.timeline 1 2 = some [(5, 9), (12, 14)] ∧
    g.stream = [⟨5, 1, 2, true⟩, ⟨5, 3, 4, true⟩, ⟨10, 1, 2, false⟩, ⟨12, 2, 1, true⟩, ⟨15, 2, 1, false⟩] ∧
    (parseInteractions false g.genInteractions).2 = none ∧
    (parseInteractions false g.genInteractions).1.stream = g.stream ∧
    (parseInteractions false g.genInteractions).1.timeline 1 2 = some [(5, 9), (12, 14)] := by
  intro g
  have hev : g.events = [⟨5, 1, 2, true⟩, ⟨10, 1, 2, false⟩, ⟨5, 3, 4, true⟩, ⟨12, 2, 1, true⟩,
      ⟨15, 2, 1, false⟩] := by decide
  have hst : g.stream = [⟨5, 1, 2, true⟩, ⟨5, 3, 4, true⟩, ⟨10, 1, 2, false⟩, ⟨12, 2, 1, true⟩,
      ⟨15, 2, 1, false⟩] :=
    c10s_stream_of_events hev (by simp [List.mergeSort, List.MergeSort.Internal.splitInTwo])
  have hgen : g.genInteractions = [⟨5, 1, 2, true⟩, ⟨5, 3, 4, true⟩, ⟨10, 1, 2, false⟩,
      ⟨12, 2, 1, true⟩, ⟨15, 2, 1, false⟩] := hst
  have hedges : g.edges = [⟨1, 2, [(12, 14), (5, 9)]⟩, ⟨3, 4, [(5, 5)]⟩] := by decide
  refine ⟨?_, by decide, hst, ?_, ?_, ?_⟩
  · rw [hedges, hst]; decide
  · rw [hgen]; decide
  · rw [hgen, hst]
    exact c10s_stream_of_events
      (E := [⟨5, 1, 2, true⟩, ⟨5, 3, 4, true⟩, ⟨10, 1, 2, false⟩, ⟨12, 2, 1, true⟩, ⟨15, 2, 1, false⟩])
      (by decide) (by simp [List.mergeSort, List.MergeSort.Internal.splitInTwo])
  · rw [hgen]; decide

/-- the same history through the theorem: `hclosed` is dischargeable, so the theorem is not vacuous -/
example :
    let g := ((Graph.empty false true).run
      [Op.add 1 2 (some 5) (some 8), Op.add 1 2 (some 8) (some 10), Op.add 3 4 (some 5) none,
       Op.add 2 1 (some 12) (some 15)]).1
    (parseInteractions false g.genInteractions).1.stream = g.stream := by
  intro g
  refine (C10_stream_reread_partial false _ ?_).2.1
  have hev : g.events = [⟨5, 1, 2, true⟩, ⟨10, 1, 2, false⟩, ⟨5, 3, 4, true⟩, ⟨12, 2, 1, true⟩,
      ⟨15, 2, 1, false⟩] := by decide
  have hst : g.stream = [⟨5, 1, 2, true⟩, ⟨5, 3, 4, true⟩, ⟨10, 1, 2, false⟩, ⟨12, 2, 1, true⟩,
      ⟨15, 2, 1, false⟩] :=
    c10s_stream_of_events hev (by simp [List.mergeSort, List.MergeSort.Internal.splitInTwo])
  have hedges : g.edges = [⟨1, 2, [(12, 14), (5, 9)]⟩, ⟨3, 4, [(5, 5)]⟩] := by decide
  show ∀ ed ∈ g.edges, ∀ s ∈ ed.tl, s.1 < s.2 →
      ∃ ev ∈ g.stream, ev.plus = false ∧ ev.t = s.2 + 1 ∧ sameKey false ed.u ed.v ev.u ev.v = true
  rw [hedges, hst]; decide

end Dynetx

