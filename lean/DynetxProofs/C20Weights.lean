import DynetxModel
import DynetxProofs.C20
/-
  C20 for ANY exponent: `delta_conformity` uses the exponent only through the powers `w d = d ** alpha`
  (DynetxModel/Conformity.lean, `nodeScoreW`).  The bound holds for every table of positive weights, hence for
  fractional exponents as Python evaluates them (positive floats); the natural-exponent model is the instance
  `w d = d ^ alpha`.
-/
namespace Dynetx

theorem normConstW_eq (w : Nat → Rat) (m : Nat) :
    normConstW w m = ((List.range m).map (fun i => (1 : Rat) / w (i + 1))).sum := by
  unfold normConstW; rw [foldl_add_zero]

theorem normConstW_pos (w : Nat → Rat) (hw : ∀ d, 1 ≤ d → 0 < w d) (m : Nat) (hm : 1 ≤ m) : 0 < normConstW w m := by
  rw [normConstW_eq]
  obtain ⟨k, rfl⟩ : ∃ k, m = k + 1 := ⟨m - 1, by omega⟩
  rw [List.range_succ, List.map_append, List.sum_append]
  simp only [List.map_cons, List.map_nil, List.sum_cons, List.sum_nil, add_zero]
  have h1 := sum_map_nonneg (List.range k) (fun i => (1 : Rat) / w (i + 1))
    (fun i _ => by have := hw (i + 1) (by omega); positivity)
  have h2 : (0 : Rat) < 1 / w (k + 1) := by have := hw (k + 1) (by omega); positivity
  linarith

/-- the arithmetic core for a table of weights that are positive on `1, 2, …` -/
theorem core_abs_sum_le_W (ranks : List Nat) (m : Nat) (w : Nat → Rat) (hw : ∀ d, 1 ≤ d → 0 < w d) (sim : Nat → Rat)
    (hnd : ranks.Nodup) (hr : ∀ d ∈ ranks, 1 ≤ d ∧ d ≤ m) (hs : ∀ d ∈ ranks, |sim d| ≤ 1) :
    |(ranks.map (fun d => sim d / w d)).sum| ≤ normConstW w m := by
  rw [normConstW_eq]
  -- `g d = 1 / w d` on positive `d`, `0` at `0` (never used): non-negative everywhere
  let g : Nat → Rat := fun d => if 1 ≤ d then 1 / w d else 0
  have hg : ∀ d, 0 ≤ g d := by
    intro d
    simp only [g]
    split
    · next h => have := hw d h; positivity
    · exact le_refl 0
  have h1 : |(ranks.map (fun d => sim d / w d)).sum| ≤ (ranks.map g).sum := by
    apply abs_sum_map_le
    intro d hd
    have hd1 := (hr d hd).1
    have hpos := hw d hd1
    simp only [g, hd1, if_true]
    rw [abs_div, abs_of_pos hpos]
    exact div_le_div_of_nonneg_right (hs d hd) hpos.le
  have h2 := sum_map_le_range g hg m ranks hnd hr
  have h3 : ((List.range m).map (fun i => g (i + 1))).sum = ((List.range m).map (fun i => (1 : Rat) / w (i + 1))).sum := by
    simp [g]
  linarith

def rawOfW (g : Graph) (td : List (Node × Nat)) (w : Nat → Rat) (u : Node) : Rat :=
  ((ranksOf td).map (fun (d : Nat) =>
    if d == 0 then (0 : Rat)
    else labelFrequency g u (nodesAtRank td d) td / w d)).foldl (· + ·) 0

def scoreOfW (g : Graph) (td : List (Node × Nat)) (w : Nat → Rat) (u : Node) : Rat :=
  match (ranksOf td).getLast? with
  | none => rawOfW g td w u
  | some mx => rawOfW g td w u / normConstW w mx

theorem nodeScoreW_eq (g : Graph) (sp : List ((Node × Node) × List TPath)) (ptype : Nat) (w : Nat → Rat) (u : Node) :
    nodeScoreW g sp ptype w u = scoreOfW g (tDistances sp ptype u) w u := rfl

theorem rawOfW_eq (g : Graph) (td : List (Node × Nat)) (w : Nat → Rat) (u : Node) :
    rawOfW g td w u = ((ranksOf td).map (fun d => labelFrequency g u (nodesAtRank td d) td / w d)).sum := by
  unfold rawOfW
  rw [foldl_add_zero]
  congr 1
  apply List.map_congr_left
  intro d hd
  have : d ≠ 0 := by have := ((ranksOf_facts td).2.2 d).1 hd; omega
  simp [this]

/-- **C20 (bound, any exponent).**  For every table of powers that is positive on `1, 2, …` — in particular
    `d ↦ d ** alpha` for any real `alpha`, as exact reals or as the floats Python computes — the score of every node
    lies in [-1, 1]. -/
theorem C20W_bound (g : Graph) (sp : List ((Node × Node) × List TPath)) (ptype : Nat) (w : Nat → Rat)
    (hw : ∀ d, 1 ≤ d → 0 < w d) (u : Node) :
    -1 ≤ nodeScoreW g sp ptype w u ∧ nodeScoreW g sp ptype w u ≤ 1 := by
  rw [nodeScoreW_eq]
  obtain ⟨hnd, hpw, hmem⟩ := ranksOf_facts (tDistances sp ptype u)
  have hpos : ∀ d ∈ ranksOf (tDistances sp ptype u), 1 ≤ d := fun d hd => ((hmem d).1 hd).1
  unfold scoreOfW
  cases hl : (ranksOf (tDistances sp ptype u)).getLast? with
  | none =>
    have : ranksOf (tDistances sp ptype u) = [] := List.getLast?_eq_none_iff.1 hl
    simp only [rawOfW_eq, this]; simp
  | some mx =>
    obtain ⟨hmx, hle⟩ := le_getLast_of_pairwise hpw hl
    simp only [rawOfW_eq]
    exact quot_bound _ (normConstW w mx) (normConstW_pos w hw mx (hpos mx hmx))
      (core_abs_sum_le_W (ranksOf (tDistances sp ptype u)) mx w hw
        (fun d => labelFrequency g u (nodesAtRank (tDistances sp ptype u) d) (tDistances sp ptype u))
        hnd (fun d hd => ⟨hpos d hd, hle d hd⟩) (fun d _ => labelFrequency_abs_le g u _ _))

/-- the natural-exponent model is the instance `w d = d ^ alpha` -/
theorem normConst_eq_W (m alpha : Nat) : normConst m alpha = normConstW (fun d => ((d : Nat) : Rat) ^ alpha) m := rfl

theorem nodeScore_eq_W (g : Graph) (sp : List ((Node × Node) × List TPath)) (ptype alpha : Nat) (u : Node) :
    nodeScore g sp ptype alpha u = nodeScoreW g sp ptype (fun d => ((d : Nat) : Rat) ^ alpha) u := rfl

theorem C20W_natural (dg : Graph) (start delta : Int) (alphas : List Nat) (ptype : Nat) :
    dg.deltaConformity start delta alphas ptype
      = dg.deltaConformityW start delta (alphas.map (fun a => (a, fun d => ((d : Nat) : Rat) ^ a))) ptype := by
  unfold Graph.deltaConformity Graph.deltaConformityW
  cases dg.timeSlice start (some (start + delta)) with
  | error e => rfl
  | ok g =>
    simp only
    cases minList g.ids with
    | none => rfl
    | some lo =>
      cases maxList g.ids with
      | none => rfl
      | some hi =>
        simp only
        cases g.allTimeRespectingPaths (some (max start lo)) (some (min hi (start + delta))) none with
        | error e => rfl
        | ok sp => simp [List.map_map, Function.comp_def, nodeScore_eq_W]

/-- **C20 (bound of the whole result, any exponent).** -/
theorem C20W_result (dg : Graph) (start delta : Int) (alphas : List (Nat × (Nat → Rat))) (ptype : Nat)
    (hw : ∀ a ∈ alphas, ∀ d, 1 ≤ d → 0 < a.2 d) (l : List (Nat × List (Node × Rat)))
    (h : dg.deltaConformityW start delta alphas ptype = .ok (some l)) :
    l.map (·.1) = alphas.map (·.1) ∧ ∀ e ∈ l, ∀ nv ∈ e.2, -1 ≤ nv.2 ∧ nv.2 ≤ 1 := by
  unfold Graph.deltaConformityW at h
  cases hs : dg.timeSlice start (some (start + delta)) with
  | error e => rw [hs] at h; simp at h
  | ok g =>
    rw [hs] at h
    simp only at h
    cases hmin : minList g.ids with
    | none => rw [hmin] at h; simp at h
    | some lo =>
      cases hmax : maxList g.ids with
      | none => rw [hmin, hmax] at h; simp at h
      | some hi =>
        rw [hmin, hmax] at h
        simp only at h
        split at h
        · simp at h
        · simp only [Except.ok.injEq, Option.some.injEq] at h
          subst h
          refine ⟨by simp [List.map_map, Function.comp_def], ?_⟩
          intro e he nv hnv
          obtain ⟨a, ha, rfl⟩ := List.mem_map.1 he
          obtain ⟨u, _, rfl⟩ := List.mem_map.1 hnv
          exact C20W_bound g _ ptype a.2 (hw a ha) u

/-- the hypothesis is met by the powers of any exponent, e.g. square roots rounded to rationals -/
example : ∀ d, 1 ≤ d → (0 : Rat) < (fun d : Nat => ((d : Rat) + 1) / 2) d := by
  intro d _; positivity

end Dynetx
