import DynetxModel
/-
  C14: `annotatePaths` selects exactly the optimal paths.
-/
namespace Dynetx

/-! ### the single pass with `trackMin` -/

section TrackMin
variable {κ : Type} (lt eq : κ → κ → Bool) (key : TPath → κ) (emb : κ → Int)

theorem trackMin_some (k : κ) (acc : List TPath) (p : TPath) :
    trackMin lt eq key (some k, acc) p =
      if lt (key p) k then (some (key p), [p])
      else if eq (key p) k then (some k, acc ++ [p]) else (some k, acc) := rfl

theorem trackMin_none (acc : List TPath) (p : TPath) :
    trackMin lt eq key (none, acc) p = (some (key p), [p]) := rfl

/-- the fold from a state whose accumulator holds only elements of key `k` -/
theorem trackMin_foldl_aux
    (hlt : ∀ a b, lt a b = decide (emb a < emb b))
    (heq : ∀ a b, eq a b = decide (emb a = emb b))
    (hinj : ∀ a b, emb a = emb b → a = b) :
    ∀ (rest : List TPath) (k : κ) (acc : List TPath), (∀ p ∈ acc, key p = k) →
      ∃ m, emb m ≤ emb k ∧ (∀ q ∈ rest, emb m ≤ emb (key q)) ∧ (m = k ∨ ∃ q ∈ rest, key q = m) ∧
        rest.foldl (trackMin lt eq key) (some k, acc)
          = (some m, (acc ++ rest).filter (fun p => decide (emb (key p) = emb m))) := by
  intro rest
  induction rest with
  | nil =>
    intro k acc h
    refine ⟨k, Int.le_refl _, by simp, Or.inl rfl, ?_⟩
    simp only [List.foldl_nil, List.append_nil]
    congr 1
    symm
    apply List.filter_eq_self.2
    intro p hp
    simp [h p hp]
  | cons p rest ih =>
    intro k acc h
    simp only [List.foldl_cons, trackMin_some, hlt, heq]
    by_cases h1 : emb (key p) < emb k
    · simp only [h1, decide_true, if_true]
      obtain ⟨m, hm1, hm2, hm3, hm4⟩ := ih (key p) [p] (by simp)
      refine ⟨m, by omega, ?_, ?_, ?_⟩
      · intro q hq
        rcases List.mem_cons.1 hq with rfl | hq
        · exact hm1
        · exact hm2 q hq
      · rcases hm3 with rfl | ⟨q, hq, hqm⟩
        · exact Or.inr ⟨p, List.mem_cons_self, rfl⟩
        · exact Or.inr ⟨q, List.mem_cons_of_mem _ hq, hqm⟩
      · rw [hm4]
        congr 1
        rw [List.filter_append, List.filter_append]
        have : acc.filter (fun p => decide (emb (key p) = emb m)) = [] := by
          apply List.filter_eq_nil_iff.2
          intro a ha
          have := h a ha
          simp only [decide_eq_true_eq, this]
          omega
        rw [this, List.nil_append, ← List.filter_append]
        rfl
    · have h1' : decide (emb (key p) < emb k) = false := by simp [h1]
      simp only [h1', Bool.false_eq_true, if_false]
      by_cases h2 : emb (key p) = emb k
      · simp only [h2, decide_true, if_true]
        obtain ⟨m, hm1, hm2, hm3, hm4⟩ := ih k (acc ++ [p]) (by
          intro a ha
          rcases List.mem_append.1 ha with ha | ha
          · exact h a ha
          · simp only [List.mem_singleton] at ha
            subst ha
            exact hinj _ _ h2)
        refine ⟨m, hm1, ?_, ?_, ?_⟩
        · intro q hq
          rcases List.mem_cons.1 hq with rfl | hq
          · omega
          · exact hm2 q hq
        · rcases hm3 with rfl | ⟨q, hq, hqm⟩
          · exact Or.inl rfl
          · exact Or.inr ⟨q, List.mem_cons_of_mem _ hq, hqm⟩
        · rw [hm4]
          simp
      · have h2' : decide (emb (key p) = emb k) = false := by simp [h2]
        simp only [h2', Bool.false_eq_true, if_false]
        obtain ⟨m, hm1, hm2, hm3, hm4⟩ := ih k acc h
        refine ⟨m, hm1, ?_, ?_, ?_⟩
        · intro q hq
          rcases List.mem_cons.1 hq with rfl | hq
          · omega
          · exact hm2 q hq
        · rcases hm3 with rfl | ⟨q, hq, hqm⟩
          · exact Or.inl rfl
          · exact Or.inr ⟨q, List.mem_cons_of_mem _ hq, hqm⟩
        · rw [hm4]
          congr 1
          rw [List.filter_append, List.filter_append]
          congr 1
          have : decide (emb (key p) = emb m) = false := by
            simp only [decide_eq_false_iff_not]; omega
          rw [List.filter_cons, this]
          simp

/-- Generic statement: the single pass returns the minimum key `m` together with, in order and with
    duplicates, exactly the elements whose key is `m`. -/
theorem trackMin_foldl_gen
    (hlt : ∀ a b, lt a b = decide (emb a < emb b))
    (heq : ∀ a b, eq a b = decide (emb a = emb b))
    (hinj : ∀ a b, emb a = emb b → a = b)
    (paths : List TPath) (hne : paths ≠ []) :
    ∃ m, (∀ q ∈ paths, emb m ≤ emb (key q)) ∧ (∃ q ∈ paths, key q = m) ∧
      paths.foldl (trackMin lt eq key) (none, [])
        = (some m, paths.filter (fun p => decide (emb (key p) = emb m))) := by
  cases paths with
  | nil => exact absurd rfl hne
  | cons p rest =>
    simp only [List.foldl_cons, trackMin_none]
    obtain ⟨m, hm1, hm2, hm3, hm4⟩ :=
      trackMin_foldl_aux lt eq key emb hlt heq hinj rest (key p) [p] (by simp)
    refine ⟨m, ?_, ?_, ?_⟩
    · intro q hq
      rcases List.mem_cons.1 hq with rfl | hq
      · exact hm1
      · exact hm2 q hq
    · rcases hm3 with rfl | ⟨q, hq, hqm⟩
      · exact ⟨p, List.mem_cons_self, rfl⟩
      · exact ⟨q, List.mem_cons_of_mem _ hq, hqm⟩
    · rw [hm4]; rfl

end TrackMin

/-! ### `minList` -/

theorem minList_eq_none : ∀ (l : List Int), minList l = none ↔ l = []
  | [] => by simp [minList]
  | x :: xs => by
    simp only [minList]
    cases h : minList xs <;> simp

theorem minList_some : ∀ (l : List Int) (m : Int), minList l = some m → m ∈ l ∧ ∀ x ∈ l, m ≤ x
  | [], m, h => by simp [minList] at h
  | x :: xs, m, h => by
    simp only [minList] at h
    cases h' : minList xs with
    | none =>
      rw [h'] at h
      have hx : xs = [] := (minList_eq_none xs).1 h'
      simp only [Option.some.injEq] at h
      subst h; subst hx
      simp
    | some m' =>
      rw [h'] at h
      simp only [Option.some.injEq] at h
      obtain ⟨hm1, hm2⟩ := minList_some xs m' h'
      by_cases hx : x ≤ m'
      · rw [if_pos hx] at h
        subst h
        refine ⟨List.mem_cons_self, ?_⟩
        intro y hy
        rcases List.mem_cons.1 hy with rfl | hy
        · exact Int.le_refl _
        · exact Int.le_trans hx (hm2 y hy)
      · rw [if_neg hx] at h
        subst h
        refine ⟨List.mem_cons_of_mem _ hm1, ?_⟩
        intro y hy
        rcases List.mem_cons.1 hy with rfl | hy
        · omega
        · exact hm2 y hy

/-- `minList` is the minimum: it is attained and it is a lower bound -/
theorem minList_spec (l : List Int) (hne : l ≠ []) :
    ∃ m, minList l = some m ∧ m ∈ l ∧ ∀ x ∈ l, m ≤ x := by
  cases h : minList l with
  | none => exact absurd ((minList_eq_none l).1 h) hne
  | some m => exact ⟨m, rfl, minList_some l m h⟩

theorem minList_unique (l : List Int) (m : Int) (hm : m ∈ l) (hle : ∀ x ∈ l, m ≤ x) :
    minList l = some m := by
  obtain ⟨m', h1, h2, h3⟩ := minList_spec l (List.ne_nil_of_mem hm)
  have := hle m' h2
  have := h3 m hm
  have : m' = m := by omega
  rw [h1, this]

/-! ### item 1: the fold with `trackMin`, for `Int` and `Nat` keys -/

/-- Item 1 (Int keys): order- and duplicate-preserving. -/
theorem trackMin_foldl_int (key : TPath → Int) (paths : List TPath) (hne : paths ≠ []) :
    ∃ m, minList (paths.map key) = some m ∧ (∀ q ∈ paths, m ≤ key q) ∧ (∃ q ∈ paths, key q = m) ∧
      paths.foldl (trackMin (fun (a b : Int) => decide (a < b)) (fun a b => a == b) key) (none, [])
        = (some m, paths.filter (fun p => decide (key p = m))) := by
  obtain ⟨m, h1, h2, h3⟩ := trackMin_foldl_gen (fun (a b : Int) => decide (a < b)) (fun a b => a == b)
    key id (by intro a b; rfl) (by intro a b; by_cases h : a = b <;> simp [h]) (by intro a b h; exact h) paths hne
  refine ⟨m, ?_, h1, h2, h3⟩
  apply minList_unique
  · obtain ⟨q, hq, hqm⟩ := h2
    exact List.mem_map.2 ⟨q, hq, hqm⟩
  · intro x hx
    obtain ⟨q, hq, rfl⟩ := List.mem_map.1 hx
    exact h1 q hq

/-- Item 1 (Nat keys): order- and duplicate-preserving. -/
theorem trackMin_foldl_nat (key : TPath → Nat) (paths : List TPath) (hne : paths ≠ []) :
    ∃ m : Nat, minList (paths.map (fun p => (key p : Int))) = some (m : Int) ∧
      (∀ q ∈ paths, m ≤ key q) ∧ (∃ q ∈ paths, key q = m) ∧
      paths.foldl (trackMin (fun (a b : Nat) => decide (a < b)) (fun a b => a == b) key) (none, [])
        = (some m, paths.filter (fun p => decide (key p = m))) := by
  obtain ⟨m, h1, h2, h3⟩ := trackMin_foldl_gen (fun (a b : Nat) => decide (a < b)) (fun a b => a == b)
    key (fun n => (n : Int)) (by intro a b; simp)
    (by intro a b; by_cases h : a = b
        · simp [h]
        · have : ¬ ((a : Int) = (b : Int)) := by omega
          simp [h, this])
    (by intro a b h; omega) paths hne
  refine ⟨m, ?_, ?_, h2, ?_⟩
  · apply minList_unique
    · obtain ⟨q, hq, hqm⟩ := h2
      exact List.mem_map.2 ⟨q, hq, by simp [hqm]⟩
    · intro x hx
      obtain ⟨q, hq, rfl⟩ := List.mem_map.1 hx
      exact h1 q hq
  · intro q hq
    have := h1 q hq
    omega
  · rw [h3]
    congr 1
    apply List.filter_congr
    intro p _
    exact decide_eq_decide.2 (by omega)

/-- the fold on the empty list -/
theorem trackMin_foldl_nil {κ : Type} (lt eq : κ → κ → Bool) (key : TPath → κ) :
    ([] : List TPath).foldl (trackMin lt eq key) (none, []) = (none, []) := rfl

/-! ### membership and multiplicity in a primary annotation -/

theorem mem_filter_min_int (key : TPath → Int) (paths : List TPath) (m : Int)
    (hle : ∀ q ∈ paths, m ≤ key q) (hex : ∃ q ∈ paths, key q = m) (p : TPath) :
    p ∈ paths.filter (fun p => decide (key p = m)) ↔ (p ∈ paths ∧ ∀ q ∈ paths, key p ≤ key q) := by
  simp only [List.mem_filter, decide_eq_true_eq]
  constructor
  · rintro ⟨hp, hpm⟩
    exact ⟨hp, fun q hq => by have := hle q hq; omega⟩
  · rintro ⟨hp, hmin⟩
    obtain ⟨q, hq, hqm⟩ := hex
    have := hmin q hq
    have := hle p hp
    exact ⟨hp, by omega⟩

theorem mem_filter_min_nat (key : TPath → Nat) (paths : List TPath) (m : Nat)
    (hle : ∀ q ∈ paths, m ≤ key q) (hex : ∃ q ∈ paths, key q = m) (p : TPath) :
    p ∈ paths.filter (fun p => decide (key p = m)) ↔ (p ∈ paths ∧ ∀ q ∈ paths, key p ≤ key q) := by
  simp only [List.mem_filter, decide_eq_true_eq]
  constructor
  · rintro ⟨hp, hpm⟩
    exact ⟨hp, fun q hq => by have := hle q hq; omega⟩
  · rintro ⟨hp, hmin⟩
    obtain ⟨q, hq, hqm⟩ := hex
    have := hmin q hq
    have := hle p hp
    exact ⟨hp, by omega⟩

theorem count_filter_min_int (key : TPath → Int) (paths : List TPath) (m : Int)
    (hle : ∀ q ∈ paths, m ≤ key q) (hex : ∃ q ∈ paths, key q = m) (p : TPath) :
    (paths.filter (fun p => decide (key p = m))).count p
      = if (∀ q ∈ paths, key p ≤ key q) then paths.count p else 0 := by
  by_cases hpm : key p = m
  · have hall : ∀ q ∈ paths, key p ≤ key q := fun q hq => by have := hle q hq; omega
    rw [if_pos hall]
    exact List.count_filter (by simp [hpm])
  · have hnot : p ∉ paths.filter (fun p => decide (key p = m)) := by
      simp only [List.mem_filter, decide_eq_true_eq]
      exact fun h => hpm h.2
    rw [List.count_eq_zero_of_not_mem hnot]
    split
    · next hall =>
      obtain ⟨q, hq, hqm⟩ := hex
      have := hall q hq
      have hp : p ∉ paths := fun hp => by have := hle p hp; omega
      exact (List.count_eq_zero_of_not_mem hp).symm
    · rfl

theorem count_filter_min_nat (key : TPath → Nat) (paths : List TPath) (m : Nat)
    (hle : ∀ q ∈ paths, m ≤ key q) (hex : ∃ q ∈ paths, key q = m) (p : TPath) :
    (paths.filter (fun p => decide (key p = m))).count p
      = if (∀ q ∈ paths, key p ≤ key q) then paths.count p else 0 := by
  by_cases hpm : key p = m
  · have hall : ∀ q ∈ paths, key p ≤ key q := fun q hq => by have := hle q hq; omega
    rw [if_pos hall]
    exact List.count_filter (by simp [hpm])
  · have hnot : p ∉ paths.filter (fun p => decide (key p = m)) := by
      simp only [List.mem_filter, decide_eq_true_eq]
      exact fun h => hpm h.2
    rw [List.count_eq_zero_of_not_mem hnot]
    split
    · next hall =>
      obtain ⟨q, hq, hqm⟩ := hex
      have := hall q hq
      have hp : p ∉ paths := fun hp => by have := hle p hp; omega
      exact (List.count_eq_zero_of_not_mem hp).symm
    · rfl

/-! ### the field projections of `annotatePaths` -/

theorem annot_shortest (paths : List TPath) : (annotatePaths paths).shortest =
    (paths.foldl (trackMin (fun (a b : Nat) => decide (a < b)) (fun a b => a == b) pathLength) (none, [])).2 := rfl
theorem annot_fastest (paths : List TPath) : (annotatePaths paths).fastest =
    (paths.foldl (trackMin (fun (a b : Int) => decide (a < b)) (fun a b => a == b) pathDuration) (none, [])).2 := rfl
theorem annot_foremost (paths : List TPath) : (annotatePaths paths).foremost =
    (paths.foldl (trackMin (fun (a b : Int) => decide (a < b)) (fun a b => a == b) lastTime) (none, [])).2 := rfl
theorem annot_fastestShortest (paths : List TPath) : (annotatePaths paths).fastestShortest =
    secondary pathDuration (annotatePaths paths).shortest := rfl
theorem annot_shortestFastest (paths : List TPath) : (annotatePaths paths).shortestFastest =
    secondary (fun p => (pathLength p : Int)) (annotatePaths paths).fastest := rfl

/-- `shortest` is the order- and duplicate-preserving filter of the minimal-length paths -/
theorem C14_shortest_eq_filter (paths : List TPath) (hne : paths ≠ []) :
    ∃ m, (∀ q ∈ paths, m ≤ pathLength q) ∧ (∃ q ∈ paths, pathLength q = m) ∧
      (annotatePaths paths).shortest = paths.filter (fun p => decide (pathLength p = m)) := by
  obtain ⟨m, _, h1, h2, h3⟩ := trackMin_foldl_nat pathLength paths hne
  exact ⟨m, h1, h2, by rw [annot_shortest, h3]⟩

theorem C14_fastest_eq_filter (paths : List TPath) (hne : paths ≠ []) :
    ∃ m, minList (paths.map pathDuration) = some m ∧ (∀ q ∈ paths, m ≤ pathDuration q) ∧
      (∃ q ∈ paths, pathDuration q = m) ∧
      (annotatePaths paths).fastest = paths.filter (fun p => decide (pathDuration p = m)) := by
  obtain ⟨m, h0, h1, h2, h3⟩ := trackMin_foldl_int pathDuration paths hne
  exact ⟨m, h0, h1, h2, by rw [annot_fastest, h3]⟩

theorem C14_foremost_eq_filter (paths : List TPath) (hne : paths ≠ []) :
    ∃ m, minList (paths.map lastTime) = some m ∧ (∀ q ∈ paths, m ≤ lastTime q) ∧
      (∃ q ∈ paths, lastTime q = m) ∧
      (annotatePaths paths).foremost = paths.filter (fun p => decide (lastTime p = m)) := by
  obtain ⟨m, h0, h1, h2, h3⟩ := trackMin_foldl_int lastTime paths hne
  exact ⟨m, h0, h1, h2, by rw [annot_foremost, h3]⟩

/-! ### items 2–4 -/

theorem C14_shortest (paths : List TPath) (hne : paths ≠ []) :
    ∀ p, p ∈ (annotatePaths paths).shortest ↔ (p ∈ paths ∧ ∀ q ∈ paths, pathLength p ≤ pathLength q) := by
  obtain ⟨m, h1, h2, h3⟩ := C14_shortest_eq_filter paths hne
  intro p
  rw [h3]
  exact mem_filter_min_nat pathLength paths m h1 h2 p

theorem C14_fastest (paths : List TPath) (hne : paths ≠ []) :
    ∀ p, p ∈ (annotatePaths paths).fastest ↔ (p ∈ paths ∧ ∀ q ∈ paths, pathDuration p ≤ pathDuration q) := by
  obtain ⟨m, _, h1, h2, h3⟩ := C14_fastest_eq_filter paths hne
  intro p
  rw [h3]
  exact mem_filter_min_int pathDuration paths m h1 h2 p

theorem C14_foremost (paths : List TPath) (hne : paths ≠ []) :
    ∀ p, p ∈ (annotatePaths paths).foremost ↔ (p ∈ paths ∧ ∀ q ∈ paths, lastTime p ≤ lastTime q) := by
  obtain ⟨m, _, h1, h2, h3⟩ := C14_foremost_eq_filter paths hne
  intro p
  rw [h3]
  exact mem_filter_min_int lastTime paths m h1 h2 p

/-! ### item 8: multiplicities -/

theorem C14_shortest_count (paths : List TPath) (hne : paths ≠ []) (p : TPath) :
    (annotatePaths paths).shortest.count p
      = if (∀ q ∈ paths, pathLength p ≤ pathLength q) then paths.count p else 0 := by
  obtain ⟨m, h1, h2, h3⟩ := C14_shortest_eq_filter paths hne
  rw [h3]
  exact count_filter_min_nat pathLength paths m h1 h2 p

theorem C14_fastest_count (paths : List TPath) (hne : paths ≠ []) (p : TPath) :
    (annotatePaths paths).fastest.count p
      = if (∀ q ∈ paths, pathDuration p ≤ pathDuration q) then paths.count p else 0 := by
  obtain ⟨m, _, h1, h2, h3⟩ := C14_fastest_eq_filter paths hne
  rw [h3]
  exact count_filter_min_int pathDuration paths m h1 h2 p

theorem C14_foremost_count (paths : List TPath) (hne : paths ≠ []) (p : TPath) :
    (annotatePaths paths).foremost.count p
      = if (∀ q ∈ paths, lastTime p ≤ lastTime q) then paths.count p else 0 := by
  obtain ⟨m, _, h1, h2, h3⟩ := C14_foremost_eq_filter paths hne
  rw [h3]
  exact count_filter_min_int lastTime paths m h1 h2 p

/-! ### the secondary annotations -/

theorem insertNew_foldl (l : List TPath) : ∀ (acc : List TPath), acc.Nodup →
    (l.foldl insertNew acc).Nodup ∧ ∀ p, p ∈ l.foldl insertNew acc ↔ (p ∈ acc ∨ p ∈ l) := by
  induction l with
  | nil => intro acc h; simp [h]
  | cons x xs ih =>
    intro acc h
    simp only [List.foldl_cons]
    by_cases hx : x ∈ acc
    · have e : insertNew acc x = acc := by simp [insertNew, hx]
      rw [e]
      obtain ⟨h1, h2⟩ := ih acc h
      refine ⟨h1, ?_⟩
      intro p
      rw [h2 p, List.mem_cons]
      constructor
      · rintro (hp | hp)
        · exact Or.inl hp
        · exact Or.inr (Or.inr hp)
      · rintro (hp | rfl | hp)
        · exact Or.inl hp
        · exact Or.inl hx
        · exact Or.inr hp
    · have e : insertNew acc x = acc ++ [x] := by simp [insertNew, hx]
      rw [e]
      have hnd : (acc ++ [x]).Nodup := by
        rw [List.nodup_append]
        refine ⟨h, by simp, ?_⟩
        intro a ha b hb
        simp only [List.mem_singleton] at hb
        subst hb
        intro hab; subst hab; exact hx ha
      obtain ⟨h1, h2⟩ := ih (acc ++ [x]) hnd
      refine ⟨h1, ?_⟩
      intro p
      rw [h2 p, List.mem_append, List.mem_singleton, List.mem_cons]
      constructor
      · rintro ((hp | hp) | hp)
        · exact Or.inl hp
        · exact Or.inr (Or.inl hp)
        · exact Or.inr (Or.inr hp)
      · rintro (hp | hp | hp)
        · exact Or.inl (Or.inl hp)
        · exact Or.inl (Or.inr hp)
        · exact Or.inr hp

theorem secondary_nodup (f : TPath → Int) (l : List TPath) : (secondary f l).Nodup := by
  unfold secondary
  simp only
  split
  · exact List.nodup_nil
  · exact ((insertNew_foldl l [] List.nodup_nil).1).filter _

theorem mem_secondary (f : TPath → Int) (l : List TPath) (p : TPath) :
    p ∈ secondary f l ↔ (p ∈ l ∧ ∀ q ∈ l, f p ≤ f q) := by
  have hk := (insertNew_foldl l [] List.nodup_nil).2
  unfold secondary
  simp only
  split
  · next h =>
    have : l.foldl insertNew [] = [] := by
      have := (minList_eq_none _).1 h
      exact List.map_eq_nil_iff.1 this
    have hl : p ∉ l := by
      intro hp
      have := (hk p).2 (Or.inr hp)
      rw [‹l.foldl insertNew [] = []›] at this
      exact absurd this List.not_mem_nil
    simp [hl]
  · next m h =>
    obtain ⟨hm1, hm2⟩ := minList_some _ m h
    obtain ⟨q0, hq0, hq0m⟩ := List.mem_map.1 hm1
    simp only [List.mem_filter, beq_iff_eq]
    rw [hk p]
    simp only [List.not_mem_nil, false_or]
    constructor
    · rintro ⟨hp, hpm⟩
      refine ⟨hp, ?_⟩
      intro q hq
      have := hm2 (f q) (List.mem_map.2 ⟨q, (hk q).2 (Or.inr hq), rfl⟩)
      omega
    · rintro ⟨hp, hmin⟩
      refine ⟨hp, ?_⟩
      have hq0l : q0 ∈ l := by simpa using (hk q0).1 hq0
      have := hmin q0 hq0l
      have := hm2 (f p) (List.mem_map.2 ⟨p, (hk p).2 (Or.inr hp), rfl⟩)
      omega

/-! ### items 5–6 -/

theorem C14_fastest_shortest (paths : List TPath) (_hne : paths ≠ []) :
    (∀ p, p ∈ (annotatePaths paths).fastestShortest ↔
      (p ∈ (annotatePaths paths).shortest ∧
        ∀ q ∈ (annotatePaths paths).shortest, pathDuration p ≤ pathDuration q)) ∧
    (annotatePaths paths).fastestShortest.Nodup := by
  rw [annot_fastestShortest]
  exact ⟨fun p => mem_secondary _ _ p, secondary_nodup _ _⟩

theorem C14_shortest_fastest (paths : List TPath) (_hne : paths ≠ []) :
    (∀ p, p ∈ (annotatePaths paths).shortestFastest ↔
      (p ∈ (annotatePaths paths).fastest ∧
        ∀ q ∈ (annotatePaths paths).fastest, pathLength p ≤ pathLength q)) ∧
    (annotatePaths paths).shortestFastest.Nodup := by
  rw [annot_shortestFastest]
  refine ⟨fun p => ?_, secondary_nodup _ _⟩
  rw [mem_secondary]
  constructor
  · rintro ⟨hp, h⟩
    exact ⟨hp, fun q hq => by have := h q hq; omega⟩
  · rintro ⟨hp, h⟩
    exact ⟨hp, fun q hq => by have := h q hq; omega⟩

/-! ### item 7 -/

theorem C14_subset (paths : List TPath) :
    ∀ p, (p ∈ (annotatePaths paths).shortest ∨ p ∈ (annotatePaths paths).fastest ∨
          p ∈ (annotatePaths paths).foremost ∨ p ∈ (annotatePaths paths).fastestShortest ∨
          p ∈ (annotatePaths paths).shortestFastest) → p ∈ paths := by
  intro p h
  by_cases hne : paths = []
  · subst hne
    revert h
    simp [annotatePaths, secondary, minList]
  · rcases h with h | h | h | h | h
    · exact ((C14_shortest paths hne p).1 h).1
    · exact ((C14_fastest paths hne p).1 h).1
    · exact ((C14_foremost paths hne p).1 h).1
    · exact ((C14_shortest paths hne p).1 (((C14_fastest_shortest paths hne).1 p).1 h).1).1
    · exact ((C14_fastest paths hne p).1 (((C14_shortest_fastest paths hne).1 p).1 h).1).1

/-! ### item 9: non-vacuity -/

/-- three paths; the first and third tie on length (1 hop), the first two tie on arrival (time 2) -/
example :
    let a : TPath := [(0, 1, 2)]
    let b : TPath := [(0, 2, 1), (2, 1, 2)]
    let c : TPath := [(0, 1, 5)]
    (annotatePaths [a, b, c]).shortest = [a, c] ∧
    (annotatePaths [a, b, c]).fastest = [a, c] ∧
    (annotatePaths [a, b, c]).foremost = [a, b] ∧
    (annotatePaths [a, b, c]).fastestShortest = [a, c] ∧
    (annotatePaths [a, b, c]).shortestFastest = [a, c] := by decide

/-- duplicates are kept by the primary annotations and collapsed by the secondary ones -/
example :
    let a : TPath := [(0, 1, 2)]
    let b : TPath := [(0, 2, 1), (2, 1, 2)]
    (annotatePaths [a, b, a]).shortest = [a, a] ∧
    (annotatePaths [a, b, a]).fastestShortest = [a] := by decide

end Dynetx

