import DynetxProofs.Lemmas.History
import DynetxProofs.Lemmas.HistoryMore
import DynetxProofs.Lemmas.Accum
import DynetxProofs.Lemmas.AccumHistory
/-
  C02: the node-level queries (`neighbors`, `predecessors`, the degrees, `nodes(t)`, `has_node`,
  `all_neighbors`, `non_neighbors`, `is_empty`, `get_node_snapshots`) project the presence relation
  `has_interaction`.
-/
namespace Dynetx

/-! ## Step 1: the node invariant -/

/-- every endpoint of a stored pair is a node; no node is stored twice -/
structure NodeInv (g : Graph) : Prop where
  endpoints : ∀ e ∈ g.edges, g.hasNodeFlat e.u = true ∧ g.hasNodeFlat e.v = true
  nodup : (g.nodes.map (·.1)).Nodup

theorem q1_any_iff (ns : List (Node × Nat)) (n : Node) :
    ns.any (fun p => p.1 == n) = true ↔ n ∈ ns.map (·.1) := by
  simp only [List.any_eq_true, List.mem_map, beq_iff_eq]

theorem q1_hasNodeFlat_iff (g : Graph) (n : Node) : g.hasNodeFlat n = true ↔ n ∈ g.nodeList :=
  q1_any_iff g.nodes n

theorem q1_ensureNode_mem (ns : List (Node × Nat)) (n m : Node) :
    m ∈ (ensureNode ns n).map (·.1) ↔ m ∈ ns.map (·.1) ∨ m = n := by
  unfold ensureNode
  split
  · rename_i h
    rw [q1_any_iff] at h
    constructor
    · exact Or.inl
    · rintro (h' | rfl)
      · exact h'
      · exact h
  · simp

theorem q1_ensureNode_nodup (ns : List (Node × Nat)) (n : Node) (h : (ns.map (·.1)).Nodup) :
    ((ensureNode ns n).map (·.1)).Nodup := by
  unfold ensureNode
  split
  · exact h
  · rename_i hn
    rw [q1_any_iff] at hn
    rw [List.map_append, List.nodup_append]
    refine ⟨h, by simp, ?_⟩
    intro a ha b hb
    simp at hb
    subst hb
    intro hab
    subst hab
    exact hn ha

theorem NodeInv.empty (d r : Bool) : NodeInv (Graph.empty d r) :=
  ⟨(by intro e he; cases he), List.nodup_nil⟩

/-- the shape of every state change of `add_interaction` as far as nodes and endpoints go -/
theorem q1_nodeInv_step {g g' : Graph} (h : NodeInv g) (u v : Node)
    (hn : g'.nodes = g.nodes ∨ g'.nodes = ensureNode (ensureNode g.nodes u) v)
    (he : ∀ e' ∈ g'.edges, (∃ e ∈ g.edges, e.u = e'.u ∧ e.v = e'.v) ∨
        (g'.nodes = ensureNode (ensureNode g.nodes u) v ∧ e'.u = u ∧ e'.v = v)) : NodeInv g' := by
  have hmono : ∀ n, g.hasNodeFlat n = true → g'.hasNodeFlat n = true := by
    intro n hh
    rw [q1_hasNodeFlat_iff] at hh ⊢
    unfold Graph.nodeList at hh ⊢
    rcases hn with hn | hn
    · rw [hn]; exact hh
    · rw [hn, q1_ensureNode_mem, q1_ensureNode_mem]; exact Or.inl (Or.inl hh)
  constructor
  · intro e' he'
    rcases he e' he' with ⟨e, hem, hu, hv⟩ | ⟨hn', hu, hv⟩
    · rw [← hu, ← hv]
      exact ⟨hmono _ (h.endpoints e hem).1, hmono _ (h.endpoints e hem).2⟩
    · rw [q1_hasNodeFlat_iff, q1_hasNodeFlat_iff]
      unfold Graph.nodeList
      rw [hn', hu, hv, q1_ensureNode_mem, q1_ensureNode_mem, q1_ensureNode_mem, q1_ensureNode_mem]
      exact ⟨Or.inl (Or.inr rfl), Or.inr rfl⟩
  · rcases hn with hn | hn
    · rw [hn]; exact h.nodup
    · rw [hn]; exact q1_ensureNode_nodup _ _ (q1_ensureNode_nodup _ _ h.nodup)

theorem q1_mapTl_endpoints {g : Graph} {u v : Node} {tl : List Span} {e' : Edge}
    (h : e' ∈ mapTl g u v tl) : ∃ e ∈ g.edges, e.u = e'.u ∧ e.v = e'.v := by
  rw [mem_mapTl] at h
  obtain ⟨e, hem, rfl⟩ := h
  refine ⟨e, hem, ?_⟩
  split <;> exact ⟨rfl, rfl⟩

theorem q1_addNew_nodes (g : Graph) (u v : Node) (t0 t1 : Int) (eR : Option Int) :
    (g.addNew u v t0 t1 eR).nodes = ensureNode (ensureNode g.nodes u) v := by
  unfold Graph.addNew
  simp only []
  split <;> simp only [bumpRange_nodes, optAddMinus_nodes, addEvent_nodes] <;> rfl

theorem q1_addCovered_nodes (g : Graph) (u v : Node) (t1 b : Int) (eR : Option Int) :
    (g.addCovered u v t1 b eR).nodes = g.nodes := by
  unfold Graph.addCovered; split <;> simp

theorem q1_addExtend_nodes (g : Graph) (u v : Node) (t0 t1 a b : Int) (rest : List Span) (eR : Option Int) :
    (g.addExtend u v t0 t1 a b rest eR).nodes = ensureNode (ensureNode g.nodes u) v := by
  unfold Graph.addExtend
  cases eR with
  | none =>
    simp only [bumpRange_nodes]
    split
    · rfl
    · simp only [addEvent_nodes]; rfl
  | some e => simp only [bumpRange_nodes, addEvent_nodes]; rfl

theorem q1_addAppend_nodes (g : Graph) (u v : Node) (t0 t1 a b : Int) (rest : List Span) (eR : Option Int) :
    (g.addAppend u v t0 t1 a b rest eR).nodes = ensureNode (ensureNode g.nodes u) v := by
  unfold Graph.addAppend
  simp only [bumpRange_nodes, optAddMinus_nodes, addEvent_nodes]; rfl

theorem q1_addAccum_nodes (g : Graph) (u v : Node) (t0 a b : Int) (rest : List Span) :
    (g.addAccum u v t0 a b rest).nodes = ensureNode (ensureNode g.nodes u) v := by
  unfold Graph.addAccum; simp only [bumpRange_nodes]; split <;> rfl

theorem q1_addNew_nodeInv {g : Graph} (h : NodeInv g) (u v : Node) (t0 t1 : Int) (eR : Option Int) :
    NodeInv (g.addNew u v t0 t1 eR) := by
  refine q1_nodeInv_step h u v (Or.inr (q1_addNew_nodes ..)) ?_
  intro e' he'
  rw [addNew_edges, List.mem_append] at he'
  rcases he' with he' | he'
  · exact Or.inl ⟨e', he', rfl, rfl⟩
  · rw [List.mem_singleton] at he'; subst he'
    exact Or.inr ⟨q1_addNew_nodes .., rfl, rfl⟩

theorem q1_addCovered_nodeInv {g : Graph} (h : NodeInv g) (u v : Node) (t1 b : Int) (eR : Option Int) :
    NodeInv (g.addCovered u v t1 b eR) := by
  refine q1_nodeInv_step h u v (Or.inl (q1_addCovered_nodes ..)) ?_
  intro e' he'
  rw [addCovered_edges] at he'
  exact Or.inl ⟨e', he', rfl, rfl⟩

theorem q1_addExtend_nodeInv {g : Graph} (h : NodeInv g) (u v : Node) (t0 t1 a b : Int) (rest : List Span)
    (eR : Option Int) : NodeInv (g.addExtend u v t0 t1 a b rest eR) := by
  refine q1_nodeInv_step h u v (Or.inr (q1_addExtend_nodes ..)) ?_
  intro e' he'
  rw [addExtend_edges] at he'
  exact Or.inl (q1_mapTl_endpoints he')

theorem q1_addAppend_nodeInv {g : Graph} (h : NodeInv g) (u v : Node) (t0 t1 a b : Int) (rest : List Span)
    (eR : Option Int) : NodeInv (g.addAppend u v t0 t1 a b rest eR) := by
  refine q1_nodeInv_step h u v (Or.inr (q1_addAppend_nodes ..)) ?_
  intro e' he'
  rw [addAppend_edges] at he'
  exact Or.inl (q1_mapTl_endpoints he')

theorem q1_addAccum_nodeInv {g : Graph} (h : NodeInv g) (u v : Node) (t0 a b : Int) (rest : List Span) :
    NodeInv (g.addAccum u v t0 a b rest) := by
  refine q1_nodeInv_step h u v (Or.inr (q1_addAccum_nodes ..)) ?_
  intro e' he'
  rw [addAccum_edges] at he'
  exact Or.inl (q1_mapTl_endpoints he')

/-- `add_interaction`, every branch, both modes, both classes -/
theorem addInteraction_nodeInv (g : Graph) (h : NodeInv g) (u v : Node) (t e : Option Int) :
    NodeInv (g.addInteraction u v t e).1 := by
  unfold Graph.addInteraction
  repeat' split
  all_goals first
    | exact h
    | exact q1_addNew_nodeInv h ..
    | exact q1_addCovered_nodeInv h ..
    | exact q1_addAccum_nodeInv h ..
    | exact q1_addExtend_nodeInv h ..
    | exact q1_addAppend_nodeInv h ..

theorem addFromGo_nodeInv (g : Graph) (h : NodeInv g) (es : List (Node × Node)) (t e : Option Int) :
    NodeInv (g.addFromGo es t e).1 := by
  induction es generalizing g with
  | nil => exact h
  | cons p rest ih =>
    obtain ⟨u, v⟩ := p
    have h1 := addInteraction_nodeInv g h u v t e
    unfold Graph.addFromGo
    split
    · rename_i g' hres
      rw [hres] at h1
      exact ih g' h1
    · rename_i g' err hres
      rw [hres] at h1
      exact h1

theorem step_nodeInv (g : Graph) (h : NodeInv g) (op : Op) : NodeInv (g.step op).1 := by
  unfold Graph.step Graph.addInteractionsFrom
  cases op.t with
  | none => exact h
  | some t0 => exact addFromGo_nodeInv g h op.pairs (some t0) op.e

theorem run_nodeInv (g : Graph) (h : NodeInv g) (ops : List Op) : NodeInv (g.run ops).1 := by
  induction ops generalizing g with
  | nil => exact h
  | cons op rest ih => exact ih (g.step op).1 (step_nodeInv g h op)

theorem addNode_nodeInv (g : Graph) (h : NodeInv g) (n : Node) : NodeInv (g.addNode n) := by
  constructor
  · intro e he
    have := h.endpoints e he
    rw [q1_hasNodeFlat_iff, q1_hasNodeFlat_iff] at this ⊢
    unfold Graph.nodeList Graph.addNode at *
    simp only [q1_ensureNode_mem]
    exact ⟨Or.inl this.1, Or.inl this.2⟩
  · exact q1_ensureNode_nodup _ _ h.nodup

theorem q1_setAttr_nodeList (g : Graph) (n : Node) (a : Nat) :
    (g.setAttr n a).nodes.map (·.1) = (ensureNode g.nodes n).map (·.1) := by
  unfold Graph.setAttr ensureNode
  split
  · simp only [List.map_map]
    apply List.map_congr_left
    intro p _
    simp only [Function.comp]
    split
    · rename_i hp; simp at hp; exact hp.symm
    · rfl
  · simp

theorem q1_setAttr_edges (g : Graph) (n : Node) (a : Nat) : (g.setAttr n a).edges = g.edges := by
  unfold Graph.setAttr; split <;> rfl

theorem setAttr_nodeInv (g : Graph) (h : NodeInv g) (n : Node) (a : Nat) : NodeInv (g.setAttr n a) := by
  constructor
  · intro e he
    rw [q1_setAttr_edges] at he
    have := h.endpoints e he
    rw [q1_hasNodeFlat_iff, q1_hasNodeFlat_iff] at this ⊢
    unfold Graph.nodeList at *
    rw [q1_setAttr_nodeList]
    simp only [q1_ensureNode_mem]
    exact ⟨Or.inl this.1, Or.inl this.2⟩
  · rw [q1_setAttr_nodeList]
    exact q1_ensureNode_nodup _ _ h.nodup

/-! ## Step 2: adjacency -/

theorem q1_key_iff (d : Bool) (eu ev n m : Node) :
    sameKey d eu ev n m = true ↔ (eu = n ∧ ev = m) ∨ (d = false ∧ ev = n ∧ eu = m) := by
  cases d <;> simp [sameKey] <;> grind

theorem q1_mem_succs (g : Graph) (n m : Node) :
    m ∈ g.succs n ↔ ∃ e ∈ g.edges, (e.u = n ∧ e.v = m) ∨ (g.directed = false ∧ e.v = n ∧ e.u = m) := by
  unfold Graph.succs
  rw [List.mem_filterMap]
  constructor
  · rintro ⟨e, he, hm⟩
    refine ⟨e, he, ?_⟩
    split at hm
    · rename_i h1; simp at h1 hm; exact Or.inl ⟨h1, hm⟩
    · split at hm
      · rename_i h1 h2; simp at h2 hm; exact Or.inr ⟨h2.1, h2.2, hm⟩
      · cases hm
  · rintro ⟨e, he, hm⟩
    refine ⟨e, he, ?_⟩
    rcases hm with ⟨h1, h2⟩ | ⟨h0, h1, h2⟩
    · simp [h1, h2]
    · by_cases h3 : e.u = n
      · have : e.v = m := by rw [h1, ← h3, h2]
        simp [h3, this]
      · have h4 : ¬ m = n := by rw [← h2]; exact h3
        simp [h0, h1, h2, h4]

theorem q1_mem_preds (g : Graph) (n m : Node) :
    m ∈ g.preds n ↔ ∃ e ∈ g.edges, e.v = n ∧ e.u = m := by
  unfold Graph.preds
  rw [List.mem_filterMap]
  constructor
  · rintro ⟨e, he, hm⟩
    refine ⟨e, he, ?_⟩
    split at hm
    · rename_i h1; simp at h1 hm; exact ⟨h1, hm⟩
    · cases hm
  · rintro ⟨e, he, h1, h2⟩
    exact ⟨e, he, by simp [h1, h2]⟩

/-- `m` is in the adjacency of `n` exactly when the pair was ever added (no invariant needed) -/
theorem q1_succs_iff_flat (g : Graph) (n m : Node) :
    m ∈ g.succs n ↔ g.hasInteraction n m none = true := by
  rw [q1_mem_succs, hasInteraction_flat_iff]
  simp only [q1_key_iff]

theorem q1_preds_iff_flat (g : Graph) (hd : g.directed = true) (n m : Node) :
    m ∈ g.preds n ↔ g.hasInteraction m n none = true := by
  rw [q1_mem_preds, hasInteraction_flat_iff]
  simp only [q1_key_iff, hd]
  constructor
  · rintro ⟨e, he, h1, h2⟩; exact ⟨e, he, Or.inl ⟨h2, h1⟩⟩
  · rintro ⟨e, he, h⟩
    rcases h with ⟨h1, h2⟩ | ⟨h0, _⟩
    · exact ⟨e, he, h2, h1⟩
    · cases h0

/-- the distinct-keys half of `WF` (also part of the accumulative invariant `AccInv`) -/
abbrev q1_Keys (g : Graph) : Prop :=
  g.edges.Pairwise (fun e f => sameKey g.directed e.u e.v f.u f.v = false)

theorem q1_succs_nodup_of_keys {g : Graph} (hk : q1_Keys g) (n : Node) : (g.succs n).Nodup := by
  unfold Graph.succs
  refine List.Pairwise.filterMap _ ?_ hk
  intro e f hef b hb b' hb' hbb
  subst hbb
  have key : ∀ e : Edge, (if (e.u == n) = true then some e.v
      else if (!g.directed && e.v == n) = true then some e.u else none) = some b →
      sameKey g.directed e.u e.v n b = true := by
    intro e h
    rw [q1_key_iff]
    split at h
    · rename_i h1; simp at h1 h; exact Or.inl ⟨h1, h⟩
    · split at h
      · rename_i h1 h2; simp at h2 h; exact Or.inr ⟨h2.1, h2.2, h⟩
      · cases h
  have h1 := key e hb
  have h2 := key f hb'
  have h3 : sameKey g.directed e.u e.v f.u f.v = true :=
    sameKey_trans h1 (by rw [sameKey_symm]; exact h2)
  rw [hef] at h3; cases h3

theorem q1_preds_nodup_of_keys {g : Graph} (hk : q1_Keys g) (n : Node) : (g.preds n).Nodup := by
  unfold Graph.preds
  refine List.Pairwise.filterMap _ ?_ hk
  intro e f hef b hb b' hb' hbb
  subst hbb
  have key : ∀ e : Edge, (if (e.v == n) = true then some e.u else none) = some b →
      sameKey g.directed e.u e.v b n = true := by
    intro e h
    rw [q1_key_iff]
    split at h
    · rename_i h1; simp at h1 h; exact Or.inl ⟨h, h1⟩
    · cases h
  have h3 : sameKey g.directed e.u e.v f.u f.v = true :=
    sameKey_trans (key e hb) (by rw [sameKey_symm]; exact key f hb')
  rw [hef] at h3; cases h3

theorem q1_succs_nodup {g : Graph} (h : WF g) (n : Node) : (g.succs n).Nodup :=
  q1_succs_nodup_of_keys h.keys n

theorem q1_preds_nodup {g : Graph} (h : WF g) (n : Node) : (g.preds n).Nodup :=
  q1_preds_nodup_of_keys h.keys n

/-! ## Step 3: the C02 theorems -/

/-- the presence relation the queries are measured against; `t = none` reads "ever added" -/
def q1_pres (g : Graph) (u v : Node) (t : Option Int) : Prop := g.hasInteraction u v t = true

theorem q1_has_some_flat (g : Graph) (a b : Node) (t : Option Int) :
    g.hasInteraction a b t = true → g.hasInteraction a b none = true := by
  unfold Graph.hasInteraction
  cases g.findEdge a b <;> simp

theorem q1_has_symm (g : Graph) (hd : g.directed = false) (a b : Node) (t : Option Int) :
    g.hasInteraction a b t = g.hasInteraction b a t := by
  unfold Graph.hasInteraction
  rw [findEdge_swap_undirected g hd a b]

theorem q1_present_and_flat (g : Graph) (a b : Node) (t : Option Int) :
    (g.hasInteraction a b none = true ∧ g.present a b t = true) ↔ g.hasInteraction a b t = true := by
  cases t with
  | none => simp [Graph.present]
  | some x =>
    simp only [Graph.present]
    exact ⟨fun h => h.2, fun h => ⟨q1_has_some_flat _ _ _ _ h, h⟩⟩

/-- 1. `neighbors(n, t)` (`successors(n, t)` on directed graphs) lists exactly the `m` with
    `has_interaction(n, m, t)` -/
theorem C02_neighbors (g : Graph) (n m : Node) (t : Option Int) :
    m ∈ g.neighbors n t ↔ g.hasInteraction n m t = true := by
  unfold Graph.neighbors
  rw [List.mem_filter, q1_succs_iff_flat, q1_present_and_flat]

theorem C02_neighbors_pres (g : Graph) (n m : Node) (t : Option Int) :
    m ∈ g.neighbors n t ↔ q1_pres g n m t := C02_neighbors g n m t

theorem C02_neighbors_nodup {g : Graph} (h : WF g) (n : Node) (t : Option Int) :
    (g.neighbors n t).Nodup :=
  List.Pairwise.filter _ (q1_succs_nodup h n)

/-- 2. `predecessors(n, t)` -/
theorem C02_predecessors (g : Graph) (hd : g.directed = true) (n m : Node) (t : Option Int) :
    m ∈ g.predecessors n t ↔ g.hasInteraction m n t = true := by
  unfold Graph.predecessors
  rw [List.mem_filter, q1_preds_iff_flat g hd, q1_present_and_flat]

theorem C02_predecessors_nodup {g : Graph} (h : WF g) (n : Node) (t : Option Int) :
    (g.predecessors n t).Nodup :=
  List.Pairwise.filter _ (q1_preds_nodup h n)

/-- 3. degrees -/
theorem C02_outDegree (g : Graph) (n : Node) (t : Option Int) :
    g.outDegree n t = (g.neighbors n t).length := rfl

theorem C02_inDegree (g : Graph) (n : Node) (t : Option Int) :
    g.inDegree n t = (g.predecessors n t).length := rfl

/-- the out-degree is the number of distinct `m` present with `n`: any duplicate-free enumeration of
    them has that length -/
theorem C02_outDegree_card {g : Graph} (h : WF g) (n : Node) (t : Option Int) (l : List Node)
    (hl : l.Nodup) (hm : ∀ m, m ∈ l ↔ g.hasInteraction n m t = true) :
    g.outDegree n t = l.length := by
  unfold Graph.outDegree
  apply List.Perm.length_eq
  rw [List.perm_ext_iff_of_nodup (C02_neighbors_nodup h n t) hl]
  intro m
  rw [C02_neighbors, hm]

theorem C02_inDegree_card {g : Graph} (h : WF g) (hd : g.directed = true) (n : Node) (t : Option Int)
    (l : List Node) (hl : l.Nodup) (hm : ∀ m, m ∈ l ↔ g.hasInteraction m n t = true) :
    g.inDegree n t = l.length := by
  unfold Graph.inDegree
  apply List.Perm.length_eq
  rw [List.perm_ext_iff_of_nodup (C02_predecessors_nodup h n t) hl]
  intro m
  rw [C02_predecessors g hd, hm]

theorem C02_degree_directed (g : Graph) (hd : g.directed = true) (n : Node) (t : Option Int) :
    g.degree n t = g.outDegree n t + g.inDegree n t := by
  simp [Graph.degree, hd]

theorem C02_degree_undirected (g : Graph) (hd : g.directed = false) (n : Node) (t : Option Int) :
    g.degree n t = (g.neighbors n t).length := by
  simp [Graph.degree, hd, Graph.outDegree]

/-- a positive degree at `t` is an interaction at `t` in one of the two directions -/
theorem q1_degree_pos_iff (g : Graph) (n : Node) (t : Option Int) :
    g.degree n t > 0 ↔ ∃ m, g.hasInteraction n m t = true ∨ g.hasInteraction m n t = true := by
  cases hd : g.directed with
  | true =>
    rw [C02_degree_directed g hd, C02_outDegree, C02_inDegree]
    constructor
    · intro hpos
      have : 0 < (g.neighbors n t).length ∨ 0 < (g.predecessors n t).length := by omega
      rcases this with h1 | h1
      · obtain ⟨m, hm⟩ := List.length_pos_iff_exists_mem.mp h1
        exact ⟨m, Or.inl ((C02_neighbors g n m t).mp hm)⟩
      · obtain ⟨m, hm⟩ := List.length_pos_iff_exists_mem.mp h1
        exact ⟨m, Or.inr ((C02_predecessors g hd n m t).mp hm)⟩
    · rintro ⟨m, h1 | h1⟩
      · have := List.length_pos_iff_exists_mem.mpr ⟨m, (C02_neighbors g n m t).mpr h1⟩
        omega
      · have := List.length_pos_iff_exists_mem.mpr ⟨m, (C02_predecessors g hd n m t).mpr h1⟩
        omega
  | false =>
    rw [C02_degree_undirected g hd]
    constructor
    · intro hpos
      obtain ⟨m, hm⟩ := List.length_pos_iff_exists_mem.mp hpos
      exact ⟨m, Or.inl ((C02_neighbors g n m t).mp hm)⟩
    · rintro ⟨m, h1 | h1⟩
      · exact List.length_pos_iff_exists_mem.mpr ⟨m, (C02_neighbors g n m t).mpr h1⟩
      · rw [q1_has_symm g hd] at h1
        exact List.length_pos_iff_exists_mem.mpr ⟨m, (C02_neighbors g n m t).mpr h1⟩

/-- 4. `nodes(t)` -/
theorem C02_nodesAt (g : Graph) (n : Node) (x : Int) :
    n ∈ g.nodesAt (some x) ↔
      (g.hasNodeFlat n = true ∧
        ∃ m, g.hasInteraction n m (some x) = true ∨ g.hasInteraction m n (some x) = true) := by
  unfold Graph.nodesAt
  simp only [List.mem_filter, decide_eq_true_eq]
  rw [q1_hasNodeFlat_iff, q1_degree_pos_iff]

theorem C02_nodesAt_none (g : Graph) : g.nodesAt none = g.nodeList := rfl

/-- an endpoint of a stored pair is a node -/
theorem q1_node_of_flat {g : Graph} (hn : NodeInv g) {a b : Node}
    (h : g.hasInteraction a b none = true) : g.hasNodeFlat a = true ∧ g.hasNodeFlat b = true := by
  obtain ⟨e, he, hk⟩ := (hasInteraction_flat_iff g a b).mp h
  have hen := hn.endpoints e he
  rw [q1_key_iff] at hk
  rcases hk with ⟨h1, h2⟩ | ⟨_, h1, h2⟩
  · rw [← h1, ← h2]; exact hen
  · rw [← h1, ← h2]; exact ⟨hen.2, hen.1⟩

/-- under the node invariant membership in `nodes(t)` is pure presence: the node test is implied -/
theorem C02_nodesAt_presence {g : Graph} (hn : NodeInv g) (n : Node) (x : Int) :
    n ∈ g.nodesAt (some x) ↔
      ∃ m, g.hasInteraction n m (some x) = true ∨ g.hasInteraction m n (some x) = true := by
  rw [C02_nodesAt]
  constructor
  · exact fun h => h.2
  · rintro ⟨m, h1 | h1⟩
    · exact ⟨(q1_node_of_flat hn (q1_has_some_flat _ _ _ _ h1)).1, m, Or.inl h1⟩
    · exact ⟨(q1_node_of_flat hn (q1_has_some_flat _ _ _ _ h1)).2, m, Or.inr h1⟩

theorem C02_numberOfNodes (g : Graph) (t : Option Int) :
    g.numberOfNodes t = (g.nodesAt t).length := rfl

theorem C02_nodesAt_nodup {g : Graph} (hn : NodeInv g) (t : Option Int) : (g.nodesAt t).Nodup := by
  cases t with
  | none => exact hn.nodup
  | some x => exact List.Pairwise.filter _ hn.nodup

/-- `number_of_nodes(t)` is the number of distinct nodes with an interaction at `t` -/
theorem C02_numberOfNodes_card {g : Graph} (hn : NodeInv g) (x : Int) (l : List Node) (hl : l.Nodup)
    (hm : ∀ n, n ∈ l ↔
      ∃ m, g.hasInteraction n m (some x) = true ∨ g.hasInteraction m n (some x) = true) :
    g.numberOfNodes (some x) = l.length := by
  unfold Graph.numberOfNodes
  apply List.Perm.length_eq
  rw [List.perm_ext_iff_of_nodup (C02_nodesAt_nodup hn _) hl]
  intro n
  rw [C02_nodesAt_presence hn, hm]

/-- 5. `has_node(n, t)` -/
theorem C02_hasNode (g : Graph) (n : Node) (x : Int) :
    g.hasNode n (some x) = true ↔ n ∈ g.nodesAt (some x) := by
  unfold Graph.hasNode Graph.nodesAt
  simp only [List.mem_filter, Bool.and_eq_true, q1_hasNodeFlat_iff]

theorem C02_hasNode_none (g : Graph) (n : Node) :
    g.hasNode n none = true ↔ n ∈ g.nodeList := q1_hasNodeFlat_iff g n

theorem C02_hasNode_presence {g : Graph} (hn : NodeInv g) (n : Node) (x : Int) :
    g.hasNode n (some x) = true ↔
      ∃ m, g.hasInteraction n m (some x) = true ∨ g.hasInteraction m n (some x) = true := by
  rw [C02_hasNode, C02_nodesAt_presence hn]

/-- 6. `number_of_interactions(u, v, t)` -/
theorem C02_numberOfInteractions2 (g : Graph) (u v : Node) (t : Option Int) :
    g.numberOfInteractions2 u v t = if g.hasInteraction u v t then 1 else 0 := rfl

/-- 7. `all_neighbors(n, t)` -/
theorem C02_allNeighbors_directed (g : Graph) (hd : g.directed = true) (n m : Node) (t : Option Int) :
    m ∈ g.allNeighbors n t ↔ (g.hasInteraction m n t = true ∨ g.hasInteraction n m t = true) := by
  unfold Graph.allNeighbors
  simp only [hd, if_true, List.mem_append]
  rw [C02_predecessors g hd, C02_neighbors]

theorem C02_allNeighbors_undirected (g : Graph) (hd : g.directed = false) (n m : Node) (t : Option Int) :
    m ∈ g.allNeighbors n t ↔ g.hasInteraction n m t = true := by
  unfold Graph.allNeighbors
  simp only [hd, Bool.false_eq_true, if_false]
  exact C02_neighbors g n m t

/-- both classes at once -/
theorem C02_allNeighbors (g : Graph) (n m : Node) (t : Option Int) :
    m ∈ g.allNeighbors n t ↔ (g.hasInteraction m n t = true ∨ g.hasInteraction n m t = true) := by
  cases hd : g.directed with
  | true => exact C02_allNeighbors_directed g hd n m t
  | false =>
    rw [C02_allNeighbors_undirected g hd, q1_has_symm g hd m n]
    simp

/-- 8. `non_neighbors(n, t)` -/
theorem C02_nonNeighbors (g : Graph) (n m : Node) (t : Option Int) :
    m ∈ g.nonNeighbors n t ↔ (m ∈ g.nodeList ∧ m ≠ n ∧ ¬ (m ∈ g.allNeighbors n t)) := by
  unfold Graph.nonNeighbors
  simp [List.mem_filter]

theorem C02_nonNeighbors_presence (g : Graph) (n m : Node) (t : Option Int) :
    m ∈ g.nonNeighbors n t ↔
      (m ∈ g.nodeList ∧ m ≠ n ∧ g.hasInteraction m n t = false ∧ g.hasInteraction n m t = false) := by
  rw [C02_nonNeighbors, C02_allNeighbors]
  simp

/-- 9. `is_empty` -/
theorem C02_isEmpty (g : Graph) :
    g.isEmpty = true ↔ ∀ a b, g.hasInteraction a b none = false := by
  unfold Graph.isEmpty
  constructor
  · intro h a b
    have : g.edges = [] := by simpa using h
    simp [Graph.hasInteraction, Graph.findEdge, this]
  · intro h
    cases he : g.edges with
    | nil => rfl
    | cons e rest =>
      have : g.hasInteraction e.u e.v none = true :=
        (hasInteraction_flat_iff g e.u e.v).mpr ⟨e, by rw [he]; exact List.mem_cons_self, sameKey_refl _ _ _⟩
      rw [h] at this; cases this

/-- 10. `get_node_snapshots(n)` -/
theorem C02_nodeSnapshots (g : Graph) (n : Node) (x : Int) :
    x ∈ g.nodeSnapshots n ↔ (x ∈ g.ids ∧ g.hasNode n (some x) = true) := by
  unfold Graph.nodeSnapshots
  rw [List.mem_filter]

/-! ## histories -/

theorem q1_run_wf (d : Bool) (ops : List Op) : WF ((Graph.empty d true).run ops).1 :=
  (run_ok _ (WF.empty d true) rfl ops).wf

theorem q1_run_nodeInv (d r : Bool) (ops : List Op) : NodeInv ((Graph.empty d r).run ops).1 :=
  run_nodeInv _ (NodeInv.empty d r) ops

theorem q1_run_directed (d r : Bool) (ops : List Op) : ((Graph.empty d r).run ops).1.directed = d := by
  cases r with
  | true => exact (run_ok _ (WF.empty d true) rfl ops).directed
  | false => exact (run_accInv _ rfl [] (AccInv.empty d) ops).2.1

/-- no pair is stored twice, in either mode -/
theorem q1_run_keys (d r : Bool) (ops : List Op) : q1_Keys ((Graph.empty d r).run ops).1 := by
  cases r with
  | true => exact (q1_run_wf d ops).keys
  | false => exact (run_accInv _ rfl [] (AccInv.empty d) ops).2.2.1.keys

theorem C02_history_neighbors (d : Bool) (ops : List Op) (n m : Node) (t : Option Int) :
    let g := ((Graph.empty d true).run ops).1
    m ∈ g.neighbors n t ↔ g.hasInteraction n m t = true := by
  intro g; exact C02_neighbors g n m t

theorem C02_history_neighbors_nodup (d : Bool) (ops : List Op) (n : Node) (t : Option Int) :
    let g := ((Graph.empty d true).run ops).1
    (g.neighbors n t).Nodup := by
  intro g; exact C02_neighbors_nodup (q1_run_wf d ops) n t

/-- end to end: the neighbours of `n` at `x` are the `m` for which some accepted call covers `x` -/
theorem C02_history_neighbors_log (d : Bool) (ops : List Op) (n m : Node) (x : Int) :
    m ∈ ((Graph.empty d true).run ops).1.neighbors n (some x) ↔
      inLog d ((Graph.empty d true).runLog ops) n m x := by
  rw [C02_neighbors, (run_ok _ (WF.empty d true) rfl ops).presence, empty_hasInteraction]
  simp [Graph.empty]

theorem C02_history_predecessors (ops : List Op) (n m : Node) (t : Option Int) :
    let g := ((Graph.empty true true).run ops).1
    m ∈ g.predecessors n t ↔ g.hasInteraction m n t = true := by
  intro g; exact C02_predecessors g (q1_run_directed true true ops) n m t

theorem C02_history_predecessors_nodup (ops : List Op) (n : Node) (t : Option Int) :
    let g := ((Graph.empty true true).run ops).1
    (g.predecessors n t).Nodup := by
  intro g; exact C02_predecessors_nodup (q1_run_wf true ops) n t

theorem C02_history_nodesAt (d : Bool) (ops : List Op) (n : Node) (x : Int) :
    let g := ((Graph.empty d true).run ops).1
    n ∈ g.nodesAt (some x) ↔
      ∃ m, g.hasInteraction n m (some x) = true ∨ g.hasInteraction m n (some x) = true := by
  intro g; exact C02_nodesAt_presence (q1_run_nodeInv d true ops) n x

theorem C02_history_nodesAt_nodup (d : Bool) (ops : List Op) (t : Option Int) :
    let g := ((Graph.empty d true).run ops).1
    (g.nodesAt t).Nodup := by
  intro g; exact C02_nodesAt_nodup (q1_run_nodeInv d true ops) t

theorem C02_history_hasNode (d : Bool) (ops : List Op) (n : Node) (x : Int) :
    let g := ((Graph.empty d true).run ops).1
    g.hasNode n (some x) = true ↔
      ∃ m, g.hasInteraction n m (some x) = true ∨ g.hasInteraction m n (some x) = true := by
  intro g; exact C02_hasNode_presence (q1_run_nodeInv d true ops) n x

theorem C02_history_allNeighbors (d : Bool) (ops : List Op) (n m : Node) (t : Option Int) :
    let g := ((Graph.empty d true).run ops).1
    m ∈ g.allNeighbors n t ↔ (g.hasInteraction m n t = true ∨ g.hasInteraction n m t = true) := by
  intro g; exact C02_allNeighbors g n m t

theorem C02_history_nonNeighbors (d : Bool) (ops : List Op) (n m : Node) (t : Option Int) :
    let g := ((Graph.empty d true).run ops).1
    m ∈ g.nonNeighbors n t ↔
      (m ∈ g.nodeList ∧ m ≠ n ∧ g.hasInteraction m n t = false ∧ g.hasInteraction n m t = false) := by
  intro g; exact C02_nonNeighbors_presence g n m t

/-- the adjacency lists are duplicate-free in accumulative mode too -/
theorem C02_history_nodup_anymode (d r : Bool) (ops : List Op) (n : Node) (t : Option Int) :
    let g := ((Graph.empty d r).run ops).1
    (g.neighbors n t).Nodup ∧ (g.predecessors n t).Nodup ∧ (g.nodesAt t).Nodup := by
  intro g
  exact ⟨List.Pairwise.filter _ (q1_succs_nodup_of_keys (q1_run_keys d r ops) n),
    List.Pairwise.filter _ (q1_preds_nodup_of_keys (q1_run_keys d r ops) n),
    C02_nodesAt_nodup (q1_run_nodeInv d r ops) t⟩

/-! ## non-vacuity -/

/-- `1–2` on `[3,5]`, `1–3` at `7`, undirected -/
def q1_demo : Graph :=
  ((Graph.empty false true).run [Op.add 1 2 (some 3) (some 6), Op.add 3 1 (some 7) none]).1

example : q1_demo.neighbors 1 (some 4) = [2] ∧ q1_demo.neighbors 1 (some 6) = [] ∧
    q1_demo.neighbors 1 (some 7) = [3] ∧ q1_demo.neighbors 1 none = [2, 3] ∧
    q1_demo.hasInteraction 1 2 (some 4) = true ∧ q1_demo.hasInteraction 1 2 (some 6) = false := by
  decide

example : q1_demo.nodesAt (some 4) = [1, 2] ∧ q1_demo.nodesAt (some 7) = [1, 3] ∧
    q1_demo.nodesAt none = [1, 2, 3] ∧ q1_demo.hasNode 2 (some 7) = false ∧
    q1_demo.nonNeighbors 1 (some 4) = [3] ∧ q1_demo.degree 1 none = 2 := by
  decide

/-- directed: `1→2` on `[3,5]`, `3→1` at `4` -/
def q1_demoD : Graph :=
  ((Graph.empty true true).run [Op.add 1 2 (some 3) (some 6), Op.add 3 1 (some 4) none]).1

example : q1_demoD.neighbors 1 (some 4) = [2] ∧ q1_demoD.predecessors 1 (some 4) = [3] ∧
    q1_demoD.predecessors 1 (some 5) = [] ∧ q1_demoD.allNeighbors 1 (some 4) = [3, 2] ∧
    q1_demoD.degree 1 (some 4) = 2 ∧ q1_demoD.degree 1 (some 5) = 1 := by
  decide

end Dynetx
