import DynetxModel.Generated.ApiTable
/-
  C19: theorems over the API table that harness/props_api.py regenerates, on every run, from the installed
  networkx and the current /repo (static columns: inherited / overridden / decorated with
  @not_implemented; observed columns: number of probe calls, how many raised, how many raised
  NetworkXNotImplemented, strongest effect seen (0 none, 1 node set / attributes only, 2 interactions,
  timelines, snapshots or stream), number of probe calls after which the state was inconsistent).
  The quantifier is finite (the rows of the table), so `decide` is a proof; what an inherited networkx
  method really does is observed by the probe, not proved.
-/
namespace Dynetx.Api

/-- the only entry points that may change interactions: the timed dynetx API, and clear / clear_edges
    (which reset the whole temporal state) -/
def mayMutate : List String :=
  ["add_interaction", "add_interactions_from", "add_path", "add_star", "add_cycle", "clear", "clear_edges"]

/-- known finding D23 (pinned by test_functions_directed): the timed mutators are not frozen -/
def knownNotFrozen : List String :=
  ["add_interaction", "add_interactions_from", "add_path", "add_star", "add_cycle"]

/-- every listed (blocked) entry point that exists raised NetworkXNotImplemented in every probe call and
    never touched interactions, timelines, snapshots or the stream -/
theorem C19_blocked :
    table.all (fun r => !r.listed || r.frozen || (r.probed && r.allNxni && decide (r.effect ≤ 1))) = true := by
  decide +kernel

/-- a listed entry point is blocked in the source: it carries the decorator, or it is inherited unchanged
    and reaches a decorated one (add_weighted_edges_from, update -> add_edges_from) -/
theorem C19_blocked_static :
    table.all (fun r => !r.listed || r.frozen || r.decorated || !r.overridden) = true := by
  decide +kernel

/-- no probe call through any public entry point left an adjacency entry without a timeline, succ/pred
    out of step, or the stream out of step with presence -/
theorem C19_consistent : table.all (fun r => !r.inconsistent) = true := by
  decide +kernel

/-- only the timed dynetx API (and clear / clear_edges) changes interactions on an unfrozen graph -/
theorem C19_only_timed_mutate :
    table.all (fun r => r.frozen || decide (r.effect ≤ 1) || mayMutate.contains r.name) = true := by
  decide +kernel

/-- on a frozen graph every mutator raised and changed nothing, except the known finding D23 -/
theorem C19_frozen_partial :
    table.all (fun r => !r.frozen || (r.allRaised && r.effect == 0) || knownNotFrozen.contains r.name) = true := by
  decide +kernel

/-- the table is not vacuous: the blocked names of both classes and the frozen rows are there -/
theorem C19_nonvacuous :
    (table.filter (fun r => r.listed && !r.frozen)).length ≥ 20 ∧ (table.filter (fun r => r.frozen)).length ≥ 10 := by
  decide +kernel

end Dynetx.Api
