import DynetxModel
import DynetxProofs.TextRoundtrip
import DynetxProofs.C18Multi
/-
  C09 / C10 at the text level for delimiters and comment markers of several characters: a row printed by the writers
  with the delimiter `D` (`D.join(str(x) for x in row)`) is read back by the parsers as exactly that row, whenever no
  character of `D` is a digit, a sign or a blank and the comment marker starts with a character that occurs neither in
  the numbers nor in `D`.
-/
namespace Dynetx

theorem isPrefixOf_cons_of_not_mem (c : Char) (cs l : List Char) (h : c ∉ l) : ∀ i, (c :: cs).isPrefixOf (l.drop i) = false := by
  intro i
  cases hd : l.drop i with
  | nil => rfl
  | cons x xs =>
    have hx : x ∈ l := List.mem_of_mem_drop (by rw [hd]; simp)
    have : (c == x) = false := by
      simp only [beq_eq_false_iff_ne, ne_eq]
      rintro rfl; exact h hx
    simp [List.isPrefixOf, this]

theorem mem_intercalate {D : List Char} {fs : List (List Char)} {c : Char} (h : c ∈ D.intercalate fs) :
    c ∈ D ∨ ∃ f ∈ fs, c ∈ f := by
  induction fs with
  | nil => simp [List.intercalate] at h
  | cons f rest ih =>
    cases rest with
    | nil =>
      have : D.intercalate [f] = f := by simp [List.intercalate]
      rw [this] at h
      exact Or.inr ⟨f, by simp, h⟩
    | cons g rest' =>
      have hj : D.intercalate (f :: g :: rest') = f ++ (D ++ D.intercalate (g :: rest')) := by
        simp [List.intercalate, List.intersperse, List.flatten, List.append_assoc]
      rw [hj] at h
      rcases List.mem_append.1 h with h | h
      · exact Or.inr ⟨f, by simp, h⟩
      · rcases List.mem_append.1 h with h | h
        · exact Or.inl h
        · rcases ih h with h | ⟨f', hf', hc⟩
          · exact Or.inl h
          · exact Or.inr ⟨f', List.mem_cons_of_mem _ hf', hc⟩

/-- the fields the parsers see in a line joined with `D` -/
theorem fieldsOfS_join (cm D : List Char) (fs : List (List Char)) (hfs : fs ≠ []) (hne : ∃ f ∈ fs, f ≠ [])
    (hD : D ≠ []) (hDw : ∀ c ∈ D, isWs c = false)
    (hfw : ∀ f ∈ fs, ∀ c ∈ f, isWs c = false) (hfD : ∀ f ∈ fs, ∀ c ∈ f, c ∉ D)
    (c0 : Char) (cs : List Char) (hcm : cm = c0 :: cs) (hc0D : c0 ∉ D) (hc0f : ∀ f ∈ fs, c0 ∉ f) :
    fieldsOfS cm (some D) (D.intercalate fs) = .fields fs := by
  have hnot : c0 ∉ D.intercalate fs := by
    intro h
    rcases mem_intercalate h with h | ⟨f, hf, hc⟩
    · exact hc0D h
    · exact hc0f f hf hc
  have hcut : cutCommentS cm (D.intercalate fs) = D.intercalate fs := by
    apply C18S_comment_absent
    intro i _
    rw [hcm]
    exact isPrefixOf_cons_of_not_mem c0 cs _ hnot i
  have hnonempty : (D.intercalate fs).isEmpty = false := by
    obtain ⟨f, hf, hfne⟩ := hne
    cases hl : D.intercalate fs with
    | nil =>
      exfalso
      -- a non-empty field contributes its characters to the joined line
      obtain ⟨c, hc⟩ := List.exists_mem_of_ne_nil f hfne
      have : c ∈ D.intercalate fs := by
        clear hcut hnot hl
        induction fs with
        | nil => simp at hf
        | cons g rest ih =>
          cases rest with
          | nil =>
            simp only [List.mem_singleton] at hf
            subst hf
            simpa [List.intercalate] using hc
          | cons g' rest' =>
            have hj : D.intercalate (g :: g' :: rest') = g ++ (D ++ D.intercalate (g' :: rest')) := by
              simp [List.intercalate, List.intersperse, List.flatten, List.append_assoc]
            rw [hj]
            rcases List.mem_cons.1 hf with rfl | hf'
            · exact List.mem_append_left _ hc
            · exact List.mem_append_right _ (List.mem_append_right _
                (ih (by simp) (fun f' hf'' => hfw f' (List.mem_cons_of_mem _ hf''))
                  (fun f' hf'' => hfD f' (List.mem_cons_of_mem _ hf''))
                  (fun f' hf'' => hc0f f' (List.mem_cons_of_mem _ hf'')) hf'))
      rw [hl] at this
      simp at this
    | cons x xs => rfl
  have hstrip : strip (D.intercalate fs) = D.intercalate fs := by
    apply txt_strip_clean
    intro c hc
    rcases mem_intercalate hc with h | ⟨f, hf, hcf⟩
    · exact hDw c h
    · exact hfw f hf c hcf
  unfold fieldsOfS
  simp only [hcut, hnonempty, Bool.false_eq_true, if_false, hstrip, C18S_split_join_opt D hD fs hfs hfD]

/-- **C09 (text, any delimiter).**  A snapshot row printed with the delimiter `D` is read back as that row. -/
theorem C09S_text_snapRow (cm D : List Char) (u v : Node) (t : Int) (hD : D ≠ [])
    (hDc : ∀ c ∈ D, c.isDigit = false ∧ c ≠ '-' ∧ isWs c = false)
    (c0 : Char) (cs : List Char) (hcm : cm = c0 :: cs) (hc0 : c0.isDigit = false ∧ c0 ≠ '-' ∧ c0 ∉ D) :
    snapRowS cm (some D) (D.intercalate [natDigits u, natDigits v, intDigits t]) = .row u v t none := by
  have hf := fieldsOfS_join cm D (txt_snapFields u v t) (by simp [txt_snapFields])
    ⟨natDigits u, by simp [txt_snapFields], txt_natDigits_ne_nil u⟩ hD (fun c hc => (hDc c hc).2.2)
    (txt_snapFields_ws u v t)
    (fun f hf c hc hcd => txt_snapFields_notin c ⟨(hDc c hcd).1, (hDc c hcd).2.1⟩ u v t f hf hc)
    c0 cs hcm hc0.2.2 (txt_snapFields_notin c0 ⟨hc0.1, hc0.2.1⟩ u v t)
  unfold snapRowS
  unfold txt_snapFields at hf
  rw [hf]
  simp only [Text_nat_roundtrip, Text_int_roundtrip]

/-- **C10 (text, any delimiter).**  An interaction row printed with the delimiter `D` is read back as that event. -/
theorem C10S_text_intRow (cm D : List Char) (u v : Node) (plus : Bool) (t : Int) (hD : D ≠ [])
    (hDc : ∀ c ∈ D, c.isDigit = false ∧ c ≠ '-' ∧ c ≠ '+' ∧ isWs c = false)
    (c0 : Char) (cs : List Char) (hcm : cm = c0 :: cs) (hc0 : c0.isDigit = false ∧ c0 ≠ '-' ∧ c0 ≠ '+' ∧ c0 ∉ D) :
    intRowS cm (some D) (D.intercalate [natDigits u, natDigits v, [if plus then '+' else '-'], intDigits t])
      = .row { t := t, u := u, v := v, plus := plus } := by
  have hf := fieldsOfS_join cm D (txt_intFields u v plus t) (by simp [txt_intFields])
    ⟨natDigits u, by simp [txt_intFields], txt_natDigits_ne_nil u⟩ hD (fun c hc => (hDc c hc).2.2.2)
    (txt_intFields_ws u v plus t)
    (fun f hf c hc hcd => txt_intFields_notin c ⟨(hDc c hcd).1, (hDc c hcd).2.1, (hDc c hcd).2.2.1⟩ u v plus t f hf hc)
    c0 cs hcm hc0.2.2.2 (txt_intFields_notin c0 ⟨hc0.1, hc0.2.1, hc0.2.2.1⟩ u v plus t)
  unfold intRowS
  unfold txt_intFields at hf
  rw [hf]
  simp only [Text_nat_roundtrip, Text_int_roundtrip]
  cases plus <;> rfl

/-- non-vacuity: `'::'` and the marker `'//'` meet the hypotheses -/
example : snapRowS ['/', '/'] (some [':', ':']) ([':', ':'].intercalate [natDigits 12, natDigits 3, intDigits (-45)])
    = .row 12 3 (-45) none :=
  C09S_text_snapRow _ _ 12 3 (-45) (by simp) (by decide) '/' ['/'] rfl (by decide)

/-! ### whole files -/

/-- `generate_snapshots(G, delimiter=D)` / `generate_interactions(G, delimiter=D)` for a delimiter of any length -/
def Graph.snapshotLinesS (g : Graph) (D : List Char) : List (List Char) :=
  g.genSnapshots.map (fun r => D.intercalate [natDigits r.1, natDigits r.2.1, intDigits r.2.2])

def Graph.interactionLinesS (g : Graph) (D : List Char) : List (List Char) :=
  g.genInteractions.map (fun ev =>
    D.intercalate [natDigits ev.u, natDigits ev.v, [if ev.plus then '+' else '-'], intDigits ev.t])

theorem parseSnapshotsTextS_go_map (cm : List Char) (delim : Option (List Char)) (line : Node × Node × Int → List Char)
    (h : ∀ r, snapRowS cm delim (line r) = .row r.1 r.2.1 r.2.2 none) (rows : List (Node × Node × Int)) :
    ∀ g, parseSnapshotsTextS.go cm delim g (rows.map line) = g.addMany (rows.map (fun r => (r.1, r.2.1, r.2.2, none))) := by
  induction rows with
  | nil => intro g; rfl
  | cons r rest ih =>
    intro g
    simp only [List.map_cons, parseSnapshotsTextS.go, h r, Graph.addMany]
    cases g.addInteraction r.1 r.2.1 (some r.2.2) none with
    | mk g' o =>
      cases o with
      | none => exact ih g'
      | some e => rfl

theorem parseInteractionsTextS_go_map (cm : List Char) (delim : Option (List Char)) (line : Ev → List Char)
    (h : ∀ r, intRowS cm delim (line r) = .row r) (rows : List Ev) :
    ∀ g, parseInteractionsTextS.go cm delim g (rows.map line) = g.replayRows rows := by
  induction rows with
  | nil => intro g; rfl
  | cons r rest ih =>
    intro g
    simp only [List.map_cons, parseInteractionsTextS.go, h r, Graph.replayRows]
    cases g.replayRow r with
    | mk g' o =>
      cases o with
      | none => exact ih g'
      | some e => rfl

/-- **C09 at text level, any delimiter**: what `generate_snapshots(G, D)` prints is parsed with `delimiter=D` into
    exactly the rows of `generate_snapshots` -/
theorem C09S_text_roundtrip (g : Graph) (cm D : List Char) (hD : D ≠ [])
    (hDc : ∀ c ∈ D, c.isDigit = false ∧ c ≠ '-' ∧ isWs c = false)
    (c0 : Char) (cs : List Char) (hcm : cm = c0 :: cs) (hc0 : c0.isDigit = false ∧ c0 ≠ '-' ∧ c0 ∉ D) :
    parseSnapshotsTextS g.directed cm (some D) (g.snapshotLinesS D)
      = parseSnapshots g.directed (g.genSnapshots.map (fun r => (r.1, r.2.1, r.2.2, none))) := by
  unfold parseSnapshotsTextS parseSnapshots Graph.snapshotLinesS
  exact parseSnapshotsTextS_go_map cm (some D) _
    (fun r => C09S_text_snapRow cm D r.1 r.2.1 r.2.2 hD hDc c0 cs hcm hc0) g.genSnapshots _

/-- **C10 at text level, any delimiter** -/
theorem C10S_text_roundtrip (g : Graph) (cm D : List Char) (hD : D ≠ [])
    (hDc : ∀ c ∈ D, c.isDigit = false ∧ c ≠ '-' ∧ c ≠ '+' ∧ isWs c = false)
    (c0 : Char) (cs : List Char) (hcm : cm = c0 :: cs) (hc0 : c0.isDigit = false ∧ c0 ≠ '-' ∧ c0 ≠ '+' ∧ c0 ∉ D) :
    parseInteractionsTextS g.directed cm (some D) (g.interactionLinesS D)
      = parseInteractions g.directed g.genInteractions := by
  unfold parseInteractionsTextS parseInteractions Graph.interactionLinesS
  exact parseInteractionsTextS_go_map cm (some D) _
    (fun r => C10S_text_intRow cm D r.u r.v r.plus r.t hD hDc c0 cs hcm hc0) g.genInteractions _

/-- **C09, text, any delimiter**: for every graph built by a history of calls, writing the snapshot rows with `D` and
    reading them back with `D` raises nothing and gives a graph with the same presence -/
theorem C09S_text_presence (d0 : Bool) (ops : List Op) (cm D : List Char) (hD : D ≠ [])
    (hDc : ∀ c ∈ D, c.isDigit = false ∧ c ≠ '-' ∧ isWs c = false)
    (c0 : Char) (cs : List Char) (hcm : cm = c0 :: cs) (hc0 : c0.isDigit = false ∧ c0 ≠ '-' ∧ c0 ∉ D) :
    let g := ((Graph.empty d0 true).run ops).1
    ∃ H, parseSnapshotsTextS d0 cm (some D) (g.snapshotLinesS D) = (H, none) ∧ WF H ∧ H.directed = d0 ∧
      ∀ u v x, H.hasInteraction u v (some x) = g.hasInteraction u v (some x) := by
  intro g
  have hdir : g.directed = d0 := (run_ok (Graph.empty d0 true) (WF.empty _ _) rfl ops).directed
  obtain ⟨H, h1, h2, h3, h4⟩ := (C09_history d0 ops).2.2
  refine ⟨H, ?_, h2, h3, h4⟩
  have := C09S_text_roundtrip g cm D hD hDc c0 cs hcm hc0
  rw [hdir] at this
  rw [this]; exact h1

end Dynetx
