import DynetxProofs.C15
/-
  C12 — soundness of `Graph.timeRespectingPaths` / `Graph.allTimeRespectingPaths`
  (algorithms/paths.py `time_respecting_paths`, `all_time_respecting_paths`).

  Plan: (1) a new fold invariant of the DAG construction for the "still active" clause, (2) lemmas on
  `simplePathsGo`, (3) `hopsOf`, (4) `pingPongOk`, (5) the main theorems, (6) the all-pairs variant,
  (7) a closed example, (8) completeness of `simplePaths` relative to the DAG.
-/
namespace Dynetx

/-! ### 1. the activity invariant of the DAG fold -/

theorem c12_inner_toRemove (g : Graph) (v : Option Node) (tid : Int) (act : List Occ) (acc : StepAcc) (o : Occ) :
    o ∈ (act.foldl (innerF g v tid) acc).2.2.2 ↔
      o ∈ acc.2.2.2 ∨ (o ∈ act ∧ g.neighbors o.1 (some tid) = []) := by
  induction act generalizing acc with
  | nil => simp
  | cons a act ih =>
    rw [List.foldl_cons, ih]
    simp only [innerF, List.mem_cons]
    constructor
    · rintro (h | ⟨h1, h2⟩)
      · split at h
        · rename_i hemp
          rw [List.mem_append, List.mem_singleton] at h
          rcases h with h | rfl
          · exact Or.inl h
          · exact Or.inr ⟨Or.inl rfl, List.isEmpty_iff.mp hemp⟩
        · exact Or.inl h
      · exact Or.inr ⟨Or.inr h1, h2⟩
    · rintro (h | ⟨rfl | h1, h2⟩)
      · left
        split
        · exact List.mem_append_left _ h
        · exact h
      · left
        rw [if_pos (List.isEmpty_iff.mpr h2)]
        exact List.mem_append_right _ (List.mem_singleton.mpr rfl)
      · exact Or.inr ⟨h1, h2⟩

/-- an occurrence that survives a step either was active and still interacts at `tid`, or is new at `tid` -/
theorem c12_dagStep_active (g : Graph) (u : Node) (v : Option Node) (st : Dag) (tid : Int) (a : Occ)
    (h : a ∈ (dagStep g u v st tid).active) :
    (a ∈ st.active ∧ g.neighbors a.1 (some tid) ≠ []) ∨ a.2 = tid := by
  rcases dagStep_active _ _ _ _ _ _ h with ha | ha
  · left
    refine ⟨ha, ?_⟩
    intro hemp
    rw [dagStep_eq] at h
    simp only [List.mem_filter] at h
    have hrem : a ∈ (st.active.foldl (innerF g v tid) (rootAcc g u v st tid)).2.2.2 :=
      (c12_inner_toRemove ..).mpr (Or.inr ⟨ha, hemp⟩)
    have := h.2
    rw [List.contains_iff_mem.mpr hrem] at this
    simp at this
  · exact Or.inr ha

/-- the activity part of the invariant (strictly increasing instants): between the departure time `s` and the
    arrival time `t` of an edge `x@s → y@t` the node `x` interacts at every processed instant; the same for the
    still active occurrences -/
structure c12_DagInvA (g : Graph) (done : List Int) (d : Dag) : Prop where
  edge_act : ∀ e ∈ d.edges, e.1.2 < e.2.2 → ∀ w ∈ done, e.1.2 < w → w < e.2.2 → g.neighbors e.1.1 (some w) ≠ []
  active_act : ∀ a ∈ d.active, ∀ w ∈ done, a.2 < w → g.neighbors a.1 (some w) ≠ []

theorem c12_DagInvA.empty (g : Graph) : c12_DagInvA g [] Dag.empty := by
  constructor <;> simp [Dag.empty]

theorem c12_DagInvA.step {g : Graph} {u : Node} {v : Option Node} {done : List Int} {st : Dag}
    (h : c12_DagInvA g done st) (h0 : DagInv g u v done st)
    (tid : Int) (hlt : ∀ t ∈ done, t < tid) :
    c12_DagInvA g (done ++ [tid]) (dagStep g u v st tid) := by
  constructor
  · intro e he hst w hw h1 h2
    rw [List.mem_append, List.mem_singleton] at hw
    rcases (dagStep_edges ..).mp he with he' | ⟨n, hn, rfl⟩ | ⟨an, han, n, hn, rfl⟩
    · rcases hw with hw | rfl
      · exact h.edge_act e he' hst w hw h1 h2
      · have := hlt _ (h0.edge_win e he')
        omega
    · simp at hst
    · rcases hw with hw | rfl
      · exact h.active_act an han w hw h1
      · simp at h2
  · intro a ha w hw h1
    rw [List.mem_append, List.mem_singleton] at hw
    rcases c12_dagStep_active _ _ _ _ _ _ ha with ⟨ha, hne⟩ | ha
    · rcases hw with hw | rfl
      · exact h.active_act a ha w hw h1
      · exact hne
    · rcases hw with hw | rfl
      · have := hlt _ hw
        omega
      · omega

theorem c12_DagInvA.foldl {g : Graph} {u : Node} {v : Option Node} (w : List Int) :
    ∀ (done : List Int) (d : Dag), c12_DagInvA g done d → DagInv g u v done d →
      (done ++ w).Pairwise (· < ·) → c12_DagInvA g (done ++ w) (w.foldl (dagStep g u v) d) := by
  induction w with
  | nil => intro done d h _ _; simpa using h
  | cons t w ih =>
    intro done d h h0 hp
    have hlt : ∀ s ∈ done, s < t := by
      intro s hs
      exact (List.pairwise_append.mp hp).2.2 s hs t (List.mem_cons_self)
    have hp' : ((done ++ [t]) ++ w).Pairwise (· < ·) := by simpa [List.append_assoc] using hp
    have := ih (done ++ [t]) _ (h.step h0 t hlt) (h0.step t) hp'
    simpa [List.append_assoc] using this

theorem c12_invA_fold (g : Graph) (u : Node) (v : Option Node) (w : List Int) (hw : w.Pairwise (· < ·)) :
    c12_DagInvA g w (w.foldl (dagStep g u v) Dag.empty) := by
  simpa using c12_DagInvA.foldl (g := g) (u := u) (v := v) w [] Dag.empty (c12_DagInvA.empty g)
    (DagInv.empty g u v) (by simpa using hw)

/-- on an edge `x@s → y@t` with `s < t`, `x` interacts at every window instant strictly between `s` and `t` -/
theorem c12_edge_active {g : Graph} {u : Node} {v : Option Node} {start stop : Option Int} {d : Dag}
    (hids : g.ids.Pairwise (· < ·)) (h : g.temporalDag u v start stop = .ok d) :
    ∀ e ∈ d.edges, e.1.2 < e.2.2 → ∀ w ∈ dagWindow g start stop, e.1.2 < w → w < e.2.2 →
      g.neighbors e.1.1 (some w) ≠ [] := by
  rw [temporalDag_ok h]
  exact (c12_invA_fold g u v _ (dagWindow_pairwise hids start stop)).edge_act

/-! ### generic "all consecutive pairs" predicate -/

/-- `R` holds between every two consecutive elements of the list -/
def c12_consec {α : Type} (R : α → α → Prop) : List α → Prop
  | a :: b :: rest => R a b ∧ c12_consec R (b :: rest)
  | _ => True

@[simp] theorem c12_consec_nil {α : Type} (R : α → α → Prop) : c12_consec R [] = True := rfl
@[simp] theorem c12_consec_single {α : Type} (R : α → α → Prop) (a : α) : c12_consec R [a] = True := rfl
@[simp] theorem c12_consec_cons2 {α : Type} (R : α → α → Prop) (a b : α) (rest : List α) :
    c12_consec R (a :: b :: rest) = (R a b ∧ c12_consec R (b :: rest)) := rfl

/-- `c12_consec` says exactly: whenever `a, b` occur next to each other in `p`, `R a b` -/
theorem c12_consec_iff {α : Type} (R : α → α → Prop) (p : List α) :
    c12_consec R p ↔ ∀ l a b r, p = l ++ a :: b :: r → R a b := by
  induction p with
  | nil =>
    simp only [c12_consec_nil, true_iff]
    intro l a b r h
    simp at h
  | cons x p ih =>
    cases p with
    | nil =>
      simp only [c12_consec_single, true_iff]
      intro l a b r h
      have := congrArg List.length h
      simp at this
      omega
    | cons y p =>
      rw [c12_consec_cons2, ih]
      constructor
      · rintro ⟨h1, h2⟩ l a b r h
        cases l with
        | nil =>
          simp only [List.nil_append, List.cons.injEq] at h
          obtain ⟨rfl, rfl, _⟩ := h
          exact h1
        | cons z l =>
          simp only [List.cons_append, List.cons.injEq] at h
          exact h2 l a b r h.2
      · intro h
        refine ⟨h [] x y p rfl, ?_⟩
        intro l a b r h'
        exact h (x :: l) a b r (by rw [h']; rfl)

theorem c12_consec_mono {α : Type} {R S : α → α → Prop} (hRS : ∀ a b, R a b → S a b) :
    ∀ p : List α, c12_consec R p → c12_consec S p
  | [], _ => trivial
  | [_], _ => trivial
  | _ :: b :: rest, h => ⟨hRS _ _ h.1, c12_consec_mono hRS (b :: rest) h.2⟩

/-! ### 2. `simplePathsGo` -/

/-- every path returned by the search starts at the current occurrence, ends at the target and follows edges -/
theorem c12_simplePathsGo_spec (edges : List (Occ × Occ)) (target : Occ) :
    ∀ (fuel : Nat) (cur : Occ) (visited p : List Occ), p ∈ simplePathsGo edges target fuel cur visited →
      p.head? = some cur ∧ p.getLast? = some target ∧ c12_consec (fun a b => (a, b) ∈ edges) p := by
  intro fuel
  induction fuel with
  | zero => intro cur visited p h; simp [simplePathsGo] at h
  | succ fuel ih =>
    intro cur visited p h
    unfold simplePathsGo at h
    split at h
    · rename_i hct
      have : cur = target := eq_of_beq hct
      subst this
      simp only [List.mem_singleton] at h
      subst h
      simp
    · simp only [List.mem_flatMap, List.mem_filter, List.mem_map] at h
      obtain ⟨n, ⟨⟨e, ⟨he, hec⟩, rfl⟩, _⟩, p', hp', rfl⟩ := h
      obtain ⟨h1, h2, h3⟩ := ih _ _ _ hp'
      cases p' with
      | nil => simp at h1
      | cons y p'' =>
        simp only [List.head?_cons, Option.some.injEq] at h1
        subst h1
        have hcur : e.1 = cur := eq_of_beq hec
        refine ⟨rfl, ?_, ?_, h3⟩
        · rw [List.getLast?_cons_cons]; exact h2
        · rw [← hcur]; exact he

theorem c12_simplePaths_nonempty {d : Dag} {s t : Occ} {p : List Occ} (h : p ∈ simplePaths d s t) : p ≠ [] := by
  have := (c12_simplePathsGo_spec _ _ _ _ _ _ h).1
  intro hp; subst hp; simp at this

theorem c12_simplePaths_head {d : Dag} {s t : Occ} {p : List Occ} (h : p ∈ simplePaths d s t) :
    p.head? = some s := (c12_simplePathsGo_spec _ _ _ _ _ _ h).1

theorem c12_simplePaths_last {d : Dag} {s t : Occ} {p : List Occ} (h : p ∈ simplePaths d s t) :
    p.getLast? = some t := (c12_simplePathsGo_spec _ _ _ _ _ _ h).2.1

/-- consecutive occurrences of a returned path are edges of the DAG -/
theorem c12_simplePaths_chain {d : Dag} {s t : Occ} {p : List Occ} (h : p ∈ simplePaths d s t) :
    c12_consec (fun a b => (a, b) ∈ d.edges) p := (c12_simplePathsGo_spec _ _ _ _ _ _ h).2.2

/-! ### 3. `hopsOf` -/

@[simp] theorem c12_hopsOf_nil : hopsOf [] = [] := rfl
@[simp] theorem c12_hopsOf_single (a : Occ) : hopsOf [a] = [] := rfl
@[simp] theorem c12_hopsOf_cons2 (a b : Occ) (rest : List Occ) :
    hopsOf (a :: b :: rest) = (a.1, b.1, b.2) :: hopsOf (b :: rest) := rfl

theorem c12_hopsOf_length : ∀ p : List Occ, (hopsOf p).length = p.length - 1
  | [] => rfl
  | [_] => rfl
  | a :: b :: rest => by
    rw [c12_hopsOf_cons2, List.length_cons, c12_hopsOf_length (b :: rest)]
    simp

theorem c12_hopsOf_eq_nil (p : List Occ) : hopsOf p = [] ↔ p.length ≤ 1 := by
  rw [← List.length_eq_zero_iff, c12_hopsOf_length]
  omega

/-- each hop `(a,b,t)` comes from two consecutive occurrences `(a,s)`, `(b,t)` of the path -/
theorem c12_mem_hopsOf (p : List Occ) (h : Hop) :
    h ∈ hopsOf p ↔ ∃ l r s, p = l ++ (h.1, s) :: (h.2.1, h.2.2) :: r := by
  induction p with
  | nil => simp
  | cons x p ih =>
    cases p with
    | nil =>
      simp only [c12_hopsOf_single, List.not_mem_nil, false_iff]
      rintro ⟨l, r, s, h⟩
      have := congrArg List.length h
      simp at this
      omega
    | cons y p =>
      rw [c12_hopsOf_cons2, List.mem_cons, ih]
      constructor
      · rintro (rfl | ⟨l, r, s, h⟩)
        · exact ⟨[], p, x.2, rfl⟩
        · exact ⟨x :: l, r, s, by rw [h]; rfl⟩
      · rintro ⟨l, r, s, h⟩
        cases l with
        | nil =>
          simp only [List.nil_append, List.cons.injEq] at h
          obtain ⟨rfl, rfl, _⟩ := h
          exact Or.inl rfl
        | cons z l =>
          simp only [List.cons_append, List.cons.injEq] at h
          exact Or.inr ⟨l, r, s, h.2⟩

/-- a property of all consecutive pairs of occurrences transfers to the hops -/
theorem c12_hopsOf_forall {R : Occ → Occ → Prop} :
    ∀ p : List Occ, c12_consec R p → ∀ h ∈ hopsOf p, ∃ a b, R a b ∧ h = (a.1, b.1, b.2)
  | [], _, h, hm => by simp at hm
  | [_], _, h, hm => by simp at hm
  | a :: b :: rest, hc, h, hm => by
    rw [c12_hopsOf_cons2, List.mem_cons] at hm
    rcases hm with rfl | hm
    · exact ⟨a, b, hc.1, rfl⟩
    · exact c12_hopsOf_forall (b :: rest) hc.2 h hm

theorem c12_hopsOf_getLast : ∀ (p : List Occ) (t : Occ), p.getLast? = some t → hopsOf p ≠ [] →
    ∃ h, (hopsOf p).getLast? = some h ∧ h.2.1 = t.1 ∧ h.2.2 = t.2
  | [], _, _, hne => by simp at hne
  | [_], _, _, hne => by simp at hne
  | [a, b], t, hl, _ => by
    simp only [List.getLast?_cons_cons, List.getLast?_singleton, Option.some.injEq] at hl
    subst hl
    exact ⟨(a.1, b.1, b.2), rfl, rfl, rfl⟩
  | a :: b :: c :: rest, t, hl, _ => by
    rw [List.getLast?_cons_cons] at hl
    obtain ⟨h, h1, h2⟩ := c12_hopsOf_getLast (b :: c :: rest) t hl (by simp)
    refine ⟨h, ?_, h2⟩
    rw [c12_hopsOf_cons2]
    rw [c12_hopsOf_cons2] at h1 ⊢
    rw [List.getLast?_cons_cons]
    exact h1

/-! ### 4. `pingPongOk` -/

/-- the two rejections of the filter, as a relation between consecutive hops -/
def c12_ppRel (h1 h2 : Hop) : Prop := ¬ (h2.1 = h1.2.1 ∧ h2.2.1 = h1.1) ∧ h2.2.2 ≠ h1.2.2

theorem c12_pingPongOk_iff : ∀ p : TPath, pingPongOk p = true ↔ c12_consec c12_ppRel p
  | [] => by simp [pingPongOk]
  | [_] => by simp [pingPongOk]
  | a :: b :: rest => by
    rw [c12_consec_cons2, ← c12_pingPongOk_iff (b :: rest)]
    simp only [pingPongOk, c12_ppRel, Bool.and_eq_true, Bool.not_eq_true', Bool.or_eq_false_iff,
      Bool.and_eq_false_imp, beq_iff_eq, beq_eq_false_iff_ne, ne_eq]
    constructor
    · rintro ⟨⟨h1, h2⟩, h3⟩
      exact ⟨⟨fun ⟨x, y⟩ => h1 x y, h2⟩, h3⟩
    · rintro ⟨⟨h1, h2⟩, h3⟩
      exact ⟨⟨fun x y => h1 ⟨x, y⟩, h2⟩, h3⟩

/-- `pingPongOk` accepts exactly the hop lists in which no hop reverses the previous one and no two consecutive
    hops carry the same instant -/
theorem c12_pingPongOk_consecutive (p : TPath) :
    pingPongOk p = true ↔ ∀ l h1 h2 r, p = l ++ h1 :: h2 :: r →
      ¬ (h2.1 = h1.2.1 ∧ h2.2.1 = h1.1) ∧ h2.2.2 ≠ h1.2.2 := by
  rw [c12_pingPongOk_iff, c12_consec_iff]
  rfl

/-! ### 5. the specification and the main theorem -/

/-- consecutive hops chain, times strictly increase, no immediate reversal, and the intermediate node
    interacts at every window instant strictly between arrival and departure -/
def c12_linked (g : Graph) (W : List Int) : TPath → Prop
  | h1 :: h2 :: rest =>
      h1.2.1 = h2.1 ∧ h1.2.2 < h2.2.2 ∧ ¬ (h2.2.1 = h1.1) ∧
      (∀ x ∈ W, h1.2.2 < x → x < h2.2.2 → g.neighbors h2.1 (some x) ≠ []) ∧ c12_linked g W (h2 :: rest)
  | _ => True

/-- a genuine time-respecting path from `u` (to `v` when given) inside the window `W` -/
structure ValidTRP (g : Graph) (u : Node) (v : Option Node) (W : List Int) (p : TPath) : Prop where
  nonempty : p ≠ []
  starts : ∀ h, p.head? = some h → h.1 = u
  /-- time in the window, interaction present (a→b on directed graphs) -/
  hops : ∀ h ∈ p, h.2.2 ∈ W ∧ h.2.1 ∈ g.neighbors h.1 (some h.2.2)
  linked : c12_linked g W p
  ends : ∀ w, v = some w → ∀ h, p.getLast? = some h → h.2.1 = w

/-- the `linked` clause for the hops of a chain of edges that passes the ping-pong filter -/
theorem c12_linked_of_chain (g : Graph) (W : List Int) (edges : List (Occ × Occ))
    (htime : ∀ e ∈ edges, e.1.2 ≤ e.2.2)
    (hact : ∀ e ∈ edges, e.1.2 < e.2.2 → ∀ w ∈ W, e.1.2 < w → w < e.2.2 → g.neighbors e.1.1 (some w) ≠ []) :
    ∀ q : List Occ, c12_consec (fun a b => (a, b) ∈ edges) q → pingPongOk (hopsOf q) = true →
      c12_linked g W (hopsOf q)
  | [], _, _ => trivial
  | [_], _, _ => trivial
  | [_, _], _, _ => trivial
  | o0 :: o1 :: o2 :: rest, hc, hp => by
    have hrec := c12_linked_of_chain g W edges htime hact (o1 :: o2 :: rest) hc.2
    rw [c12_hopsOf_cons2, c12_hopsOf_cons2] at hp ⊢
    rw [c12_hopsOf_cons2] at hrec
    rw [c12_pingPongOk_iff, c12_consec_cons2] at hp
    obtain ⟨⟨hrev, hneq⟩, hp'⟩ := hp
    have he : (o1, o2) ∈ edges := hc.2.1
    have hle := htime _ he
    simp only at hle hrev hneq
    have hlt : o1.2 < o2.2 := by omega
    refine ⟨rfl, hlt, ?_, ?_, hrec ((c12_pingPongOk_iff _).mpr hp')⟩
    · intro h
      exact hrev ⟨trivial, h⟩
    · intro x hx h1 h2
      exact hact _ he hlt x hx h1 h2

/-- the hops of a DAG path from a source to a target that pass the filter form a valid time-respecting path -/
theorem c12_path_valid {g : Graph} {u : Node} {v : Option Node} {start stop : Option Int} {d : Dag}
    (hids : g.ids.Pairwise (· < ·)) (hd : g.temporalDag u v start stop = .ok d)
    {s t : Occ} (hs : s ∈ d.sources) (ht : t ∈ d.targets) {q : List Occ} (hq : q ∈ simplePaths d s t)
    (hpp : pingPongOk (hopsOf q) = true) (hne : hopsOf q ≠ []) :
    ValidTRP g u v (dagWindow g start stop) (hopsOf q) := by
  have hhead := c12_simplePaths_head hq
  have hlast := c12_simplePaths_last hq
  have hchain := c12_simplePaths_chain hq
  refine ⟨hne, ?_, ?_, ?_, ?_⟩
  · intro h hh
    match q, hhead, hne, hh with
    | [], _, hne, _ => simp at hne
    | [_], _, hne, _ => simp at hne
    | a :: b :: rest, hhead, _, hh =>
      simp only [List.head?_cons, Option.some.injEq] at hhead
      subst hhead
      simp only [c12_hopsOf_cons2, List.head?_cons, Option.some.injEq] at hh
      subst hh
      exact ((C15_sources g u v start stop d hd a).mp hs).1
  · intro h hm
    obtain ⟨a, b, he, rfl⟩ := c12_hopsOf_forall q hchain h hm
    exact ⟨C15_edge_window_mem g u v start stop d hd _ he, C15_edge_sound g u v start stop d hd _ he⟩
  · apply c12_linked_of_chain g _ d.edges _ _ q hchain hpp
    · intro e he
      rcases C15_edge_time g u v start stop d hids hd e he with h | ⟨_, h⟩ <;> omega
    · exact c12_edge_active hids hd
  · intro w hw h hh
    obtain ⟨h', h1, h2, _⟩ := c12_hopsOf_getLast q t hlast hne
    rw [h1] at hh
    simp only [Option.some.injEq] at hh
    subst hh
    rw [h2]
    exact (C15_targets g u v start stop d hd t ht).2.2 w hw

/-! #### `insertNew` folds are duplicate-free, `groupPaths` -/

theorem c12_insertNew_nodup {α : Type} [BEq α] [LawfulBEq α] {l : List α} (x : α) (h : l.Nodup) :
    (insertNew l x).Nodup := by
  unfold insertNew
  split
  · exact h
  · rename_i hc
    have hx : x ∉ l := fun hm => hc (List.contains_iff_mem.mpr hm)
    rw [List.nodup_append]
    refine ⟨h, by simp, ?_⟩
    intro a ha b hb
    rw [List.mem_singleton] at hb
    subst hb
    intro hab
    subst hab
    exact hx ha

theorem c12_foldl_insertNew_nodup {α : Type} [BEq α] [LawfulBEq α] (l : List α) :
    ∀ acc : List α, acc.Nodup → (l.foldl insertNew acc).Nodup := by
  induction l with
  | nil => intro acc h; exact h
  | cons a l ih => intro acc h; exact ih _ (c12_insertNew_nodup a h)

/-- one step of `groupPaths` -/
def c12_groupStep (acc : List ((Node × Node) × List TPath)) (p : TPath) : List ((Node × Node) × List TPath) :=
  if acc.any (fun e => e.1 == pathKey p) then
    acc.map (fun e => if e.1 == pathKey p then (e.1, e.2 ++ [p]) else e)
  else acc ++ [(pathKey p, [p])]

theorem c12_groupPaths_eq (ps : List TPath) : groupPaths ps = ps.foldl c12_groupStep [] := rfl

/-- invariant of the grouping fold: distinct keys; every group is duplicate-free, made of processed paths,
    each filed under its own key -/
structure c12_GroupInv (done : List TPath) (acc : List ((Node × Node) × List TPath)) : Prop where
  keys : (acc.map (·.1)).Nodup
  groups : ∀ e ∈ acc, e.2.Nodup ∧ ∀ p ∈ e.2, p ∈ done ∧ pathKey p = e.1

theorem c12_GroupInv.step {done : List TPath} {acc : List ((Node × Node) × List TPath)}
    (h : c12_GroupInv done acc) (p : TPath) (hp : p ∉ done) :
    c12_GroupInv (done ++ [p]) (c12_groupStep acc p) := by
  unfold c12_groupStep
  split
  · constructor
    · have : (acc.map (fun e => if e.1 == pathKey p then (e.1, e.2 ++ [p]) else e)).map (·.1) = acc.map (·.1) := by
        rw [List.map_map]
        apply List.map_congr_left
        intro e _
        simp only [Function.comp]
        split <;> rfl
      rw [this]
      exact h.keys
    · intro e' he'
      rw [List.mem_map] at he'
      obtain ⟨e, he, rfl⟩ := he'
      obtain ⟨h1, h2⟩ := h.groups e he
      split
      · rename_i hk
        have hk' : e.1 = pathKey p := eq_of_beq hk
        refine ⟨?_, ?_⟩
        · simp only
          rw [List.nodup_append]
          refine ⟨h1, by simp, ?_⟩
          intro a ha b hb
          rw [List.mem_singleton] at hb
          subst hb
          intro hab
          subst hab
          exact hp (h2 a ha).1
        · intro x hx
          simp only [List.mem_append, List.mem_singleton] at hx
          rcases hx with hx | rfl
          · exact ⟨List.mem_append_left _ (h2 x hx).1, (h2 x hx).2⟩
          · exact ⟨List.mem_append_right _ (List.mem_singleton.mpr rfl), hk'.symm⟩
      · exact ⟨h1, fun x hx => ⟨List.mem_append_left _ (h2 x hx).1, (h2 x hx).2⟩⟩
  · rename_i hany
    constructor
    · rw [List.map_append, List.nodup_append]
      refine ⟨h.keys, by simp, ?_⟩
      intro a ha b hb
      simp only [List.map_cons, List.map_nil, List.mem_singleton] at hb
      subst hb
      intro hab
      subst hab
      apply hany
      rw [List.mem_map] at ha
      obtain ⟨e, he, hek⟩ := ha
      rw [List.any_eq_true]
      exact ⟨e, he, by simp [hek]⟩
    · intro e he
      rw [List.mem_append, List.mem_singleton] at he
      rcases he with he | rfl
      · obtain ⟨h1, h2⟩ := h.groups e he
        exact ⟨h1, fun x hx => ⟨List.mem_append_left _ (h2 x hx).1, (h2 x hx).2⟩⟩
      · refine ⟨by simp, ?_⟩
        intro x hx
        simp only [List.mem_singleton] at hx
        subst hx
        exact ⟨List.mem_append_right _ (List.mem_singleton.mpr rfl), rfl⟩

theorem c12_GroupInv.foldl (ps : List TPath) :
    ∀ (done : List TPath) (acc : List ((Node × Node) × List TPath)), c12_GroupInv done acc →
      (done ++ ps).Nodup → c12_GroupInv (done ++ ps) (ps.foldl c12_groupStep acc) := by
  induction ps with
  | nil => intro done acc h _; simpa using h
  | cons p ps ih =>
    intro done acc h hnd
    have hp : p ∉ done := by
      intro hm
      exact (List.nodup_append.mp hnd).2.2 p hm p List.mem_cons_self rfl
    have hnd' : ((done ++ [p]) ++ ps).Nodup := by simpa [List.append_assoc] using hnd
    have := ih (done ++ [p]) _ (h.step p hp) hnd'
    simpa [List.append_assoc] using this

theorem c12_groupPaths_inv (ps : List TPath) (hnd : ps.Nodup) : c12_GroupInv ps (groupPaths ps) := by
  rw [c12_groupPaths_eq]
  simpa using c12_GroupInv.foldl ps [] [] ⟨by simp, by simp⟩ (by simpa using hnd)

/-- what a successful call returns: nothing, or the grouping of the de-duplicated filtered hop lists of the
    DAG paths from the sources to the targets -/
theorem c12_trp_ok {g : Graph} {u : Node} {v : Option Node} {start stop : Option Int}
    {res : List ((Node × Node) × List TPath)} (h : g.timeRespectingPaths u v start stop = .ok res) :
    res = [] ∨ ∃ d, g.temporalDag u v start stop = .ok d ∧ ∃ kept : List TPath,
      res = groupPaths (kept.foldl insertNew []) ∧
      ∀ p ∈ kept, pingPongOk p = true ∧ p ≠ [] ∧
        ∃ s ∈ d.sources, ∃ t ∈ d.targets, ∃ q ∈ simplePaths d s t, p = hopsOf q := by
  unfold Graph.timeRespectingPaths at h
  split at h
  · simp only [Except.ok.injEq] at h
    exact Or.inl h.symm
  · split at h
    · cases h
    · rename_i d hd
      simp only [Except.ok.injEq] at h
      right
      refine ⟨d, hd, _, h.symm, ?_⟩
      intro p hp
      simp only [List.mem_filter, List.mem_flatMap, List.mem_map, Bool.and_eq_true, Bool.not_eq_true',
        List.isEmpty_eq_false_iff] at hp
      obtain ⟨⟨⟨s, t⟩, ⟨s', hs', t', ht', hst⟩, q, hq, rfl⟩, hpp, hne⟩ := hp
      simp only [Prod.mk.injEq] at hst
      obtain ⟨rfl, rfl⟩ := hst
      exact ⟨hpp, hne, s', hs', t', ht', q, hq, rfl⟩

/-- **C12 (soundness).** Every returned path is a genuine time-respecting path from `u` (to `v`), filed under
    the key (first node, last node). -/
theorem C12_sound (g : Graph) (hids : g.ids.Pairwise (· < ·)) (u : Node) (v : Option Node)
    (start stop : Option Int) (res : List ((Node × Node) × List TPath))
    (h : g.timeRespectingPaths u v start stop = .ok res) :
    ∀ kp ∈ res, ∀ p ∈ kp.2, ValidTRP g u v (dagWindow g start stop) p ∧ kp.1 = pathKey p := by
  rcases c12_trp_ok h with rfl | ⟨d, hd, kept, rfl, hkept⟩
  · intro kp hkp; simp at hkp
  · intro kp hkp p hp
    have hinv := c12_groupPaths_inv (kept.foldl insertNew []) (c12_foldl_insertNew_nodup kept [] List.nodup_nil)
    obtain ⟨hmem, hkey⟩ := (hinv.groups kp hkp).2 p hp
    rw [mem_foldl_insertNew] at hmem
    rcases hmem with hmem | hmem
    · simp at hmem
    · obtain ⟨hpp, hne, s, hs, t, ht, q, hq, rfl⟩ := hkept p hmem
      exact ⟨c12_path_valid hids hd hs ht hq hpp hne, hkey.symm⟩

/-- no path occurs twice in a group and no key occurs twice (no hypothesis on the snapshot ids is needed) -/
theorem c12_nodup (g : Graph) (u : Node) (v : Option Node)
    (start stop : Option Int) (res : List ((Node × Node) × List TPath))
    (h : g.timeRespectingPaths u v start stop = .ok res) :
    (∀ kp ∈ res, kp.2.Nodup) ∧ (res.map (·.1)).Nodup := by
  rcases c12_trp_ok h with rfl | ⟨d, _, kept, rfl, _⟩
  · simp
  · have hinv := c12_groupPaths_inv (kept.foldl insertNew []) (c12_foldl_insertNew_nodup kept [] List.nodup_nil)
    exact ⟨fun kp hkp => (hinv.groups kp hkp).1, hinv.keys⟩

/-- **C12 (no duplicates).** No path occurs twice in a group and no key occurs twice. (Same hypotheses as
    `C12_sound`; the one on the ids is not used, see `c12_nodup`.) -/
theorem C12_nodup (g : Graph) (_hids : g.ids.Pairwise (· < ·)) (u : Node) (v : Option Node)
    (start stop : Option Int) (res : List ((Node × Node) × List TPath))
    (h : g.timeRespectingPaths u v start stop = .ok res) :
    (∀ kp ∈ res, kp.2.Nodup) ∧ (res.map (·.1)).Nodup := c12_nodup g u v start stop res h

/-! ### 6. `allTimeRespectingPaths` -/

theorem c12_pathKey_fst {g : Graph} {u : Node} {v : Option Node} {W : List Int} {p : TPath}
    (h : ValidTRP g u v W p) : (pathKey p).1 = u := by
  cases p with
  | nil => exact absurd rfl h.nonempty
  | cons a rest =>
    have h1 := h.starts a rfl
    unfold pathKey
    have : ∃ b, (a :: rest).getLast? = some b := ⟨(a :: rest).getLast (by simp), List.getLast?_eq_some_getLast (by simp)⟩
    obtain ⟨b, hb⟩ := this
    rw [hb]
    exact h1

/-- an invariant of a `foldlM` in `Except` that every successful step preserves holds of a successful result -/
theorem c12_foldlM_inv {α β ε : Type} (f : β → α → Except ε β) (P : β → Prop) (l : List α)
    (hstep : ∀ b a b', a ∈ l → P b → f b a = .ok b' → P b') :
    ∀ b res, P b → l.foldlM f b = .ok res → P res := by
  induction l with
  | nil =>
    intro b res hb h
    simp only [List.foldlM_nil, pure, Except.pure, Except.ok.injEq] at h
    exact h ▸ hb
  | cons a l ih =>
    intro b res hb h
    rw [List.foldlM_cons] at h
    cases hf : f b a with
    | error e => rw [hf] at h; cases h
    | ok b' =>
      rw [hf] at h
      exact ih (fun b a b' ha => hstep b a b' (List.mem_cons_of_mem _ ha)) b' res
        (hstep b a b' List.mem_cons_self hb hf) h

/-- the merge of one root's result into the accumulated dictionary keeps a property of the entries -/
theorem c12_allMerge_inv (Q : (Node × Node) × List TPath → Prop) (u : Node)
    (paths : List ((Node × Node) × List TPath)) (hp : ∀ kp ∈ paths, Q ((u, kp.1.2), kp.2)) :
    ∀ res : List ((Node × Node) × List TPath), (∀ e ∈ res, Q e) →
      ∀ e ∈ paths.foldl (fun (res : List ((Node × Node) × List TPath)) (kp : (Node × Node) × List TPath) =>
        let k := (u, kp.1.2)
        if res.any (fun e => e.1 == k) then res.map (fun e => if e.1 == k then (k, kp.2) else e)
        else res ++ [(k, kp.2)]) res, Q e := by
  induction paths with
  | nil => intro res h; exact h
  | cons kp paths ih =>
    intro res h
    rw [List.foldl_cons]
    apply ih (fun kp' hkp' => hp kp' (List.mem_cons_of_mem _ hkp'))
    have hq := hp kp List.mem_cons_self
    intro e he
    simp only at he
    split at he
    · rw [List.mem_map] at he
      obtain ⟨e0, he0, rfl⟩ := he
      split
      · exact hq
      · exact h e0 he0
    · rw [List.mem_append, List.mem_singleton] at he
      rcases he with he | rfl
      · exact h e he
      · exact hq

/-- **C12 (all pairs).** Every path stored under the key `(a, b)` is a genuine time-respecting path leaving `a`,
    and `(a, b)` is (first node, last node) of the path. -/
theorem C12_all_sound (g : Graph) (hids : g.ids.Pairwise (· < ·)) (start stop minT : Option Int)
    (res : List ((Node × Node) × List TPath)) (h : g.allTimeRespectingPaths start stop minT = .ok res) :
    ∀ kp ∈ res, ∀ p ∈ kp.2, ValidTRP g kp.1.1 none (dagWindow g start stop) p ∧ kp.1 = pathKey p := by
  unfold Graph.allTimeRespectingPaths at h
  refine c12_foldlM_inv _ (fun res => ∀ kp ∈ res, ∀ p ∈ kp.2,
    ValidTRP g kp.1.1 none (dagWindow g start stop) p ∧ kp.1 = pathKey p) _ ?_ [] res (by simp) h
  intro b u b' _ hb hstep
  simp only at hstep
  split at hstep
  · cases hstep
  · rename_i paths hpaths
    simp only [Except.ok.injEq] at hstep
    rw [← hstep]
    apply c12_allMerge_inv _ u paths _ b hb
    intro kp hkp p hp
    obtain ⟨hv, hk⟩ := C12_sound g hids u none start stop paths hpaths kp hkp p hp
    refine ⟨hv, ?_⟩
    have h1 := c12_pathKey_fst hv
    rw [← hk] at h1
    rw [← h1]
    exact hk

/-! ### 7. non-vacuity (the graph `c15G` of C15: 1–2 from instant 0, 2–3 from instant 1, accumulative) -/

local instance c12_decGroup : DecidableEq ((Node × Node) × List TPath) := inferInstance

example : (c15G.timeRespectingPaths 1 none none none).toOption =
    some [((1, 2), [[(1, 2, 0)], [(1, 2, 1)]]), ((1, 3), [[(1, 2, 0), (2, 3, 1)]])] := by
  unfold Graph.timeRespectingPaths Graph.temporalDag
  rw [c15G_ids]
  decide

example : (c15G.timeRespectingPaths 1 (some 3) none none).toOption =
    some [((1, 3), [[(1, 2, 0), (2, 3, 1)]])] := by
  unfold Graph.timeRespectingPaths Graph.temporalDag
  rw [c15G_ids]
  decide

example : (c15G.allTimeRespectingPaths none none none).toOption =
    some [((1, 2), [[(1, 2, 0)], [(1, 2, 1)]]), ((1, 3), [[(1, 2, 0), (2, 3, 1)]]),
      ((2, 1), [[(2, 1, 0)], [(2, 1, 1)]]), ((2, 3), [[(2, 3, 1)]]), ((3, 2), [[(3, 2, 1)]])] := by
  unfold Graph.allTimeRespectingPaths Graph.timeRespectingPaths Graph.temporalDag
  rw [c15G_ids]
  decide

/-- the DAG of `c15G` rooted at 1 has the path 1@0 → 2@0 → 1@1 → 2@1 whose inner occurrence 1@1 is also a source;
    its hops `(1,2,0), (2,1,1), (1,2,1)` are rejected by the filter (reversal, and two hops at instant 1) -/
example : simplePaths ⟨[((1, 0), 2, 0), ((1, 1), 2, 1), ((2, 0), 1, 1), ((2, 0), 3, 1)], [], [], []⟩ (1, 0) (2, 1) =
    [[(1, 0), (2, 0), (1, 1), (2, 1)]] := by decide

example : hopsOf [(1, 0), (2, 0), (1, 1), (2, 1)] = [(1, 2, 0), (2, 1, 1), (1, 2, 1)] ∧
    pingPongOk (hopsOf [(1, 0), (2, 0), (1, 1), (2, 1)]) = false ∧
    pingPongOk (hopsOf [(1, 0), (2, 0), (3, 1)]) = true := by decide

/-- the theorem applied: the path 1 –0→ 2 –1→ 3 of `c15G` is a valid time-respecting path from 1 to 3 -/
example : ValidTRP c15G 1 (some 3) (dagWindow c15G none none) [(1, 2, 0), (2, 3, 1)] := by
  have hids : c15G.ids.Pairwise (· < ·) := by rw [c15G_ids]; decide
  have hres : c15G.timeRespectingPaths 1 (some 3) none none = .ok [((1, 3), [[(1, 2, 0), (2, 3, 1)]])] := by
    unfold Graph.timeRespectingPaths Graph.temporalDag
    rw [c15G_ids]
    rfl
  exact (C12_sound c15G hids 1 (some 3) none none _ hres _ (List.mem_singleton.mpr rfl) _
    (List.mem_singleton.mpr rfl)).1

/-! ### 8. `simplePaths` returns exactly the simple paths of the DAG -/

/-- the returned paths have no repeated occurrence, avoid the visited occurrences and fit in the fuel -/
theorem c12_simplePathsGo_nodup (edges : List (Occ × Occ)) (target : Occ) :
    ∀ (fuel : Nat) (cur : Occ) (visited p : List Occ), cur ∉ visited →
      p ∈ simplePathsGo edges target fuel cur visited →
      p.Nodup ∧ (∀ x ∈ p, x ∉ visited) ∧ p.length ≤ fuel := by
  intro fuel
  induction fuel with
  | zero => intro cur visited p _ h; simp [simplePathsGo] at h
  | succ fuel ih =>
    intro cur visited p hcur h
    unfold simplePathsGo at h
    split at h
    · simp only [List.mem_singleton] at h
      subst h
      refine ⟨by simp, ?_, by simp⟩
      intro x hx
      rw [List.mem_singleton] at hx
      subst hx
      exact hcur
    · simp only [List.mem_flatMap, List.mem_filter, List.mem_map, Bool.and_eq_true, Bool.not_eq_true',
        bne_iff_ne, ne_eq] at h
      obtain ⟨n, ⟨_, hnv, hnc⟩, p', hp', rfl⟩ := h
      have hnv' : n ∉ visited := fun hm => by
        rw [List.contains_iff_mem.mpr hm] at hnv
        cases hnv
      have hn : n ∉ cur :: visited := by
        rw [List.mem_cons]
        rintro (h | h)
        · exact hnc h
        · exact hnv' h
      obtain ⟨h1, h2, h3⟩ := ih n (cur :: visited) p' hn hp'
      refine ⟨?_, ?_, ?_⟩
      · rw [List.nodup_cons]
        exact ⟨fun hm => h2 cur hm List.mem_cons_self, h1⟩
      · intro x hx
        rw [List.mem_cons] at hx
        rcases hx with rfl | hx
        · exact hcur
        · exact fun hm => h2 x hx (List.mem_cons_of_mem _ hm)
      · simp only [List.length_cons]
        omega

/-- completeness of the search: a duplicate-free chain of edges from `cur` to `target` that avoids `visited` and
    fits in the fuel is returned -/
theorem c12_simplePathsGo_complete (edges : List (Occ × Occ)) (target : Occ) :
    ∀ (fuel : Nat) (cur : Occ) (visited p : List Occ),
      p.head? = some cur → p.getLast? = some target → p.Nodup →
      c12_consec (fun a b => (a, b) ∈ edges) p → p.length ≤ fuel → (∀ x ∈ p, x ∉ visited) →
      p ∈ simplePathsGo edges target fuel cur visited := by
  intro fuel
  induction fuel with
  | zero =>
    intro cur visited p hh _ _ _ hlen _
    cases p with
    | nil => simp at hh
    | cons a p => simp at hlen
  | succ fuel ih =>
    intro cur visited p hh hl hnd hc hlen hvis
    cases p with
    | nil => simp at hh
    | cons a rest =>
      simp only [List.head?_cons, Option.some.injEq] at hh
      subst hh
      unfold simplePathsGo
      split
      · rename_i hct
        have : a = target := eq_of_beq hct
        subst this
        cases rest with
        | nil => simp
        | cons y r =>
          rw [List.getLast?_cons_cons] at hl
          exact absurd (List.mem_of_getLast? hl) (List.nodup_cons.mp hnd).1
      · rename_i hct
        cases rest with
        | nil =>
          simp only [List.getLast?_singleton, Option.some.injEq] at hl
          subst hl
          simp at hct
        | cons n r =>
          rw [List.getLast?_cons_cons] at hl
          have hnd' := List.nodup_cons.mp hnd
          simp only [List.mem_flatMap, List.mem_filter, List.mem_map, Bool.and_eq_true, Bool.not_eq_true',
            bne_iff_ne, ne_eq]
          refine ⟨n, ⟨⟨(a, n), ⟨hc.1, by simp⟩, rfl⟩, ?_, ?_⟩, n :: r, ?_, rfl⟩
          · cases hcon : visited.contains n with
            | false => rfl
            | true => exact absurd (List.contains_iff_mem.mp hcon) (hvis n (by simp))
          · intro h
            subst h
            exact hnd'.1 List.mem_cons_self
          · apply ih n (a :: visited) (n :: r) rfl hl hnd'.2 hc.2
            · simp only [List.length_cons] at hlen ⊢
              omega
            · intro x hx
              rw [List.mem_cons]
              rintro (h | h)
              · subst h
                exact hnd'.1 hx
              · exact hvis x (List.mem_cons_of_mem _ hx) h

/-- in a chain of length at least two every element is an end of some related pair -/
theorem c12_consec_adjacent {α : Type} {R : α → α → Prop} :
    ∀ p : List α, c12_consec R p → 2 ≤ p.length → ∀ x ∈ p, ∃ y, R x y ∨ R y x
  | [], _, hl, _, _ => by simp at hl
  | [_], _, hl, _, _ => by simp at hl
  | [a, b], hc, _, x, hx => by
    simp only [List.mem_cons, List.not_mem_nil, or_false] at hx
    rcases hx with rfl | rfl
    · exact ⟨b, Or.inl hc.1⟩
    · exact ⟨a, Or.inr hc.1⟩
  | a :: b :: c :: rest, hc, _, x, hx => by
    rw [List.mem_cons] at hx
    rcases hx with rfl | hx
    · exact ⟨b, Or.inl hc.1⟩
    · exact c12_consec_adjacent (b :: c :: rest) hc.2 (by simp) x hx

theorem c12_dag_nodes_nodup (d : Dag) : d.nodes.Nodup :=
  c12_foldl_insertNew_nodup _ [] List.nodup_nil

/-- a duplicate-free chain of DAG edges has at most `|nodes| + 1` occurrences: the fuel of `simplePaths` suffices -/
theorem c12_chain_length_le {d : Dag} {p : List Occ} (hnd : p.Nodup)
    (hc : c12_consec (fun a b => (a, b) ∈ d.edges) p) : p.length ≤ d.nodes.length + 1 := by
  by_cases hl : 2 ≤ p.length
  · have hsub : p ⊆ d.nodes := by
      intro x hx
      obtain ⟨y, h | h⟩ := c12_consec_adjacent p hc hl x hx
      · exact mem_dag_nodes.mpr ⟨_, h, Or.inl rfl⟩
      · exact mem_dag_nodes.mpr ⟨_, h, Or.inr rfl⟩
    have := hnd.length_le_of_subset hsub
    omega
  · omega

/-- **completeness relative to the DAG**: every simple path (no repeated occurrence) from `s` to `t` along edges
    of `d` is returned by `simplePaths d s t` (for `s = t` this is the one-node path) -/
theorem c12_simplePaths_complete (d : Dag) (s t : Occ) (p : List Occ)
    (hh : p.head? = some s) (hl : p.getLast? = some t) (hnd : p.Nodup)
    (hc : c12_consec (fun a b => (a, b) ∈ d.edges) p) : p ∈ simplePaths d s t :=
  c12_simplePathsGo_complete d.edges t _ s [] p hh hl hnd hc (c12_chain_length_le hnd hc) (by simp)

/-- `simplePaths d s t` is exactly the set of simple paths from `s` to `t` in the DAG -/
theorem c12_simplePaths_iff (d : Dag) (s t : Occ) (p : List Occ) :
    p ∈ simplePaths d s t ↔
      p.head? = some s ∧ p.getLast? = some t ∧ p.Nodup ∧ c12_consec (fun a b => (a, b) ∈ d.edges) p := by
  constructor
  · intro h
    exact ⟨c12_simplePaths_head h, c12_simplePaths_last h,
      (c12_simplePathsGo_nodup _ _ _ _ _ _ (by simp) h).1, c12_simplePaths_chain h⟩
  · rintro ⟨h1, h2, h3, h4⟩
    exact c12_simplePaths_complete d s t p h1 h2 h3 h4

end Dynetx
