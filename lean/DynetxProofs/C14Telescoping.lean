-- C14: the duration of a path (last instant minus first instant, what `path_duration` returns) is the sum of the waiting
-- times between consecutive hops.  Over the integers the two are the same number, which is why a rewrite of
-- `path_duration` as a sum of gaps is invisible on integer instants (seeded change r10-C14-m1) and shows on fractional
-- instants only, where floating-point addition does not telescope (probed on the implementation by the op `annot`).
import DynetxModel

namespace Dynetx

/-- the gaps between consecutive hops -/
def hopGaps : TPath → List Int
  | a :: b :: r => (b.2.2 - a.2.2) :: hopGaps (b :: r)
  | _ => []

theorem c14_lastTime_cons (a b : Hop) (r : TPath) : lastTime (a :: b :: r) = lastTime (b :: r) := by
  simp [lastTime, List.getLast?_cons_cons]

theorem C14_duration_telescopes (p : TPath) : (hopGaps p).sum = pathDuration p := by
  induction p with
  | nil => simp [hopGaps, pathDuration, lastTime, firstTime]
  | cons a r ih =>
    cases r with
    | nil => simp [hopGaps, pathDuration, lastTime, firstTime]
    | cons b r =>
      simp only [hopGaps, List.sum_cons, ih, pathDuration, c14_lastTime_cons]
      simp only [firstTime, List.head?_cons, Option.map_some, Option.getD_some]
      omega

/-- non-vacuity -/
example : hopGaps [(1, 2, 1), (2, 3, 4), (3, 4, 9)] = [3, 5] ∧ pathDuration [(1, 2, 1), (2, 3, 4), (3, 4, 9)] = 8 := by decide

/-- the duration only looks at the two ends: the instants of the hops in between, increasing or not, do not matter
    (seeded change r11-C14-m1 computed max minus min of all hop times instead) -/
theorem C14_duration_ends (a z : Hop) (mid : TPath) : pathDuration (a :: (mid ++ [z])) = z.2.2 - a.2.2 := by
  have h : (a :: (mid ++ [z])).getLast? = some z := by
    rw [show a :: (mid ++ [z]) = (a :: mid) ++ [z] from rfl, List.getLast?_append]
    simp
  simp [pathDuration, lastTime, firstTime, h]

/-- non-vacuity: a middle hop earlier than the first one -/
example : pathDuration [(1, 2, 5), (2, 3, 1), (3, 4, 6)] = 1 := by decide

end Dynetx
