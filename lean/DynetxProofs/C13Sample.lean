import DynetxProofs.C13
/-
  C13, clause "with sample<1 the result is a subset of the full one".
  `Graph.timeRespectingPathsSample` models the `sample < 1` branch of `time_respecting_paths`: numpy's draw is a
  parameter (`perm`, any list of indices), so the theorems hold for every draw, every `sample = num/den` and every
  graph; no hypothesis on the snapshot ids is needed.
-/
namespace Dynetx

/-- the sampled call fails exactly when the full call fails (both only through `temporal_dag`'s window check) -/
theorem C13_sample_error (g : Graph) (u : Node) (v : Option Node) (start stop : Option Int)
    (num den : Nat) (perm : List Nat) (e : Err) :
    g.timeRespectingPathsSample u v start stop num den perm = .error e ↔
      g.timeRespectingPaths u v start stop = .error e := by
  unfold Graph.timeRespectingPathsSample Graph.timeRespectingPaths
  split
  · simp
  · split <;> simp_all

/-- enumerating a sub-selection of the source-target pairs gives a sub-result -/
theorem c13s_subset_of_chosen (d : Dag) (chosen pairs : List (Occ × Occ)) (hsub : ∀ x ∈ chosen, x ∈ pairs) :
    ∀ kp' ∈ groupPaths ((List.filter (fun pt => pingPongOk pt && !pt.isEmpty)
        (chosen.flatMap (fun (x : Occ × Occ) => (simplePaths d x.1 x.2).map hopsOf))).foldl insertNew []),
      ∀ p ∈ kp'.2, ∃ kp ∈ groupPaths ((List.filter (fun pt => pingPongOk pt && !pt.isEmpty)
        (pairs.flatMap (fun (x : Occ × Occ) => (simplePaths d x.1 x.2).map hopsOf))).foldl insertNew []),
        kp.1 = kp'.1 ∧ p ∈ kp.2 := by
  intro kp' hkp' p hp
  have hinv := c12_groupPaths_inv _ (c12_foldl_insertNew_nodup
    (List.filter (fun pt => pingPongOk pt && !pt.isEmpty)
      (chosen.flatMap (fun (x : Occ × Occ) => (simplePaths d x.1 x.2).map hopsOf))) [] List.nodup_nil)
  obtain ⟨hmem, hkey⟩ := (hinv.groups kp' hkp').2 p hp
  rw [mem_foldl_insertNew] at hmem
  rcases hmem with hmem | hmem
  · simp at hmem
  · have hfull : p ∈ (List.filter (fun pt => pingPongOk pt && !pt.isEmpty)
        (pairs.flatMap (fun (x : Occ × Occ) => (simplePaths d x.1 x.2).map hopsOf))).foldl insertNew [] := by
      rw [mem_foldl_insertNew]
      right
      simp only [List.mem_filter, List.mem_flatMap] at hmem ⊢
      obtain ⟨⟨x, hx, hxp⟩, hpp⟩ := hmem
      exact ⟨⟨x, hsub x hx, hxp⟩, hpp⟩
    obtain ⟨kp, hkp, hk, hpk⟩ := c13_groupPaths_mem hfull
    exact ⟨kp, hkp, hk.trans hkey, hpk⟩

/-- **C13 (sampling).** Whatever pairs `numpy.random.choice` draws, every path of the sampled result is a path of the
    full (`sample = 1`) result, filed under the same key. -/
theorem C13_sample_subset (g : Graph) (u : Node) (v : Option Node) (start stop : Option Int)
    (num den : Nat) (perm : List Nat) (res' res : List ((Node × Node) × List TPath))
    (hs : g.timeRespectingPathsSample u v start stop num den perm = .ok res')
    (hf : g.timeRespectingPaths u v start stop = .ok res) :
    ∀ kp' ∈ res', ∀ p ∈ kp'.2, ∃ kp ∈ res, kp.1 = kp'.1 ∧ p ∈ kp.2 := by
  unfold Graph.timeRespectingPathsSample at hs
  unfold Graph.timeRespectingPaths at hf
  split at hs
  · simp only [Except.ok.injEq] at hs
    subst hs
    intro kp' hkp'; simp at hkp'
  · rename_i hn
    rw [if_neg hn] at hf
    split at hs
    · cases hs
    · rename_i d hd
      rw [hd] at hf
      simp only [Except.ok.injEq] at hs hf
      subst hs; subst hf
      apply c13s_subset_of_chosen
      intro x hx
      simp only [List.mem_filterMap] at hx
      obtain ⟨i, _, hi⟩ := hx
      exact List.mem_of_getElem? hi

/-- corollary: the sampled paths are genuine time-respecting paths (C12 holds for `sample < 1` as well) -/
theorem C12_sample_sound (g : Graph) (hids : g.ids.Pairwise (· < ·)) (u : Node) (v : Option Node)
    (start stop : Option Int) (num den : Nat) (perm : List Nat) (res' : List ((Node × Node) × List TPath))
    (hs : g.timeRespectingPathsSample u v start stop num den perm = .ok res') :
    ∀ kp' ∈ res', ∀ p ∈ kp'.2, ValidTRP g u v (dagWindow g start stop) p ∧ kp'.1 = pathKey p := by
  cases hf : g.timeRespectingPaths u v start stop with
  | error e =>
    have := (C13_sample_error g u v start stop num den perm e).mpr hf
    rw [this] at hs; cases hs
  | ok res =>
    intro kp' hkp' p hp
    obtain ⟨kp, hkp, hk, hpk⟩ := C13_sample_subset g u v start stop num den perm res' res hs hf kp' hkp' p hp
    obtain ⟨hv, hkey⟩ := C12_sound g hids u v start stop res hf kp hkp p hpk
    exact ⟨hv, hk.symm.trans hkey⟩

/-- `sample = 0` (or an empty draw) returns no path at all -/
theorem C13_sample_none (g : Graph) (u : Node) (v : Option Node) (start stop : Option Int) (den : Nat)
    (perm : List Nat) (res' : List ((Node × Node) × List TPath))
    (hs : g.timeRespectingPathsSample u v start stop 0 den perm = .ok res') : res' = [] := by
  unfold Graph.timeRespectingPathsSample at hs
  split at hs
  · simpa using hs.symm
  · split at hs
    · cases hs
    · simp only [Nat.mul_zero, Nat.zero_div, List.take_zero, List.filterMap_nil, List.flatMap_nil,
        List.filter_nil, List.foldl_nil, Except.ok.injEq] at hs
      subst hs; rfl

/-! ### the statements are not vacuous: a draw that returns a strict, non-empty part of the full result -/

/-- undirected graph with 1–2 and 1–3 at instant 0 -/
def c13sG : Graph :=
  (((Graph.empty false true).addInteraction 1 2 (some 0) none).1.addInteraction 1 3 (some 0) none).1

theorem c13sG_ids : c13sG.ids = [0] := by
  have : c13sG.snaps.map (·.1) = [0] := by decide
  rw [Graph.ids, this]
  simp

local instance c13s_decGroup : DecidableEq ((Node × Node) × List TPath) := inferInstance

theorem c13sG_full : c13sG.timeRespectingPaths 1 none none none =
    .ok [((1, 2), [[(1, 2, 0)]]), ((1, 3), [[(1, 3, 0)]])] := by
  unfold Graph.timeRespectingPaths Graph.temporalDag
  rw [c13sG_ids]
  rfl

/-- `sample = 1/2`, numpy's permutation `[1, 0]`: one of the two source-target pairs is enumerated -/
theorem c13sG_sampled : c13sG.timeRespectingPathsSample 1 none none none 1 2 [1, 0] =
    .ok [((1, 3), [[(1, 3, 0)]])] := by
  unfold Graph.timeRespectingPathsSample Graph.temporalDag
  rw [c13sG_ids]
  rfl

end Dynetx
