import DynetxProofs.C20
import DynetxProofs.C06
import DynetxProofs.C12
import DynetxProofs.WFAll
/-
  C20 (renaming): the `delta_conformity` scores are invariant under renaming the label values.
-/
namespace Dynetx

/-! ### 1. the score looks at the labels only through equality tests -/

/-- `labelFrequency` only tests labels for equality, and only on `u`, the listed nodes and their neighbours -/
theorem c20r_labelFrequency_congr (g' g : Graph) (hnb : ∀ n t, g'.neighbors n t = g.neighbors n t)
    (S : Node → Prop)
    (hS : ∀ a b, S a → S b → (g'.label a == g'.label b) = (g.label a == g.label b))
    (u : Node) (nodes : List Node) (td : List (Node × Nat)) (hu : S u) (hnodes : ∀ v ∈ nodes, S v)
    (hnbS : ∀ v ∈ nodes, ∀ t, ∀ x ∈ g.neighbors v t, S x) :
    labelFrequency g' u nodes td = labelFrequency g u nodes td := by
  unfold labelFrequency
  simp only
  congr 2
  apply List.map_congr_left
  intro v hv
  have hv' := hnodes v hv
  rw [hnb, hS u v hu hv']
  have hfil : ∀ t, (g.neighbors v t).filter (fun x => g'.label x == g'.label v)
      = (g.neighbors v t).filter (fun x => g.label x == g.label v) := by
    intro t
    apply List.filter_congr
    intro x hx
    exact hS x v (hnbS v hv t x hx) hv'
  rw [hfil]

theorem c20r_scoreOf_congr (g' g : Graph) (hnb : ∀ n t, g'.neighbors n t = g.neighbors n t)
    (S : Node → Prop)
    (hS : ∀ a b, S a → S b → (g'.label a == g'.label b) = (g.label a == g.label b))
    (td : List (Node × Nat)) (alpha : Nat) (u : Node) (hu : S u) (htd : ∀ v ∈ td.map (·.1), S v)
    (hnbS : ∀ v ∈ td.map (·.1), ∀ t, ∀ x ∈ g.neighbors v t, S x) :
    scoreOf g' td alpha u = scoreOf g td alpha u := by
  have hraw : rawOf g' td alpha u = rawOf g td alpha u := by
    rw [rawOf_eq, rawOf_eq]
    congr 1
    apply List.map_congr_left
    intro d _
    rw [c20r_labelFrequency_congr g' g hnb S hS u (nodesAtRank td d) td hu
      (fun v hv => htd v (mem_nodesAtRank hv)) (fun v hv => hnbS v (mem_nodesAtRank hv))]
  unfold scoreOf
  rw [hraw]

/-- the restricted form: the equality tests need only agree on a set `S` of nodes that contains `u`, the nodes
    `u` reaches and their neighbours -/
theorem c20r_label_congr_on (g' g : Graph) (hnb : ∀ n t, g'.neighbors n t = g.neighbors n t)
    (S : Node → Prop)
    (hS : ∀ a b, S a → S b → (g'.label a == g'.label b) = (g.label a == g.label b))
    (sp : List ((Node × Node) × List TPath)) (ptype alpha : Nat) (u : Node) (hu : S u)
    (htd : ∀ v ∈ (tDistances sp ptype u).map (·.1), S v)
    (hnbS : ∀ v ∈ (tDistances sp ptype u).map (·.1), ∀ t, ∀ x ∈ g.neighbors v t, S x) :
    nodeScore g' sp ptype alpha u = nodeScore g sp ptype alpha u := by
  rw [nodeScore_eq, nodeScore_eq]
  exact c20r_scoreOf_congr g' g hnb S hS _ alpha u hu htd hnbS

/-- graphs that differ in the node table (and the graph attribute) only have the same neighbourhoods -/
theorem c20r_neighbors_congr (g' g : Graph) (hd : g'.directed = g.directed) (hr : g'.removal = g.removal)
    (he : g'.edges = g.edges) (hs : g'.snaps = g.snaps) (n : Node) (t : Option Int) :
    g'.neighbors n t = g.neighbors n t := by
  cases g; cases g'
  simp only at hd hr he hs
  subst hd hr he hs
  rfl

/-- **C20 (labels enter through equality tests only).** -/
theorem C20_label_congr (g' g : Graph) (hd : g'.directed = g.directed) (hr : g'.removal = g.removal)
    (he : g'.edges = g.edges) (hs : g'.snaps = g.snaps)
    (hl : ∀ a b, (g'.label a == g'.label b) = (g.label a == g.label b))
    (sp : List ((Node × Node) × List TPath)) (ptype alpha : Nat) (u : Node) :
    nodeScore g' sp ptype alpha u = nodeScore g sp ptype alpha u :=
  c20r_label_congr_on g' g (c20r_neighbors_congr g' g hd hr he hs) (fun _ => True)
    (fun a b _ _ => hl a b) sp ptype alpha u trivial (fun _ _ => trivial) (fun _ _ _ _ _ => trivial)

/-! ### 2. renaming the label values -/

/-- rename every attribute token through `f` -/
def Graph.relabel (g : Graph) (f : Nat → Nat) : Graph :=
  { g with nodes := g.nodes.map (fun p => (p.1, f p.2)) }

theorem c20r_nodeList (g : Graph) (f : Nat → Nat) : (g.relabel f).nodeList = g.nodeList := by
  unfold Graph.nodeList Graph.relabel
  simp only [List.map_map]
  rfl

theorem c20r_hasNodeFlat (g : Graph) (f : Nat → Nat) (n : Node) :
    (g.relabel f).hasNodeFlat n = g.hasNodeFlat n := by
  rw [Bool.eq_iff_iff, q1_hasNodeFlat_iff, q1_hasNodeFlat_iff, c20r_nodeList]

theorem c20r_neighbors (g : Graph) (f : Nat → Nat) (n : Node) (t : Option Int) :
    (g.relabel f).neighbors n t = g.neighbors n t := rfl

theorem c20r_degree (g : Graph) (f : Nat → Nat) (n : Node) (t : Option Int) :
    (g.relabel f).degree n t = g.degree n t := rfl

theorem c20r_ids (g : Graph) (f : Nat → Nat) : (g.relabel f).ids = g.ids := rfl

theorem c20r_nodesAt (g : Graph) (f : Nat → Nat) (t : Option Int) : (g.relabel f).nodesAt t = g.nodesAt t := by
  unfold Graph.nodesAt
  cases t with
  | none => exact c20r_nodeList g f
  | some x =>
    simp only [c20r_nodeList]
    rfl

theorem c20r_hasNode (g : Graph) (f : Nat → Nat) (n : Node) (t : Option Int) :
    (g.relabel f).hasNode n t = g.hasNode n t := by
  unfold Graph.hasNode
  cases t with
  | none => exact c20r_hasNodeFlat g f n
  | some x => rw [c20r_hasNodeFlat]; rfl

theorem c20r_temporalDag (g : Graph) (f : Nat → Nat) (u : Node) (v : Option Node) (start stop : Option Int) :
    (g.relabel f).temporalDag u v start stop = g.temporalDag u v start stop := rfl

theorem c20r_timeRespectingPaths (g : Graph) (f : Nat → Nat) (u : Node) (v : Option Node)
    (start stop : Option Int) :
    (g.relabel f).timeRespectingPaths u v start stop = g.timeRespectingPaths u v start stop := by
  unfold Graph.timeRespectingPaths
  rw [c20r_hasNode, c20r_temporalDag]

theorem c20r_allTimeRespectingPaths (g : Graph) (f : Nat → Nat) (start stop minT : Option Int) :
    (g.relabel f).allTimeRespectingPaths start stop minT = g.allTimeRespectingPaths start stop minT := by
  unfold Graph.allTimeRespectingPaths
  simp only [c20r_nodesAt, c20r_timeRespectingPaths]

/-- the label of a declared node is renamed; an undeclared node keeps the default 0 -/
theorem c20r_label (g : Graph) (f : Nat → Nat) (n : Node) :
    (g.relabel f).label n = if g.hasNodeFlat n then f (g.label n) else 0 := by
  unfold Graph.label Graph.relabel Graph.hasNodeFlat
  simp only [List.find?_map, Option.map_map]
  cases hfind : g.nodes.find? ((fun p => p.1 == n) ∘ fun p => (p.1, f p.2)) with
  | none =>
    have hnone : g.nodes.find? (fun p => p.1 == n) = none := hfind
    have hany : g.nodes.any (fun p => p.1 == n) = false := by
      rw [List.any_eq_false]
      intro p hp
      have := List.find?_eq_none.mp hnone p hp
      simpa using this
    simp [hany]
  | some q =>
    have hsome : g.nodes.find? (fun p => p.1 == n) = some q := hfind
    have hany : g.nodes.any (fun p => p.1 == n) = true := by
      rw [List.any_eq_true]
      exact ⟨q, List.mem_of_find?_eq_some hsome, List.find?_some (p := fun (p : Node × Nat) => p.1 == n) hsome⟩
    simp [hany, hsome]

theorem c20r_label_declared (g : Graph) (f : Nat → Nat) (n : Node) (h : g.hasNodeFlat n = true) :
    (g.relabel f).label n = f (g.label n) := by
  rw [c20r_label, h]; rfl

theorem c20r_label_fix0 (g : Graph) (f : Nat → Nat) (h0 : f 0 = 0) (n : Node) :
    (g.relabel f).label n = f (g.label n) := by
  rw [c20r_label]
  split
  · rfl
  · rename_i hn
    have : g.label n = 0 := by
      unfold Graph.label
      have hnone : g.nodes.find? (fun p => p.1 == n) = none := by
        rw [List.find?_eq_none]
        intro p hp hpn
        apply hn
        unfold Graph.hasNodeFlat
        rw [List.any_eq_true]
        exact ⟨p, hp, hpn⟩
      rw [hnone]; rfl
    rw [this, h0]

theorem c20r_beq_inj (f : Nat → Nat) (hf : Function.Injective f) (x y : Nat) : (f x == f y) = (x == y) := by
  rw [Bool.eq_iff_iff, beq_iff_eq, beq_iff_eq]
  exact ⟨fun h => hf h, fun h => by rw [h]⟩

/-! ### 3. the nodes the distance table mentions -/

theorem c20r_selectPaths_nil (ptype : Nat) : selectPaths (annotatePaths []) ptype = [] := by
  unfold selectPaths
  split <;> rfl

def c20r_tdStep (ptype : Nat) (u : Node) (acc : List (Node × Nat)) (kp : (Node × Node) × List TPath) :
    List (Node × Nat) :=
  if kp.1.1 == u && kp.1.1 != kp.1.2 then
    match minNat ((selectPaths (annotatePaths kp.2) ptype).map (·.length)) with
    | some m => if acc.any (fun e => e.1 == kp.1.2) then acc.map (fun e => if e.1 == kp.1.2 then (e.1, m) else e)
                else acc ++ [(kp.1.2, m)]
    | none => acc
  else acc

theorem c20r_tDistances_eq (sp : List ((Node × Node) × List TPath)) (ptype : Nat) (u : Node) :
    tDistances sp ptype u = sp.foldl (c20r_tdStep ptype u) [] := rfl

theorem c20r_tdStep_keys (P : Node → Prop) (ptype : Nat) (u : Node) (acc : List (Node × Nat))
    (kp : (Node × Node) × List TPath) (hkp : kp.1.1 = u → kp.2 ≠ [] → P kp.1.2) (hacc : ∀ e ∈ acc, P e.1) :
    ∀ e ∈ c20r_tdStep ptype u acc kp, P e.1 := by
  unfold c20r_tdStep
  split
  · rename_i hc
    simp only [Bool.and_eq_true, beq_iff_eq] at hc
    split
    · rename_i m hm
      have hne : kp.2 ≠ [] := by
        intro h
        rw [h, c20r_selectPaths_nil] at hm
        cases hm
      have hP := hkp hc.1 hne
      split
      · intro e he
        obtain ⟨e0, he0, rfl⟩ := List.mem_map.mp he
        split
        · exact hacc e0 he0
        · exact hacc e0 he0
      · intro e he
        rw [List.mem_append, List.mem_singleton] at he
        rcases he with he | rfl
        · exact hacc e he
        · exact hP
    · exact hacc
  · exact hacc

/-- every key of `t_distances[u]` is the end point of a non-empty group of paths leaving `u` -/
theorem c20r_tDistances_keys (P : Node → Prop) (sp : List ((Node × Node) × List TPath)) (ptype : Nat) (u : Node)
    (h : ∀ kp ∈ sp, kp.1.1 = u → kp.2 ≠ [] → P kp.1.2) :
    ∀ v ∈ (tDistances sp ptype u).map (·.1), P v := by
  have key : ∀ (l : List ((Node × Node) × List TPath)) (acc : List (Node × Nat)),
      (∀ kp ∈ l, kp.1.1 = u → kp.2 ≠ [] → P kp.1.2) → (∀ e ∈ acc, P e.1) →
      ∀ e ∈ l.foldl (c20r_tdStep ptype u) acc, P e.1 := by
    intro l
    induction l with
    | nil => intro acc _ hacc; exact hacc
    | cons kp rest ih =>
      intro acc hl hacc
      rw [List.foldl_cons]
      exact ih _ (fun kp' hkp' => hl kp' (List.mem_cons_of_mem _ hkp'))
        (c20r_tdStep_keys P ptype u acc kp (hl kp List.mem_cons_self) hacc)
  intro v hv
  obtain ⟨e, he, rfl⟩ := List.mem_map.mp hv
  rw [c20r_tDistances_eq] at he
  exact key sp [] h (by intro e he; cases he) e he

/-! ### 4. the score of a node under a renaming -/

theorem c20r_neighbors_declared (g : Graph)
    (he : ∀ e ∈ g.edges, g.hasNodeFlat e.u = true ∧ g.hasNodeFlat e.v = true) (n : Node) (t : Option Int) :
    ∀ x ∈ g.neighbors n t, g.hasNodeFlat x = true := by
  intro x hx
  unfold Graph.neighbors at hx
  have hs := (List.mem_filter.mp hx).1
  obtain ⟨e, hem, h | ⟨_, _, h⟩⟩ := (q1_mem_succs g n x).mp hs
  · rw [← h.2]; exact (he e hem).2
  · rw [← h]; exact (he e hem).1

/-- the weakest form: `u`, the keys of `t_distances[u]` and the end points of the stored pairs are declared -/
theorem c20r_relabel_nodeScore_td (g : Graph) (f : Nat → Nat) (hf : Function.Injective f)
    (sp : List ((Node × Node) × List TPath)) (ptype alpha : Nat) (u : Node)
    (hu : g.hasNodeFlat u = true)
    (htd : ∀ v ∈ (tDistances sp ptype u).map (·.1), g.hasNodeFlat v = true)
    (he : ∀ e ∈ g.edges, g.hasNodeFlat e.u = true ∧ g.hasNodeFlat e.v = true) :
    nodeScore (g.relabel f) sp ptype alpha u = nodeScore g sp ptype alpha u := by
  apply c20r_label_congr_on (g.relabel f) g (c20r_neighbors g f) (fun n => g.hasNodeFlat n = true) _
    sp ptype alpha u hu htd
  · intro v _ t x hx
    exact c20r_neighbors_declared g he v t x hx
  · intro a b ha hb
    rw [c20r_label_declared g f a ha, c20r_label_declared g f b hb, c20r_beq_inj f hf]

/-- **C20 (renaming, one node).** `f` injective; `u`, the end points of the path groups leaving `u` and the end
    points of the stored pairs are declared nodes. -/
theorem C20_relabel_nodeScore (g : Graph) (f : Nat → Nat) (hf : Function.Injective f)
    (sp : List ((Node × Node) × List TPath)) (ptype alpha : Nat) (u : Node)
    (hu : g.hasNodeFlat u = true)
    (hsp : ∀ kp ∈ sp, kp.1.1 = u → kp.2 ≠ [] → g.hasNodeFlat kp.1.2 = true)
    (he : ∀ e ∈ g.edges, g.hasNodeFlat e.u = true ∧ g.hasNodeFlat e.v = true) :
    nodeScore (g.relabel f) sp ptype alpha u = nodeScore g sp ptype alpha u :=
  c20r_relabel_nodeScore_td g f hf sp ptype alpha u hu
    (c20r_tDistances_keys (fun n => g.hasNodeFlat n = true) sp ptype u hsp) he

/-- the variant without any declaration hypothesis: the renaming fixes the default token 0 -/
theorem C20_relabel_nodeScore_fix0 (g : Graph) (f : Nat → Nat) (hf : Function.Injective f) (h0 : f 0 = 0)
    (sp : List ((Node × Node) × List TPath)) (ptype alpha : Nat) (u : Node) :
    nodeScore (g.relabel f) sp ptype alpha u = nodeScore g sp ptype alpha u :=
  C20_label_congr (g.relabel f) g rfl rfl rfl rfl
    (fun a b => by rw [c20r_label_fix0 g f h0 a, c20r_label_fix0 g f h0 b, c20r_beq_inj f hf]) sp ptype alpha u

/-! ### 5. `time_slice` copies the tokens -/

theorem c20r_addInteraction_nodes (g : Graph) (u v : Node) (t e : Option Int) :
    (g.addInteraction u v t e).1.nodes = g.nodes ∨
    (g.addInteraction u v t e).1.nodes = ensureNode (ensureNode g.nodes u) v := by
  unfold Graph.addInteraction
  repeat' split
  all_goals first
    | (rw [q1_addNew_nodes]; exact Or.inr rfl)
    | (rw [q1_addCovered_nodes]; exact Or.inl rfl)
    | (rw [q1_addAccum_nodes]; exact Or.inr rfl)
    | (rw [q1_addExtend_nodes]; exact Or.inr rfl)
    | (rw [q1_addAppend_nodes]; exact Or.inr rfl)
    | exact Or.inl rfl

/-- the nodes of a graph rebuilt by `addMany` are old nodes or end points of the calls -/
theorem c20r_addMany_names (calls : List Call4) : ∀ (g : Graph) (n : Node),
    n ∈ (g.addMany calls).1.nodes.map (·.1) → n ∈ g.nodes.map (·.1) ∨ ∃ c ∈ calls, n = c.1 ∨ n = c.2.1 := by
  induction calls with
  | nil => intro g n h; exact Or.inl h
  | cons c rest ih =>
    intro g n h
    obtain ⟨u, v, t, e⟩ := c
    have hstep : ∀ m, m ∈ (g.addInteraction u v (some t) e).1.nodes.map (·.1) →
        m ∈ g.nodes.map (·.1) ∨ m = u ∨ m = v := by
      intro m hm
      rcases c20r_addInteraction_nodes g u v (some t) e with hn | hn
      · rw [hn] at hm; exact Or.inl hm
      · rw [hn, q1_ensureNode_mem, q1_ensureNode_mem] at hm
        rcases hm with (hm | hm) | hm
        · exact Or.inl hm
        · exact Or.inr (Or.inl hm)
        · exact Or.inr (Or.inr hm)
    unfold Graph.addMany at h
    split at h
    · rename_i g' hres
      rcases ih g' n h with h1 | ⟨c, hc, hn⟩
      · have : g' = (g.addInteraction u v (some t) e).1 := by rw [hres]
        rw [this] at h1
        rcases hstep n h1 with h2 | h2
        · exact Or.inl h2
        · exact Or.inr ⟨(u, v, t, e), List.mem_cons_self, h2⟩
      · exact Or.inr ⟨c, List.mem_cons_of_mem _ hc, hn⟩
    · rename_i g' err hres
      have : g' = (g.addInteraction u v (some t) e).1 := by rw [hres]
      rw [this] at h
      rcases hstep n h with h2 | h2
      · exact Or.inl h2
      · exact Or.inr ⟨(u, v, t, e), List.mem_cons_self, h2⟩

theorem c20r_interactionsGo_mem (g : Graph) (t : Option Int) : ∀ (l seen : List Node) (p : Node × Node),
    p ∈ g.interactionsGo t l seen → p.1 ∈ l ∧ p.2 ∈ g.succs p.1 := by
  intro l
  induction l with
  | nil => intro seen p h; simp [Graph.interactionsGo] at h
  | cons n rest ih =>
    intro seen p h
    unfold Graph.interactionsGo at h
    rw [List.mem_append] at h
    rcases h with h | h
    · obtain ⟨m, hm, rfl⟩ := List.mem_map.mp h
      exact ⟨List.mem_cons_self, (List.mem_filter.mp hm).1⟩
    · obtain ⟨h1, h2⟩ := ih _ p h
      exact ⟨List.mem_cons_of_mem _ h1, h2⟩

/-- every pair `time_slice` reads off the source is (declared node, adjacent node) -/
theorem c20r_data_mem (g : Graph) (p : Node × Node × List Span)
    (hp : p ∈ (if g.directed then g.outInteractionsData else g.interactionsData)) :
    p.1 ∈ g.nodeList ∧ p.2.1 ∈ g.succs p.1 := by
  split at hp
  · unfold Graph.outInteractionsData Graph.outInteractions at hp
    obtain ⟨q, hq, rfl⟩ := List.mem_map.mp hp
    obtain ⟨n, hn, hq⟩ := List.mem_flatMap.mp hq
    obtain ⟨m, hm, rfl⟩ := List.mem_map.mp hq
    exact ⟨hn, (List.mem_filter.mp hm).1⟩
  · unfold Graph.interactionsData Graph.interactions at hp
    obtain ⟨q, hq, rfl⟩ := List.mem_map.mp hp
    exact c20r_interactionsGo_mem g none _ _ q hq

theorem c20r_interactionsGo (g : Graph) (f : Nat → Nat) (t : Option Int) : ∀ (l seen : List Node),
    (g.relabel f).interactionsGo t l seen = g.interactionsGo t l seen := by
  intro l
  induction l with
  | nil => intro seen; rfl
  | cons n rest ih =>
    intro seen
    unfold Graph.interactionsGo
    rw [ih]
    rfl

theorem c20r_data (g : Graph) (f : Nat → Nat) :
    (if (g.relabel f).directed then (g.relabel f).outInteractionsData else (g.relabel f).interactionsData)
      = (if g.directed then g.outInteractionsData else g.interactionsData) := by
  have h1 : (g.relabel f).outInteractionsData = g.outInteractionsData := by
    unfold Graph.outInteractionsData Graph.outInteractions Graph.nbunch
    simp only [c20r_nodeList]
    rfl
  have h2 : (g.relabel f).interactionsData = g.interactionsData := by
    unfold Graph.interactionsData Graph.interactions Graph.nbunch
    simp only [c20r_nodeList, c20r_interactionsGo]
    rfl
  rw [h1, h2]
  rfl

theorem c20r_copyAttrs (src dst : List (Node × Nat)) (f : Nat → Nat)
    (h : ∀ n ∈ dst.map (·.1), n ∈ src.map (·.1)) :
    copyAttrs (src.map (fun p => (p.1, f p.2))) dst = (copyAttrs src dst).map (fun p => (p.1, f p.2)) := by
  unfold copyAttrs
  rw [List.map_map]
  apply List.map_congr_left
  intro p hp
  have hmem := h p.1 (List.mem_map.mpr ⟨p, hp, rfl⟩)
  obtain ⟨q, hq, hq1⟩ := List.mem_map.mp hmem
  simp only [List.find?_map, Function.comp_apply, Option.map_map]
  have hcomp : ((fun (q : Node × Nat) => q.1 == p.1) ∘ fun (p : Node × Nat) => (p.1, f p.2))
      = (fun (q : Node × Nat) => q.1 == p.1) := rfl
  rw [hcomp]
  cases hfind : src.find? (fun q => q.1 == p.1) with
  | none =>
    have := List.find?_eq_none.mp hfind q hq
    simp [hq1] at this
  | some r => simp

/-- **`time_slice` commutes with the renaming** when the end points of the stored pairs are declared -/
theorem c20r_timeSlice (g : Graph) (f : Nat → Nat)
    (he : ∀ e ∈ g.edges, g.hasNodeFlat e.u = true ∧ g.hasNodeFlat e.v = true) (a : Int) (bo : Option Int) :
    (g.relabel f).timeSlice a bo = (g.timeSlice a bo).map (fun H => H.relabel f) := by
  unfold Graph.timeSlice
  simp only [c20r_data]
  have hdir : (g.relabel f).directed = g.directed := rfl
  rw [hdir]
  split
  · rfl
  · split
    · rfl
    · rename_i h0 hres
      have hnames : ∀ n ∈ h0.nodes.map (·.1), n ∈ g.nodes.map (·.1) := by
        intro n hn
        have : h0 = ((Graph.empty g.directed true).addMany (sliceCalls a (bo.getD a)
            (if g.directed then g.outInteractionsData else g.interactionsData))).1 := by rw [hres]
        rw [this] at hn
        rcases c20r_addMany_names _ _ n hn with h1 | ⟨c, hc, h1⟩
        · simp [Graph.empty] at h1
        · rw [c06_mem_sliceCalls] at hc
          obtain ⟨p, hp, _, _, _, _, rfl⟩ := hc
          obtain ⟨hp1, hp2⟩ := c20r_data_mem g p hp
          rcases h1 with rfl | rfl
          · exact hp1
          · obtain ⟨e, hem, h | ⟨_, _, h⟩⟩ := (q1_mem_succs g p.1 p.2.1).mp hp2
            · have := (he e hem).2
              rw [h.2] at this
              exact (q1_hasNodeFlat_iff g _).mp this
            · have := (he e hem).1
              rw [h] at this
              exact (q1_hasNodeFlat_iff g _).mp this
      show Except.ok _ = Except.ok _
      congr 1
      show ({ h0 with nodes := copyAttrs (g.nodes.map (fun p => (p.1, f p.2))) h0.nodes } : Graph)
        = { h0 with nodes := (copyAttrs g.nodes h0.nodes).map (fun p => (p.1, f p.2)) }
      rw [c20r_copyAttrs g.nodes h0.nodes f hnames]

/-! ### 6. the slice declares every node the score looks at -/

theorem c20r_slice_endpoints (g : Graph) (a : Int) (bo : Option Int) (H : Graph) (hH : g.timeSlice a bo = .ok H) :
    ∀ e ∈ H.edges, H.hasNodeFlat e.u = true ∧ H.hasNodeFlat e.v = true := by
  unfold Graph.timeSlice at hH
  simp only at hH
  split at hH
  · cases hH
  · have hf := c06_addMany_nodeInv _ (NodeInv.empty g.directed true)
      (sliceCalls a (bo.getD a) (if g.directed then g.outInteractionsData else g.interactionsData))
    split at hH
    · cases hH
    · rename_i h' heq
      rw [heq] at hf
      cases hH
      intro e hem
      rw [c06_nodes_hasNodeFlat, c06_nodes_hasNodeFlat]
      exact hf.endpoints e hem

/-- the end point of every non-empty group of time-respecting paths is a declared node -/
theorem c20r_sp_declared (g : Graph) (he : ∀ e ∈ g.edges, g.hasNodeFlat e.u = true ∧ g.hasNodeFlat e.v = true)
    (hids : g.ids.Pairwise (· < ·)) (start stop minT : Option Int)
    (sp : List ((Node × Node) × List TPath)) (h : g.allTimeRespectingPaths start stop minT = .ok sp) :
    ∀ kp ∈ sp, kp.2 ≠ [] → g.hasNodeFlat kp.1.2 = true := by
  intro kp hkp hne
  obtain ⟨p, hp⟩ := List.exists_mem_of_ne_nil kp.2 hne
  obtain ⟨hv, hk⟩ := C12_all_sound g hids start stop minT sp h kp hkp p hp
  cases p with
  | nil => exact absurd rfl hv.nonempty
  | cons a rest =>
    have hl : (a :: rest).getLast? = some ((a :: rest).getLast (by simp)) :=
      List.getLast?_eq_some_getLast (by simp)
    have hkey : pathKey (a :: rest) = (a.1, ((a :: rest).getLast (by simp)).2.1) := by
      unfold pathKey
      rw [hl]
      rfl
    rw [hk, hkey]
    have hmem : (a :: rest).getLast (by simp) ∈ a :: rest := List.getLast_mem _
    exact c20r_neighbors_declared g he _ _ _ (hv.hops _ hmem).2

/-! ### 7. `delta_conformity` under a renaming -/

/-- the shape shared by both variants: `time_slice` commutes with the renaming and the scores on the slice agree -/
theorem c20r_deltaConformity_core (dg : Graph) (f : Nat → Nat) (start delta : Int) (alphas : List Nat) (ptype : Nat)
    (hts : (dg.relabel f).timeSlice start (some (start + delta))
      = (dg.timeSlice start (some (start + delta))).map (fun H => H.relabel f))
    (hscore : ∀ H, dg.timeSlice start (some (start + delta)) = .ok H → ∀ s e sp,
      H.allTimeRespectingPaths s e none = .ok sp → ∀ a, ∀ u ∈ H.nodesAt (some start),
        nodeScore (H.relabel f) sp ptype a u = nodeScore H sp ptype a u) :
    (dg.relabel f).deltaConformity start delta alphas ptype = dg.deltaConformity start delta alphas ptype := by
  unfold Graph.deltaConformity
  rw [hts]
  cases hH : dg.timeSlice start (some (start + delta)) with
  | error e => rfl
  | ok H =>
    simp only [Except.map, c20r_ids, c20r_allTimeRespectingPaths, c20r_nodesAt]
    cases minList H.ids with
    | none => rfl
    | some mmid =>
      cases maxList H.ids with
      | none => rfl
      | some mid =>
        simp only
        cases hsp : H.allTimeRespectingPaths (some (max start mmid)) (some (min mid (start + delta))) none with
        | error e => rfl
        | ok sp =>
          simp only
          congr 2
          apply List.map_congr_left
          intro a _
          congr 1
          apply List.map_congr_left
          intro u hu
          rw [hscore H hH _ _ sp hsp a u hu]

/-- **C20 (renaming).** `f` injective and the end points of the stored pairs of `dg` declared (`NodeInv.endpoints`,
    which every history of calls establishes). -/
theorem C20_relabel_deltaConformity (dg : Graph) (f : Nat → Nat) (hf : Function.Injective f)
    (he : ∀ e ∈ dg.edges, dg.hasNodeFlat e.u = true ∧ dg.hasNodeFlat e.v = true)
    (start delta : Int) (alphas : List Nat) (ptype : Nat) :
    (dg.relabel f).deltaConformity start delta alphas ptype = dg.deltaConformity start delta alphas ptype := by
  apply c20r_deltaConformity_core dg f start delta alphas ptype (c20r_timeSlice dg f he _ _)
  intro H hH s e sp hsp a u hu
  have hHe := c20r_slice_endpoints dg start (some (start + delta)) H hH
  have hids := ids_strictly_increasing (C06_wellformed dg start (some (start + delta)) H hH).snap
  have hdecl := c20r_sp_declared H hHe hids s e none sp hsp
  have hu' : H.hasNodeFlat u = true := by
    rw [q1_hasNodeFlat_iff]
    unfold Graph.nodesAt at hu
    exact (List.mem_filter.mp hu).1
  exact C20_relabel_nodeScore H f hf sp ptype a u hu' (fun kp hkp _ hne => hdecl kp hkp hne) hHe

/-- the same for graphs that satisfy the node invariant -/
theorem C20_relabel_deltaConformity_nodeInv (dg : Graph) (hn : NodeInv dg) (f : Nat → Nat)
    (hf : Function.Injective f) (start delta : Int) (alphas : List Nat) (ptype : Nat) :
    (dg.relabel f).deltaConformity start delta alphas ptype = dg.deltaConformity start delta alphas ptype :=
  C20_relabel_deltaConformity dg f hf hn.endpoints start delta alphas ptype

/-- the same for the graph reached by any history of calls (both modes, both classes) -/
theorem C20_relabel_deltaConformity_history (d r : Bool) (ops : List Op) (f : Nat → Nat)
    (hf : Function.Injective f) (start delta : Int) (alphas : List Nat) (ptype : Nat) :
    (((Graph.empty d r).run ops).1.relabel f).deltaConformity start delta alphas ptype
      = ((Graph.empty d r).run ops).1.deltaConformity start delta alphas ptype :=
  C20_relabel_deltaConformity_nodeInv _ (q1_run_nodeInv d r ops) f hf start delta alphas ptype

/-- labelling the nodes (`update_node_attr`) keeps the node invariant -/
theorem c20r_setAttrs_nodeInv (attrs : List (Node × Nat)) : ∀ (g : Graph), NodeInv g →
    NodeInv (attrs.foldl (fun g p => g.setAttr p.1 p.2) g) := by
  induction attrs with
  | nil => intro g h; exact h
  | cons p rest ih => intro g h; exact ih _ (setAttr_nodeInv g h p.1 p.2)

/-- the same for any history of calls followed by any labelling of the nodes (both modes, both classes) -/
theorem C20_relabel_deltaConformity_labelled (d r : Bool) (ops : List Op) (attrs : List (Node × Nat))
    (f : Nat → Nat) (hf : Function.Injective f) (start delta : Int) (alphas : List Nat) (ptype : Nat) :
    ((attrs.foldl (fun g p => g.setAttr p.1 p.2) ((Graph.empty d r).run ops).1).relabel f).deltaConformity
        start delta alphas ptype
      = (attrs.foldl (fun g p => g.setAttr p.1 p.2) ((Graph.empty d r).run ops).1).deltaConformity
        start delta alphas ptype :=
  C20_relabel_deltaConformity_nodeInv _ (c20r_setAttrs_nodeInv attrs _ (q1_run_nodeInv d r ops)) f hf
    start delta alphas ptype

/-! #### the variant for arbitrary graphs: the renaming fixes the default token 0 -/

theorem c20r_ensureNode_tokens (ns : List (Node × Nat)) (n : Node) (h : ∀ p ∈ ns, p.2 = 0) :
    ∀ p ∈ ensureNode ns n, p.2 = 0 := by
  unfold ensureNode
  split
  · exact h
  · intro p hp
    rw [List.mem_append, List.mem_singleton] at hp
    rcases hp with hp | rfl
    · exact h p hp
    · rfl

theorem c20r_addMany_tokens (calls : List Call4) : ∀ (g : Graph), (∀ p ∈ g.nodes, p.2 = 0) →
    ∀ p ∈ (g.addMany calls).1.nodes, p.2 = 0 := by
  induction calls with
  | nil => intro g h; exact h
  | cons c rest ih =>
    intro g h
    obtain ⟨u, v, t, e⟩ := c
    have hstep : ∀ p ∈ (g.addInteraction u v (some t) e).1.nodes, p.2 = 0 := by
      rcases c20r_addInteraction_nodes g u v (some t) e with hn | hn
      · rw [hn]; exact h
      · rw [hn]; exact c20r_ensureNode_tokens _ _ (c20r_ensureNode_tokens _ _ h)
    unfold Graph.addMany
    split
    · rename_i g' hres
      have : g' = (g.addInteraction u v (some t) e).1 := by rw [hres]
      exact ih g' (this ▸ hstep)
    · rename_i g' err hres
      have : g' = (g.addInteraction u v (some t) e).1 := by rw [hres]
      exact this ▸ hstep

theorem c20r_copyAttrs_fix0 (src dst : List (Node × Nat)) (f : Nat → Nat) (h0 : f 0 = 0)
    (h : ∀ p ∈ dst, p.2 = 0) :
    copyAttrs (src.map (fun p => (p.1, f p.2))) dst = (copyAttrs src dst).map (fun p => (p.1, f p.2)) := by
  unfold copyAttrs
  rw [List.map_map]
  apply List.map_congr_left
  intro p hp
  have hp0 := h p hp
  simp only [List.find?_map, Function.comp_apply, Option.map_map]
  have hcomp : ((fun (q : Node × Nat) => q.1 == p.1) ∘ fun (p : Node × Nat) => (p.1, f p.2))
      = (fun (q : Node × Nat) => q.1 == p.1) := rfl
  rw [hcomp]
  cases hfind : src.find? (fun q => q.1 == p.1) with
  | none => simp [hp0, h0]
  | some r => simp

theorem c20r_timeSlice_fix0 (g : Graph) (f : Nat → Nat) (h0 : f 0 = 0) (a : Int) (bo : Option Int) :
    (g.relabel f).timeSlice a bo = (g.timeSlice a bo).map (fun H => H.relabel f) := by
  unfold Graph.timeSlice
  simp only [c20r_data]
  have hdir : (g.relabel f).directed = g.directed := rfl
  rw [hdir]
  split
  · rfl
  · split
    · rfl
    · rename_i h1 hres
      have htok : ∀ p ∈ h1.nodes, p.2 = 0 := by
        have : h1 = ((Graph.empty g.directed true).addMany (sliceCalls a (bo.getD a)
            (if g.directed then g.outInteractionsData else g.interactionsData))).1 := by rw [hres]
        rw [this]
        exact c20r_addMany_tokens _ _ (by intro p hp; simp [Graph.empty] at hp)
      show Except.ok _ = Except.ok _
      congr 1
      show ({ h1 with nodes := copyAttrs (g.nodes.map (fun p => (p.1, f p.2))) h1.nodes } : Graph)
        = { h1 with nodes := (copyAttrs g.nodes h1.nodes).map (fun p => (p.1, f p.2)) }
      rw [c20r_copyAttrs_fix0 g.nodes h1.nodes f h0 htok]

/-- no hypothesis on the graph at all when the renaming is injective and fixes the default token 0 -/
theorem C20_relabel_deltaConformity_fix0 (dg : Graph) (f : Nat → Nat) (hf : Function.Injective f) (h0 : f 0 = 0)
    (start delta : Int) (alphas : List Nat) (ptype : Nat) :
    (dg.relabel f).deltaConformity start delta alphas ptype = dg.deltaConformity start delta alphas ptype :=
  c20r_deltaConformity_core dg f start delta alphas ptype (c20r_timeSlice_fix0 dg f h0 _ _)
    (fun H _ _ _ sp _ a u _ => C20_relabel_nodeScore_fix0 H f hf h0 sp ptype a u)

/-! ### 8. `sliding_delta_conformity` -/

theorem c20r_sliding_core (dg : Graph) (f : Nat → Nat) (delta : Int) (alphas : List Nat) (ptype : Nat)
    (h : ∀ t, (dg.relabel f).deltaConformity t delta alphas ptype = dg.deltaConformity t delta alphas ptype) :
    (dg.relabel f).slidingDeltaConformity delta alphas ptype = dg.slidingDeltaConformity delta alphas ptype := by
  unfold Graph.slidingDeltaConformity
  simp only [c20r_ids, h]

/-- **C20 (renaming, sliding windows).** -/
theorem C20_relabel_sliding (dg : Graph) (f : Nat → Nat) (hf : Function.Injective f)
    (he : ∀ e ∈ dg.edges, dg.hasNodeFlat e.u = true ∧ dg.hasNodeFlat e.v = true)
    (delta : Int) (alphas : List Nat) (ptype : Nat) :
    (dg.relabel f).slidingDeltaConformity delta alphas ptype = dg.slidingDeltaConformity delta alphas ptype :=
  c20r_sliding_core dg f delta alphas ptype (fun t => C20_relabel_deltaConformity dg f hf he t delta alphas ptype)

theorem C20_relabel_sliding_fix0 (dg : Graph) (f : Nat → Nat) (hf : Function.Injective f) (h0 : f 0 = 0)
    (delta : Int) (alphas : List Nat) (ptype : Nat) :
    (dg.relabel f).slidingDeltaConformity delta alphas ptype = dg.slidingDeltaConformity delta alphas ptype :=
  c20r_sliding_core dg f delta alphas ptype (fun t => C20_relabel_deltaConformity_fix0 dg f hf h0 t delta alphas ptype)

theorem C20_relabel_sliding_history (d r : Bool) (ops : List Op) (f : Nat → Nat)
    (hf : Function.Injective f) (delta : Int) (alphas : List Nat) (ptype : Nat) :
    (((Graph.empty d r).run ops).1.relabel f).slidingDeltaConformity delta alphas ptype
      = ((Graph.empty d r).run ops).1.slidingDeltaConformity delta alphas ptype :=
  C20_relabel_sliding _ f hf (q1_run_nodeInv d r ops).endpoints delta alphas ptype

/-! ### 9. non-vacuity: 1–2 on `[0,2]`, 2–3 on `[1,2]`, labels 1 ↦ 1, 2 ↦ 2, 3 ↦ 2 -/

def c20r_ex : Graph :=
  (((((Graph.empty false true).addInteraction 1 2 (some 0) (some 3)).1.addInteraction 2 3 (some 1) (some 3)).1.setAttr
    1 1).setAttr 2 2).setAttr 3 2

/-- the slice `[0,2]` of `c20r_ex` (everything) -/
def c20r_exH : Graph :=
  { directed := false, removal := true, gattr := 0, nodes := [(1, 1), (2, 2), (3, 2)],
    edges := [{ u := 1, v := 2, tl := [(0, 2)] }, { u := 2, v := 3, tl := [(1, 2)] }],
    events := [{ t := 0, u := 1, v := 2, plus := true }, { t := 3, u := 1, v := 2, plus := false },
               { t := 1, u := 2, v := 3, plus := true }, { t := 3, u := 2, v := 3, plus := false }],
    snaps := [(0, 2), (1, 4), (2, 4)] }

def c20r_exSp : List ((Node × Node) × List TPath) :=
  [((1, 2), [[(1, 2, 0)], [(1, 2, 1)], [(1, 2, 2)]]),
   ((1, 3), [[(1, 2, 0), (2, 3, 1)], [(1, 2, 0), (2, 3, 2)], [(1, 2, 1), (2, 3, 2)]]),
   ((2, 1), [[(2, 1, 0)], [(2, 1, 1)], [(2, 1, 2)]]), ((2, 3), [[(2, 3, 1)], [(2, 3, 2)]])]

theorem c20r_ex_slice : c20r_ex.timeSlice 0 (some (0 + 2)) = .ok c20r_exH := by rfl

theorem c20r_exH_ids : c20r_exH.ids = [0, 1, 2] := by
  have : c20r_exH.snaps.map (·.1) = [0, 1, 2] := by decide
  unfold Graph.ids
  rw [this]
  simp [List.mergeSort]

theorem c20r_exH_paths :
    c20r_exH.allTimeRespectingPaths (some (max 0 0)) (some (min 2 (0 + 2))) none = .ok c20r_exSp := by
  unfold Graph.allTimeRespectingPaths Graph.timeRespectingPaths Graph.temporalDag
  rw [c20r_exH_ids]
  rfl

theorem c20r_ss12 : sortedSetNat [1, 2] = [1, 2] := by
  simp [sortedSetNat, List.mergeSort]; decide

theorem c20r_ss11 : sortedSetNat [1, 1] = [1] := by
  simp [sortedSetNat, List.mergeSort]; decide

theorem c20r_ss1 : sortedSetNat [1] = [1] := by
  simp [sortedSetNat]; decide

theorem c20r_exH_label : c20r_exH.label 1 = 1 ∧ c20r_exH.label 2 = 2 ∧ c20r_exH.label 3 = 2 := by decide

theorem c20r_ex_lf1 : labelFrequency c20r_exH 1 [2] [(2, 1), (3, 2)] = -1 / 2 := by
  have hn : c20r_exH.neighbors 2 (some 1) = [1, 3] := by decide
  obtain ⟨h1, h2, h3⟩ := c20r_exH_label
  simp [labelFrequency, hn, h1, h2, h3, List.filter]
  norm_num

theorem c20r_ex_lf2 : labelFrequency c20r_exH 1 [3] [(2, 1), (3, 2)] = -1 := by
  have hn : c20r_exH.neighbors 3 (some 2) = [2] := by decide
  obtain ⟨h1, h2, h3⟩ := c20r_exH_label
  simp [labelFrequency, hn, h1, h2, h3, List.filter]

theorem c20r_ex_lf3 : labelFrequency c20r_exH 2 [1, 3] [(1, 1), (3, 1)] = 0 := by
  have hn1 : c20r_exH.neighbors 1 (some 1) = [2] := by decide
  have hn3 : c20r_exH.neighbors 3 (some 1) = [2] := by decide
  obtain ⟨h1, h2, h3⟩ := c20r_exH_label
  simp [labelFrequency, hn1, hn3, h1, h2, h3, List.filter]

theorem c20r_normConst_2_1 : normConst 2 1 = 3 / 2 := by
  rw [normConst_eq]; norm_num [List.range_succ]

theorem c20r_normConst_1_1 : normConst 1 1 = 1 := by
  rw [normConst_eq]; norm_num [List.range_succ]

theorem c20r_ex_score1 : nodeScore c20r_exH c20r_exSp 0 1 1 = -2 / 3 := by
  have htd : tDistances c20r_exSp 0 1 = [(2, 1), (3, 2)] := by decide
  have hrd : remapDistances [(2, 1), (3, 2)] = [(2, 1), (3, 2)] := by
    unfold remapDistances
    simp only [List.map, c20r_ss12]
    decide
  have hf1 : List.map (fun (x : Node × Nat) => x.1) (List.filter (fun e => e.2 == 1) [(2, 1), (3, 2)]) = [2] := by
    decide
  have hf2 : List.map (fun (x : Node × Nat) => x.1) (List.filter (fun e => e.2 == 2) [(2, 1), (3, 2)]) = [3] := by
    decide
  have hlast : ([1, 2] : List Nat).getLast? = some 2 := rfl
  unfold nodeScore
  simp only [htd, hrd, List.map, c20r_ss12, hf1, hf2, hlast, c20r_ex_lf1, c20r_ex_lf2, c20r_normConst_2_1]
  norm_num

theorem c20r_ex_score2 : nodeScore c20r_exH c20r_exSp 0 1 2 = 0 := by
  have htd : tDistances c20r_exSp 0 2 = [(1, 1), (3, 1)] := by decide
  have hrd : remapDistances [(1, 1), (3, 1)] = [(1, 1), (3, 1)] := by
    unfold remapDistances
    simp only [List.map, c20r_ss11]
    decide
  have hf1 : List.map (fun (x : Node × Nat) => x.1) (List.filter (fun e => e.2 == 1) [(1, 1), (3, 1)])
      = [1, 3] := by decide
  have hlast : ([1] : List Nat).getLast? = some 1 := rfl
  unfold nodeScore
  simp only [htd, hrd, List.map, c20r_ss11, hf1, hlast, c20r_ex_lf3, c20r_normConst_1_1]
  norm_num

/-- the value on the example: two different labels, a score different from 0 -/
theorem c20r_ex_value : c20r_ex.deltaConformity 0 2 [1] 0 = .ok (some [(1, [(1, -2 / 3), (2, 0)])]) := by
  have hmin : minList [0, 1, 2] = some 0 := by decide
  have hmax : maxList [0, 1, 2] = some 2 := by decide
  have hnodes : c20r_exH.nodesAt (some 0) = [1, 2] := by decide
  unfold Graph.deltaConformity
  rw [c20r_ex_slice]
  simp only [c20r_exH_ids, hmin, hmax, c20r_exH_paths, hnodes, List.map, c20r_ex_score1, c20r_ex_score2]

theorem c20r_add5_injective : Function.Injective (fun x : Nat => x + 5) := fun _ _ h => Nat.add_right_cancel h

theorem c20r_ex_endpoints : ∀ e ∈ c20r_ex.edges, c20r_ex.hasNodeFlat e.u = true ∧ c20r_ex.hasNodeFlat e.v = true := by
  decide

/-- the renamed example carries the labels 6, 7, 7 -/
example : (c20r_ex.relabel (fun x => x + 5)).nodes = [(1, 6), (2, 7), (3, 7)] := by decide

/-- the theorem applied: the renamed example has the same (non-trivial) value -/
example : (c20r_ex.relabel (fun x => x + 5)).deltaConformity 0 2 [1] 0
    = .ok (some [(1, [(1, -2 / 3), (2, 0)])]) := by
  rw [C20_relabel_deltaConformity c20r_ex _ c20r_add5_injective c20r_ex_endpoints, c20r_ex_value]

example : (-2 / 3 : Rat) ≠ 0 := by norm_num

/-- injectivity is needed: identifying the two labels of the example changes the score of node 1 from -2/3 to 1 -/
example : nodeScore (c20r_exH.relabel (fun _ => 0)) c20r_exSp 0 1 1 = 1 ∧ nodeScore c20r_exH c20r_exSp 0 1 1 = -2 / 3 := by
  refine ⟨?_, c20r_ex_score1⟩
  rw [C20_all_equal' _ c20r_exSp 0 1 1 (fun x y => by rw [c20r_label, c20r_label]; split <;> split <;> rfl)]
  have htd : tDistances c20r_exSp 0 1 = [(2, 1), (3, 2)] := by decide
  rw [htd]; rfl

/-- the declaration hypothesis is needed (when `f 0 ≠ 0`): node 2 is an end point of the stored pair but not a
    declared node, so its label is the default 0 before and after; swapping the tokens 0 and 3 makes it equal to
    the label of node 1 -/
def c20r_bad : Graph :=
  { directed := false, removal := true, gattr := 0, nodes := [(1, 3)],
    edges := [{ u := 1, v := 2, tl := [(0, 0)] }], events := [], snaps := [(0, 2)] }

def c20r_swap03 (x : Nat) : Nat := if x = 0 then 3 else if x = 3 then 0 else x

theorem c20r_swap03_injective : Function.Injective c20r_swap03 := by
  intro a b h
  unfold c20r_swap03 at h
  split at h <;> split at h <;> (try split at h) <;> (try split at h) <;> omega

theorem c20r_bad_witness :
    nodeScore c20r_bad [((1, 2), [[(1, 2, 0)]])] 0 1 1 = -1 ∧
    nodeScore (c20r_bad.relabel c20r_swap03) [((1, 2), [[(1, 2, 0)]])] 0 1 1 = 1 := by
  have htd : tDistances [((1, 2), [[(1, 2, 0)]])] 0 1 = [(2, 1)] := by decide
  have hrd : remapDistances [(2, 1)] = [(2, 1)] := by
    unfold remapDistances
    simp only [List.map, c20r_ss1]
    decide
  have hf1 : List.map (fun (x : Node × Nat) => x.1) (List.filter (fun e => e.2 == 1) [(2, 1)]) = [2] := by decide
  have hlast : ([1] : List Nat).getLast? = some 1 := rfl
  have hl : c20r_bad.label 1 = 3 ∧ c20r_bad.label 2 = 0 := by decide
  have hl' : (c20r_bad.relabel c20r_swap03).label 1 = 0 ∧ (c20r_bad.relabel c20r_swap03).label 2 = 0 := by decide
  have hn : c20r_bad.neighbors 2 (some 1) = [] := by decide
  have hn' : (c20r_bad.relabel c20r_swap03).neighbors 2 (some 1) = [] := by decide
  have h1 : labelFrequency c20r_bad 1 [2] [(2, 1)] = -1 := by
    simp [labelFrequency, hn, hl.1, hl.2]
  have h2 : labelFrequency (c20r_bad.relabel c20r_swap03) 1 [2] [(2, 1)] = 1 := by
    simp [labelFrequency, hn', hl'.1, hl'.2]
  constructor
  · unfold nodeScore
    simp only [htd, hrd, List.map, c20r_ss1, hf1, hlast, h1, c20r_normConst_1_1]
    norm_num
  · unfold nodeScore
    simp only [htd, hrd, List.map, c20r_ss1, hf1, hlast, h2, c20r_normConst_1_1]
    norm_num

/-- so `C20_relabel_nodeScore` without the declaration hypotheses is false -/
theorem c20r_undeclared_counterexample :
    ¬ ∀ (g : Graph) (f : Nat → Nat), Function.Injective f → ∀ sp ptype alpha u,
      nodeScore (g.relabel f) sp ptype alpha u = nodeScore g sp ptype alpha u := by
  intro h
  have := h c20r_bad c20r_swap03 c20r_swap03_injective [((1, 2), [[(1, 2, 0)]])] 0 1 1
  rw [c20r_bad_witness.1, c20r_bad_witness.2] at this
  norm_num at this


end Dynetx
