import DynetxProofs.C18Text
import DynetxProofs.TextRoundtrip
import DynetxModel.PathsText
/-
  C12 / C13 / C15, text level: the DAG node names `f"{node}_{tid}"` built by `temporal_dag` are decoded by
  `time_respecting_paths` (`split("_")`, last part = time, the others re-joined) into exactly the node name and
  the time they were built from — for EVERY node name, including names that contain '_' themselves, because the
  decimal rendering of an integer time contains no '_'.  This is what justifies modelling occurrences as pairs
  `(node, time)` in `Paths.lean`.
-/
namespace Dynetx

theorem c12t_joinFields_cons (d : Char) (f : List Char) (fs : List (List Char)) (h : fs ≠ []) :
    joinFields d (f :: fs) = f ++ d :: joinFields d fs := by
  cases fs with
  | nil => exact absurd rfl h
  | cons g gs => rfl

/-- `d.join(s.split(d)) == s` -/
theorem c12t_join_split (d : Char) (l : List Char) : joinFields d (splitOnChar d l) = l := by
  induction l with
  | nil => rfl
  | cons c cs ih =>
    unfold splitOnChar
    have hne := c18t_splitOnChar_ne_nil d cs
    cases hs : splitOnChar d cs with
    | nil => exact absurd hs hne
    | cons f fs =>
      rw [hs] at ih
      simp only
      by_cases hcd : c = d
      · subst hcd
        simp only [beq_self_eq_true, if_true]
        rw [c12t_joinFields_cons _ _ _ (by simp), ih]
        rfl
      · have : (c == d) = false := by simpa using hcd
        simp only [this, Bool.false_eq_true, if_false]
        cases fs with
        | nil =>
          simp only [joinFields] at ih ⊢
          rw [ih]
        | cons g gs =>
          rw [c12t_joinFields_cons _ _ _ (by simp)] at ih ⊢
          simp only [List.cons_append, ih]

/-- splitting `name ++ "_" ++ digits` = the parts of `name` followed by `digits` -/
theorem c12t_split_append (d : Char) (name ds : List Char) (hds : d ∉ ds) :
    splitOnChar d (name ++ d :: ds) = splitOnChar d name ++ [ds] := by
  induction name with
  | nil =>
    simp only [List.nil_append]
    unfold splitOnChar
    rw [c18t_splitOnChar_nodelim d ds hds]
    simp
  | cons c cs ih =>
    simp only [List.cons_append]
    unfold splitOnChar
    rw [ih]
    have hne := c18t_splitOnChar_ne_nil d cs
    cases hs : splitOnChar d cs with
    | nil => exact absurd hs hne
    | cons f fs =>
      simp only [List.cons_append]
      split <;> rfl

theorem c12t_underscore_not_in_intDigits (t : Int) : '_' ∉ intDigits t :=
  (Text_digits_clean '_' (by decide) (by decide) 0 t).2.1

/-- **decode ∘ encode = id on occurrence names**, for every node name (possibly containing '_', possibly empty)
    and every integer time -/
theorem C12_text_occ_roundtrip (name : List Char) (t : Int) :
    occDecode (occName name t) = (name, intDigits t) := by
  unfold occDecode occName
  rw [c12t_split_append '_' name (intDigits t) (c12t_underscore_not_in_intDigits t)]
  have hne := c18t_splitOnChar_ne_nil '_' name
  have hjoin := c12t_join_split '_' name
  cases hs : splitOnChar '_' name with
  | nil => exact absurd hs hne
  | cons a rest =>
    rw [hs] at hjoin
    cases rest with
    | nil =>
      simp only [List.cons_append, List.nil_append]
      simp only [joinFields] at hjoin
      rw [hjoin]
    | cons b rest' =>
      have hd : (a :: b :: rest' ++ [intDigits t]).dropLast = a :: b :: rest' := by
        rw [show a :: b :: rest' ++ [intDigits t] = (a :: b :: rest') ++ [intDigits t] from rfl,
          List.dropLast_concat]
      have hl : (a :: b :: rest' ++ [intDigits t]).getLast? = some (intDigits t) := by
        rw [show a :: b :: rest' ++ [intDigits t] = (a :: b :: rest') ++ [intDigits t] from rfl,
          List.getLast?_concat]
      simp only [List.cons_append] at hd hl ⊢
      split
      · rename_i x y heq
        -- `[x, y]` cannot equal a list of at least three parts
        simp only [List.cons.injEq] at heq
        obtain ⟨_, _, h3⟩ := heq
        cases rest' <;> simp at h3
      · rw [hd, hl, hjoin]
        rfl

/-- the typed decoding of one hop: integer node ids and integer times come back exactly -/
theorem C12_text_hop_roundtrip (a b : Node) (s t : Int) :
    hopDecode (occName (natDigits a) s) (occName (natDigits b) t) = some (a, b, t) := by
  unfold hopDecode
  simp only [C12_text_occ_roundtrip, Text_nat_roundtrip, Text_int_roundtrip]

/-- the encoding of an occurrence `(node, time)` with an integer node id -/
def occEnc (o : Occ) : List Char := occName (natDigits o.1) o.2

/-- **the string pipeline equals the pair pipeline**: decoding the names of a DAG path gives `hopsOf` of the
    path of pairs (the function `Paths.lean` uses) -/
theorem C12_text_hops (p : List Occ) : hopsOfNames (p.map occEnc) = some (hopsOf p) := by
  induction p with
  | nil => rfl
  | cons a rest ih =>
    cases rest with
    | nil => rfl
    | cons b rest' =>
      simp only [List.map_cons] at ih ⊢
      unfold hopsOfNames
      rw [ih]
      simp only [occEnc, C12_text_hop_roundtrip, hopsOf]

/-- occurrence names are injective in (name, time): distinct occurrences never share a DAG node -/
theorem C12_text_occ_injective (n1 n2 : List Char) (t1 t2 : Int) (h : occName n1 t1 = occName n2 t2) :
    n1 = n2 ∧ t1 = t2 := by
  have h1 := C12_text_occ_roundtrip n1 t1
  rw [h, C12_text_occ_roundtrip] at h1
  simp only [Prod.mk.injEq] at h1
  refine ⟨h1.1.symm, ?_⟩
  have := Text_int_roundtrip t1
  rw [← h1.2, Text_int_roundtrip] at this
  exact (Option.some.inj this).symm

/-- why the fix of finding D26 was needed: taking `split("_")[0]` (the code before the repair) instead of the
    re-joined prefix loses part of a name that contains '_' -/
theorem C12_text_D26_witness :
    (splitOnChar '_' (occName ['a', '_', '1'] 3)).head? = some ['a'] ∧
    occDecode (occName ['a', '_', '1'] 3) = (['a', '_', '1'], ['3']) := by
  have h3 : intDigits 3 = ['3'] := by
    show natDigits 3 = _
    rw [natDigits]; simp [digitChar]
  refine ⟨?_, ?_⟩
  · unfold occName
    rw [h3]
    simp [splitOnChar]
  · rw [C12_text_occ_roundtrip, h3]

end Dynetx
