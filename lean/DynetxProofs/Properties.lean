import DynetxProofs.Lemmas.HistoryMore
import DynetxProofs.Lemmas.CountsHistory
import DynetxProofs.Lemmas.AccumHistory
/-
  THE PROPERTY THEOREMS.  Only statements about the model that correspond to the clauses of
  /verif/properties.jsonl live here; every helper lemma is in DynetxProofs/Lemmas.
  `g₀ d := Graph.empty d true` is a fresh removal-enabled DynGraph (d = false) / DynDiGraph (d = true);
  a history is a list of `Op` (add_interaction, add_interactions_from, add_path, add_star, add_cycle in
  method or functional form), `Graph.run` executes it call by call, `Graph.runLog` lists the spans of
  the calls that were accepted.
-/
namespace Dynetx

/-! ## C01 — presence is exactly the union of the spans that were added -/

/-- C01 (presence): after any history, `has_interaction(a,b,x)` holds exactly when `x` lies in a span
    accepted for that pair (unordered on DynGraph, ordered on DynDiGraph). -/
theorem C01_presence (d : Bool) (ops : List Op) (a b : Node) (x : Int) :
    ((Graph.empty d true).run ops).1.hasInteraction a b (some x) = true ↔
      inLog d ((Graph.empty d true).runLog ops) a b x := by
  have r := run_ok (Graph.empty d true) (WF.empty d true) rfl ops
  rw [r.presence, empty_hasInteraction]
  simp [Graph.empty]

/-- C01 (flattened): `has_interaction(a,b)` without `t` holds iff some (non-empty) span of the pair was accepted. -/
theorem C01_flat (d : Bool) (ops : List Op) (a b : Node) :
    ((Graph.empty d true).run ops).1.hasInteraction a b none = true ↔
      everLogged d ((Graph.empty d true).runLog ops) a b := by
  have r := run_ok (Graph.empty d true) (WF.empty d true) rfl ops
  rw [r.wf.flat_iff_exists r.removal]
  constructor
  · rintro ⟨x, hx⟩
    obtain ⟨s, hs, hk, _⟩ := (C01_presence d ops a b x).mp hx
    exact ⟨s, hs, hk⟩
  · rintro ⟨s, hs, hk⟩
    refine ⟨s.2.2.1, (C01_presence d ops a b s.2.2.1).mpr ⟨s, hs, hk, Int.le_refl _, ?_⟩⟩
    exact runLog_nonempty _ ops s hs

/-- C01 (outcomes): every call of a history either succeeds or raises ValueError / NetworkXError;
    no other exception (KeyError, IndexError, ...) can escape. -/
theorem C01_outcomes (d : Bool) (ops : List Op) :
    ∀ o ∈ ((Graph.empty d true).run ops).2, o = none ∨ o = some .value ∨ o = some .networkx :=
  (run_ok (Graph.empty d true) (WF.empty d true) rfl ops).outcomes

/-- C01 (rule): in any reachable state, `add_interaction(u,v,t,e)` raises NetworkXError iff `t` is missing,
    and, for a non-empty span, ValueError iff the span starts before the start of the pair's latest run
    (the head of the stored timeline); otherwise it succeeds. -/
theorem C01_rule (d : Bool) (ops : List Op) (u v : Node) (t0 : Int) (e : Option Int) (t1 : Int)
    (hs : spanEnd t0 e = some t1) :
    let g := ((Graph.empty d true).run ops).1
    ((g.addInteraction u v none e).2 = some .networkx) ∧
    ((g.addInteraction u v (some t0) e).2 = some .value ↔
      ∃ ed a b rest, g.findEdge u v = some ed ∧ ed.tl = (a, b) :: rest ∧ t0 < a) ∧
    ((g.addInteraction u v (some t0) e).2 = none ∨ (g.addInteraction u v (some t0) e).2 = some .value) := by
  intro g
  have r := run_ok (Graph.empty d true) (WF.empty d true) rfl ops
  have sp := addInteraction_stepSpec g r.wf r.removal u v t0 e t1 hs
  refine ⟨rfl, sp.rejected_iff, ?_⟩
  rcases sp.outcome with h | ⟨h, _⟩
  · exact Or.inl h
  · exact Or.inr h

/-- C01 (never removes presence; other pairs untouched): one more call changes presence only by adding
    the accepted spans of that call. -/
theorem C01_step (d : Bool) (ops : List Op) (op : Op) (a b : Node) (x : Int) :
    let g := ((Graph.empty d true).run ops).1
    (g.step op).1.hasInteraction a b (some x) = true ↔
      g.hasInteraction a b (some x) = true ∨ inLog d (g.stepLog op) a b x := by
  intro g
  have r := run_ok (Graph.empty d true) (WF.empty d true) rfl ops
  have s := step_ok g r.wf r.removal op
  have hd : g.directed = d := r.directed
  rw [s.presence, hd]

/-! ## C03 — timelines are canonical -/

/-- C03 (histories): the timeline exposed for a pair is a list of `[start,end]` with `start ≤ end`,
    strictly increasing with at least one absent instant between consecutive intervals (`CanonAsc`),
    its union is exactly the pair's presence set, and on DynGraph both endpoint orders expose the same list. -/
theorem C03_history (d : Bool) (ops : List Op) (u v : Node) (tl : List Span)
    (h : ((Graph.empty d true).run ops).1.timeline u v = some tl) :
    let g := ((Graph.empty d true).run ops).1
    CanonAsc tl ∧ (∀ x, memTl tl x ↔ g.hasInteraction u v (some x) = true) ∧
      (d = false → g.timeline v u = some tl) := by
  intro g
  have r := run_ok (Graph.empty d true) (WF.empty d true) rfl ops
  unfold Graph.timeline at h
  cases hf : g.findEdge u v with
  | none => simp [g, hf] at h
  | some ed =>
    have htl : tl = ed.tl.reverse := by simp [g, hf] at h; exact h.symm
    obtain ⟨hem, hek⟩ := findEdge_some hf
    obtain ⟨_, hc⟩ := r.wf.tl ed hem
    subst htl
    refine ⟨hc.reverse, ?_, ?_⟩
    · intro x
      rw [memTl_reverse, r.wf.hasInteraction_iff r.removal]
      constructor
      · intro hm; exact ⟨ed, hem, hek, hm⟩
      · rintro ⟨e', hem', hek', hm⟩
        rw [pairwise_unique r.wf.keys hem hem' hek hek']; exact hm
    · intro hd
      have hdg : g.directed = false := by rw [r.directed]; exact hd
      unfold Graph.timeline
      rw [← findEdge_swap_undirected g hdg u v, hf]
      rfl

/-! ## C04 — snapshot ids are the inhabited instants; per-snapshot counts are exact -/

/-- C04 (ids): `temporal_snapshots_ids()` is strictly increasing (ascending, duplicate-free) and contains
    exactly the instants at which some interaction is present. -/
theorem C04_ids (d : Bool) (ops : List Op) :
    let g := ((Graph.empty d true).run ops).1
    g.ids.Pairwise (fun a b => a < b) ∧ ∀ x, x ∈ g.ids ↔ ∃ a b, g.hasInteraction a b (some x) = true := by
  intro g
  have r := run_ok (Graph.empty d true) (WF.empty d true) rfl ops
  have si := run_snapInv (Graph.empty d true) (WF.empty d true) rfl (SnapInv.empty d true) ops
  exact ⟨ids_strictly_increasing si, fun x => mem_ids_iff r.wf r.removal si x⟩

/-- C04 (counts): the stored counter of every instant `x` — `interactions_per_snapshots(x)` is half of it,
    0 when `x` is no key — is twice the number of stored pairs present at `x`; stored pairs are pairwise
    distinct interactions (`WF.keys`) and a stored pair is counted iff `has_interaction` reports it. -/
theorem C04_counts (d : Bool) (ops : List Op) (x : Int) :
    let g := ((Graph.empty d true).run ops).1
    g.ips2 x = 2 * (g.edges.filter (fun e => g.hasInteraction e.u e.v (some x))).length ∧
    g.edges.Pairwise (fun e f => sameKey g.directed e.u e.v f.u f.v = false) ∧
    (∀ a b, g.hasInteraction a b (some x) = true → ∃ e ∈ g.edges, sameKey g.directed e.u e.v a b = true) := by
  intro g
  have r := run_ok (Graph.empty d true) (WF.empty d true) rfl ops
  have si := run_snapInv (Graph.empty d true) (WF.empty d true) rfl (SnapInv.empty d true) ops
  refine ⟨?_, r.wf.keys, ?_⟩
  · show lookupSnap g.snaps x = _
    rw [si.count x]
    unfold Graph.countAt
    rw [List.countP_eq_length_filter]
    congr 2
    apply List.filter_congr
    intro e he
    have := r.wf.present_edge_iff r.removal he x
    show presentTl e.tl x = g.hasInteraction e.u e.v (some x)
    cases h1 : presentTl e.tl x with
    | true => exact (this.mp h1).symm
    | false =>
      cases h2 : g.hasInteraction e.u e.v (some x) with
      | false => rfl
      | true => rw [this.mpr h2] at h1; cases h1
  · intro a b hab
    obtain ⟨e, he, hk, _⟩ := (r.wf.hasInteraction_iff r.removal a b x).mp hab
    exact ⟨e, he, hk⟩

/-- C04 (dictionary form and mean): the keys of `interactions_per_snapshots()` are the snapshot ids, and
    `avg_number_of_nodes()` is the sum of `number_of_nodes(t)` over the ids divided by their number. -/
theorem C04_avg (d : Bool) (ops : List Op) :
    let g := ((Graph.empty d true).run ops).1
    (∀ x, x ∈ g.snaps.map (·.1) ↔ x ∈ g.ids) ∧
    g.avgNumberOfNodes = ((g.ids.map (fun t => g.numberOfNodes (some t))).foldl (· + ·) 0, g.ids.length) := by
  intro g
  refine ⟨fun x => by rw [ids_eq_sorted, (C18_sorted_perm _).mem_iff], ?_⟩
  unfold Graph.avgNumberOfNodes
  rw [ids_length]

/-! ## C07 — a rejected update leaves no trace -/

/-- C07 (single call): whatever `add_interaction` raises, the whole state (nodes, timelines, events,
    snapshot counters, attributes) is the state before the call.  Both classes, both modes, any state. -/
theorem C07_single (g : Graph) (u v : Node) (t e : Option Int) (err : Err)
    (h : (g.addInteraction u v t e).2 = some err) : (g.addInteraction u v t e).1 = g :=
  addInteraction_error_unchanged g u v t e err h

/-- C07 (continuation): a history with a rejected single call ends in the same state as the history
    without it. -/
theorem C07_continuation (g : Graph) (u v : Node) (t e : Option Int) (err : Err) (rest : List Op)
    (h : (g.step (Op.add u v t e)).2 = some err) :
    (g.run (Op.add u v t e :: rest)).1 = (g.run rest).1 := by
  have hs : (g.step (Op.add u v t e)).1 = g := by
    unfold Graph.step Op.add Graph.addInteractionsFrom at *
    cases t with
    | none => rfl
    | some t0 =>
      simp only [Graph.addFromGo] at *
      rcases hres : g.addInteraction u v (some t0) e with ⟨g', o⟩
      rw [hres] at h
      cases o with
      | none => simp at h
      | some er =>
        have := addInteraction_error_unchanged g u v (some t0) e er (by rw [hres])
        rw [hres] at this; simpa using this
  show ((g.step (Op.add u v t e)).1.run rest).1 = _
  rw [hs]

/-- C07 (bulk helpers): when a bulk call fails, the state is exactly the state after the elements that
    preceded the failing one (which were all accepted), and a missing `t` fails before anything is done. -/
theorem C07_bulk (g : Graph) (op : Op) (err : Err) (h : (g.step op).2 = some err) :
    (op.t = none ∧ (g.step op).1 = g) ∨
    ∃ k, k < op.pairs.length ∧ g.addFromGo (op.pairs.take k) op.t op.e = ((g.step op).1, none) := by
  unfold Graph.step Graph.addInteractionsFrom at *
  cases ht : op.t with
  | none => left; simp
  | some t0 =>
    right
    rw [ht] at h
    simp only at h ⊢
    rcases hres : g.addFromGo op.pairs (some t0) op.e with ⟨g', o⟩
    rw [hres] at h; simp only at h; subst h
    obtain ⟨k, hk, h1, _⟩ := addFromGo_failure_prefix g op.pairs (some t0) op.e g' err hres
    exact ⟨k, hk, h1⟩

/-! ## C08 — accumulative mode -/

/-- C08 (presence): on a graph created with edge_removal=False, after any history, the pair is present at
    `x` iff it was ever accepted and `first accepted t ≤ x ≤ largest accepted t of the graph`
    (the largest accepted `t` is the largest snapshot id, see `C08_ids`). -/
theorem C08_presence (d : Bool) (ops : List Op) (a b : Node) (x : Int) :
    let g := ((Graph.empty d false).run ops).1
    let log := (Graph.empty d false).runLog ops
    g.hasInteraction a b (some x) = true ↔
      ∃ t0 m, firstLogged d log a b = some t0 ∧ maxList (log.map (·.2.2.1)) = some m ∧ t0 ≤ x ∧ x ≤ m := by
  intro g log
  obtain ⟨r1, r2, r3, _⟩ := run_accInv (Graph.empty d false) rfl [] (AccInv.empty d) ops
  have hd : g.directed = d := r2
  have := AccInv.presence (by simpa using r3) r1 a b x
  rw [hd] at this
  exact this

/-- C08 (stream): exactly one event per stored pair, a '+' at the time of its first accepted add, and no
    '-' event at all; `stream_interactions()` is a chronological permutation of these. -/
theorem C08_stream (d : Bool) (ops : List Op) :
    let g := ((Graph.empty d false).run ops).1
    let log := (Graph.empty d false).runLog ops
    g.events = g.edges.map (fun e => ({ t := oldestStart e.tl, u := e.u, v := e.v, plus := true } : Ev)) ∧
    (∀ e ∈ g.edges, firstLogged d log e.u e.v = some (oldestStart e.tl)) ∧
    g.edges.Pairwise (fun e f => sameKey d e.u e.v f.u f.v = false) ∧
    (∀ s ∈ log, ∃ e ∈ g.edges, sameKey d e.u e.v s.1 s.2.1 = true) ∧
    g.stream.Perm g.events ∧ (g.stream.map (·.t)).Pairwise (· ≤ ·) := by
  intro g log
  obtain ⟨_, r2, r3, _⟩ := run_accInv (Graph.empty d false) rfl [] (AccInv.empty d) ops
  have hd : g.directed = d := r2
  have inv : AccInv g log := by simpa using r3
  refine ⟨inv.events, fun e he => by rw [← hd]; exact (inv.first e he).2, by rw [← hd]; exact inv.keys,
    fun s hs => by rw [← hd]; exact inv.logged s hs, List.mergeSort_perm _ _, ?_⟩
  have hs := List.pairwise_mergeSort (le := fun (a b : Ev) => decide (a.t ≤ b.t))
    (by intro a b c; simp; omega) (by intro a b; simp; omega) g.events
  rw [List.pairwise_map]
  exact hs.imp (by intro a b; simp)

/-- C08 (ids): the snapshot ids are exactly the instants at which some add was accepted; calls raise
    nothing but ValueError / NetworkXError. -/
theorem C08_ids (d : Bool) (ops : List Op) :
    let g := ((Graph.empty d false).run ops).1
    let log := (Graph.empty d false).runLog ops
    (∀ x, x ∈ g.ids ↔ ∃ s ∈ log, s.2.2.1 = x) ∧
    (∀ o ∈ ((Graph.empty d false).run ops).2, o = none ∨ o = some .value ∨ o = some .networkx) := by
  intro g log
  obtain ⟨_, _, r3, r4⟩ := run_accInv (Graph.empty d false) rfl [] (AccInv.empty d) ops
  have inv : AccInv g log := by simpa using r3
  refine ⟨fun x => ?_, r4⟩
  rw [ids_eq_sorted, (C18_sorted_perm _).mem_iff]
  exact inv.snaps x

/-! ### non-vacuity: concrete histories that meet the hypotheses -/

example : ((Graph.empty false true).run [Op.add 1 2 (some 2) (some 6), Op.add 2 1 (some 4) (some 9), Op.add 1 2 (some 1) none]).2
    = [none, none, some .value] := by decide
example : ((Graph.empty false true).run [Op.add 1 2 (some 2) (some 6), Op.add 2 1 (some 4) (some 9)]).1.timeline 2 1
    = some [(2, 8)] := by decide
example : ((Graph.empty true true).run [Op.path [1, 2, 3] (some 0), Op.cycle [3, 1] (some 5)]).1.hasInteraction 3 1 (some 5) = true := by decide
example : ((Graph.empty false false).run [Op.add 1 2 (some 3) (some 4), Op.add 3 4 (some 7) none]).1.hasInteraction 2 1 (some 6) = true := by decide
example : ((Graph.empty false false).runLog [Op.add 1 2 (some 3) (some 4), Op.add 3 4 (some 7) none, Op.add 1 2 (some 1) none])
    = [(1, 2, 3, 3), (3, 4, 7, 7)] := by decide

end Dynetx
