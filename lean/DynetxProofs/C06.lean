import DynetxProofs.Q1
import DynetxProofs.Q2
import DynetxProofs.Lemmas.AddMany
/-
  C06: `time_slice(t_from, t_to)` on a removal-enabled graph.

  The result is a fresh graph of the same class whose presence relation is the presence relation of the
  source intersected with the window `[t_from, t_to]`; its nodes are the endpoints of the interactions
  inside the window and they carry the source's attributes.  No call of the rebuilding loop is rejected.
-/
namespace Dynetx

/-! ### 1. `clip` -/

/-- the four coded cases are exactly the intersection with the window -/
theorem c06_clip_spec (tFrom tTo a b : Int) (hab : a ≤ b) (hw : tFrom ≤ tTo) :
    clip tFrom tTo a b = if tTo < a ∨ b < tFrom then none else some (max tFrom a, min tTo b) := by
  have _ := hab
  have _ := hw
  unfold clip
  simp only [Bool.or_eq_true, Bool.and_eq_true, decide_eq_true_eq, ge_iff_le, gt_iff_lt]
  rw [Int.max_def, Int.min_def]
  repeat' split
  all_goals first
    | rfl
    | (exfalso; omega)
    | (congr 2 <;> omega)

/-! ### 2. ascending canonical timelines -/

theorem c06_canonAsc_tail {s : Span} {tl : List Span} (h : CanonAsc (s :: tl)) : CanonAsc tl := by
  cases tl with
  | nil => trivial
  | cons r rest => exact h.2.2

theorem c06_canonAsc_head_le {s : Span} {tl : List Span} (h : CanonAsc (s :: tl)) : s.1 ≤ s.2 := by
  cases tl with
  | nil => exact h
  | cons r rest => exact h.1

theorem c06_canonAsc_all_le {tl : List Span} (h : CanonAsc tl) : ∀ r ∈ tl, r.1 ≤ r.2 := by
  induction tl with
  | nil => intro r hr; cases hr
  | cons s rest ih =>
    intro r hr
    rcases List.mem_cons.mp hr with rfl | hr'
    · exact c06_canonAsc_head_le h
    · exact ih (c06_canonAsc_tail h) r hr'

theorem c06_canonAsc_above {s : Span} {tl : List Span} (h : CanonAsc (s :: tl)) :
    ∀ r ∈ tl, s.2 + 1 < r.1 := by
  induction tl generalizing s with
  | nil => intro r hr; cases hr
  | cons q rest ih =>
    intro r hr
    have hq : s.2 + 1 < q.1 := h.2.1
    rcases List.mem_cons.mp hr with rfl | hr'
    · exact hq
    · have := ih h.2.2 r hr'
      have hq' := c06_canonAsc_head_le h.2.2
      omega

theorem c06_canonAsc_pairwise {tl : List Span} (h : CanonAsc tl) :
    tl.Pairwise (fun s r => s.1 ≤ s.2 ∧ r.1 ≤ r.2 ∧ s.2 + 1 < r.1) := by
  induction tl with
  | nil => exact List.Pairwise.nil
  | cons s rest ih =>
    rw [List.pairwise_cons]
    refine ⟨?_, ih (c06_canonAsc_tail h)⟩
    intro r hr
    exact ⟨c06_canonAsc_head_le h, c06_canonAsc_all_le (c06_canonAsc_tail h) r hr, c06_canonAsc_above h r hr⟩

theorem c06_timeline_canonAsc {g : Graph} (h : WF g) (u v : Node) (tl : List Span)
    (ht : g.timeline u v = some tl) : CanonAsc tl := by
  unfold Graph.timeline at ht
  cases hf : g.findEdge u v with
  | none => rw [hf] at ht; cases ht
  | some e =>
    rw [hf] at ht
    simp only [Option.map_some, Option.some.injEq] at ht
    subst ht
    exact (h.tl e (findEdge_some hf).1).2.reverse

/-! ### 3. the calls of the rebuilding loop -/

theorem c06_sliceCalls_eq (tF tT : Int) (d : List (Node × Node × List Span)) :
    sliceCalls tF tT d = d.flatMap (fun p => p.2.2.filterMap (fun s =>
      (clip tF tT s.1 s.2).map (fun xy => (p.1, p.2.1, xy.1, some (xy.2 + 1))))) := rfl

theorem c06_mem_sliceCalls (tF tT : Int) (d : List (Node × Node × List Span)) (c : Call4) :
    c ∈ sliceCalls tF tT d ↔ ∃ p ∈ d, ∃ s ∈ p.2.2, ∃ xy, clip tF tT s.1 s.2 = some xy ∧
      c = (p.1, p.2.1, xy.1, some (xy.2 + 1)) := by
  rw [c06_sliceCalls_eq]
  simp only [List.mem_flatMap, List.mem_filterMap, Option.map_eq_some_iff]
  constructor
  · rintro ⟨p, hp, s, hs, xy, hxy, rfl⟩; exact ⟨p, hp, s, hs, xy, hxy, rfl⟩
  · rintro ⟨p, hp, s, hs, xy, hxy, rfl⟩; exact ⟨p, hp, s, hs, xy, hxy, rfl⟩

/-- per pair the calls come in ascending start order -/
theorem c06_callsSorted (dflag : Bool) (tF tT : Int) (hw : tF ≤ tT) (d : List (Node × Node × List Span))
    (hc : ∀ p ∈ d, CanonAsc p.2.2)
    (hk : d.Pairwise (fun p q => ¬ (sameKey dflag p.1 p.2.1 q.1 q.2.1 = true))) :
    CallsSorted dflag (sliceCalls tF tT d) := by
  unfold CallsSorted
  rw [c06_sliceCalls_eq, List.pairwise_flatMap]
  constructor
  · intro p hp
    rw [List.pairwise_filterMap]
    refine (c06_canonAsc_pairwise (hc p hp)).imp ?_
    intro s r hsr c1 h1 c2 h2 _
    obtain ⟨hs, hr', hlt⟩ := hsr
    rw [c06_clip_spec tF tT s.1 s.2 hs hw] at h1
    rw [c06_clip_spec tF tT r.1 r.2 hr' hw] at h2
    split at h1
    · cases h1
    · split at h2
      · cases h2
      · simp only [Option.map_some, Option.some.injEq] at h1 h2
        subst h1; subst h2
        show max tF s.1 ≤ max tF r.1
        omega
  · refine hk.imp ?_
    intro p q hpq c1 h1 c2 h2 hkey
    rw [List.mem_filterMap] at h1 h2
    obtain ⟨s1, _, h1⟩ := h1
    obtain ⟨s2, _, h2⟩ := h2
    rw [Option.map_eq_some_iff] at h1 h2
    obtain ⟨xy1, _, rfl⟩ := h1
    obtain ⟨xy2, _, rfl⟩ := h2
    exact absurd hkey hpq

/-- the union of the spans of the calls made for a pair = window ∩ the listed intervals of the pair -/
theorem c06_inCalls_slice (dflag : Bool) (tF tT : Int) (hw : tF ≤ tT) (d : List (Node × Node × List Span))
    (hc : ∀ p ∈ d, CanonAsc p.2.2) (a b : Node) (x : Int) :
    inCalls dflag (sliceCalls tF tT d) a b x ↔
      ∃ p ∈ d, sameKey dflag p.1 p.2.1 a b = true ∧ tF ≤ x ∧ x ≤ tT ∧ memTl p.2.2 x := by
  unfold inCalls
  constructor
  · rintro ⟨c, hcm, hk, t1, hsp, h1, h2⟩
    rw [c06_mem_sliceCalls] at hcm
    obtain ⟨p, hp, s, hs, xy, hxy, rfl⟩ := hcm
    have hsle := c06_canonAsc_all_le (hc p hp) s hs
    rw [c06_clip_spec tF tT s.1 s.2 hsle hw] at hxy
    split at hxy
    · cases hxy
    · simp only [Option.some.injEq] at hxy
      subst hxy
      simp only [spanEnd] at hsp h1 h2 hk
      split at hsp
      · cases hsp
      · simp only [Option.some.injEq] at hsp
        subst hsp
        exact ⟨p, hp, hk, by omega, by omega, s, hs, by omega, by omega⟩
  · rintro ⟨p, hp, hk, h1, h2, s, hs, h3, h4⟩
    have hsle := c06_canonAsc_all_le (hc p hp) s hs
    have hcl : clip tF tT s.1 s.2 = some (max tF s.1, min tT s.2) := by
      rw [c06_clip_spec tF tT s.1 s.2 hsle hw, if_neg (by omega)]
    refine ⟨(p.1, p.2.1, max tF s.1, some (min tT s.2 + 1)), ?_, hk, min tT s.2, ?_, ?_, ?_⟩
    · rw [c06_mem_sliceCalls]
      exact ⟨p, hp, s, hs, _, hcl, rfl⟩
    · simp only [spanEnd]
      rw [if_neg (by omega)]
      congr 1; omega
    · show max tF s.1 ≤ x; omega
    · omega

/-! ### 4. the data the loop iterates over -/

/-- the iteration `time_slice` uses: `out_interactions_iter` (directed) or `interactions_iter` -/
def c06_data (g : Graph) : List (Node × Node × List Span) :=
  if g.directed then g.outInteractionsData else g.interactionsData

theorem c06_q2 {g : Graph} (hn : NodeInv g) : q2_NodeInv g := ⟨hn.endpoints, hn.nodup⟩

/-- what the proof needs of the data: one entry per stored pair, carrying the pair's exposed timeline -/
structure c06_DataOk (g : Graph) (d : List (Node × Node × List Span)) : Prop where
  canon : ∀ p ∈ d, CanonAsc p.2.2
  pres : ∀ p ∈ d, ∀ a b, sameKey g.directed p.1 p.2.1 a b = true →
    ∀ x, (g.hasInteraction a b (some x) = true ↔ memTl p.2.2 x)
  keys : d.Pairwise (fun p q => ¬ (sameKey g.directed p.1 p.2.1 q.1 q.2.1 = true))
  complete : ∀ a b x, g.hasInteraction a b (some x) = true →
    ∃ p ∈ d, sameKey g.directed p.1 p.2.1 a b = true

/-- an entry built from a stored pair -/
theorem c06_entry {g : Graph} (h : WF g) (hr : g.removal = true) (u v : Node)
    (hf : g.hasInteraction u v none = true) :
    CanonAsc ((g.timeline u v).getD []) ∧
    ∀ a b, sameKey g.directed u v a b = true →
      ∀ x, (g.hasInteraction a b (some x) = true ↔ memTl ((g.timeline u v).getD []) x) := by
  obtain ⟨e, hem, hk⟩ := (hasInteraction_flat_iff g u v).mp hf
  have hfe : g.findEdge u v = some e := h.findEdge_of_mem hem hk
  have htl : (g.timeline u v).getD [] = e.tl.reverse := by simp [Graph.timeline, hfe]
  rw [htl]
  refine ⟨(h.tl e hem).2.reverse, ?_⟩
  intro a b hab x
  rw [memTl_reverse, h.hasInteraction_iff hr]
  have hkab : sameKey g.directed e.u e.v a b = true := sameKey_trans hk hab
  constructor
  · rintro ⟨e', hem', hk', hx⟩
    rw [pairwise_unique h.keys hem hem' hkab hk']
    exact hx
  · intro hx; exact ⟨e, hem, hkab, hx⟩

theorem c06_dataOk {g : Graph} (h : WF g) (hr : g.removal = true) (hn : NodeInv g) :
    c06_DataOk g (c06_data g) := by
  have hq := c06_q2 hn
  unfold c06_data
  cases hd : g.directed with
  | true =>
    simp only [if_true, Graph.outInteractionsData]
    have hmem : ∀ p ∈ (g.outInteractions none none).map
        (fun p => (p.1, p.2, ((g.timeline p.1 p.2).getD []))),
        g.hasInteraction p.1 p.2.1 none = true ∧ p.2.2 = (g.timeline p.1 p.2.1).getD [] := by
      intro p hp
      obtain ⟨q, hqm, rfl⟩ := List.mem_map.mp hp
      exact ⟨(C02_outInteractions_directed hq none q.1 q.2).mp hqm, rfl⟩
    refine ⟨?_, ?_, ?_, ?_⟩
    · intro p hp
      obtain ⟨h1, h2⟩ := hmem p hp
      rw [h2]; exact (c06_entry h hr _ _ h1).1
    · intro p hp a b hab x
      obtain ⟨h1, h2⟩ := hmem p hp
      rw [h2]; exact (c06_entry h hr _ _ h1).2 a b hab x
    · rw [List.pairwise_map]
      refine (C02_outInteractions_nodup h hq none).imp ?_
      intro p q hpq hk
      rw [hd] at hk
      exact hpq (Prod.ext ((sameKey_directed_iff _ _ _ _).mp hk).1 ((sameKey_directed_iff _ _ _ _).mp hk).2)
    · intro a b x hx
      refine ⟨(a, b, (g.timeline a b).getD []), List.mem_map.mpr ⟨(a, b), ?_, rfl⟩, sameKey_refl _ _ _⟩
      exact (C02_outInteractions_directed hq none a b).mpr (q2_flat_of_has hx)
  | false =>
    simp only [Bool.false_eq_true, if_false, Graph.interactionsData]
    have hmem : ∀ p ∈ (g.interactions none none).map
        (fun p => (p.1, p.2, ((g.timeline p.1 p.2).getD []))),
        g.hasInteraction p.1 p.2.1 none = true ∧ p.2.2 = (g.timeline p.1 p.2.1).getD [] := by
      intro p hp
      obtain ⟨q, hqm, rfl⟩ := List.mem_map.mp hp
      exact ⟨C02_interactions_mem g none q.1 q.2 hqm, rfl⟩
    refine ⟨?_, ?_, ?_, ?_⟩
    · intro p hp
      obtain ⟨h1, h2⟩ := hmem p hp
      rw [h2]; exact (c06_entry h hr _ _ h1).1
    · intro p hp a b hab x
      obtain ⟨h1, h2⟩ := hmem p hp
      rw [h2]; exact (c06_entry h hr _ _ h1).2 a b hab x
    · rw [List.pairwise_map]
      have := C02_interactions_once h hq none
      rw [hd]
      exact this
    · intro a b x hx
      rcases C02_interactions_complete hq hd none a b (q2_flat_of_has hx) with h1 | h1
      · exact ⟨(a, b, (g.timeline a b).getD []), List.mem_map.mpr ⟨(a, b), h1, rfl⟩, sameKey_refl _ _ _⟩
      · refine ⟨(b, a, (g.timeline b a).getD []), List.mem_map.mpr ⟨(b, a), h1, rfl⟩, ?_⟩
        simp [sameKey, hd]

/-! ### 5. nodes along `addMany` -/

/-- every node is an endpoint of a stored pair -/
def c06_NodesUsed (g : Graph) : Prop :=
  ∀ n, g.hasNodeFlat n = true → ∃ m, g.hasInteraction n m none = true ∨ g.hasInteraction m n none = true

theorem c06_addInteraction_nodes (g : Graph) (hr : g.removal = true) (u v : Node) (t0 : Int) (e : Option Int)
    (t1 : Int) (hs : spanEnd t0 e = some t1) :
    (g.addInteraction u v (some t0) e).1.nodes = g.nodes ∨
    (g.addInteraction u v (some t0) e).1.nodes = ensureNode (ensureNode g.nodes u) v := by
  cases hf : g.findEdge u v with
  | none =>
    rw [addInteraction_new g hr u v t0 e t1 hs hf]
    exact Or.inr (q1_addNew_nodes ..)
  | some ed =>
    cases htl : ed.tl with
    | nil =>
      have : g.addInteraction u v (some t0) e = (g, some .index) := by
        simp only [Graph.addInteraction, effE_removal g hr, hs, hf, htl]
      rw [this]; exact Or.inl rfl
    | cons s rest =>
      obtain ⟨a, b⟩ := s
      by_cases hlt : t0 < a
      · rw [addInteraction_reject g hr u v t0 e t1 hs hf htl hlt]; exact Or.inl rfl
      · by_cases hc : t1 ≤ b
        · rw [addInteraction_covered g hr u v t0 e t1 hs hf htl hlt hc]
          exact Or.inl (q1_addCovered_nodes ..)
        · by_cases hx : t0 ≤ b + 1
          · rw [addInteraction_extend g hr u v t0 e t1 hs hf htl hlt hc hx]
            exact Or.inr (q1_addExtend_nodes ..)
          · rw [addInteraction_append g hr u v t0 e t1 hs hf htl hlt hc hx]
            exact Or.inr (q1_addAppend_nodes ..)

structure c06_Inv (g : Graph) : Prop where
  wf : WF g
  removal : g.removal = true
  nodeInv : NodeInv g
  used : c06_NodesUsed g

theorem c06_addInteraction_inv {g : Graph} (h : c06_Inv g) (u v : Node) (t0 : Int) (e : Option Int) :
    c06_Inv (g.addInteraction u v (some t0) e).1 := by
  have hni := addInteraction_nodeInv g h.nodeInv u v (some t0) e
  cases hs : spanEnd t0 e with
  | none =>
    rw [addInteraction_emptySpan g u v t0 e (by rw [effE_removal g h.removal]; exact hs)]
    exact h
  | some t1 =>
    have sp := addInteraction_stepSpec g h.wf h.removal u v t0 e t1 hs
    have hr' : (g.addInteraction u v (some t0) e).1.removal = true := by rw [sp.removal]; exact h.removal
    refine ⟨sp.wf, hr', hni, ?_⟩
    rcases sp.outcome with hacc | ⟨_, hsame⟩
    · have hpres := sp.presence hacc
      intro n hnode
      have hold : ∀ m, g.hasInteraction n m none = true ∨ g.hasInteraction m n none = true →
          ∃ m, (g.addInteraction u v (some t0) e).1.hasInteraction n m none = true ∨
               (g.addInteraction u v (some t0) e).1.hasInteraction m n none = true := by
        intro m hm
        rcases hm with hm | hm
        · obtain ⟨x, hx⟩ := (h.wf.flat_iff_exists h.removal n m).mp hm
          exact ⟨m, Or.inl (q2_flat_of_has ((hpres n m x).mpr (Or.inl hx)))⟩
        · obtain ⟨x, hx⟩ := (h.wf.flat_iff_exists h.removal m n).mp hm
          exact ⟨m, Or.inr (q2_flat_of_has ((hpres m n x).mpr (Or.inl hx)))⟩
      have hnew : (g.addInteraction u v (some t0) e).1.hasInteraction u v none = true :=
        q2_flat_of_has ((hpres u v t0).mpr (Or.inr ⟨sameKey_refl _ _ _, Int.le_refl _, spanEnd_le hs⟩))
      rw [q1_hasNodeFlat_iff] at hnode
      unfold Graph.nodeList at hnode
      rcases c06_addInteraction_nodes g h.removal u v t0 e t1 hs with hnd | hnd
      · rw [hnd] at hnode
        obtain ⟨m, hm⟩ := h.used n ((q1_hasNodeFlat_iff g n).mpr hnode)
        exact hold m hm
      · rw [hnd, q1_ensureNode_mem, q1_ensureNode_mem] at hnode
        rcases hnode with (hnode | rfl) | rfl
        · obtain ⟨m, hm⟩ := h.used n ((q1_hasNodeFlat_iff g n).mpr hnode)
          exact hold m hm
        · exact ⟨v, Or.inl hnew⟩
        · exact ⟨u, Or.inr hnew⟩
    · rw [hsame]; exact h.used

theorem c06_addMany_inv {g : Graph} (h : c06_Inv g) (calls : List Call4) : c06_Inv (g.addMany calls).1 := by
  induction calls generalizing g with
  | nil => exact h
  | cons c rest ih =>
    obtain ⟨u, v, t0, e⟩ := c
    have h1 := c06_addInteraction_inv h u v t0 e
    unfold Graph.addMany
    split
    · rename_i g' hres
      rw [hres] at h1
      exact ih h1
    · rename_i g' err hres
      rw [hres] at h1
      exact h1

/-- `addMany` keeps the node invariant (both modes, both classes) -/
theorem c06_addMany_nodeInv (g : Graph) (h : NodeInv g) (calls : List Call4) : NodeInv (g.addMany calls).1 := by
  induction calls generalizing g with
  | nil => exact h
  | cons c rest ih =>
    obtain ⟨u, v, t0, e⟩ := c
    have h1 := addInteraction_nodeInv g h u v (some t0) e
    unfold Graph.addMany
    split
    · rename_i g' hres
      rw [hres] at h1
      exact ih g' h1
    · rename_i g' err hres
      rw [hres] at h1
      exact h1

theorem c06_empty_inv (d : Bool) : c06_Inv (Graph.empty d true) :=
  ⟨WF.empty _ _, rfl, NodeInv.empty _ _, by intro n hn; simp [Graph.hasNodeFlat, Graph.empty] at hn⟩

/-! ### 6. the attribute copy -/

theorem c06_copyAttrs_names (src dst : List (Node × Nat)) :
    (copyAttrs src dst).map (·.1) = dst.map (·.1) := by
  unfold copyAttrs
  rw [List.map_map]
  rfl

/-- replacing the node table does not touch the edges: presence is unchanged -/
theorem c06_nodes_hasInteraction (h : Graph) (ns : List (Node × Nat)) (u v : Node) (t : Option Int) :
    ({ h with nodes := ns } : Graph).hasInteraction u v t = h.hasInteraction u v t := rfl

theorem c06_nodes_hasNodeFlat (h : Graph) (src : List (Node × Nat)) (n : Node) :
    ({ h with nodes := copyAttrs src h.nodes } : Graph).hasNodeFlat n = h.hasNodeFlat n := by
  have h1 := q1_any_iff (copyAttrs src h.nodes) n
  have h2 := q1_any_iff h.nodes n
  rw [c06_copyAttrs_names] at h1
  show (copyAttrs src h.nodes).any (fun p => p.1 == n) = h.nodes.any (fun p => p.1 == n)
  rw [Bool.eq_iff_iff, h1, h2]

theorem c06_nodes_inv {h : Graph} (hi : c06_Inv h) (src : List (Node × Nat)) :
    c06_Inv ({ h with nodes := copyAttrs src h.nodes } : Graph) := by
  refine ⟨⟨hi.wf.tl, hi.wf.keys⟩, hi.removal, ⟨?_, ?_⟩, ?_⟩
  · intro e he
    rw [c06_nodes_hasNodeFlat, c06_nodes_hasNodeFlat]
    exact hi.nodeInv.endpoints e he
  · show ((copyAttrs src h.nodes).map (·.1)).Nodup
    rw [c06_copyAttrs_names]; exact hi.nodeInv.nodup
  · intro n hn
    rw [c06_nodes_hasNodeFlat] at hn
    exact hi.used n hn

/-! ### 7. the slice -/

theorem c06_window (a : Int) (bo : Option Int) (hw : ∀ b, bo = some b → a ≤ b) : a ≤ bo.getD a := by
  cases bo with
  | none => exact Int.le_refl _
  | some b => exact hw b rfl

/-- the window of a successful slice is valid -/
theorem c06_ok_window {g : Graph} {a : Int} {bo : Option Int} {H : Graph} (hH : g.timeSlice a bo = .ok H) :
    ∀ b, bo = some b → a ≤ b := by
  intro b hb
  subst hb
  by_cases hlt : b < a
  · have : g.timeSlice a (some b) = .error .value := by simp [Graph.timeSlice, hlt]
    rw [this] at hH; cases hH
  · omega

/-- everything about the rebuilt graph before the attribute copy -/
theorem c06_core (g : Graph) (h : WF g) (hr : g.removal = true) (hn : NodeInv g) (a : Int) (bo : Option Int)
    (hw : ∀ b, bo = some b → a ≤ b) :
    ∃ h0 : Graph, g.timeSlice a bo = .ok { h0 with nodes := copyAttrs g.nodes h0.nodes } ∧
      c06_Inv h0 ∧ h0.directed = g.directed ∧
      ∀ u v x, h0.hasInteraction u v (some x) = true ↔
        (a ≤ x ∧ x ≤ bo.getD a ∧ g.hasInteraction u v (some x) = true) := by
  have hwin := c06_window a bo hw
  have hd := c06_dataOk h hr hn
  have hsorted : CallsSorted (Graph.empty g.directed true).directed
      (sliceCalls a (bo.getD a) (c06_data g)) :=
    c06_callsSorted g.directed a (bo.getD a) hwin (c06_data g) hd.canon hd.keys
  obtain ⟨hacc, _, _, hdir, hpres⟩ :=
    addMany_fresh (Graph.empty g.directed true) rfl rfl (sliceCalls a (bo.getD a) (c06_data g)) hsorted
  have hinv := c06_addMany_inv (c06_empty_inv g.directed) (sliceCalls a (bo.getD a) (c06_data g))
  rcases hres : (Graph.empty g.directed true).addMany (sliceCalls a (bo.getD a) (c06_data g)) with ⟨h0, o⟩
  rw [hres] at hacc hdir hpres hinv
  simp only at hacc hdir hpres hinv
  subst hacc
  refine ⟨h0, ?_, hinv, hdir, ?_⟩
  · have hc : (bo.isSome && decide (bo.getD a < a)) = false := by
      cases bo with
      | none => rfl
      | some b => have := hw b rfl; simp; omega
    unfold c06_data at hres
    simp only [Graph.timeSlice, hc, Bool.false_eq_true, if_false, hres]
  · intro u v x
    rw [hpres]
    show inCalls g.directed _ u v x ↔ _
    rw [c06_inCalls_slice g.directed a (bo.getD a) hwin (c06_data g) hd.canon]
    constructor
    · rintro ⟨p, hp, hk, h1, h2, hm⟩
      exact ⟨h1, h2, (hd.pres p hp u v hk x).mpr hm⟩
    · rintro ⟨h1, h2, hx⟩
      obtain ⟨p, hp, hk⟩ := hd.complete u v x hx
      exact ⟨p, hp, hk, h1, h2, (hd.pres p hp u v hk x).mp hx⟩

/-- an inverted window is refused -/
theorem C06_error (g : Graph) (a b : Int) (hlt : b < a) : g.timeSlice a (some b) = .error .value := by
  simp [Graph.timeSlice, hlt]

/-- a valid window (or no upper end) always yields a graph: no call of the rebuilding loop is rejected -/
theorem C06_ok (g : Graph) (h : WF g) (hr : g.removal = true) (hn : NodeInv g) (a : Int) (bo : Option Int)
    (hw : ∀ b, bo = some b → a ≤ b) : ∃ H, g.timeSlice a bo = .ok H := by
  obtain ⟨h0, h1, _⟩ := c06_core g h hr hn a bo hw
  exact ⟨_, h1⟩

/-- with an upper end given, the call fails exactly on an inverted window -/
theorem C06_invalid_window (g : Graph) (h : WF g) (hr : g.removal = true) (hn : NodeInv g) (a b : Int) :
    g.timeSlice a (some b) = .error .value ↔ b < a := by
  constructor
  · intro herr
    by_cases hlt : b < a
    · exact hlt
    · obtain ⟨H, hH⟩ := C06_ok g h hr hn a (some b) (by intro b' hb'; cases hb'; omega)
      rw [hH] at herr; cases herr
  · exact C06_error g a b

/-- the result with its invariants, from a successful call -/
theorem c06_result (g : Graph) (h : WF g) (hr : g.removal = true) (hn : NodeInv g) (a : Int) (bo : Option Int)
    (H : Graph) (hH : g.timeSlice a bo = .ok H) :
    c06_Inv H ∧ H.directed = g.directed ∧
      (∀ u v x, H.hasInteraction u v (some x) = true ↔
        (a ≤ x ∧ x ≤ bo.getD a ∧ g.hasInteraction u v (some x) = true)) ∧
      ∃ h0 : Graph, H = { h0 with nodes := copyAttrs g.nodes h0.nodes } := by
  obtain ⟨h0, h1, hinv, hdir, hpres⟩ := c06_core g h hr hn a bo (c06_ok_window hH)
  rw [h1] at hH
  injection hH with hH
  subst hH
  exact ⟨c06_nodes_inv hinv g.nodes, hdir, hpres, h0, rfl⟩

/-- presence in the slice = presence in the source ∩ window; same class, removal-enabled, well formed -/
theorem C06_presence (g : Graph) (h : WF g) (hr : g.removal = true) (hn : NodeInv g) (a : Int) (bo : Option Int)
    (H : Graph) (hH : g.timeSlice a bo = .ok H) :
    (∀ u v x, H.hasInteraction u v (some x) = true ↔
      (a ≤ x ∧ x ≤ bo.getD a ∧ g.hasInteraction u v (some x) = true)) ∧
    H.directed = g.directed ∧ H.removal = true ∧ WF H := by
  obtain ⟨hinv, hdir, hpres, _⟩ := c06_result g h hr hn a bo H hH
  exact ⟨hpres, hdir, hinv.removal, hinv.wf⟩

/-- the exposed timelines of the slice are canonical (C03's statement holds for the result) -/
theorem C06_canonical (g : Graph) (h : WF g) (hr : g.removal = true) (hn : NodeInv g) (a : Int) (bo : Option Int)
    (H : Graph) (hH : g.timeSlice a bo = .ok H) :
    ∀ u v tl, H.timeline u v = some tl → CanonAsc tl :=
  c06_timeline_canonAsc (C06_presence g h hr hn a bo H hH).2.2.2

/-- the node invariant of the slice -/
theorem C06_nodeInv (g : Graph) (h : WF g) (hr : g.removal = true) (hn : NodeInv g) (a : Int) (bo : Option Int)
    (H : Graph) (hH : g.timeSlice a bo = .ok H) : NodeInv H :=
  (c06_result g h hr hn a bo H hH).1.nodeInv

/-- the nodes of the slice are exactly the endpoints of the interactions inside the window -/
theorem C06_nodes (g : Graph) (h : WF g) (hr : g.removal = true) (hn : NodeInv g) (a : Int) (bo : Option Int)
    (H : Graph) (hH : g.timeSlice a bo = .ok H) :
    ∀ n, H.hasNodeFlat n = true ↔ ∃ m x, a ≤ x ∧ x ≤ bo.getD a ∧
      (g.hasInteraction n m (some x) = true ∨ g.hasInteraction m n (some x) = true) := by
  obtain ⟨hinv, _, hpres, _⟩ := c06_result g h hr hn a bo H hH
  have hq := c06_q2 hinv.nodeInv
  intro n
  constructor
  · intro hnode
    obtain ⟨m, hm⟩ := hinv.used n hnode
    rcases hm with hm | hm
    · obtain ⟨x, hx⟩ := (hinv.wf.flat_iff_exists hinv.removal n m).mp hm
      obtain ⟨h1, h2, h3⟩ := (hpres n m x).mp hx
      exact ⟨m, x, h1, h2, Or.inl h3⟩
    · obtain ⟨x, hx⟩ := (hinv.wf.flat_iff_exists hinv.removal m n).mp hm
      obtain ⟨h1, h2, h3⟩ := (hpres m n x).mp hx
      exact ⟨m, x, h1, h2, Or.inr h3⟩
  · rintro ⟨m, x, h1, h2, h3 | h3⟩
    · rw [q2_hasNodeFlat_iff]
      exact q2_has_node_left hq ((hpres n m x).mpr ⟨h1, h2, h3⟩)
    · rw [q2_hasNodeFlat_iff]
      exact q2_has_node_right hq ((hpres m n x).mpr ⟨h1, h2, h3⟩)

/-- the nodes of the slice carry the source's attributes -/
theorem C06_attrs (g : Graph) (h : WF g) (hr : g.removal = true) (hn : NodeInv g) (a : Int) (bo : Option Int)
    (H : Graph) (hH : g.timeSlice a bo = .ok H) :
    ∀ n k, (n, k) ∈ H.nodes → (n, k) ∈ g.nodes := by
  have hnodes := C06_nodes g h hr hn a bo H hH
  obtain ⟨_, _, _, h0, hH0⟩ := c06_result g h hr hn a bo H hH
  have hq := c06_q2 hn
  intro n k hnk
  have hflat : H.hasNodeFlat n = true := by
    rw [q2_hasNodeFlat_iff]
    exact List.mem_map.mpr ⟨(n, k), hnk, rfl⟩
  have hgn : n ∈ g.nodeList := by
    obtain ⟨m, x, _, _, h3 | h3⟩ := (hnodes n).mp hflat
    · exact q2_has_node_left hq h3
    · exact q2_has_node_right hq h3
  subst hH0
  have hnk' : (n, k) ∈ copyAttrs g.nodes h0.nodes := hnk
  unfold copyAttrs at hnk'
  obtain ⟨p, _, hp⟩ := List.mem_map.mp hnk'
  injection hp with hp1 hp2
  subst hp1
  obtain ⟨q, hqm, hq1⟩ := List.mem_map.mp hgn
  cases hfind : g.nodes.find? (fun q => q.1 == p.1) with
  | none =>
    have := List.find?_eq_none.mp hfind q hqm
    simp [hq1] at this
  | some r =>
    rw [hfind] at hp2
    simp only [Option.map_some, Option.getD_some] at hp2
    have hr1 : r.1 = p.1 := by simpa using List.find?_some hfind
    have hrm := List.mem_of_find?_eq_some hfind
    rw [← hp2, ← hr1]
    exact hrm

/-- a slice of a slice is the slice by the intersection of the windows -/
theorem C06_slice_of_slice (g : Graph) (h : WF g) (hr : g.removal = true) (hn : NodeInv g) (a b c d : Int)
    (H K : Graph) (hH : g.timeSlice a (some b) = .ok H) (hK : H.timeSlice c (some d) = .ok K) :
    ∀ u v x, K.hasInteraction u v (some x) = true ↔
      (max a c ≤ x ∧ x ≤ min b d ∧ g.hasInteraction u v (some x) = true) := by
  obtain ⟨hinv, _, hpres, _⟩ := c06_result g h hr hn a (some b) H hH
  obtain ⟨hpresK, _⟩ := C06_presence H hinv.wf hinv.removal hinv.nodeInv c (some d) K hK
  intro u v x
  rw [hpresK, hpres]
  simp only [Option.getD_some]
  constructor
  · rintro ⟨h1, h2, h3, h4, h5⟩; exact ⟨by omega, by omega, h5⟩
  · rintro ⟨h1, h2, h3⟩; exact ⟨by omega, by omega, by omega, by omega, h3⟩

/-- all of the above for the graph reached by any history of calls on a fresh removal-enabled graph -/
theorem C06_history (dflag : Bool) (ops : List Op) (a : Int) (bo : Option Int) :
    let g := ((Graph.empty dflag true).run ops).1
    ((∀ b, bo = some b → a ≤ b) → ∃ H, g.timeSlice a bo = .ok H) ∧
    (∀ b, bo = some b → b < a → g.timeSlice a bo = .error .value) ∧
    ∀ H, g.timeSlice a bo = .ok H →
      (∀ u v x, H.hasInteraction u v (some x) = true ↔
        (a ≤ x ∧ x ≤ bo.getD a ∧ g.hasInteraction u v (some x) = true)) ∧
      H.directed = dflag ∧ H.removal = true ∧ WF H ∧ NodeInv H ∧
      (∀ u v tl, H.timeline u v = some tl → CanonAsc tl) ∧
      (∀ n, H.hasNodeFlat n = true ↔ ∃ m x, a ≤ x ∧ x ≤ bo.getD a ∧
        (g.hasInteraction n m (some x) = true ∨ g.hasInteraction m n (some x) = true)) ∧
      (∀ n k, (n, k) ∈ H.nodes → (n, k) ∈ g.nodes) ∧
      (∀ c d K, H.timeSlice c (some d) = .ok K → ∀ u v x, K.hasInteraction u v (some x) = true ↔
        (max a c ≤ x ∧ x ≤ min (bo.getD a) d ∧ g.hasInteraction u v (some x) = true)) := by
  intro g
  have r := run_ok (Graph.empty dflag true) (WF.empty _ _) rfl ops
  have hn : NodeInv g := run_nodeInv _ (NodeInv.empty _ _) ops
  have hwf : WF g := r.wf
  have hr : g.removal = true := r.removal
  have hd : g.directed = dflag := r.directed
  refine ⟨C06_ok g hwf hr hn a bo, ?_, ?_⟩
  · intro b hb hlt; subst hb; exact C06_error g a b hlt
  · intro H hH
    obtain ⟨p1, p2, p3, p4⟩ := C06_presence g hwf hr hn a bo H hH
    have hni := C06_nodeInv g hwf hr hn a bo H hH
    refine ⟨p1, by rw [p2, hd], p3, p4, hni,
      C06_canonical g hwf hr hn a bo H hH, C06_nodes g hwf hr hn a bo H hH,
      C06_attrs g hwf hr hn a bo H hH, ?_⟩
    intro c d K hK u v x
    obtain ⟨q1, _⟩ := C06_presence H p4 p3 hni c (some d) K hK
    rw [q1, p1]
    simp only [Option.getD_some]
    constructor
    · rintro ⟨h1, h2, h3, h4, h5⟩; exact ⟨by omega, by omega, h5⟩
    · rintro ⟨h1, h2, h3⟩; exact ⟨by omega, by omega, by omega, by omega, h3⟩

/-! ### 8. a concrete slice -/

/-- the pair 0-1 present on `[2,9] ∪ [12,14]` -/
def c06_ex : Graph :=
  (((Graph.empty false true).addInteraction 0 1 (some 2) (some 10)).1.addInteraction 0 1 (some 12) (some 15)).1

example : c06_ex.timeline 0 1 = some [(2, 9), (12, 14)] := by decide

/-- slicing `[2,9] ∪ [12,14]` by the window `[5,12]` gives `[5,9] ∪ [12,12]` -/
example : (match c06_ex.timeSlice 5 (some 12) with
    | .ok H => H.timeline 0 1
    | .error _ => none) = some [(5, 9), (12, 12)] := by decide

example : sliceCalls 5 12 c06_ex.interactionsData = [(0, 1, 5, some 10), (0, 1, 12, some 13)] := by decide

example : clip 5 12 2 9 = some (5, 9) ∧ clip 5 12 12 14 = some (12, 12) ∧ clip 5 12 13 14 = none ∧
    clip 5 12 6 7 = some (6, 7) ∧ clip 5 12 0 20 = some (5, 12) ∧ clip 5 12 0 4 = none := by decide

end Dynetx
