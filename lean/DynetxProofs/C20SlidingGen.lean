import DynetxModel
import DynetxProofs.C20Sliding
import DynetxProofs.C20Hier
/-
  C20, sliding clause, for EVERY variant of `delta_conformity` at once: the accumulation of
  `sliding_delta_conformity` (`slidingOf`, DynetxModel/Conformity.lean) over any per-instant function `f`.
  Instances: the single-label model (`C20_sliding` follows again), and label profiles with time-varying labels and
  hierarchies (`C20H_sliding`).
-/
namespace Dynetx

abbrev PerT := Int → Except Err (Option (List (Nat × List (Node × Rat))))

/-- the ids the driver visits -/
def c20g_qualifying (tids : List Int) (delta : Int) : List Int :=
  match tids.getLast? with
  | none => []
  | some lastId => tids.filter (fun t => t + delta < lastId)

def c20g_step (delta : Int) (f : PerT) (acc : Sliding) (t : Int) : Except Err Sliding :=
  match f t with
  | .error e => .error e
  | .ok none => .ok acc
  | .ok (some r) => .ok (c20s_merge (t + delta) acc r)

theorem c20g_sliding_eq (tids : List Int) (delta : Int) (f : PerT) :
    slidingOf tids delta f = (c20g_qualifying tids delta).foldlM (c20g_step delta f) [] := by
  unfold slidingOf c20g_qualifying
  show (match tids.getLast? with
    | none => (Except.ok [] : Except Err Sliding)
    | some lastId => (tids.filter (fun t => t + delta < lastId)).foldlM (c20g_step delta f) []) = _
  cases tids.getLast? with
  | none => rfl
  | some lastId => rfl

/-- the series (key, node) the property prescribes over the ids `ts` -/
def c20g_expected (delta : Int) (f : PerT) (ts : List Int) (a : Nat) (n : Node) : Series :=
  ts.flatMap (fun t => match f t with
    | .ok (some r) => c20s_contrib (t + delta) r a n
    | _ => [])

theorem c20g_fold (delta : Int) (f : PerT) (ts : List Int) :
    ∀ (acc res : Sliding), ts.foldlM (c20g_step delta f) acc = .ok res →
      (∀ t ∈ ts, ∃ r, f t = .ok r) ∧
      ∀ a n, c20s_series res a n = c20s_series acc a n ++ c20g_expected delta f ts a n := by
  induction ts with
  | nil =>
    intro acc res h
    simp only [List.foldlM_nil, pure, Except.pure, Except.ok.injEq] at h
    subst h
    simp [c20g_expected]
  | cons t ts ih =>
    intro acc res h
    simp only [List.foldlM_cons, bind, Except.bind] at h
    unfold c20g_step at h
    cases hd : f t with
    | error e => rw [hd] at h; cases h
    | ok o =>
      rw [hd] at h
      cases o with
      | none =>
        simp only at h
        obtain ⟨h1, h2⟩ := ih acc res h
        refine ⟨?_, ?_⟩
        · intro t' ht'
          rcases List.mem_cons.mp ht' with rfl | ht'
          · exact ⟨_, hd⟩
          · exact h1 t' ht'
        · intro a n
          rw [h2 a n]
          simp [c20g_expected, hd]
      | some r =>
        simp only at h
        obtain ⟨h1, h2⟩ := ih _ res h
        refine ⟨?_, ?_⟩
        · intro t' ht'
          rcases List.mem_cons.mp ht' with rfl | ht'
          · exact ⟨_, hd⟩
          · exact h1 t' ht'
        · intro a n
          rw [h2 a n, c20s_merge_series]
          simp [c20g_expected, hd, List.append_assoc]

theorem c20g_fold_ok (delta : Int) (f : PerT) (ts : List Int) :
    ∀ (acc : Sliding), (∀ t ∈ ts, ∃ r, f t = .ok r) → ∃ res, ts.foldlM (c20g_step delta f) acc = .ok res := by
  induction ts with
  | nil => intro acc _; exact ⟨acc, rfl⟩
  | cons t ts ih =>
    intro acc hall
    obtain ⟨r, hr⟩ := hall t List.mem_cons_self
    simp only [List.foldlM_cons, bind, Except.bind]
    unfold c20g_step
    rw [hr]
    cases r with
    | none => exact ih acc (fun t' ht' => hall t' (List.mem_cons_of_mem _ ht'))
    | some r => exact ih _ (fun t' ht' => hall t' (List.mem_cons_of_mem _ ht'))

/-- **C20 (sliding, any per-instant function).**  The series reported under (key, node) is, in chronological order,
    `(t + delta, score)` for every visited id `t` whose call is not `None`; nothing else is reported. -/
theorem C20G_sliding (tids : List Int) (delta : Int) (f : PerT) (res : Sliding) (h : slidingOf tids delta f = .ok res) :
    ∀ a n, c20s_series res a n = c20g_expected delta f (c20g_qualifying tids delta) a n := by
  rw [c20g_sliding_eq] at h
  intro a n
  have := (c20g_fold delta f _ [] res h).2 a n
  simpa [c20s_series, c20s_get] using this

/-- the sliding call succeeds exactly when every visited call does; the first failing call's exception is not swallowed -/
theorem C20G_sliding_ok_iff (tids : List Int) (delta : Int) (f : PerT) :
    (∃ res, slidingOf tids delta f = .ok res) ↔ ∀ t ∈ c20g_qualifying tids delta, ∃ r, f t = .ok r := by
  rw [c20g_sliding_eq]
  constructor
  · rintro ⟨res, h⟩
    exact (c20g_fold delta f _ [] res h).1
  · exact c20g_fold_ok delta f _ []

theorem C20G_sliding_ids (tids : List Int) (delta : Int) (t : Int) :
    t ∈ c20g_qualifying tids delta ↔ t ∈ tids ∧ ∃ lastId, tids.getLast? = some lastId ∧ t + delta < lastId := by
  unfold c20g_qualifying
  cases h : tids.getLast? with
  | none =>
    have : tids = [] := by simpa using h
    simp [this]
  | some lastId => simp [List.mem_filter]

/-- the single-label driver is the instance `f t = delta_conformity(dg, t, delta, alphas, path_type)` -/
theorem slidingDeltaConformity_eq_slidingOf (dg : Graph) (delta : Int) (alphas : List Nat) (ptype : Nat) :
    dg.slidingDeltaConformity delta alphas ptype
      = slidingOf dg.ids delta (fun t => dg.deltaConformity t delta alphas ptype) := rfl

/-- the per-instant function of the full-featured driver (profiles, time-varying labels, hierarchies) -/
def perTH (dg : Graph) (tab : LabelTableH) (hier : Hierarchies) (delta : Int) (alphas labels : List Nat)
    (profileSize ptype : Nat) : PerT := fun t =>
  match dg.deltaConformityH tab hier t delta alphas labels profileSize ptype with
  | .error e => .error e
  | .ok none => .ok none
  | .ok (some r) => .ok (some (flattenRes (profilesOf labels profileSize).length r))

/-- **C20 (sliding; profiles, time-varying labels, hierarchies).**  `sliding_delta_conformity` with all its arguments
    reports, under every (exponent, profile) key and node, exactly the stamped results of the per-instant calls. -/
theorem C20H_sliding (dg : Graph) (tab : LabelTableH) (hier : Hierarchies) (delta : Int) (alphas labels : List Nat)
    (profileSize ptype : Nat) (res : Sliding)
    (h : dg.slidingDeltaConformityH tab hier delta alphas labels profileSize ptype = .ok res) :
    ∀ k n, c20s_series res k n
      = c20g_expected delta (perTH dg tab hier delta alphas labels profileSize ptype) (c20g_qualifying dg.ids delta) k n :=
  C20G_sliding dg.ids delta _ res h

theorem C20H_sliding_ok_iff (dg : Graph) (tab : LabelTableH) (hier : Hierarchies) (delta : Int) (alphas labels : List Nat)
    (profileSize ptype : Nat) :
    (∃ res, dg.slidingDeltaConformityH tab hier delta alphas labels profileSize ptype = .ok res) ↔
      ∀ t ∈ c20g_qualifying dg.ids delta, ∃ r, dg.deltaConformityH tab hier t delta alphas labels profileSize ptype = .ok r := by
  have := C20G_sliding_ok_iff dg.ids delta (perTH dg tab hier delta alphas labels profileSize ptype)
  constructor
  · intro hres t ht
    obtain ⟨r, hr⟩ := (this.1 hres) t ht
    unfold perTH at hr
    cases hd : dg.deltaConformityH tab hier t delta alphas labels profileSize ptype with
    | error e => rw [hd] at hr; simp at hr
    | ok o => exact ⟨o, rfl⟩
  · intro hall
    apply this.2
    intro t ht
    obtain ⟨r, hr⟩ := hall t ht
    unfold perTH
    rw [hr]
    cases r with
    | none => exact ⟨none, rfl⟩
    | some r => exact ⟨_, rfl⟩

/-- the flat keys are well defined: distinct (position of exponent, position of profile) give distinct keys -/
theorem flattenKey_injective (np i j i' j' : Nat) (hj : j < np) (hj' : j' < np) (h : i * np + j = i' * np + j') :
    i = i' ∧ j = j' := by
  have h1 : (i * np + j) / np = (i' * np + j') / np := by rw [h]
  have hnp : 0 < np := by omega
  rw [Nat.mul_comm i np, Nat.mul_comm i' np, Nat.mul_add_div hnp, Nat.mul_add_div hnp,
    Nat.div_eq_of_lt hj, Nat.div_eq_of_lt hj'] at h1
  have : i = i' := by omega
  subst this
  exact ⟨rfl, by omega⟩

end Dynetx
