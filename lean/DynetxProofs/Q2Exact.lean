import DynetxProofs.Q2
/-
  C02, `interactions()` / `interactions_iter()` / `dn.interactions()`: the EXACT content of the returned list on
  both classes.  The `seen` de-duplication lists the interaction `(u, v)` exactly when it is present and `v` has not
  been iterated before `u`.  On `DynGraph` this is the property (each unordered pair once); on `DynDiGraph` it is the
  precise form of known finding D10: the arcs that are dropped are exactly the present arcs `u → v` whose target is
  iterated before their source.
-/
namespace Dynetx

theorem q2x_go_iff (g : Graph) (t : Option Int) (ns : List Node) : ∀ (seen : List Node) (u v : Node),
    (u, v) ∈ g.interactionsGo t ns seen ↔
      ∃ l1 l2, ns = l1 ++ u :: l2 ∧ g.hasInteraction u v t = true ∧ v ∉ seen ∧ v ∉ l1 := by
  induction ns with
  | nil =>
    intro seen u v
    simp [Graph.interactionsGo]
  | cons n rest ih =>
    intro seen u v
    constructor
    · intro hm
      unfold Graph.interactionsGo at hm
      rcases List.mem_append.mp hm with h1 | h2
      · obtain ⟨m, hmf, heq⟩ := List.mem_map.mp h1
        simp only [Prod.mk.injEq] at heq
        obtain ⟨rfl, rfl⟩ := heq
        rw [List.mem_filter] at hmf
        obtain ⟨hs, hp⟩ := hmf
        simp only [Bool.and_eq_true, Bool.not_eq_true', List.contains_eq_mem, decide_eq_false_iff_not] at hp
        exact ⟨[], rest, rfl, (q2_succs_present_iff g n m t).mp ⟨hs, hp.2⟩, hp.1, by simp⟩
      · obtain ⟨l1, l2, hrest, hh, hseen, hl1⟩ := (ih (n :: seen) u v).mp h2
        refine ⟨n :: l1, l2, by simp [hrest], hh, fun hc => hseen (List.mem_cons_of_mem _ hc), ?_⟩
        intro hc
        rcases List.mem_cons.mp hc with h3 | h3
        · exact hseen (h3 ▸ List.mem_cons_self)
        · exact hl1 h3
    · rintro ⟨l1, l2, hns, hh, hseen, hl1⟩
      cases l1 with
      | nil =>
        simp only [List.nil_append, List.cons.injEq] at hns
        obtain ⟨rfl, rfl⟩ := hns
        exact q2_go_row g t n rest seen v hh hseen
      | cons a l1' =>
        simp only [List.cons_append, List.cons.injEq] at hns
        obtain ⟨rfl, hrest⟩ := hns
        unfold Graph.interactionsGo
        apply List.mem_append_right
        apply (ih (n :: seen) u v).mpr
        refine ⟨l1', l2, hrest, hh, ?_, fun hc => hl1 (List.mem_cons_of_mem _ hc)⟩
        intro hc
        rcases List.mem_cons.mp hc with h3 | h3
        · exact hl1 (h3 ▸ List.mem_cons_self)
        · exact hseen h3

/-- in a duplicate-free list the decomposition around an element is unique -/
theorem q2x_split_unique {u : Node} : ∀ {l1 l2 k1 k2 : List Node}, (l1 ++ u :: l2).Nodup →
    l1 ++ u :: l2 = k1 ++ u :: k2 → l1 = k1
  | [], _, [], _, _, _ => rfl
  | [], l2, b :: k1, k2, hnd, h => by
    simp only [List.nil_append, List.cons_append, List.cons.injEq] at h
    obtain ⟨rfl, h2⟩ := h
    rw [h2] at hnd
    simp at hnd
  | a :: l1, l2, [], k2, hnd, h => by
    simp only [List.nil_append, List.cons_append, List.cons.injEq] at h
    obtain ⟨rfl, _⟩ := h
    simp at hnd
  | a :: l1, l2, b :: k1, k2, hnd, h => by
    simp only [List.cons_append, List.cons.injEq] at h
    obtain ⟨rfl, h2⟩ := h
    rw [List.cons_append, List.nodup_cons] at hnd
    rw [q2x_split_unique hnd.2 h2]

/-- `v` is iterated strictly before (an occurrence of) `u` in the node order -/
def iteratedBefore (l : List Node) (v u : Node) : Prop := ∃ l1 l2, l = l1 ++ u :: l2 ∧ v ∈ l1

/-- **C02 / D10 (exact content of `interactions(t)`), both classes.**  With duplicate-free node list (`q2_NodeInv`),
    `(u, v)` is listed iff it is present at `t` and `v` is not iterated before `u`. -/
theorem C02_interactions_exact {g : Graph} (hn : q2_NodeInv g) (t : Option Int) (u v : Node) :
    (u, v) ∈ g.interactions none t ↔
      g.hasInteraction u v t = true ∧ ¬ iteratedBefore g.nodeList v u := by
  have hnd : g.nodeList.Nodup := hn.nodup
  have key := q2x_go_iff g t g.nodeList [] u v
  have hI : g.interactions none t = g.interactionsGo t g.nodeList [] := rfl
  rw [hI, key]
  constructor
  · rintro ⟨l1, l2, hns, hh, _, hl1⟩
    refine ⟨hh, ?_⟩
    rintro ⟨k1, k2, hk, hv⟩
    have hnd1 : (l1 ++ u :: l2).Nodup := hns ▸ hnd
    have : l1 = k1 := q2x_split_unique hnd1 (hns.symm.trans hk)
    exact hl1 (this ▸ hv)
  · rintro ⟨hh, hnb⟩
    have hu : u ∈ g.nodeList := q2_has_node_left hn hh
    obtain ⟨l1, l2, hns⟩ := List.append_of_mem hu
    exact ⟨l1, l2, hns, hh, by simp, fun hv => hnb ⟨l1, l2, hns, hv⟩⟩

/-- **D10, precise form.**  On a directed graph the arcs missing from `interactions(t)` are exactly the present arcs
    whose target is iterated before their source. -/
theorem C02_D10_dropped {g : Graph} (hn : q2_NodeInv g) (t : Option Int) (u v : Node)
    (hh : g.hasInteraction u v t = true) :
    (u, v) ∉ g.interactions none t ↔ iteratedBefore g.nodeList v u := by
  rw [C02_interactions_exact hn]
  constructor
  · intro h
    exact Classical.byContradiction fun hc => h ⟨hh, hc⟩
  · intro h hc
    exact hc.2 h

end Dynetx
