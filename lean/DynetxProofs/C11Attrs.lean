import DynetxModel.NodeLinkAttrs
/-
  C11 at the level of node RECORDS (attribute names included): what `node_link_data` writes for a node and what
  `node_link_graph` reads back.

  * the node id always comes back (`C11A_record_id`);
  * the attributes that come back are exactly those whose NAME is not the id key, in their order, with their values
    (`C11A_record_data`) - so the node round-trips with all its attributes iff no attribute is named like the id key
    (`C11A_record_roundtrip_partial`, `C11A_record_roundtrip_iff`);
  * an attribute named like the id key is lost: the property as stated ("the same nodes, node attributes") is FALSE for
    such a graph (`C11A_idkey_attribute_lost`, witness `C11A_idkey_witness`; known finding D27, replayed on the
    implementation by the harness op `nlrec`);
  * whole node lists (`C11A_records_roundtrip_partial`), records without an id (`C11A_missing_id_position`).
-/
namespace Dynetx

theorem find_map_set {β} (r : List (Nat × β)) (k : Nat) (v : β) (h : r.any (fun e => e.1 == k) = true) :
    List.find? (fun e => e.1 == k) (r.map (fun e => if e.1 == k then (k, v) else e)) = some (k, v) := by
  induction r with
  | nil => simp at h
  | cons e r ih =>
    simp only [List.map_cons, List.find?_cons]
    cases hb : (e.1 == k)
    · simp only [List.any_cons, hb, Bool.false_or] at h
      simp only [Bool.false_eq_true, if_false, hb]
      exact ih h
    · simp

theorem filter_map_set {β} (r : List (Nat × β)) (k : Nat) (v : β) :
    (r.map (fun e => if e.1 == k then (k, v) else e)).filter (fun e => e.1 != k) = r.filter (fun e => e.1 != k) := by
  induction r with
  | nil => rfl
  | cons e r ih =>
    cases hb : (e.1 == k)
    · have hne : (e.1 != k) = true := by simp [bne, hb]
      simp only [List.map_cons, hb, Bool.false_eq_true, if_false, List.filter_cons, hne, if_true, ih]
    · have hne : (e.1 != k) = false := by simp [bne, hb]
      have hk : (((k, v) : Nat × β).1 != k) = false := by simp
      simp only [List.map_cons, hb, if_true, List.filter_cons, hne, hk, Bool.false_eq_true, if_false, ih]

theorem dictGet_dictSet_self {β} (d : List (Nat × β)) (k : Nat) (v : β) : dictGet (dictSet d k v) k = some v := by
  unfold dictGet dictSet
  split
  · rename_i h
    rw [find_map_set d k v h]; rfl
  · rename_i h
    have : d.find? (fun e => e.1 == k) = none := by
      rw [List.find?_eq_none]
      intro x hx hk
      exact h (List.any_eq_true.mpr ⟨x, hx, hk⟩)
    rw [List.find?_append, this]
    simp

theorem filter_dictSet_ne {β} (d : List (Nat × β)) (k : Nat) (v : β) :
    (dictSet d k v).filter (fun e => e.1 != k) = d.filter (fun e => e.1 != k) := by
  unfold dictSet
  split
  · exact filter_map_set d k v
  · simp [List.filter_append]

/-- the node id always comes back, whatever the attributes are called -/
theorem C11A_record_id (idKey pos : Nat) (n : Node) (attrs : Attrs) :
    (recordNode idKey pos (nodeRecord idKey n attrs)).1 = .node n := by
  unfold recordNode nodeRecord
  simp [dictGet_dictSet_self]

/-- the attributes that come back: exactly those not named like the id key, in order, with their values -/
theorem C11A_record_data (idKey pos : Nat) (n : Node) (attrs : Attrs) :
    (recordNode idKey pos (nodeRecord idKey n attrs)).2 =
      (attrs.filter (fun e => e.1 != idKey)).map (fun e => (e.1, RecVal.attr e.2)) := by
  unfold recordNode nodeRecord
  simp only [filter_dictSet_ne]
  induction attrs with
  | nil => rfl
  | cons a r ih =>
    simp only [List.map_cons, List.filter_cons]
    by_cases h : a.1 = idKey <;> simp [h, ih]

/-- PARTIAL (hypothesis: no attribute is named like the id key): the record round-trips -/
theorem C11A_record_roundtrip_partial (idKey pos : Nat) (n : Node) (attrs : Attrs)
    (h : ∀ e ∈ attrs, e.1 ≠ idKey) :
    recordNode idKey pos (nodeRecord idKey n attrs) = (.node n, attrs.map (fun e => (e.1, RecVal.attr e.2))) := by
  have h1 := C11A_record_id idKey pos n attrs
  have h2 := C11A_record_data idKey pos n attrs
  have h3 : attrs.filter (fun e => e.1 != idKey) = attrs := by
    rw [List.filter_eq_self]
    intro e he
    simpa using h e he
  rw [h3] at h2
  exact Prod.ext h1 h2

/-- the hypothesis is exact: the attributes come back complete iff none is named like the id key -/
theorem C11A_record_roundtrip_iff (idKey pos : Nat) (n : Node) (attrs : Attrs) :
    (recordNode idKey pos (nodeRecord idKey n attrs)).2 = attrs.map (fun e => (e.1, RecVal.attr e.2)) ↔
      ∀ e ∈ attrs, e.1 ≠ idKey := by
  constructor
  · intro h e he hk
    have hm : (e.1, RecVal.attr e.2) ∈ (recordNode idKey pos (nodeRecord idKey n attrs)).2 := by
      rw [h]; exact List.mem_map.mpr ⟨e, he, rfl⟩
    rw [C11A_record_data] at hm
    obtain ⟨x, hx, hxe⟩ := List.mem_map.mp hm
    have := (List.mem_filter.mp hx).2
    have hx1 : x.1 = e.1 := by simpa using congrArg Prod.fst hxe
    simp [hx1, hk] at this
  · intro h
    exact congrArg Prod.snd (C11A_record_roundtrip_partial idKey pos n attrs h)

/-- an attribute named like the id key never comes back (known finding D27) -/
theorem C11A_idkey_attribute_lost (idKey pos : Nat) (n : Node) (attrs : Attrs) :
    ∀ e ∈ (recordNode idKey pos (nodeRecord idKey n attrs)).2, e.1 ≠ idKey := by
  intro e he
  rw [C11A_record_data] at he
  obtain ⟨x, hx, hxe⟩ := List.mem_map.mp he
  have := (List.mem_filter.mp hx).2
  rw [← hxe]
  simpa using this

/-- the negation of the property as stated, on a concrete graph: node 7 with the attributes `{0: 5, 1: 6}` and the id
    key `0` comes back with `{1: 6}` only -/
theorem C11A_idkey_witness :
    recordNode 0 0 (nodeRecord 0 7 [(0, 5), (1, 6)]) = (.node 7, [(1, .attr 6)]) ∧
    (recordNode 0 0 (nodeRecord 0 7 [(0, 5), (1, 6)])).2 ≠ [(0, .attr 5), (1, .attr 6)] := by
  decide

/-- the record written for a node has the id key exactly once (it is a dictionary), with the node id as value -/
theorem C11A_record_has_id (idKey : Nat) (n : Node) (attrs : Attrs) :
    dictGet (nodeRecord idKey n attrs) idKey = some (.node n) := by
  unfold nodeRecord; exact dictGet_dictSet_self _ _ _

/-- a record without the id key is named by its position (`next(c)` is evaluated for every record) and keeps
    everything else -/
theorem C11A_missing_id_position (idKey pos : Nat) (d : Record) (h : ∀ e ∈ d, e.1 ≠ idKey) :
    recordNode idKey pos d = (.node pos, d) := by
  unfold recordNode dictGet
  have h1 : d.find? (fun e => e.1 == idKey) = none := by
    rw [List.find?_eq_none]; intro x hx; simpa using h x hx
  have h2 : d.filter (fun e => e.1 != idKey) = d := by
    rw [List.filter_eq_self]; intro e he; simpa using h e he
  rw [h1, h2]; rfl

/-! ### whole node lists -/

theorem addNodeRec_fresh (tab : List (RecVal × Record)) (node : RecVal) (data : Record)
    (h : tab.any (fun e => e.1 == node) = false) : addNodeRec tab node data = tab ++ [(node, data)] := by
  simp [addNodeRec, h]


theorem importRecords_go (idKey : Nat) (l : List (Node × Attrs)) (k : Nat) (tab : List (RecVal × Record))
    (hclash : ∀ p ∈ l, ∀ e ∈ p.2, e.1 ≠ idKey)
    (hnd : (l.map (·.1)).Nodup)
    (hfresh : ∀ p ∈ l, ∀ e ∈ tab, e.1 ≠ RecVal.node p.1) :
    ((nodeRecords idKey l).zipIdx k).foldl (importStep idKey) tab
      = tab ++ l.map (fun p => (RecVal.node p.1, p.2.map (fun e => (e.1, RecVal.attr e.2)))) := by
  induction l generalizing k tab with
  | nil => simp [nodeRecords]
  | cons p r ih =>
    simp only [nodeRecords, List.map_cons, List.zipIdx_cons, List.foldl_cons, importStep]
    rw [C11A_record_roundtrip_partial idKey k p.1 p.2 (hclash p (List.mem_cons_self ..))]
    have hno : tab.any (fun e => e.1 == RecVal.node p.1) = false := by
      rw [List.any_eq_false]
      intro e he
      simpa using hfresh p (List.mem_cons_self ..) e he
    rw [addNodeRec_fresh _ _ _ hno]
    have hnd' : p.1 ∉ r.map (·.1) ∧ (r.map (·.1)).Nodup := by
      rw [List.map_cons] at hnd; exact List.nodup_cons.mp hnd
    have := ih (k + 1) (tab ++ [(RecVal.node p.1, p.2.map (fun e => (e.1, RecVal.attr e.2)))])
      (fun q hq => hclash q (List.mem_cons_of_mem _ hq)) hnd'.2
      (by
        intro q hq e he
        rcases List.mem_append.mp he with he | he
        · exact hfresh q (List.mem_cons_of_mem _ hq) e he
        · simp only [List.mem_singleton] at he
          subst he
          intro hc
          have : p.1 = q.1 := by simpa using hc
          exact hnd'.1 (List.mem_map.mpr ⟨q, hq, this.symm⟩))
    simp only [nodeRecords] at this
    simpa [List.append_assoc] using this

/-- PARTIAL (hypothesis: no attribute of any node is named like the id key): the node table of the rebuilt graph is
    the node table of the source - same nodes in the same order, same attribute names and values -/
theorem C11A_records_roundtrip_partial (idKey : Nat) (nodes : List (Node × Attrs))
    (hclash : ∀ p ∈ nodes, ∀ e ∈ p.2, e.1 ≠ idKey) (hnd : (nodes.map (·.1)).Nodup) :
    importRecords idKey (nodeRecords idKey nodes) =
      nodes.map (fun p => (RecVal.node p.1, p.2.map (fun e => (e.1, RecVal.attr e.2)))) := by
  unfold importRecords
  have := importRecords_go idKey nodes 0 [] hclash hnd (by intro _ _ e he; simp at he)
  simpa using this

/-- without the hypothesis: every node still comes back, in order, with the attributes not named like the id key -/
theorem importRecords_go_all (idKey : Nat) (l : List (Node × Attrs)) (k : Nat) (tab : List (RecVal × Record))
    (hnd : (l.map (·.1)).Nodup)
    (hfresh : ∀ p ∈ l, ∀ e ∈ tab, e.1 ≠ RecVal.node p.1) :
    ((nodeRecords idKey l).zipIdx k).foldl (importStep idKey) tab
      = tab ++ l.map (fun p => (RecVal.node p.1,
          (p.2.filter (fun e => e.1 != idKey)).map (fun e => (e.1, RecVal.attr e.2)))) := by
  induction l generalizing k tab with
  | nil => simp [nodeRecords]
  | cons p r ih =>
    simp only [nodeRecords, List.map_cons, List.zipIdx_cons, List.foldl_cons, importStep]
    have hrec : recordNode idKey k (nodeRecord idKey p.1 p.2) = (RecVal.node p.1,
        (p.2.filter (fun e => e.1 != idKey)).map (fun e => (e.1, RecVal.attr e.2))) :=
      Prod.ext (C11A_record_id idKey k p.1 p.2) (C11A_record_data idKey k p.1 p.2)
    rw [hrec]
    have hno : tab.any (fun e => e.1 == RecVal.node p.1) = false := by
      rw [List.any_eq_false]
      intro e he
      simpa using hfresh p (List.mem_cons_self ..) e he
    rw [addNodeRec_fresh _ _ _ hno]
    have hnd' : p.1 ∉ r.map (·.1) ∧ (r.map (·.1)).Nodup := by
      rw [List.map_cons] at hnd; exact List.nodup_cons.mp hnd
    have := ih (k + 1) (tab ++ [(RecVal.node p.1,
        (p.2.filter (fun e => e.1 != idKey)).map (fun e => (e.1, RecVal.attr e.2)))]) hnd'.2
      (by
        intro q hq e he
        rcases List.mem_append.mp he with he | he
        · exact hfresh q (List.mem_cons_of_mem _ hq) e he
        · simp only [List.mem_singleton] at he
          subst he
          intro hc
          have : p.1 = q.1 := by simpa using hc
          exact hnd'.1 (List.mem_map.mpr ⟨q, hq, this.symm⟩))
    simp only [nodeRecords] at this
    simpa [List.append_assoc] using this

theorem C11A_records_roundtrip (idKey : Nat) (nodes : List (Node × Attrs)) (hnd : (nodes.map (·.1)).Nodup) :
    importRecords idKey (nodeRecords idKey nodes) =
      nodes.map (fun p => (RecVal.node p.1,
        (p.2.filter (fun e => e.1 != idKey)).map (fun e => (e.1, RecVal.attr e.2)))) := by
  unfold importRecords
  have := importRecords_go_all idKey nodes 0 [] hnd (by intro _ _ e he; simp at he)
  simpa using this

/-- non-vacuity: two nodes, one with two attributes, a custom id key -/
example : importRecords 9 (nodeRecords 9 [(3, [(0, 5), (1, 6)]), (4, [])]) =
    [(.node 3, [(0, .attr 5), (1, .attr 6)]), (.node 4, [])] := by decide

/-! ### the record is a dictionary: distinct keys stay distinct -/

theorem dictSet_keys {β} (d : List (Nat × β)) (k : Nat) (v : β) :
    (dictSet d k v).map (·.1) = if d.any (fun e => e.1 == k) then d.map (·.1) else d.map (·.1) ++ [k] := by
  unfold dictSet
  split
  · rename_i h; clear h
    induction d with
    | nil => rfl
    | cons e r ih =>
      simp only [List.map_cons]
      cases hb : (e.1 == k)
      · simp only [Bool.false_eq_true, if_false]; rw [ih]
      · simp only [if_true]; rw [ih]; simp only [beq_iff_eq] at hb; rw [hb]
  · simp

/-- the keys of the record written for a node are pairwise distinct when the attribute names are (it is a dictionary),
    and the id key is among them -/
theorem C11A_record_keys (idKey : Nat) (n : Node) (attrs : Attrs) (hnd : (attrs.map (·.1)).Nodup) :
    ((nodeRecord idKey n attrs).map (·.1)).Nodup ∧ idKey ∈ (nodeRecord idKey n attrs).map (·.1) := by
  unfold nodeRecord
  rw [dictSet_keys]
  have hm : (attrs.map (fun e => (e.1, RecVal.attr e.2))).map (·.1) = attrs.map (·.1) := by
    simp [List.map_map, Function.comp_def]
  split
  · rename_i h
    rw [hm]
    refine ⟨hnd, ?_⟩
    obtain ⟨x, hx, hk⟩ := List.any_eq_true.mp h
    obtain ⟨y, hy, rfl⟩ := List.mem_map.mp hx
    simp only [beq_iff_eq] at hk
    exact List.mem_map.mpr ⟨y, hy, hk⟩
  · rename_i h
    rw [hm]
    refine ⟨?_, by simp⟩
    rw [List.nodup_append]
    refine ⟨hnd, by simp, ?_⟩
    intro a ha b hb
    simp only [List.mem_singleton] at hb
    subst hb
    intro hab
    subst hab
    apply h
    obtain ⟨y, hy, hk⟩ := List.mem_map.mp ha
    exact List.any_eq_true.mpr ⟨(y.1, RecVal.attr y.2), List.mem_map.mpr ⟨y, hy, rfl⟩, by simpa using hk⟩

/-- a node named by two records keeps the union of their attributes, the later record winning on a shared name
    (`add_node(n, **attrs)` updates): concrete instance, by evaluation -/
theorem C11A_repeated_id_merges :
    importRecords 0 [[(0, .node 4), (1, .attr 5), (2, .attr 6)], [(2, .attr 7), (0, .node 4), (3, .attr 8)]] =
      [(.node 4, [(1, .attr 5), (2, .attr 7), (3, .attr 8)])] := by decide

end Dynetx
