import DynetxProofs.C05
import DynetxProofs.Lemmas.AddMany
/-
  C10: the interaction-list reader (`parse_interactions`) and the writer (`generate_interactions`).

  Part A: a log (list of '+' / '-' rows in file order) has a reference meaning `c10_spec`; on a
  well-formed log the reader raises nothing and builds a graph whose presence is that meaning.
  Part B: the rows written for a graph built by a history are a well-formed log whose meaning is the
  graph's presence, provided every run of two or more instants is closed (this excludes D5).
-/
namespace Dynetx

/-! ### reference semantics of a log -/

/-- `c10_latest` on the reversed log (latest row first) -/
def c10_latestR (d : Bool) (a b : Node) : List Ev → Option Int
  | [] => none
  | r :: rest => if r.plus && sameKey d r.u r.v a b then some r.t else c10_latestR d a b rest

/-- time of the last `'+'` row of the pair `(a,b)` in the log `L` -/
def c10_latest (d : Bool) (L : List Ev) (a b : Node) : Option Int := c10_latestR d a b L.reverse

/-- `c10_spec` on the reversed log (latest row first) -/
def c10_specR (d : Bool) (a b : Node) (x : Int) : List Ev → Prop
  | [] => False
  | r :: rest =>
    c10_specR d a b x rest ∨
    (r.plus = true ∧ sameKey d r.u r.v a b = true ∧ x = r.t) ∨
    (r.plus = false ∧ sameKey d r.u r.v a b = true ∧
      ∃ t0, c10_latestR d a b rest = some t0 ∧ t0 ≤ x ∧ x < r.t)

/-- presence described by a log: `'+'` at `t` = the pair appears at `t`; `'-'` at `s` = the pair is
    present from its latest appearance through `s - 1` -/
def c10_spec (d : Bool) (L : List Ev) (a b : Node) (x : Int) : Prop := c10_specR d a b x L.reverse

/-- a well-formed log: (i) times are non-decreasing; (ii) every `'-'` row of a pair is preceded by a
    `'+'` row of that pair, and (iii) comes strictly after the pair's latest `'+'` time -/
def c10_wellFormed (d : Bool) (L : List Ev) : Prop :=
  (L.map (·.t)).Pairwise (· ≤ ·) ∧
  ∀ pre r post, L = pre ++ r :: post → r.plus = false →
    ∃ t0, c10_latest d pre r.u r.v = some t0 ∧ t0 < r.t

theorem c10_latest_nil (d : Bool) (a b : Node) : c10_latest d [] a b = none := rfl

theorem c10_latest_snoc (d : Bool) (L : List Ev) (r : Ev) (a b : Node) :
    c10_latest d (L ++ [r]) a b =
      if r.plus && sameKey d r.u r.v a b then some r.t else c10_latest d L a b := by
  simp [c10_latest, c10_latestR]

theorem c10_spec_nil (d : Bool) (a b : Node) (x : Int) : ¬ c10_spec d [] a b x := by
  simp [c10_spec, c10_specR]

/-- the defining equation of the meaning of a log, one row at a time -/
theorem c10_spec_snoc (d : Bool) (L : List Ev) (r : Ev) (a b : Node) (x : Int) :
    c10_spec d (L ++ [r]) a b x ↔
      c10_spec d L a b x ∨
      (r.plus = true ∧ sameKey d r.u r.v a b = true ∧ x = r.t) ∨
      (r.plus = false ∧ sameKey d r.u r.v a b = true ∧
        ∃ t0, c10_latest d L a b = some t0 ∧ t0 ≤ x ∧ x < r.t) := by
  simp [c10_spec, c10_specR, c10_latest]

theorem c10_snoc_ind {P : List Ev → Prop} (h0 : P []) (hs : ∀ L r, P L → P (L ++ [r])) : ∀ L, P L := by
  intro L
  have : ∀ R : List Ev, P R.reverse := by
    intro R
    induction R with
    | nil => exact h0
    | cons r R ih => rw [List.reverse_cons]; exact hs _ _ ih
  simpa using this L.reverse

theorem c10_key_congr {d : Bool} {a b a' b' : Node} (h : sameKey d a b a' b' = true) (u v : Node) :
    sameKey d u v a b = sameKey d u v a' b' := by
  cases h1 : sameKey d u v a b <;> cases h2 : sameKey d u v a' b'
  · rfl
  · have := sameKey_trans h2 (by rw [sameKey_symm]; exact h); rw [h1] at this; cases this
  · have := sameKey_trans h1 h; rw [h2] at this; cases this
  · rfl

theorem c10_latest_congr (d : Bool) (L : List Ev) {a b a' b' : Node} (h : sameKey d a b a' b' = true) :
    c10_latest d L a b = c10_latest d L a' b' := by
  induction L using c10_snoc_ind with
  | h0 => rfl
  | hs L r ih => rw [c10_latest_snoc, c10_latest_snoc, ih, c10_key_congr h]

/-! ### facts about the meaning of a log -/

/-- every instant a log describes is bounded by the time of one of its rows -/
theorem c10_spec_bound (d : Bool) (L : List Ev) (a b : Node) (x : Int) :
    c10_spec d L a b x → ∃ r ∈ L, x ≤ r.t := by
  induction L using c10_snoc_ind with
  | h0 => intro h; exact (c10_spec_nil d a b x h).elim
  | hs L r ih =>
    rw [c10_spec_snoc]
    rintro (h | ⟨_, _, hx⟩ | ⟨_, _, t0, _, _, hx⟩)
    · obtain ⟨r', hr', hx⟩ := ih h
      exact ⟨r', List.mem_append_left _ hr', hx⟩
    · exact ⟨r, by simp, by omega⟩
    · exact ⟨r, by simp, by omega⟩

/-- the latest `'+'` time is the time of a `'+'` row of the pair -/
theorem c10_latest_mem (d : Bool) (L : List Ev) (a b : Node) (t0 : Int) :
    c10_latest d L a b = some t0 → ∃ r ∈ L, r.plus = true ∧ sameKey d r.u r.v a b = true ∧ r.t = t0 := by
  induction L using c10_snoc_ind with
  | h0 => intro h; cases h
  | hs L r ih =>
    rw [c10_latest_snoc]
    split
    · rename_i hc
      intro h
      simp only [Bool.and_eq_true] at hc
      exact ⟨r, by simp, hc.1, hc.2, by injection h⟩
    · intro h
      obtain ⟨r', hr', h'⟩ := ih h
      exact ⟨r', List.mem_append_left _ hr', h'⟩

/-- a pair with a `'+'` row has a latest `'+'` time -/
theorem c10_latest_some_of_mem (d : Bool) (L : List Ev) (a b : Node) (r : Ev) (hr : r ∈ L)
    (hp : r.plus = true) (hk : sameKey d r.u r.v a b = true) : ∃ t0, c10_latest d L a b = some t0 := by
  induction L using c10_snoc_ind with
  | h0 => cases hr
  | hs L r' ih =>
    rw [c10_latest_snoc]
    split
    · exact ⟨_, rfl⟩
    · rename_i hc
      rcases List.mem_append.mp hr with h | h
      · exact ih h
      · rw [List.mem_singleton] at h; subst h
        simp [hp, hk] at hc

/-- the pair is present at its latest `'+'` time -/
theorem c10_spec_latest (d : Bool) (L : List Ev) (a b : Node) (t0 : Int) :
    c10_latest d L a b = some t0 → c10_spec d L a b t0 := by
  induction L using c10_snoc_ind with
  | h0 => intro h; cases h
  | hs L r ih =>
    rw [c10_latest_snoc, c10_spec_snoc]
    split
    · rename_i hc
      intro h
      simp only [Bool.and_eq_true] at hc
      exact Or.inr (Or.inl ⟨hc.1, hc.2, by injection h with h; omega⟩)
    · intro h; exact Or.inl (ih h)

/-- a pair that is present somewhere has a `'+'` row -/
theorem c10_latest_of_spec (d : Bool) (L : List Ev) (a b : Node) (x : Int) :
    c10_spec d L a b x → ∃ t0, c10_latest d L a b = some t0 := by
  induction L using c10_snoc_ind with
  | h0 => intro h; exact (c10_spec_nil d a b x h).elim
  | hs L r ih =>
    rw [c10_spec_snoc, c10_latest_snoc]
    rintro (h | ⟨hp, hk, _⟩ | ⟨hp, _, t0, h, _⟩)
    · split
      · exact ⟨_, rfl⟩
      · exact ih h
    · simp [hp, hk]
    · simp [hp, h]

theorem c10_wellFormed_prefix {d : Bool} {L1 L2 : List Ev} (h : c10_wellFormed d (L1 ++ L2)) :
    c10_wellFormed d L1 := by
  refine ⟨?_, ?_⟩
  · have := h.1
    rw [List.map_append, List.pairwise_append] at this
    exact this.1
  · intro pre r post hL hm
    exact h.2 pre r (post ++ L2) (by rw [hL]; simp) hm

theorem c10_wellFormed_snoc {d : Bool} {L : List Ev} {r : Ev} (h : c10_wellFormed d (L ++ [r])) :
    c10_wellFormed d L ∧ (∀ r' ∈ L, r'.t ≤ r.t) ∧
      (r.plus = false → ∃ t0, c10_latest d L r.u r.v = some t0 ∧ t0 < r.t) := by
  refine ⟨c10_wellFormed_prefix h, ?_, fun hm => h.2 L r [] rfl hm⟩
  intro r' hr'
  have := h.1
  rw [List.map_append, List.pairwise_append] at this
  exact this.2.2 r'.t (List.mem_map.mpr ⟨r', hr', rfl⟩) r.t (by simp)

/-- on a well-formed log, from the latest `'+'` time `t0` of a pair upwards the pair is present on
    exactly one interval `[t0, m]` -/
theorem c10_spec_above (d : Bool) (L : List Ev) (a b : Node) :
    c10_wellFormed d L → ∀ t0, c10_latest d L a b = some t0 →
      ∃ m, t0 ≤ m ∧ ∀ y, t0 ≤ y → (c10_spec d L a b y ↔ y ≤ m) := by
  induction L using c10_snoc_ind with
  | h0 => intro _ t0 h; cases h
  | hs L r ih =>
    intro hwf t0 hl
    obtain ⟨hwfL, hchr, hmin⟩ := c10_wellFormed_snoc hwf
    rw [c10_latest_snoc] at hl
    by_cases hk : sameKey d r.u r.v a b = true
    · cases hp : r.plus with
      | true =>
        simp only [hp, hk, Bool.and_self, if_true] at hl
        injection hl with hl
        refine ⟨t0, Int.le_refl _, ?_⟩
        intro y hy
        rw [c10_spec_snoc]
        constructor
        · rintro (h | ⟨_, _, hx⟩ | ⟨hp', _⟩)
          · obtain ⟨r', hr', hx⟩ := c10_spec_bound d L a b y h
            have := hchr r' hr'
            omega
          · omega
          · rw [hp] at hp'; cases hp'
        · intro hy'
          exact Or.inr (Or.inl ⟨hp, hk, by omega⟩)
      | false =>
        simp only [hp, Bool.false_and] at hl
        have hl' : c10_latest d L a b = some t0 := by simpa using hl
        obtain ⟨t0', h1, h2⟩ := hmin hp
        rw [c10_latest_congr d L hk, hl'] at h1
        injection h1 with h1
        subst h1
        obtain ⟨m, hm, hiff⟩ := ih hwfL t0 hl'
        refine ⟨if m ≤ r.t - 1 then r.t - 1 else m, by split <;> omega, ?_⟩
        intro y hy
        rw [c10_spec_snoc, hiff y hy]
        constructor
        · rintro (h | ⟨hp', _⟩ | ⟨_, _, t1, _, _, hx⟩)
          · split <;> omega
          · rw [hp] at hp'; cases hp'
          · split <;> omega
        · intro hy'
          by_cases hym : y ≤ m
          · exact Or.inl hym
          · refine Or.inr (Or.inr ⟨hp, hk, t0, hl', hy, ?_⟩)
            split at hy' <;> omega
    · have hk' : sameKey d r.u r.v a b = false := by simpa using hk
      simp only [hk', Bool.and_false] at hl
      have hl' : c10_latest d L a b = some t0 := by simpa using hl
      obtain ⟨m, hm, hiff⟩ := ih hwfL t0 hl'
      refine ⟨m, hm, ?_⟩
      intro y hy
      rw [c10_spec_snoc, ← hiff y hy]
      simp [hk']

/-! ### the reader, one row at a time -/

/-- the state of the reader after the rows `P` -/
structure c10_Inv (d : Bool) (g : Graph) (P : List Ev) : Prop where
  wf : WF g
  removal : g.removal = true
  directed : g.directed = d
  presence : ∀ a b x, g.hasInteraction a b (some x) = true ↔ c10_spec d P a b x

theorem c10_Inv_empty (d : Bool) : c10_Inv d (Graph.empty d true) [] := by
  refine ⟨WF.empty d true, rfl, rfl, ?_⟩
  intro a b x
  constructor
  · intro h; simp [Graph.hasInteraction, Graph.findEdge, Graph.empty] at h
  · intro h; exact (c10_spec_nil d a b x h).elim

/-- a present pair is stored -/
theorem c10_findEdge_of_present {g : Graph} {a b : Node} {x : Int}
    (h : g.hasInteraction a b (some x) = true) : ∃ ed, g.findEdge a b = some ed := by
  unfold Graph.hasInteraction at h
  cases hf : g.findEdge a b with
  | none => simp [hf] at h
  | some ed => exact ⟨ed, rfl⟩

/-- if from `t0` upwards the pair is present exactly on `[t0, m]`, then `[t0, m]` is the upper part
    of the pair's latest run -/
theorem c10_head_of_presence {g : Graph} (h : WF g) (hr : g.removal = true) {a b : Node} {ed : Edge}
    {a0 b0 : Int} {rest : List Span} (hf : g.findEdge a b = some ed) (htl : ed.tl = (a0, b0) :: rest)
    {t0 m : Int} (htm : t0 ≤ m) (hiff : ∀ y, t0 ≤ y → (g.hasInteraction a b (some y) = true ↔ y ≤ m)) :
    a0 ≤ t0 ∧ b0 = m := by
  obtain ⟨hem, hek⟩ := findEdge_some hf
  obtain ⟨_, hc⟩ := h.tl ed hem
  rw [htl] at hc
  have hab := hc.head_le
  simp only at hab
  -- every present instant lies at or below `b0`
  have hle : ∀ y, g.hasInteraction a b (some y) = true → y ≤ b0 := by
    intro y hy
    obtain ⟨e', hem', hek', s, hs, hx⟩ := (h.hasInteraction_iff hr a b y).mp hy
    have : e' = ed := pairwise_unique h.keys hem' hem hek' hek
    subst this
    rw [htl] at hs
    rcases List.mem_cons.mp hs with rfl | hs'
    · exact hx.2
    · have := hc.below s hs'
      simp only at this
      omega
  have hb0 : g.hasInteraction a b (some b0) = true := by
    rw [h.hasInteraction_iff hr]
    exact ⟨ed, hem, hek, by rw [htl]; exact ⟨(a0, b0), List.mem_cons_self, hab, Int.le_refl _⟩⟩
  have ht0 : t0 ≤ b0 := hle t0 ((hiff t0 (Int.le_refl _)).mpr htm)
  have hm1 : b0 ≤ m := (hiff b0 ht0).mp hb0
  have hm2 : m ≤ b0 := hle m ((hiff m htm).mpr (Int.le_refl _))
  refine ⟨?_, by omega⟩
  obtain ⟨_, habs⟩ := h.head_start hr hf htl
  by_cases hlt : t0 < a0
  · have : g.hasInteraction a b (some (a0 - 1)) = true := (hiff (a0 - 1) (by omega)).mpr (by omega)
    rw [habs] at this; cases this
  · omega

/-- one row of a well-formed log: no exception, and the graph follows the meaning of the log -/
theorem c10_step {d : Bool} {g : Graph} {P : List Ev} (inv : c10_Inv d g P) (r : Ev)
    (hwf : c10_wellFormed d (P ++ [r])) :
    ∃ H, g.replayRow r = (H, none) ∧ c10_Inv d H (P ++ [r]) := by
  obtain ⟨hwfP, hchr, hmin⟩ := c10_wellFormed_snoc hwf
  have hr := inv.removal
  have hd := inv.directed
  cases hp : r.plus with
  | true =>
    have hs : spanEnd r.t none = some r.t := rfl
    have sp := addInteraction_stepSpec g inv.wf hr r.u r.v r.t none r.t hs
    have hrow : g.replayRow r = g.addInteraction r.u r.v (some r.t) none := by
      simp [Graph.replayRow, hp]
    have hnot : ¬ ((g.addInteraction r.u r.v (some r.t) none).2 = some .value) := by
      intro hrej
      obtain ⟨ed, a0, b0, rest, hf, htl, hlt⟩ := sp.rejected_iff.mp hrej
      obtain ⟨hpa, _⟩ := inv.wf.head_start hr hf htl
      obtain ⟨r', hr', hx⟩ := c10_spec_bound d P _ _ _ ((inv.presence _ _ _).mp hpa)
      have := hchr r' hr'
      omega
    have hacc : (g.addInteraction r.u r.v (some r.t) none).2 = none := by
      rcases sp.outcome with h1 | ⟨h1, _⟩
      · exact h1
      · exact absurd h1 hnot
    refine ⟨(g.addInteraction r.u r.v (some r.t) none).1, ?_, sp.wf, by rw [sp.removal]; exact hr,
      by rw [sp.directed]; exact hd, ?_⟩
    · rw [hrow]; exact Prod.ext rfl hacc
    · intro a b x
      rw [sp.presence hacc, inv.presence, c10_spec_snoc, hd]
      constructor
      · rintro (h | ⟨hk, h1, h2⟩)
        · exact Or.inl h
        · exact Or.inr (Or.inl ⟨hp, hk, by omega⟩)
      · rintro (h | ⟨_, hk, hx⟩ | ⟨hp', _⟩)
        · exact Or.inl h
        · exact Or.inr ⟨hk, by omega, by omega⟩
        · rw [hp] at hp'; cases hp'
  | false =>
    obtain ⟨t0, hl, hlt⟩ := hmin hp
    have hpres : g.hasInteraction r.u r.v (some t0) = true :=
      (inv.presence _ _ _).mpr (c10_spec_latest d P _ _ _ hl)
    obtain ⟨ed, hf⟩ := c10_findEdge_of_present hpres
    obtain ⟨hem, hek⟩ := findEdge_some hf
    obtain ⟨hne, hcan⟩ := inv.wf.tl ed hem
    cases htl : ed.tl with
    | nil => exact absurd htl hne
    | cons s rest =>
      obtain ⟨a0, b0⟩ := s
      -- the shape of the latest run, seen from any name `(a,b)` of the pair
      have hshape : ∀ a b, sameKey d r.u r.v a b = true →
          c10_latest d P a b = some t0 ∧ a0 ≤ t0 ∧ t0 ≤ b0 ∧
            ∀ y, t0 ≤ y → (c10_spec d P a b y ↔ y ≤ b0) := by
        intro a b hk
        have hl' : c10_latest d P a b = some t0 := by rw [← c10_latest_congr d P hk]; exact hl
        obtain ⟨m, hm, hiff⟩ := c10_spec_above d P a b hwfP t0 hl'
        have hf' : g.findEdge a b = some ed :=
          inv.wf.findEdge_of_mem hem (sameKey_trans hek (by rw [hd]; exact hk))
        have := c10_head_of_presence inv.wf hr hf' htl hm
          (fun y hy => by rw [inv.presence]; exact hiff y hy)
        obtain ⟨h1, h2⟩ := this
        subst h2
        exact ⟨hl', h1, hm, hiff⟩
      by_cases hb : b0 < r.t
      · have hs : spanEnd b0 (some r.t) = some (r.t - 1) := by
          simp [spanEnd]; omega
        have sp := addInteraction_stepSpec g inv.wf hr r.u r.v b0 (some r.t) (r.t - 1) hs
        have hrow : g.replayRow r = g.addInteraction r.u r.v (some b0) (some r.t) := by
          simp [Graph.replayRow, hp, hf, htl, hb]
        have hnot : ¬ ((g.addInteraction r.u r.v (some b0) (some r.t)).2 = some .value) := by
          intro hrej
          obtain ⟨ed', a1, b1, rest', hf', htl', hlt'⟩ := sp.rejected_iff.mp hrej
          rw [hf] at hf'; cases hf'
          rw [htl] at htl'; cases htl'
          have := (hshape r.u r.v (sameKey_refl _ _ _)).2
          omega
        have hacc : (g.addInteraction r.u r.v (some b0) (some r.t)).2 = none := by
          rcases sp.outcome with h1 | ⟨h1, _⟩
          · exact h1
          · exact absurd h1 hnot
        refine ⟨(g.addInteraction r.u r.v (some b0) (some r.t)).1, ?_, sp.wf,
          by rw [sp.removal]; exact hr, by rw [sp.directed]; exact hd, ?_⟩
        · rw [hrow]; exact Prod.ext rfl hacc
        · intro a b x
          rw [sp.presence hacc, inv.presence, c10_spec_snoc, hd]
          constructor
          · rintro (h | ⟨hk, h1, h2⟩)
            · exact Or.inl h
            · obtain ⟨hl', _, h3, _⟩ := hshape a b hk
              exact Or.inr (Or.inr ⟨hp, hk, t0, hl', by omega, by omega⟩)
          · rintro (h | ⟨hp', _⟩ | ⟨_, hk, t1, hl1, h1, h2⟩)
            · exact Or.inl h
            · rw [hp] at hp'; cases hp'
            · obtain ⟨hl', _, h3, hiff⟩ := hshape a b hk
              rw [hl'] at hl1; injection hl1 with hl1; subst hl1
              by_cases hxb : x ≤ b0
              · exact Or.inl ((hiff x h1).mpr hxb)
              · exact Or.inr ⟨hk, by omega, by omega⟩
      · have hrow : g.replayRow r = (g, none) := by
          simp [Graph.replayRow, hp, hf, htl, hb]
        refine ⟨g, hrow, inv.wf, hr, hd, ?_⟩
        intro a b x
        rw [inv.presence, c10_spec_snoc]
        constructor
        · exact Or.inl
        · rintro (h | ⟨hp', _⟩ | ⟨_, hk, t1, hl1, h1, h2⟩)
          · exact h
          · rw [hp] at hp'; cases hp'
          · obtain ⟨hl', _, _, hiff⟩ := hshape a b hk
            rw [hl'] at hl1; injection hl1 with hl1; subst hl1
            exact (hiff x h1).mpr (by omega)

theorem c10_replay_go (d : Bool) (rest : List Ev) :
    ∀ (P : List Ev) (g : Graph), c10_Inv d g P → c10_wellFormed d (P ++ rest) →
      ∃ H, g.replayRows rest = (H, none) ∧ c10_Inv d H (P ++ rest) := by
  induction rest with
  | nil => intro P g inv _; exact ⟨g, rfl, by simpa using inv⟩
  | cons r rest ih =>
    intro P g inv hwf
    have hwf' : c10_wellFormed d ((P ++ [r]) ++ rest) := by simpa using hwf
    obtain ⟨g', hrow, inv'⟩ := c10_step inv r (c10_wellFormed_prefix hwf')
    obtain ⟨H, hH, invH⟩ := ih (P ++ [r]) g' inv' hwf'
    refine ⟨H, ?_, by simpa using invH⟩
    simp only [Graph.replayRows, hrow]
    exact hH

/-- **C10, reader**: no row of a well-formed log raises, and the graph that is read has exactly the
    presence the log describes -/
theorem C10_log_replay (d : Bool) (L : List Ev) (hwf : c10_wellFormed d L) :
    ∃ H, parseInteractions d L = (H, none) ∧ WF H ∧ H.directed = d ∧
      ∀ a b x, H.hasInteraction a b (some x) = true ↔ c10_spec d L a b x := by
  obtain ⟨H, hH, inv⟩ := c10_replay_go d L [] (Graph.empty d true) (c10_Inv_empty d) (by simpa using hwf)
  exact ⟨H, hH, inv.wf, inv.directed, by simpa using inv.presence⟩

theorem c10_replayRows_append (l1 l2 : List Ev) : ∀ (g H : Graph), g.replayRows l1 = (H, none) →
    g.replayRows (l1 ++ l2) = H.replayRows l2 := by
  induction l1 with
  | nil => intro g H h; simp only [Graph.replayRows] at h; cases h; rfl
  | cons r l1 ih =>
    intro g H h
    simp only [List.cons_append, Graph.replayRows] at h ⊢
    rcases hrow : g.replayRow r with ⟨g', _ | err⟩
    · rw [hrow] at h; simp only at h ⊢; exact ih g' H h
    · rw [hrow] at h; simp only at h; cases h

/-- **C10, KeyError**: a `'-'` row for a pair that has no earlier `'+'` row raises `KeyError`
    (so clause (ii) of well-formedness cannot be dropped); the rows before it were read -/
theorem C10_log_keyerror (d : Bool) (L : List Ev) (r : Ev) (post : List Ev) (hwf : c10_wellFormed d L)
    (hm : r.plus = false) (hnone : c10_latest d L r.u r.v = none) :
    ∃ H, parseInteractions d L = (H, none) ∧ parseInteractions d (L ++ r :: post) = (H, some .key) := by
  obtain ⟨H, hH, inv⟩ := c10_replay_go d L [] (Graph.empty d true) (c10_Inv_empty d) (by simpa using hwf)
  simp only [List.nil_append] at inv
  refine ⟨H, hH, ?_⟩
  unfold parseInteractions
  rw [c10_replayRows_append L (r :: post) _ H hH]
  have hf : H.findEdge r.u r.v = none := by
    cases hf : H.findEdge r.u r.v with
    | none => rfl
    | some ed =>
      obtain ⟨hem, _⟩ := findEdge_some hf
      obtain ⟨hne, _⟩ := inv.wf.tl ed hem
      cases htl : ed.tl with
      | nil => exact absurd htl hne
      | cons s rest =>
        obtain ⟨a0, b0⟩ := s
        obtain ⟨hpa, _⟩ := inv.wf.head_start inv.removal hf htl
        obtain ⟨t0, ht0⟩ := c10_latest_of_spec d L _ _ _ ((inv.presence _ _ _).mp hpa)
        rw [hnone] at ht0; cases ht0
  simp [Graph.replayRows, Graph.replayRow, hm, hf]

/-- two appearances and one vanishing: `[+ (1,2) @2, + (1,2) @5, - (1,2) @8]` is read as the
    timeline `[(2,2), (5,7)]` -/
example :
    let r := parseInteractions false [⟨2, 1, 2, true⟩, ⟨5, 1, 2, true⟩, ⟨8, 1, 2, false⟩]
    r.2 = none ∧ r.1.timeline 1 2 = some [(2, 2), (5, 7)] := by
  decide

/-! ### Part B: writing, then reading -/

/-- the rows `generate_interactions` yields are the stream -/
theorem C10_rows (g : Graph) : g.genInteractions = g.stream := rfl

/-- and they come in chronological order -/
theorem C10_rows_chronological (d : Bool) (ops : List Op) :
    ((((Graph.empty d true).run ops).1).genInteractions.map (·.t)).Pairwise (· ≤ ·) :=
  C05_chronological d ops

/-- in a chronological log the latest `'+'` time of a pair is its greatest `'+'` time -/
theorem c10_latest_max (d : Bool) (L : List Ev) (a b : Node) :
    (L.map (·.t)).Pairwise (· ≤ ·) → ∀ t0, c10_latest d L a b = some t0 →
      ∀ r ∈ L, r.plus = true → sameKey d r.u r.v a b = true → r.t ≤ t0 := by
  induction L using c10_snoc_ind with
  | h0 => intro _ t0 h; cases h
  | hs L r' ih =>
    intro hch t0 hl r hr hp hk
    rw [List.map_append, List.pairwise_append] at hch
    rw [c10_latest_snoc] at hl
    split at hl
    · injection hl with hl
      rcases List.mem_append.mp hr with h | h
      · have := hch.2.2 r.t (List.mem_map.mpr ⟨r, h, rfl⟩) r'.t (by simp)
        omega
      · rw [List.mem_singleton] at h; subst h; omega
    · rename_i hc
      rcases List.mem_append.mp hr with h | h
      · exact ih hch.1 t0 hl r h hp hk
      · rw [List.mem_singleton] at h; subst h
        simp [hp, hk] at hc

theorem c10_spec_mono (d : Bool) (L1 L2 : List Ev) (a b : Node) (x : Int) :
    c10_spec d L1 a b x → c10_spec d (L1 ++ L2) a b x := by
  induction L2 using c10_snoc_ind with
  | h0 => intro h; simpa using h
  | hs L r ih =>
    intro h
    rw [← List.append_assoc, c10_spec_snoc]
    exact Or.inl (ih h)

/-- the meaning of a log, row-wise: an instant is described iff it is the time of a `'+'` row of the
    pair or lies between the pair's latest `'+'` time before a `'-'` row and that row -/
theorem c10_spec_iff (d : Bool) (L : List Ev) (a b : Node) (x : Int) :
    c10_spec d L a b x ↔
      (∃ r ∈ L, r.plus = true ∧ sameKey d r.u r.v a b = true ∧ x = r.t) ∨
      (∃ pre r post, L = pre ++ r :: post ∧ r.plus = false ∧ sameKey d r.u r.v a b = true ∧
        ∃ t0, c10_latest d pre a b = some t0 ∧ t0 ≤ x ∧ x < r.t) := by
  constructor
  · induction L using c10_snoc_ind with
    | h0 => intro h; exact (c10_spec_nil d a b x h).elim
    | hs L r ih =>
      rw [c10_spec_snoc]
      rintro (h | ⟨hp, hk, hx⟩ | ⟨hp, hk, hx⟩)
      · rcases ih h with ⟨r', hr', h'⟩ | ⟨pre, r', post, hL, h'⟩
        · exact Or.inl ⟨r', List.mem_append_left _ hr', h'⟩
        · exact Or.inr ⟨pre, r', post ++ [r], by rw [hL]; simp, h'⟩
      · exact Or.inl ⟨r, by simp, hp, hk, hx⟩
      · exact Or.inr ⟨L, r, [], rfl, hp, hk, hx⟩
  · rintro (⟨r, hr, hp, hk, hx⟩ | ⟨pre, r, post, hL, hp, hk, hx⟩)
    · obtain ⟨pre, post, hL⟩ := List.append_of_mem hr
      rw [hL, show pre ++ r :: post = (pre ++ [r]) ++ post by simp]
      exact c10_spec_mono d _ _ a b x ((c10_spec_snoc d pre r a b x).mpr (Or.inr (Or.inl ⟨hp, hk, hx⟩)))
    · rw [hL, show pre ++ r :: post = (pre ++ [r]) ++ post by simp]
      exact c10_spec_mono d _ _ a b x ((c10_spec_snoc d pre r a b x).mpr (Or.inr (Or.inr ⟨hp, hk, hx⟩)))

/-- a chronological log `S` records the runs `R` of the pair `(a,b)`: a `'+'` row exactly at every
    run start, a `'-'` row only right after a run end -/
structure c10_PairLog (d : Bool) (S : List Ev) (a b : Node) (R : Span → Prop) : Prop where
  chrono : (S.map (·.t)).Pairwise (· ≤ ·)
  ps : ∀ ev ∈ S, ev.plus = true → sameKey d ev.u ev.v a b = true → ∃ q, R q ∧ q.1 = ev.t
  pc : ∀ q, R q → ∃ ev ∈ S, ev.plus = true ∧ sameKey d ev.u ev.v a b = true ∧ ev.t = q.1
  ms : ∀ ev ∈ S, ev.plus = false → sameKey d ev.u ev.v a b = true → ∃ q, R q ∧ q.2 + 1 = ev.t
  sep : ∀ p q, R p → R q → p = q ∨ p.2 + 1 < q.1 ∨ q.2 + 1 < p.1
  le : ∀ q, R q → q.1 ≤ q.2

/-- before the `'-'` row that closes the run `q`, the pair's latest `'+'` time is the start of `q` -/
theorem c10_PairLog.latest_before {d : Bool} {S : List Ev} {a b : Node} {R : Span → Prop}
    (h : c10_PairLog d S a b R) {pre post : List Ev} {r : Ev} (hS : S = pre ++ r :: post)
    (hm : r.plus = false) (hk : sameKey d r.u r.v a b = true) :
    ∃ q, R q ∧ q.2 + 1 = r.t ∧ c10_latest d pre a b = some q.1 := by
  have hrS : r ∈ S := by rw [hS]; simp
  obtain ⟨q, hq, hqr⟩ := h.ms r hrS hm hk
  refine ⟨q, hq, hqr, ?_⟩
  have hqle := h.le q hq
  have hch := h.chrono
  rw [hS, List.map_append, List.pairwise_append, List.map_cons, List.pairwise_cons] at hch
  obtain ⟨hchpre, ⟨hpost, _⟩, hprer⟩ := hch
  obtain ⟨ev, hev, hevp, hevk, hevt⟩ := h.pc q hq
  have hevpre : ev ∈ pre := by
    rw [hS, List.mem_append, List.mem_cons] at hev
    rcases hev with h1 | rfl | h1
    · exact h1
    · rw [hm] at hevp; cases hevp
    · have := hpost ev.t (List.mem_map.mpr ⟨ev, h1, rfl⟩)
      omega
  obtain ⟨t0, ht0⟩ := c10_latest_some_of_mem d pre a b ev hevpre hevp hevk
  have hmax := c10_latest_max d pre a b hchpre t0 ht0 ev hevpre hevp hevk
  obtain ⟨r0, hr0, hr0p, hr0k, hr0t⟩ := c10_latest_mem d pre a b t0 ht0
  obtain ⟨p, hp, hpt⟩ := h.ps r0 (by rw [hS]; exact List.mem_append_left _ hr0) hr0p hr0k
  have hple := h.le p hp
  have hr0le : r0.t ≤ r.t := hprer r0.t (List.mem_map.mpr ⟨r0, hr0, rfl⟩) r.t (by simp)
  rw [ht0]
  rcases h.sep p q hp hq with rfl | hsep | hsep
  · rw [hpt, hr0t]
  · omega
  · omega

/-- the meaning of such a log is membership in the runs, when every run of two or more instants has
    its closing `'-'` row -/
theorem c10_PairLog.spec_iff {d : Bool} {S : List Ev} {a b : Node} {R : Span → Prop}
    (h : c10_PairLog d S a b R)
    (hmc : ∀ q, R q → q.1 < q.2 →
      ∃ ev ∈ S, ev.plus = false ∧ sameKey d ev.u ev.v a b = true ∧ ev.t = q.2 + 1) (x : Int) :
    c10_spec d S a b x ↔ ∃ q, R q ∧ q.1 ≤ x ∧ x ≤ q.2 := by
  rw [c10_spec_iff]
  constructor
  · rintro (⟨r, hr, hp, hk, hx⟩ | ⟨pre, r, post, hS, hp, hk, t0, hl, h1, h2⟩)
    · obtain ⟨q, hq, hqt⟩ := h.ps r hr hp hk
      have := h.le q hq
      exact ⟨q, hq, by omega, by omega⟩
    · obtain ⟨q, hq, hqr, hl'⟩ := h.latest_before hS hp hk
      rw [hl] at hl'; injection hl' with hl'
      exact ⟨q, hq, by omega, by omega⟩
  · rintro ⟨q, hq, h1, h2⟩
    by_cases hx : x = q.1
    · obtain ⟨ev, hev, hevp, hevk, hevt⟩ := h.pc q hq
      exact Or.inl ⟨ev, hev, hevp, hevk, by omega⟩
    · obtain ⟨ev, hev, hevp, hevk, hevt⟩ := hmc q hq (by omega)
      obtain ⟨pre, post, hS⟩ := List.append_of_mem hev
      obtain ⟨q', hq', hq'r, hl⟩ := h.latest_before hS hevp hevk
      have hq'le := h.le q' hq'
      have hqle := h.le q hq
      have : q' = q := by
        rcases h.sep q' q hq' hq with h' | h' | h'
        · exact h'
        · omega
        · omega
      subst this
      exact Or.inr ⟨pre, ev, post, hS, hevp, hevk, q'.1, hl, by omega, by omega⟩

/-- conversely, a log that describes the last instant of a run of two or more instants has the closing
    `'-'` row of that run -/
theorem c10_PairLog.closed_of_spec {d : Bool} {S : List Ev} {a b : Node} {R : Span → Prop}
    (h : c10_PairLog d S a b R) {q : Span} (hq : R q) (hlen : q.1 < q.2) (hsp : c10_spec d S a b q.2) :
    ∃ ev ∈ S, ev.plus = false ∧ sameKey d ev.u ev.v a b = true ∧ ev.t = q.2 + 1 := by
  rw [c10_spec_iff] at hsp
  rcases hsp with ⟨r, hr, hp, hk, hx⟩ | ⟨pre, r, post, hS, hp, hk, t0, hl, h1, h2⟩
  · obtain ⟨p, hp', hpt⟩ := h.ps r hr hp hk
    have := h.le p hp'
    rcases h.sep p q hp' hq with rfl | h' | h' <;> omega
  · obtain ⟨p, hp', hpr, hl'⟩ := h.latest_before hS hp hk
    rw [hl] at hl'; injection hl' with hl'
    have := h.le p hp'
    have : p = q := by
      rcases h.sep p q hp' hq with h' | h' | h'
      · exact h'
      · omega
      · omega
    subst this
    exact ⟨r, by rw [hS]; simp, hp, hk, by omega⟩

/-- the stream of a well-formed graph with a sound event log records the runs of every pair -/
theorem c10_pairLog_of_graph {g : Graph} (hwf : WF g) (hev : EvInv g)
    (a b : Node) : c10_PairLog g.directed g.stream a b (runs g a b) := by
  refine ⟨stream_chronological g, ?_, ?_, ?_, ?_, ?_⟩
  · intro ev hm hp hk
    rw [mem_stream_iff] at hm
    obtain ⟨ed, hedm, hedk, s, hs, hst⟩ := hev.plus_sound ev hm hp
    exact ⟨s, ⟨ed, hedm, sameKey_trans hedk hk, hs⟩, hst⟩
  · rintro q ⟨ed, hedm, hedk, hs⟩
    obtain ⟨ev, hm, hp, ht, hk⟩ := hev.plus_complete ed hedm q hs
    refine ⟨ev, (mem_stream_iff g ev).mpr hm, hp, ?_, ht⟩
    exact sameKey_trans (by rw [sameKey_symm]; exact hk) hedk
  · intro ev hm hp hk
    rw [mem_stream_iff] at hm
    obtain ⟨ed, hedm, hedk, s, hs, hst⟩ := hev.minus_sound ev hm hp
    exact ⟨s, ⟨ed, hedm, sameKey_trans hedk hk, hs⟩, hst⟩
  · rintro p q ⟨ed, hedm, hedk, hs⟩ ⟨ed', hedm', hedk', hs'⟩
    have : ed = ed' := pairwise_unique hwf.keys hedm hedm' hedk hedk'
    subst this
    exact (hwf.tl ed hedm).2.sep hs hs'
  · rintro q ⟨ed, hedm, _, hs⟩
    exact (hwf.tl ed hedm).2.all_le q hs

/-- the written rows of a well-formed graph with a sound event log always form a well-formed log
    (closed runs or not) -/
theorem c10_stream_wellFormed {g : Graph} (hwf : WF g) (hev : EvInv g) :
    c10_wellFormed g.directed g.stream := by
  refine ⟨stream_chronological g, ?_⟩
  intro pre r post hS hm
  have pl := c10_pairLog_of_graph hwf hev r.u r.v
  obtain ⟨q, hq, hqr, hl⟩ := pl.latest_before hS hm (sameKey_refl _ _ _)
  have := pl.le q hq
  exact ⟨q.1, hl, by omega⟩

/-- the written rows mean the graph's presence exactly when every run of two or more instants has its
    closing `'-'` entry -/
theorem c10_stream_spec_iff_closed {g : Graph} (hwf : WF g) (hr : g.removal = true) (hev : EvInv g) :
    (∀ a b x, c10_spec g.directed g.stream a b x ↔ g.hasInteraction a b (some x) = true) ↔
    (∀ ed ∈ g.edges, ∀ s ∈ ed.tl, s.1 < s.2 →
      ∃ ev ∈ g.stream, ev.plus = false ∧ ev.t = s.2 + 1 ∧ sameKey g.directed ed.u ed.v ev.u ev.v = true) := by
  constructor
  · intro hsp ed hedm s hs hlen
    have pl := c10_pairLog_of_graph hwf hev ed.u ed.v
    have hrun : runs g ed.u ed.v s := ⟨ed, hedm, sameKey_refl _ _ _, hs⟩
    have hle := pl.le s hrun
    have hpres : g.hasInteraction ed.u ed.v (some s.2) = true := by
      rw [hwf.hasInteraction_iff hr]
      exact ⟨ed, hedm, sameKey_refl _ _ _, s, hs, hle, Int.le_refl _⟩
    obtain ⟨ev, hm, hp, hk, ht⟩ := pl.closed_of_spec hrun hlen ((hsp _ _ _).mpr hpres)
    exact ⟨ev, hm, hp, ht, by rw [sameKey_symm]; exact hk⟩
  · intro hclosed a b x
    have hmc : ∀ q, runs g a b q → q.1 < q.2 →
        ∃ ev ∈ g.stream, ev.plus = false ∧ sameKey g.directed ev.u ev.v a b = true ∧ ev.t = q.2 + 1 := by
      rintro q ⟨ed, hedm, hedk, hs⟩ hlen
      obtain ⟨ev, hm, hp, ht, hk⟩ := hclosed ed hedm q hs hlen
      exact ⟨ev, hm, hp, sameKey_trans (by rw [sameKey_symm]; exact hk) hedk, ht⟩
    rw [(c10_pairLog_of_graph hwf hev a b).spec_iff hmc, hwf.hasInteraction_iff hr]
    constructor
    · rintro ⟨q, ⟨ed, hedm, hedk, hs⟩, hx⟩
      exact ⟨ed, hedm, hedk, q, hs, hx⟩
    · rintro ⟨ed, hedm, hedk, q, hs, hx⟩
      exact ⟨q, ⟨ed, hedm, hedk, hs⟩, hx⟩

/-- **C10, writer**: for every history the written rows are a well-formed log, so the reader accepts
    them without exception (closed runs or not) -/
theorem C10_written_wellFormed (d : Bool) (ops : List Op) :
    let g := ((Graph.empty d true).run ops).1
    c10_wellFormed d g.genInteractions ∧ ∃ H, parseInteractions d g.genInteractions = (H, none) := by
  intro g
  obtain ⟨hwf, _, hd, hev⟩ := C05_reached d ops
  change WF g at hwf; change g.directed = d at hd; change EvInv g at hev
  have h1 := c10_stream_wellFormed hwf hev
  rw [hd] at h1
  obtain ⟨H, hH, _⟩ := C10_log_replay d g.stream h1
  exact ⟨h1, H, hH⟩

/-- **C10, round trip, necessity of the hypothesis**: the written rows mean the graph's presence
    exactly when every stored run of two or more instants has its closing `'-'` entry -/
theorem C10_roundtrip_iff_closed (d : Bool) (ops : List Op) :
    let g := ((Graph.empty d true).run ops).1
    (∀ a b x, c10_spec d g.genInteractions a b x ↔ g.hasInteraction a b (some x) = true) ↔
    (∀ ed ∈ g.edges, ∀ s ∈ ed.tl, s.1 < s.2 →
      ∃ ev ∈ g.stream, ev.plus = false ∧ ev.t = s.2 + 1 ∧ sameKey d ed.u ed.v ev.u ev.v = true) := by
  intro g
  obtain ⟨hwf, hr, hd, hev⟩ := C05_reached d ops
  change WF g at hwf; change g.removal = true at hr; change g.directed = d at hd; change EvInv g at hev
  have := c10_stream_spec_iff_closed hwf hr hev
  rw [hd] at this
  exact this

/-- **C10, round trip** (partial: the hypothesis `hclosed` excludes the known finding D5, see
    `C10_D5_witness`).  For a graph built by any history of add calls in which every stored run of two
    or more instants has its closing `'-'` entry: the rows written by `generate_interactions` form a
    well-formed log, the log means the graph's presence, and `parse_interactions` reads it back without
    exception into a graph with the same presence. -/
theorem C10_roundtrip_partial (d : Bool) (ops : List Op) :
    let g := ((Graph.empty d true).run ops).1
    (∀ ed ∈ g.edges, ∀ s ∈ ed.tl, s.1 < s.2 →
      ∃ ev ∈ g.stream, ev.plus = false ∧ ev.t = s.2 + 1 ∧ sameKey d ed.u ed.v ev.u ev.v = true) →
    c10_wellFormed d g.genInteractions ∧
    (∀ a b x, c10_spec d g.genInteractions a b x ↔ g.hasInteraction a b (some x) = true) ∧
    ∃ H, parseInteractions d g.genInteractions = (H, none) ∧ WF H ∧ H.directed = d ∧
      ∀ a b x, H.hasInteraction a b (some x) = g.hasInteraction a b (some x) := by
  intro g hclosed
  obtain ⟨hwf, hr, hd, hev⟩ := C05_reached d ops
  change WF g at hwf; change g.removal = true at hr; change g.directed = d at hd; change EvInv g at hev
  have h1 := c10_stream_wellFormed hwf hev
  have h2 := (c10_stream_spec_iff_closed hwf hr hev).mpr (by rw [hd]; exact hclosed)
  rw [hd] at h1 h2
  obtain ⟨H, hH, hHwf, hHd, hHp⟩ := C10_log_replay d g.stream h1
  refine ⟨h1, h2, H, hH, hHwf, hHd, ?_⟩
  intro a b x
  have := (hHp a b x).trans (h2 a b x)
  cases h3 : H.hasInteraction a b (some x) <;> cases h4 : g.hasInteraction a b (some x) <;> simp_all

/-- the known finding D5 on the round trip: after `add(1,2,18)`, `add(1,2,19)` the pair is present at
    18 and 19, the written log is the single row `+ 1 2 18`, and reading it back gives presence at 18
    only -/
theorem C10_D5_witness :
    let g := ((Graph.empty false true).run [Op.add 1 2 (some 18) none, Op.add 1 2 (some 19) none]).1
    g.genInteractions = [⟨18, 1, 2, true⟩] ∧
    g.hasInteraction 1 2 (some 19) = true ∧
    (parseInteractions false [⟨18, 1, 2, true⟩]).2 = none ∧
    (parseInteractions false [⟨18, 1, 2, true⟩]).1.timeline 1 2 = some [(18, 18)] ∧
    (parseInteractions false [⟨18, 1, 2, true⟩]).1.hasInteraction 1 2 (some 18) = true ∧
    (parseInteractions false [⟨18, 1, 2, true⟩]).1.hasInteraction 1 2 (some 19) = false := by
  intro g
  refine ⟨C05_D5_witness_stream.1, C05_D5_witness.2.2.2.1, ?_⟩
  decide

end Dynetx
