import DynetxProofs.Lemmas.Events
/-
  C05: `stream_interactions()` of a removal-enabled graph built by any history of add calls.
  The stream is chronological, repeats nothing, has a '+' exactly where a pair becomes present, has a
  '-' only where a pair stops being present, and closes every run of three or more instants.
  Two-instant runs built by two consecutive point adds stay open (`C05_D5_witness`).
-/
namespace Dynetx

theorem mem_stream_iff (g : Graph) (ev : Ev) : ev ∈ g.stream ↔ ev ∈ g.events :=
  (List.mergeSort_perm _ _).mem_iff

/-- two distinct runs of a canonical timeline are separated by an absent instant -/
theorem Canon.sep {tl : List Span} (h : Canon tl) {r s : Span} (hr : r ∈ tl) (hs : s ∈ tl) :
    r = s ∨ r.2 + 1 < s.1 ∨ s.2 + 1 < r.1 := by
  induction tl with
  | nil => cases hr
  | cons q rest ih =>
    rcases List.mem_cons.mp hr with rfl | hr'
    · rcases List.mem_cons.mp hs with rfl | hs'
      · exact Or.inl rfl
      · exact Or.inr (Or.inr (h.below s hs'))
    · rcases List.mem_cons.mp hs with rfl | hs'
      · exact Or.inr (Or.inl (h.below r hr'))
      · exact ih h.tail hr' hs'

/-- the state reached by a history from the empty removal-enabled graph -/
theorem C05_reached (d : Bool) (ops : List Op) :
    let g := ((Graph.empty d true).run ops).1
    WF g ∧ g.removal = true ∧ g.directed = d ∧ EvInv g := by
  have ok := run_ok (Graph.empty d true) (WF.empty d true) rfl ops
  exact ⟨ok.wf, ok.removal, ok.directed,
    run_evInv (Graph.empty d true) (WF.empty d true) rfl (EvInv.empty d true) ops⟩

/-- the stream is in ascending time order (any graph) -/
theorem stream_chronological (g : Graph) : (g.stream.map (·.t)).Pairwise (· ≤ ·) := by
  rw [List.pairwise_map]
  have := List.pairwise_mergeSort (le := fun (a b : Ev) => decide (a.t ≤ b.t))
    (by intro a b c h1 h2; simp only [decide_eq_true_eq] at *; omega)
    (by intro a b; simp only [Bool.or_eq_true, decide_eq_true_eq]; omega) g.events
  exact this.imp (by intro a b h; simpa using h)

theorem C05_chronological (d : Bool) (ops : List Op) :
    ((((Graph.empty d true).run ops).1).stream.map (·.t)).Pairwise (· ≤ ·) :=
  stream_chronological _

theorem C05_no_repeat (d : Bool) (ops : List Op) :
    (((Graph.empty d true).run ops).1).stream.Pairwise
      (fun e f => ¬ (e.t = f.t ∧ sameKey d e.u e.v f.u f.v = true ∧ e.plus = f.plus)) := by
  obtain ⟨_, _, hd, hev⟩ := C05_reached d ops
  have hn := hev.nodup
  rw [hd] at hn
  refine (List.Perm.pairwise_iff ?_ (List.mergeSort_perm _ _)).mpr hn
  intro x y hxy hc
  exact hxy ⟨hc.1.symm, by rw [sameKey_symm]; exact hc.2.1, hc.2.2.symm⟩

/-- a '+' entry sits exactly where the pair is present and was absent the instant before -/
theorem C05_plus_iff (d : Bool) (ops : List Op) (a b : Node) (x : Int) :
    let g := ((Graph.empty d true).run ops).1
    (∃ ev ∈ g.stream, ev.plus = true ∧ ev.t = x ∧ sameKey d ev.u ev.v a b = true) ↔
      (g.hasInteraction a b (some x) = true ∧ g.hasInteraction a b (some (x - 1)) = false) := by
  intro g
  obtain ⟨hwf, hr, hd, hev⟩ := C05_reached d ops
  change WF g at hwf; change g.removal = true at hr; change g.directed = d at hd; change EvInv g at hev
  constructor
  · rintro ⟨ev, hm, hp, ht, hk⟩
    rw [mem_stream_iff] at hm
    obtain ⟨ed, hedm, hedk, s, hs, hst⟩ := hev.plus_sound ev hm hp
    rw [hd] at hedk
    have hcan := (hwf.tl ed hedm).2
    have hab : sameKey g.directed ed.u ed.v a b = true := by rw [hd]; exact sameKey_trans hedk hk
    have hle := hcan.all_le s hs
    constructor
    · rw [hwf.hasInteraction_iff hr]
      exact ⟨ed, hedm, hab, s, hs, by omega, by omega⟩
    · cases hh : g.hasInteraction a b (some (x - 1)) with
      | false => rfl
      | true =>
        obtain ⟨e', he'm, he'k, r, hrm, hr1, hr2⟩ := (hwf.hasInteraction_iff hr a b (x - 1)).mp hh
        have : e' = ed := pairwise_unique hwf.keys he'm hedm he'k hab
        subst this
        rcases hcan.sep hrm hs with rfl | hsep | hsep <;> omega
  · rintro ⟨h1, h2⟩
    obtain ⟨ed, hedm, hedk, s, hs, hs1, hs2⟩ := (hwf.hasInteraction_iff hr a b x).mp h1
    have hstart : s.1 = x := by
      by_cases hlt : s.1 < x
      · have : g.hasInteraction a b (some (x - 1)) = true :=
          (hwf.hasInteraction_iff hr a b (x - 1)).mpr ⟨ed, hedm, hedk, s, hs, by omega, by omega⟩
        rw [h2] at this; cases this
      · omega
    obtain ⟨ev, hm, hp, ht, hk⟩ := hev.plus_complete ed hedm s hs
    refine ⟨ev, (mem_stream_iff g ev).mpr hm, hp, by omega, ?_⟩
    rw [hd] at hk hedk
    exact sameKey_trans (by rw [sameKey_symm]; exact hk) hedk

/-- a '-' entry at `x` sits right after the end of a run: present at `x - 1`, absent at `x` -/
theorem C05_minus_sound (d : Bool) (ops : List Op) (a b : Node) (x : Int) :
    let g := ((Graph.empty d true).run ops).1
    (∃ ev ∈ g.stream, ev.plus = false ∧ ev.t = x ∧ sameKey d ev.u ev.v a b = true) →
      (g.hasInteraction a b (some (x - 1)) = true ∧ g.hasInteraction a b (some x) = false) := by
  intro g
  obtain ⟨hwf, hr, hd, hev⟩ := C05_reached d ops
  change WF g at hwf; change g.removal = true at hr; change g.directed = d at hd; change EvInv g at hev
  rintro ⟨ev, hm, hp, ht, hk⟩
  rw [mem_stream_iff] at hm
  obtain ⟨ed, hedm, hedk, s, hs, hst⟩ := hev.minus_sound ev hm hp
  rw [hd] at hedk
  have hcan := (hwf.tl ed hedm).2
  have hab : sameKey g.directed ed.u ed.v a b = true := by rw [hd]; exact sameKey_trans hedk hk
  have hle := hcan.all_le s hs
  constructor
  · rw [hwf.hasInteraction_iff hr]
    exact ⟨ed, hedm, hab, s, hs, by omega, by omega⟩
  · cases hh : g.hasInteraction a b (some x) with
    | false => rfl
    | true =>
      obtain ⟨e', he'm, he'k, r, hrm, hr1, hr2⟩ := (hwf.hasInteraction_iff hr a b x).mp hh
      have : e' = ed := pairwise_unique hwf.keys he'm hedm he'k hab
      subst this
      rcases hcan.sep hrm hs with rfl | hsep | hsep <;> omega

/-- every stored run of three or more instants is closed by a '-' entry right after its end -/
theorem C05_closed_partial (d : Bool) (ops : List Op) :
    let g := ((Graph.empty d true).run ops).1
    ∀ ed ∈ g.edges, ∀ s ∈ ed.tl, s.1 + 1 < s.2 →
      ∃ ev ∈ g.stream, ev.plus = false ∧ ev.t = s.2 + 1 ∧ sameKey d ed.u ed.v ev.u ev.v = true := by
  intro g ed hedm s hs hlen
  obtain ⟨_, _, hd, hev⟩ := C05_reached d ops
  change g.directed = d at hd; change EvInv g at hev
  obtain ⟨ev, hm, h1, h2, h3⟩ := hev.minus_complete ed hedm s hs hlen
  rw [hd] at h3
  exact ⟨ev, (mem_stream_iff g ev).mpr hm, h1, h2, h3⟩

/-- every run, of any length, is opened by a '+' entry at its start -/
theorem C05_opened (d : Bool) (ops : List Op) :
    let g := ((Graph.empty d true).run ops).1
    ∀ ed ∈ g.edges, ∀ s ∈ ed.tl,
      ∃ ev ∈ g.stream, ev.plus = true ∧ ev.t = s.1 ∧ sameKey d ed.u ed.v ev.u ev.v = true := by
  intro g ed hedm s hs
  obtain ⟨_, _, hd, hev⟩ := C05_reached d ops
  change g.directed = d at hd; change EvInv g at hev
  obtain ⟨ev, hm, h1, h2, h3⟩ := hev.plus_complete ed hedm s hs
  rw [hd] at h3
  exact ⟨ev, (mem_stream_iff g ev).mpr hm, h1, h2, h3⟩

/-- the test-pinned defect D5: two consecutive point adds give the run `[18,19]` and no '-' entry,
    so the closing clause fails for two-instant runs (`C05_closed_partial` cannot drop `s.1 + 1 < s.2`
    down to `s.1 < s.2`) -/
theorem C05_D5_witness :
    let g := ((Graph.empty false true).run [Op.add 1 2 (some 18) none, Op.add 1 2 (some 19) none]).1
    g.timeline 1 2 = some [(18, 19)] ∧
    g.events = [⟨18, 1, 2, true⟩] ∧
    g.hasInteraction 1 2 (some 18) = true ∧ g.hasInteraction 1 2 (some 19) = true ∧
    g.hasInteraction 1 2 (some 20) = false := by
  decide

/-- the same on the stream: it is `[(18, 1, 2, '+')]`; the pair stops being present after 19 and no
    '-' entry says so -/
theorem C05_D5_witness_stream :
    let g := ((Graph.empty false true).run [Op.add 1 2 (some 18) none, Op.add 1 2 (some 19) none]).1
    g.stream = [⟨18, 1, 2, true⟩] ∧ ¬ ∃ ev ∈ g.stream, ev.plus = false := by
  intro g
  have hev : g.events = [⟨18, 1, 2, true⟩] := C05_D5_witness.2.1
  have hst : g.stream = [⟨18, 1, 2, true⟩] := by
    unfold Graph.stream; rw [hev]; exact List.mergeSort_singleton _
  refine ⟨hst, ?_⟩
  rintro ⟨ev, hm, hp⟩
  rw [hst, List.mem_singleton] at hm
  subst hm
  cases hp

end Dynetx
