import DynetxModel
import Mathlib.Algebra.Order.Field.Rat
import Mathlib.Algebra.Order.AbsoluteValue.Basic
import Mathlib.Tactic.Linarith
import Mathlib.Tactic.Positivity
import Mathlib.Tactic.Ring
import Mathlib.Tactic.FieldSimp
import Mathlib.Tactic.NormNum
/-
  C20: `delta_conformity` scores lie in [-1, 1]; `None` exactly on an empty window; keys of the result.
-/
namespace Dynetx

/-! ### sums -/

theorem foldl_add_eq (l : List Rat) (a : Rat) : l.foldl (· + ·) a = a + l.sum := by
  induction l generalizing a with
  | nil => simp
  | cons x xs ih => simp only [List.foldl_cons, List.sum_cons, ih]; ring

/-- bridging lemma: the model's `foldl (·+·) 0` is `List.sum` -/
theorem foldl_add_zero (l : List Rat) : l.foldl (· + ·) 0 = l.sum := by
  rw [foldl_add_eq]; simp

theorem abs_sum_map_le {α : Type} (l : List α) (f g : α → Rat) (h : ∀ x ∈ l, |f x| ≤ g x) :
    |(l.map f).sum| ≤ (l.map g).sum := by
  induction l with
  | nil => simp
  | cons x xs ih =>
    simp only [List.map_cons, List.sum_cons]
    have h1 := h x (by simp)
    have h2 := ih (fun y hy => h y (by simp [hy]))
    exact (abs_add_le _ _).trans (add_le_add h1 h2)

theorem sum_map_const_one {α : Type} (l : List α) : (l.map (fun _ => (1 : Rat))).sum = (l.length : Rat) := by
  induction l with
  | nil => simp
  | cons x xs ih => simp only [List.map_cons, List.sum_cons, ih, List.length_cons]; push_cast; ring

theorem sum_map_nonneg {α : Type} (l : List α) (g : α → Rat) (h : ∀ x ∈ l, 0 ≤ g x) : 0 ≤ (l.map g).sum := by
  induction l with
  | nil => simp
  | cons x xs ih =>
    simp only [List.map_cons, List.sum_cons]
    exact add_nonneg (h x (by simp)) (ih (fun y hy => h y (by simp [hy])))

/-- for `a ∈ l`, `l` duplicate free: split `a` off the sum -/
theorem sum_map_split {l : List Nat} (g : Nat → Rat) (a : Nat) (hnd : l.Nodup) (ha : a ∈ l) :
    (l.map g).sum = g a + ((l.filter (fun x => x != a)).map g).sum := by
  induction l with
  | nil => simp at ha
  | cons x xs ih =>
    rw [List.nodup_cons] at hnd
    by_cases hx : x = a
    · subst hx
      have : xs.filter (fun y => y != x) = xs := by
        rw [List.filter_eq_self]; intro y hy; simp; rintro rfl; exact hnd.1 hy
      simp [this]
    · have ha' : a ∈ xs := by
        rcases List.mem_cons.1 ha with h | h
        · exact absurd h.symm hx
        · exact h
      simp only [List.map_cons, List.sum_cons, List.filter_cons, bne_iff_ne, ne_eq, hx, not_false_eq_true,
        ite_true, ih hnd.2 ha']
      ring

/-- a duplicate-free list of naturals in `[1, m]` sums (under a non-negative `g`) to at most the full sum -/
theorem sum_map_le_range (g : Nat → Rat) (hg : ∀ d, 0 ≤ g d) :
    ∀ (m : Nat) (l : List Nat), l.Nodup → (∀ d ∈ l, 1 ≤ d ∧ d ≤ m) →
      (l.map g).sum ≤ ((List.range m).map (fun i => g (i + 1))).sum := by
  intro m
  induction m with
  | zero =>
    intro l _ h
    cases l with
    | nil => simp
    | cons x xs => have := h x (by simp); omega
  | succ m ih =>
    intro l hnd h
    rw [List.range_succ, List.map_append, List.sum_append]
    simp only [List.map_cons, List.map_nil, List.sum_cons, List.sum_nil, add_zero]
    by_cases hm : (m + 1) ∈ l
    · rw [sum_map_split g (m + 1) hnd hm]
      have := ih (l.filter (fun x => x != m + 1)) (hnd.filter _) (by
        intro d hd
        simp only [List.mem_filter, bne_iff_ne, ne_eq] at hd
        have := h d hd.1
        omega)
      linarith
    · have := ih l hnd (by
        intro d hd
        have := h d hd
        have : d ≠ m + 1 := by rintro rfl; exact hm hd
        omega)
      have := hg (m + 1)
      linarith

/-! ### the normalising constant and the arithmetic core -/

theorem normConst_eq (m alpha : Nat) :
    normConst m alpha = ((List.range m).map (fun i => (1 : Rat) / (((i + 1 : Nat) : Rat) ^ alpha))).sum := by
  unfold normConst; rw [foldl_add_zero]

theorem inv_pow_nonneg (alpha d : Nat) : (0 : Rat) ≤ 1 / ((d : Nat) : Rat) ^ alpha := by positivity

theorem normConst_pos (m alpha : Nat) (hm : 1 ≤ m) : 0 < normConst m alpha := by
  rw [normConst_eq]
  obtain ⟨k, rfl⟩ : ∃ k, m = k + 1 := ⟨m - 1, by omega⟩
  rw [List.range_succ, List.map_append, List.sum_append]
  simp only [List.map_cons, List.map_nil, List.sum_cons, List.sum_nil, add_zero]
  have h1 := sum_map_nonneg (List.range k) (fun i => (1 : Rat) / (((i + 1 : Nat) : Rat) ^ alpha))
    (fun i _ => inv_pow_nonneg alpha (i + 1))
  have h2 : (0 : Rat) < 1 / (((k + 1 : Nat) : Rat) ^ alpha) := by positivity
  linarith

/-- the arithmetic core (hypotheses only needed on the members of `ranks`; `m ∈ ranks` is not needed) -/
theorem core_abs_sum_le (ranks : List Nat) (m alpha : Nat) (sim : Nat → Rat)
    (hnd : ranks.Nodup) (hr : ∀ d ∈ ranks, 1 ≤ d ∧ d ≤ m) (hs : ∀ d ∈ ranks, |sim d| ≤ 1) :
    |(ranks.map (fun d => sim d / ((d : Nat) : Rat) ^ alpha)).sum| ≤ normConst m alpha := by
  rw [normConst_eq]
  refine (abs_sum_map_le ranks _ (fun d => (1 : Rat) / ((d : Nat) : Rat) ^ alpha) ?_).trans
    (sum_map_le_range (fun d => (1 : Rat) / ((d : Nat) : Rat) ^ alpha) (inv_pow_nonneg alpha) m ranks hnd hr)
  intro d hd
  have hpos : (0 : Rat) < ((d : Nat) : Rat) ^ alpha := by
    have : 1 ≤ d := (hr d hd).1
    have : (0 : Rat) < (d : Rat) := by exact_mod_cast this
    positivity
  rw [abs_div, abs_of_pos hpos]
  exact div_le_div_of_nonneg_right (hs d hd) hpos.le

/-- item 3 as stated: duplicate-free positive ranks `≤ m`, `m ∈ ranks`, `|sim d| ≤ 1` -/
theorem core_bound (ranks : List Nat) (m alpha : Nat) (sim : Nat → Rat)
    (hnd : ranks.Nodup) (hpos : ∀ d ∈ ranks, 1 ≤ d) (hle : ∀ d ∈ ranks, d ≤ m) (hm : m ∈ ranks)
    (hs : ∀ d, |sim d| ≤ 1) :
    |(ranks.map (fun d => sim d / ((d : Nat) : Rat) ^ alpha)).sum| ≤ normConst m alpha
    ∧ 0 < normConst m alpha
    ∧ -1 ≤ (ranks.map (fun d => sim d / ((d : Nat) : Rat) ^ alpha)).sum / normConst m alpha
    ∧ (ranks.map (fun d => sim d / ((d : Nat) : Rat) ^ alpha)).sum / normConst m alpha ≤ 1
    ∧ (ranks.map (fun d => sim d / ((d : Nat) : Rat) ^ alpha)).foldl (· + ·) 0
        = (ranks.map (fun d => sim d / ((d : Nat) : Rat) ^ alpha)).sum := by
  have h1 := core_abs_sum_le ranks m alpha sim hnd (fun d hd => ⟨hpos d hd, hle d hd⟩) (fun d _ => hs d)
  have h2 := normConst_pos m alpha (hpos m hm)
  have h3 := abs_le.1 h1
  refine ⟨h1, h2, ?_, ?_, foldl_add_zero _⟩
  · rw [le_div_iff₀ h2]; linarith [h3.1]
  · rw [div_le_one h2]; exact h3.2

theorem quot_bound (x c : Rat) (hc : 0 < c) (h : |x| ≤ c) : -1 ≤ x / c ∧ x / c ≤ 1 := by
  have h3 := abs_le.1 h
  constructor
  · rw [le_div_iff₀ hc]; linarith [h3.1]
  · rw [div_le_one hc]; exact h3.2

/-! ### `sortedSetNat` -/

theorem eraseDups_sublist : ∀ (l : List Nat), l.eraseDups.Sublist l
  | [] => by simp
  | a :: as => by
    rw [List.eraseDups_cons]
    have : (as.filter fun b => !b == a).length < (a :: as).length :=
      Nat.lt_succ_of_le (List.length_filter_le _ _)
    exact ((eraseDups_sublist _).trans List.filter_sublist).cons_cons a
termination_by l => l.length

theorem eraseDups_nodup : ∀ (l : List Nat), l.eraseDups.Nodup
  | [] => by simp
  | a :: as => by
    rw [List.eraseDups_cons]
    have : (as.filter fun b => !b == a).length < (a :: as).length :=
      Nat.lt_succ_of_le (List.length_filter_le _ _)
    rw [List.nodup_cons]
    refine ⟨?_, eraseDups_nodup _⟩
    rw [List.mem_eraseDups, List.mem_filter]
    simp
termination_by l => l.length

theorem mem_sortedSetNat {l : List Nat} {a : Nat} : a ∈ sortedSetNat l ↔ a ∈ l := by
  unfold sortedSetNat; rw [List.mem_eraseDups, List.mem_mergeSort]

theorem sortedSetNat_nodup (l : List Nat) : (sortedSetNat l).Nodup := eraseDups_nodup _

theorem sortedSetNat_pairwise (l : List Nat) : (sortedSetNat l).Pairwise (· ≤ ·) := by
  unfold sortedSetNat
  have h : (l.mergeSort (fun a b => decide (a ≤ b))).Pairwise (fun a b => decide (a ≤ b) = true) :=
    List.pairwise_mergeSort (le := fun a b => decide (a ≤ b))
      (by intro a b c; simp only [decide_eq_true_eq]; omega)
      (by intro a b; simp only [Bool.or_eq_true, decide_eq_true_eq]; omega) l
  exact ((h.sublist (eraseDups_sublist _)).imp (by intro a b hab; simpa using hab))

theorem le_getLast_of_pairwise {l : List Nat} {mx : Nat} (hp : l.Pairwise (· ≤ ·))
    (hl : l.getLast? = some mx) : mx ∈ l ∧ ∀ d ∈ l, d ≤ mx := by
  obtain ⟨ys, rfl⟩ := List.getLast?_eq_some_iff.1 hl
  refine ⟨by simp, ?_⟩
  intro d hd
  rw [List.pairwise_append] at hp
  rcases List.mem_append.1 hd with h | h
  · exact hp.2.2 d h mx (by simp)
  · simp at h; omega

/-! ### item 1: `labelFrequency ∈ [-1, 1]` -/

theorem avg_abs_le {α : Type} (l : List α) (F : α → Rat) (hF : ∀ v ∈ l, |F v| ≤ 1) :
    |(l.map F).foldl (· + ·) 0 / (l.length : Rat)| ≤ 1 := by
  rw [foldl_add_zero]
  have h := abs_sum_map_le l F (fun _ => 1) hF
  rw [sum_map_const_one] at h
  rcases Nat.eq_zero_or_pos l.length with h0 | h0
  · rw [h0]; simp
  · have hpos : (0 : Rat) < (l.length : Rat) := by exact_mod_cast h0
    rw [abs_div, abs_of_pos hpos, div_le_one hpos]; exact h

/-- one summand of `labelFrequency`: `s * f` with `s = ±1`, `0 < f ≤ 1` -/
theorem term_abs_le (c : Bool) (cnt len : Nat) (hcl : cnt ≤ len) :
    |(if c then (1 : Rat) else -1) *
      (if (if len > 0 then (cnt : Rat) / (len : Rat) else 0) > 0
        then (if len > 0 then (cnt : Rat) / (len : Rat) else 0) else 1)| ≤ 1 := by
  have hs : |(if c then (1 : Rat) else -1)| = 1 := by cases c <;> simp
  rw [abs_mul, hs, one_mul]
  by_cases hl : len > 0
  · have hpos : (0 : Rat) < (len : Rat) := by exact_mod_cast hl
    have hle : (cnt : Rat) / (len : Rat) ≤ 1 := by
      rw [div_le_one hpos]; exact_mod_cast hcl
    simp only [hl, if_true]
    split
    · next h => rw [abs_of_pos h]; exact hle
    · simp
  · simp [hl]

theorem labelFrequency_abs_le (g : Graph) (u : Node) (nodes : List Node) (td : List (Node × Nat)) :
    |labelFrequency g u nodes td| ≤ 1 := by
  unfold labelFrequency
  apply avg_abs_le
  intro v _
  exact term_abs_le _ _ _ (List.length_filter_le _ _)

/- `hne` is kept because the Python divides by `len(nodes)`; in the model `0 / 0 = 0`, so it is not used -/
set_option linter.unusedVariables false in
theorem labelFrequency_bound (g : Graph) (u : Node) (nodes : List Node) (td : List (Node × Nat))
    (hne : nodes ≠ []) :
    -1 ≤ labelFrequency g u nodes td ∧ labelFrequency g u nodes td ≤ 1 :=
  abs_le.1 (labelFrequency_abs_le g u nodes td)

/-! ### item 2: dense ranks -/

theorem remapDistances_eq (td : List (Node × Nat)) :
    remapDistances td = td.map (fun p => (p.1, (sortedSetNat (td.map (·.2))).idxOf p.2 + 1)) := rfl

theorem remapDistances_ranks (td : List (Node × Nat)) :
    ∀ p ∈ remapDistances td, 1 ≤ p.2 ∧ p.2 ≤ (sortedSetNat (td.map (·.2))).length := by
  intro p hp
  rw [remapDistances_eq, List.mem_map] at hp
  obtain ⟨q, hq, rfl⟩ := hp
  have hmem : q.2 ∈ sortedSetNat (td.map (·.2)) :=
    mem_sortedSetNat.2 (List.mem_map.2 ⟨q, hq, rfl⟩)
  have := List.idxOf_lt_length_of_mem hmem
  simp only
  omega

/-- dense ranks: the second components of `remapDistances td` are exactly `{1, …, k}` -/
theorem remapDistances_dense (td : List (Node × Nat)) :
    ∀ d, (∃ p ∈ remapDistances td, p.2 = d) ↔ (1 ≤ d ∧ d ≤ (sortedSetNat (td.map (·.2))).length) := by
  intro d
  constructor
  · rintro ⟨p, hp, rfl⟩; exact remapDistances_ranks td p hp
  · rintro ⟨h1, h2⟩
    have hi : d - 1 < (sortedSetNat (td.map (·.2))).length := by omega
    have hx : (sortedSetNat (td.map (·.2)))[d - 1] ∈ td.map (·.2) :=
      mem_sortedSetNat.1 (List.getElem_mem hi)
    obtain ⟨q, hq, hq2⟩ := List.mem_map.1 hx
    refine ⟨(q.1, (sortedSetNat (td.map (·.2))).idxOf q.2 + 1), ?_, ?_⟩
    · rw [remapDistances_eq]; exact List.mem_map.2 ⟨q, hq, rfl⟩
    · simp only [hq2]
      rw [(sortedSetNat_nodup _).idxOf_getElem]; omega

/-! ### item 4: the score of a node lies in [-1, 1] -/

def ranksOf (td : List (Node × Nat)) : List Nat := sortedSetNat ((remapDistances td).map (·.2))

def nodesAtRank (td : List (Node × Nat)) (d : Nat) : List Node :=
  ((remapDistances td).filter (fun e => e.2 == d)).map (·.1)

def rawOf (g : Graph) (td : List (Node × Nat)) (alpha : Nat) (u : Node) : Rat :=
  ((ranksOf td).map (fun (d : Nat) =>
    if d == 0 then (0 : Rat)
    else labelFrequency g u (nodesAtRank td d) td / (((d : Nat) : Rat) ^ alpha))).foldl (· + ·) 0

/-- `nodeScore` with the distance table abstracted -/
def scoreOf (g : Graph) (td : List (Node × Nat)) (alpha : Nat) (u : Node) : Rat :=
  match (ranksOf td).getLast? with
  | none => rawOf g td alpha u
  | some mx => rawOf g td alpha u / normConst mx alpha

theorem nodeScore_eq (g : Graph) (sp : List ((Node × Node) × List TPath)) (ptype alpha : Nat) (u : Node) :
    nodeScore g sp ptype alpha u = scoreOf g (tDistances sp ptype u) alpha u := rfl

theorem ranksOf_facts (td : List (Node × Nat)) :
    (ranksOf td).Nodup ∧ (ranksOf td).Pairwise (· ≤ ·) ∧
    ∀ d, d ∈ ranksOf td ↔ (1 ≤ d ∧ d ≤ (sortedSetNat (td.map (·.2))).length) := by
  refine ⟨sortedSetNat_nodup _, sortedSetNat_pairwise _, ?_⟩
  intro d
  unfold ranksOf
  rw [mem_sortedSetNat, ← remapDistances_dense td d, List.mem_map]

/-- the summand function agrees on positive ranks with `sim d / d^alpha` -/
theorem rawOf_eq (g : Graph) (td : List (Node × Nat)) (alpha : Nat) (u : Node) :
    rawOf g td alpha u = ((ranksOf td).map (fun d =>
        labelFrequency g u (nodesAtRank td d) td / ((d : Nat) : Rat) ^ alpha)).sum := by
  unfold rawOf
  rw [foldl_add_zero]
  congr 1
  apply List.map_congr_left
  intro d hd
  have : d ≠ 0 := by have := ((ranksOf_facts td).2.2 d).1 hd; omega
  simp [this]

theorem scoreOf_bound (g : Graph) (td : List (Node × Nat)) (alpha : Nat) (u : Node) :
    -1 ≤ scoreOf g td alpha u ∧ scoreOf g td alpha u ≤ 1 := by
  obtain ⟨hnd, hpw, hmem⟩ := ranksOf_facts td
  have hpos : ∀ d ∈ ranksOf td, 1 ≤ d := fun d hd => ((hmem d).1 hd).1
  unfold scoreOf
  cases hl : (ranksOf td).getLast? with
  | none =>
    have : ranksOf td = [] := List.getLast?_eq_none_iff.1 hl
    simp only [rawOf_eq, this]; simp
  | some mx =>
    obtain ⟨hmx, hle⟩ := le_getLast_of_pairwise hpw hl
    simp only [rawOf_eq]
    exact quot_bound _ (normConst mx alpha) (normConst_pos mx alpha (hpos mx hmx))
      (core_abs_sum_le (ranksOf td) mx alpha (fun d => labelFrequency g u (nodesAtRank td d) td)
        hnd (fun d hd => ⟨hpos d hd, hle d hd⟩) (fun d _ => labelFrequency_abs_le g u _ td))

theorem C20_bound (g : Graph) (sp : List ((Node × Node) × List TPath)) (ptype alpha : Nat) (u : Node) :
    -1 ≤ nodeScore g sp ptype alpha u ∧ nodeScore g sp ptype alpha u ≤ 1 := by
  rw [nodeScore_eq]; exact scoreOf_bound g _ alpha u

/-! ### items 5, 6: `None` exactly on an empty window; the keys of the result -/

theorem minList_eq_none {l : List Int} : minList l = none ↔ l = [] := by
  cases l with
  | nil => simp [minList]
  | cons x xs => simp only [minList]; split <;> simp

theorem maxList_eq_none {l : List Int} : maxList l = none ↔ l = [] := by
  cases l with
  | nil => simp [maxList]
  | cons x xs => simp only [maxList]; split <;> simp

theorem C20_none_iff_empty (dg : Graph) (start delta : Int) (alphas : List Nat) (ptype : Nat)
    (r : Option (List (Nat × List (Node × Rat))))
    (h : dg.deltaConformity start delta alphas ptype = .ok r) :
    r = none ↔ ∀ g, dg.timeSlice start (some (start + delta)) = .ok g → g.ids = [] := by
  unfold Graph.deltaConformity at h
  cases hs : dg.timeSlice start (some (start + delta)) with
  | error e => rw [hs] at h; simp at h
  | ok g =>
    rw [hs] at h
    simp only at h
    cases hmin : minList g.ids with
    | none =>
      rw [hmin] at h
      simp only [Except.ok.injEq] at h
      have hid := minList_eq_none.1 hmin
      constructor
      · intro _ g' hg'; cases hg'; exact hid
      · intro _; exact h.symm
    | some lo =>
      cases hmax : maxList g.ids with
      | none =>
        have hid := maxList_eq_none.1 hmax
        rw [hid] at hmin; simp [minList] at hmin
      | some hi =>
        rw [hmin, hmax] at h
        simp only at h
        have hne : g.ids ≠ [] := by
          intro hid; rw [hid] at hmin; simp [minList] at hmin
        split at h
        · simp at h
        · simp only [Except.ok.injEq] at h
          constructor
          · intro hr; rw [hr] at h; simp at h
          · intro hall; exact absurd (hall g rfl) hne

theorem C20_keys (dg : Graph) (start delta : Int) (alphas : List Nat) (ptype : Nat)
    (l : List (Nat × List (Node × Rat)))
    (h : dg.deltaConformity start delta alphas ptype = .ok (some l)) :
    ∃ g, dg.timeSlice start (some (start + delta)) = .ok g ∧ g.ids ≠ [] ∧
      l.map (·.1) = alphas ∧ ∀ e ∈ l, e.2.map (·.1) = g.nodesAt (some start) := by
  unfold Graph.deltaConformity at h
  cases hs : dg.timeSlice start (some (start + delta)) with
  | error e => rw [hs] at h; simp at h
  | ok g =>
    rw [hs] at h
    simp only at h
    refine ⟨g, rfl, ?_⟩
    cases hmin : minList g.ids with
    | none => rw [hmin] at h; simp at h
    | some lo =>
      cases hmax : maxList g.ids with
      | none => rw [hmin, hmax] at h; simp at h
      | some hi =>
        rw [hmin, hmax] at h
        simp only at h
        have hne : g.ids ≠ [] := by
          intro hid; rw [hid] at hmin; simp [minList] at hmin
        split at h
        · simp at h
        · simp only [Except.ok.injEq, Option.some.injEq] at h
          subst h
          refine ⟨hne, ?_, ?_⟩
          · simp [List.map_map, Function.comp_def]
          · intro e he
            obtain ⟨a, _, rfl⟩ := List.mem_map.1 he
            simp [List.map_map, Function.comp_def]

/-- every score in a `delta_conformity` result lies in [-1, 1] -/
theorem C20_result_bound (dg : Graph) (start delta : Int) (alphas : List Nat) (ptype : Nat)
    (l : List (Nat × List (Node × Rat)))
    (h : dg.deltaConformity start delta alphas ptype = .ok (some l)) :
    ∀ e ∈ l, ∀ nv ∈ e.2, -1 ≤ nv.2 ∧ nv.2 ≤ 1 := by
  unfold Graph.deltaConformity at h
  cases hs : dg.timeSlice start (some (start + delta)) with
  | error e => rw [hs] at h; simp at h
  | ok g =>
    rw [hs] at h
    simp only at h
    cases hmin : minList g.ids with
    | none => rw [hmin] at h; simp at h
    | some lo =>
      cases hmax : maxList g.ids with
      | none => rw [hmin, hmax] at h; simp at h
      | some hi =>
        rw [hmin, hmax] at h
        simp only at h
        split at h
        · simp at h
        · simp only [Except.ok.injEq, Option.some.injEq] at h
          subst h
          intro e he nv hnv
          obtain ⟨a, _, rfl⟩ := List.mem_map.1 he
          obtain ⟨u, _, rfl⟩ := List.mem_map.1 hnv
          exact C20_bound g _ ptype a u

/-! ### item 7: all labels equal -/

theorem term_eq_one (cnt len : Nat) (hcl : len > 0 → cnt = len) :
    (1 : Rat) *
      (if (if len > 0 then (cnt : Rat) / (len : Rat) else 0) > 0
        then (if len > 0 then (cnt : Rat) / (len : Rat) else 0) else 1) = 1 := by
  by_cases hl : len > 0
  · have hpos : (0 : Rat) < (len : Rat) := by exact_mod_cast hl
    rw [hcl hl]
    simp only [hl, if_true, div_self hpos.ne']
    norm_num
  · simp [hl]

theorem avg_eq_one {α : Type} (l : List α) (F : α → Rat) (hne : l ≠ []) (hF : ∀ v ∈ l, F v = 1) :
    (l.map F).foldl (· + ·) 0 / (l.length : Rat) = 1 := by
  rw [foldl_add_zero, List.map_congr_left hF, sum_map_const_one]
  have : (l.length : Rat) ≠ 0 := by
    have : l.length ≠ 0 := by simpa using hne
    exact_mod_cast this
  exact div_self this

/-- if `u`, the nodes of the rank, and all their neighbours carry one label, the similarity is 1 -/
theorem labelFrequency_all_equal (g : Graph) (u : Node) (nodes : List Node) (td : List (Node × Nat))
    (hne : nodes ≠ [])
    (hn : ∀ v ∈ nodes, g.label v = g.label u)
    (hnb : ∀ v ∈ nodes, ∀ t, ∀ x ∈ g.neighbors v t, g.label x = g.label v) :
    labelFrequency g u nodes td = 1 := by
  unfold labelFrequency
  apply avg_eq_one _ _ hne
  intro v hv
  have h1 : (g.label u == g.label v) = true := by simp [hn v hv]
  simp only [h1, if_true]
  apply term_eq_one
  intro _
  congr 1
  rw [List.filter_eq_self]
  intro x hx
  simp [hnb v hv _ x hx]

theorem ranksOf_eq_range' (td : List (Node × Nat)) :
    ranksOf td = List.range' 1 (sortedSetNat (td.map (·.2))).length := by
  obtain ⟨hnd, hpw, hmem⟩ := ranksOf_facts td
  have hperm : (ranksOf td).Perm (List.range' 1 (sortedSetNat (td.map (·.2))).length) := by
    rw [List.perm_ext_iff_of_nodup hnd List.nodup_range']
    intro d; rw [hmem d, List.mem_range'_1]; omega
  exact hperm.eq_of_pairwise (fun a b _ _ h1 h2 => Nat.le_antisymm h1 h2) hpw List.pairwise_le_range'

theorem mem_nodesAtRank {td : List (Node × Nat)} {d : Nat} {v : Node} (h : v ∈ nodesAtRank td d) :
    v ∈ td.map (·.1) := by
  unfold nodesAtRank at h
  obtain ⟨p, hp, rfl⟩ := List.mem_map.1 h
  have hp' := (List.mem_filter.1 hp).1
  rw [remapDistances_eq] at hp'
  obtain ⟨q, hq, rfl⟩ := List.mem_map.1 hp'
  exact List.mem_map.2 ⟨q, hq, rfl⟩

theorem nodesAtRank_ne_nil {td : List (Node × Nat)} {d : Nat} (h : d ∈ ranksOf td) :
    nodesAtRank td d ≠ [] := by
  unfold ranksOf at h
  rw [mem_sortedSetNat] at h
  obtain ⟨p, hp, rfl⟩ := List.mem_map.1 h
  unfold nodesAtRank
  intro hnil
  have : p.1 ∈ ((remapDistances td).filter (fun e => e.2 == p.2)).map (·.1) :=
    List.mem_map.2 ⟨p, List.mem_filter.2 ⟨hp, by simp⟩, rfl⟩
  rw [hnil] at this; simp at this

/-- all labels equal along everything `u` reaches: the score is 1 if `u` reaches something, else 0 -/
theorem scoreOf_all_equal (g : Graph) (td : List (Node × Nat)) (alpha : Nat) (u : Node)
    (hn : ∀ v ∈ td.map (·.1), g.label v = g.label u)
    (hnb : ∀ v ∈ td.map (·.1), ∀ t, ∀ x ∈ g.neighbors v t, g.label x = g.label v) :
    scoreOf g td alpha u = if td = [] then 0 else 1 := by
  have hraw : rawOf g td alpha u = ((ranksOf td).map (fun d => (1 : Rat) / ((d : Nat) : Rat) ^ alpha)).sum := by
    rw [rawOf_eq]
    congr 1
    apply List.map_congr_left
    intro d hd
    rw [labelFrequency_all_equal g u _ td (nodesAtRank_ne_nil hd)
      (fun v hv => hn v (mem_nodesAtRank hv)) (fun v hv => hnb v (mem_nodesAtRank hv))]
  unfold scoreOf
  rw [hraw, ranksOf_eq_range', List.getLast?_range']
  by_cases htd : td = []
  · subst htd
    simp [sortedSetNat]
  · have hk : (sortedSetNat (td.map (·.2))).length ≠ 0 := by
      intro h0
      obtain ⟨p, hp⟩ := List.exists_mem_of_ne_nil td htd
      have : p.2 ∈ sortedSetNat (td.map (·.2)) := mem_sortedSetNat.2 (List.mem_map.2 ⟨p, hp, rfl⟩)
      rw [List.length_eq_zero_iff.1 h0] at this; simp at this
    simp only [hk, htd, if_false]
    have hk' : 1 + (sortedSetNat (td.map (·.2))).length - 1 = (sortedSetNat (td.map (·.2))).length := by omega
    rw [hk', normConst_eq, List.range'_eq_map_range, List.map_map]
    have hfun : ((fun d => (1 : Rat) / ((d : Nat) : Rat) ^ alpha) ∘ fun x => 1 + x)
        = (fun i => (1 : Rat) / (((i + 1 : Nat) : Rat) ^ alpha)) := by
      funext i; simp [Nat.add_comm]
    rw [hfun]
    exact div_self (normConst_eq _ alpha ▸ (normConst_pos _ alpha (by omega)).ne')

/-- item 7 for `nodeScore` -/
theorem C20_all_equal (g : Graph) (sp : List ((Node × Node) × List TPath)) (ptype alpha : Nat) (u : Node)
    (hn : ∀ v ∈ (tDistances sp ptype u).map (·.1), g.label v = g.label u)
    (hnb : ∀ v ∈ (tDistances sp ptype u).map (·.1), ∀ t, ∀ x ∈ g.neighbors v t, g.label x = g.label v) :
    nodeScore g sp ptype alpha u = if tDistances sp ptype u = [] then 0 else 1 := by
  rw [nodeScore_eq]; exact scoreOf_all_equal g _ alpha u hn hnb

/-- item 7, with the blunt hypothesis that every label of the graph is the same -/
theorem C20_all_equal' (g : Graph) (sp : List ((Node × Node) × List TPath)) (ptype alpha : Nat) (u : Node)
    (hall : ∀ x y, g.label x = g.label y) :
    nodeScore g sp ptype alpha u = if tDistances sp ptype u = [] then 0 else 1 :=
  C20_all_equal g sp ptype alpha u (fun v _ => hall v u) (fun v _ _ x _ => hall x v)

/-! ### item 8: non-vacuity -/

example : normConst 2 1 = 3 / 2 := by
  rw [normConst_eq]; norm_num [List.range_succ]

end Dynetx

